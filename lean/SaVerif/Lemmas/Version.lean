import SaVerif.Model.Version
/-! Helper lemmas about M-ORM/version (core Lean only).

The only transition that touches the database is a successful `commit`
(`flushOk … true`).  Every other transition is *quiet*: database and ghost flags
are unchanged and every persistent object of the new state descends from an old
one at the same place (same version and stamp, or expired) or was just loaded from
the current row. -/
namespace SaVerif.Version
open SaVerif.Gen.VersionCfg

/-- where a persistent object of the new state comes from -/
def Origin (st : St) (s k : Nat) (p' : PObj) : Prop :=
  (∃ p, (st.sess s k).pers = some p ∧ (p'.ver = none ∨ (p'.ver = p.ver ∧ p'.seen = p.seen))) ∨
  (∃ r, st.db k = some r ∧ p'.ver = some r.ver ∧ p'.seen = r.stamp)

structure Quiet (st st' : St) : Prop where
  db : st'.db = st.db
  everDel : st'.everDel = st.everDel
  lost : st'.lost = st.lost
  reins : st'.reins = st.reins
  origin : ∀ s k p', (st'.sess s k).pers = some p' → Origin st s k p'

@[simp] theorem updSess_same (f : Nat → Sess) (s : Nat) (g : Sess) : updSess f s g s = g := by
  simp [updSess]

theorem updSess_other (f : Nat → Sess) (s t : Nat) (g : Sess) (h : t ≠ s) : updSess f s g t = f t := by
  simp [updSess, h]

@[simp] theorem updSlot_same (f : Sess) (k : Nat) (sl : Slot) : updSlot f k sl k = sl := by
  simp [updSlot]

theorem updSlot_other (f : Sess) (k j : Nat) (sl : Slot) (h : j ≠ k) : updSlot f k sl j = f j := by
  simp [updSlot, h]

theorem origin_same {st : St} {s k : Nat} {p : PObj} (h : (st.sess s k).pers = some p) :
    Origin st s k p := Or.inl ⟨p, h, Or.inr ⟨rfl, rfl⟩⟩

theorem Quiet.rfl' (st : St) : Quiet st st :=
  ⟨rfl, rfl, rfl, rfl, fun _ _ _ h => origin_same h⟩

/-- replacing one slot by one whose persistent object has a known origin -/
theorem quiet_setSlot (st : St) (s k : Nat) (sl : Slot)
    (h : ∀ p', sl.pers = some p' → Origin st s k p') : Quiet st (setSlot st s k sl) := by
  refine ⟨rfl, rfl, rfl, rfl, ?_⟩
  intro s' k' p' hp
  simp only [setSlot] at hp
  by_cases hs : s' = s
  · subst hs
    by_cases hk : k' = k
    · subst hk
      rw [updSess_same, updSlot_same] at hp
      exact h p' hp
    · rw [updSess_same, updSlot_other _ _ _ _ hk] at hp
      exact origin_same hp
  · rw [updSess_other _ _ _ _ hs] at hp
    exact origin_same hp

theorem quiet_updSlot (st : St) (s k : Nat) (sl : Slot)
    (h : ∀ p', sl.pers = some p' → Origin st s k p') :
    Quiet st { st with sess := updSess st.sess s (updSlot (st.sess s) k sl) } := by
  refine ⟨rfl, rfl, rfl, rfl, ?_⟩
  intro s' k' p' hp
  simp only [] at hp
  by_cases hs : s' = s
  · subst hs
    by_cases hk : k' = k
    · subst hk
      rw [updSess_same, updSlot_same] at hp
      exact h p' hp
    · rw [updSess_same, updSlot_other _ _ _ _ hk] at hp
      exact origin_same hp
  · rw [updSess_other _ _ _ _ hs] at hp
    exact origin_same hp

theorem rollbackSlot_pers {sl : Slot} {p' : PObj} (h : (rollbackSlot sl).pers = some p') :
    ∃ p, sl.pers = some p ∧ p'.ver = none := by
  unfold rollbackSlot at h
  cases hp : sl.pers with
  | none => simp [hp] at h
  | some p =>
    simp only [hp, Option.map_some, Option.some.injEq] at h
    exact ⟨p, rfl, by rw [← h]; rfl⟩

theorem expireSlot_pers {sl : Slot} {p' : PObj} (h : (expireSlot sl).pers = some p') :
    ∃ p, sl.pers = some p ∧ p'.ver = none := by
  unfold expireSlot at h
  cases hp : sl.pers with
  | none => simp [hp] at h
  | some p =>
    simp only [hp, Option.map_some, Option.some.injEq] at h
    exact ⟨p, rfl, by rw [← h]; rfl⟩

/-- a slot transformation under which every persistent object descends from the one that
    was there: expired, or same version and stamp -/
def Descends (f : Slot → Slot) : Prop :=
  ∀ sl p', (f sl).pers = some p' →
    ∃ p, sl.pers = some p ∧ (p'.ver = none ∨ (p'.ver = p.ver ∧ p'.seen = p.seen))

theorem descends_rollbackSlot : Descends rollbackSlot := by
  intro sl p' h
  obtain ⟨p, h1, h2⟩ := rollbackSlot_pers h
  exact ⟨p, h1, Or.inl h2⟩

theorem descends_expireSlot : Descends expireSlot := by
  intro sl p' h
  obtain ⟨p, h1, h2⟩ := expireSlot_pers h
  exact ⟨p, h1, Or.inl h2⟩

theorem spRollbackObj_descends (p : PObj) :
    (spRollbackObj p).ver = none ∨ ((spRollbackObj p).ver = p.ver ∧ (spRollbackObj p).seen = p.seen) := by
  unfold spRollbackObj
  split
  · exact Or.inl rfl
  · exact Or.inr ⟨rfl, rfl⟩

theorem descends_spRollbackSlot : Descends spRollbackSlot := by
  intro sl p' h
  unfold spRollbackSlot at h
  cases hp : sl.pers with
  | none => simp [hp] at h
  | some p =>
    simp only [hp, Option.map_some, Option.some.injEq] at h
    exact ⟨p, rfl, by rw [← h]; exact spRollbackObj_descends p⟩

theorem descends_failSlot (insp eoc : Bool) : Descends (failSlot insp eoc) := by
  intro sl p' h
  unfold failSlot at h
  split at h
  · split at h
    · obtain ⟨p1, h1, h2⟩ := expireSlot_pers h
      obtain ⟨p, h3, _⟩ := descends_spRollbackSlot sl p1 h1
      exact ⟨p, h3, Or.inl h2⟩
    · exact descends_spRollbackSlot sl p' h
  · exact descends_rollbackSlot sl p' h

/-- all slots of session `s` transformed by a descending map; clock / txn / sp may change -/
theorem quiet_mapAll (st : St) (s : Nat) (f : Slot → Slot) (hf : Descends f)
    (clock : Nat) (txn sp : Nat → Bool) :
    Quiet st { st with clock := clock,
                       sess := updSess st.sess s (fun k => f (st.sess s k)),
                       txn := txn, sp := sp } := by
  refine ⟨rfl, rfl, rfl, rfl, ?_⟩
  intro s' k' p' hp
  simp only [updSess] at hp
  by_cases hs : s' = s
  · subst hs
    simp only [if_true] at hp
    obtain ⟨p, h1, h2⟩ := hf _ _ hp
    exact Or.inl ⟨p, h1, h2⟩
  · simp only [if_neg hs] at hp
    exact origin_same hp

/-- all slots of session `s` rolled back; clock / txn / sp may change -/
theorem quiet_rollbackAll (st : St) (s : Nat) (clock : Nat) (txn sp : Nat → Bool) :
    Quiet st { st with clock := clock,
                       sess := updSess st.sess s (fun k => rollbackSlot (st.sess s k)),
                       txn := txn, sp := sp } :=
  quiet_mapAll st s rollbackSlot descends_rollbackSlot clock txn sp

theorem quiet_begin (st : St) (s : Nat) : Quiet st (begin st s) :=
  ⟨rfl, rfl, rfl, rfl, fun _ _ _ h => origin_same h⟩

theorem quiet_doRollback (st : St) (s : Nat) : Quiet st (doRollback st s) := by
  unfold doRollback
  split
  · exact quiet_rollbackAll st s st.clock _ _
  · exact Quiet.rfl' st

theorem loadObj_ver (old : Option PObj) (r : Row) :
    (loadObj old r).ver = some r.ver ∧ (loadObj old r).seen = r.stamp := by
  unfold loadObj
  cases old with
  | none => exact ⟨rfl, rfl⟩
  | some p => by_cases hm : p.mod <;> simp [hm]

theorem origin_load (st : St) (s k : Nat) (old : Option PObj) (r : Row) (h : st.db k = some r) :
    Origin st s k (loadObj old r) :=
  Or.inr ⟨r, h, (loadObj_ver old r).1, (loadObj_ver old r).2⟩

/-- every operation except a successful commit is quiet -/
theorem step_quiet (c : Cfg) (st : St) (op : Op)
    (h : ∀ s, op = .commit s → (step c st op).2 ≠ .flush .ok) : Quiet st (step c st op).1 := by
  cases op with
  | get s k =>
    simp only [step]
    split
    · exact Quiet.rfl' st
    · rename_i p hpend hpers
      split
      · exact Quiet.rfl' st
      · split
        · exact Quiet.rfl' st
        · split
          · rename_i r hr
            apply quiet_setSlot
            intro p' hp'
            simp only [Option.some.injEq] at hp'
            rw [← hp']
            exact origin_load st s k _ r hr
          · apply quiet_setSlot
            intro p' hp'
            simp [Slot.empty] at hp'
    · split
      · rename_i r hr
        apply quiet_setSlot
        intro p' hp'
        simp only [Option.some.injEq] at hp'
        rw [← hp']
        exact origin_load st s k _ r hr
      · exact quiet_begin st s
  | set s k v =>
    simp only [step]
    split
    · apply quiet_setSlot
      intro p' hp'
      exact origin_same hp'
    · rename_i p hpend hpers
      split
      · exact Quiet.rfl' st
      · apply quiet_setSlot
        intro p' hp'
        simp only [Option.some.injEq] at hp'
        rw [← hp']
        exact Or.inl ⟨p, hpers, Or.inr ⟨rfl, rfl⟩⟩
    · exact Quiet.rfl' st
  | del s k =>
    simp only [step]
    split
    · rename_i p hpend hpers
      split
      · exact Quiet.rfl' st
      · apply quiet_setSlot
        intro p' hp'
        simp only [Option.some.injEq] at hp'
        rw [← hp']
        exact Or.inl ⟨p, hpers, Or.inr ⟨rfl, rfl⟩⟩
    · exact Quiet.rfl' st
  | add s k v =>
    simp only [step]
    split
    · apply quiet_setSlot
      intro p' hp'
      simp at hp'
    · rename_i p hpend hpers
      split
      · apply quiet_setSlot
        intro p' hp'
        simp only [Option.some.injEq] at hp'
        rw [← hp']
        exact origin_same hpers
      · exact Quiet.rfl' st
    · exact Quiet.rfl' st
  | expire s k =>
    simp only [step]
    split
    · rename_i p hpend hpers
      split
      · exact Quiet.rfl' st
      · apply quiet_updSlot
        intro p' hp'
        obtain ⟨p0, h1, h2⟩ := expireSlot_pers hp'
        exact Or.inl ⟨p0, h1, Or.inl h2⟩
    · exact Quiet.rfl' st
  | commit s =>
    have h' := h s rfl
    simp only [step, doFlush] at h' ⊢
    simp only [Bool.not_true, Bool.false_and, Bool.false_eq_true, if_false] at h' ⊢
    split
    · rename_i ho
      simp [ho] at h'
    · exact quiet_mapAll st s _ (descends_failSlot _ _) _ _ _
  | tryflush s =>
    simp only [step, doFlush]
    split
    · exact Quiet.rfl' st
    · split
      · -- flush succeeded, then rollback: database untouched, all slots rolled back
        refine ⟨rfl, rfl, rfl, rfl, ?_⟩
        intro s' k' p' hp
        simp only [flushOk, updSess, Bool.false_eq_true, if_false] at hp
        by_cases hs : s' = s
        · subst hs
          simp only [if_true] at hp
          obtain ⟨p, h1, h2⟩ := rollbackSlot_pers hp
          exact Or.inl ⟨p, h1, Or.inl h2⟩
        · simp only [if_neg hs] at hp
          exact origin_same hp
      · exact quiet_mapAll st s _ (descends_failSlot _ _) _ _ _
  | rollback s =>
    simp only [step]
    exact quiet_doRollback st s
  | nested s =>
    simp only [step]
    split
    · exact Quiet.rfl' st
    · exact ⟨rfl, rfl, rfl, rfl, fun _ _ _ h => origin_same h⟩

/-! ### a successful flush, one primary key at a time -/

/-- one UPDATE statement per versioned record (the regenerated flag is down): every object is
    post-fetched from its own parameters -/
theorem batchFix_eq (hflag : versionedUpdateExecutemany = false) (g : Gen) (clock n : Nat)
    (se : Sess) (db : DB) (k : Nat) (sl : Slot) : batchFix g clock n se db k sl = sl := by
  simp [batchFix, hflag]

theorem anyPk_false {n : Nat} {f : Nat → Bool} (h : anyPk n f = false) {k : Nat} (hk : k < n) :
    f k = false := by
  unfold anyPk at h
  rw [List.any_eq_false] at h
  have := h k (List.mem_range.2 hk)
  simpa using this

theorem anyPk_true {n : Nat} {f : Nat → Bool} {k : Nat} (hk : k < n) (h : f k = true) :
    anyPk n f = true := by
  unfold anyPk
  rw [List.any_eq_true]
  exact ⟨k, List.mem_range.2 hk, h⟩

/-- the five checks of a flush all passed at `k` -/
structure PassK (sl : Slot) (row : Option Row) : Prop where
  goneSave : goneSave (actOf sl row) row = false
  staleUpd : staleUpd (actOf sl row) row = false
  dupIns : dupIns (actOf sl row) row = false
  goneDel : goneDel (actOf sl row) row = false
  staleDel : staleDel (actOf sl row) row = false

theorem flushOutcome_ok {n : Nat} {se : Sess} {db : DB} (h : flushOutcome n se db = .ok)
    {k : Nat} (hk : k < n) : PassK (se k) (db k) := by
  unfold flushOutcome at h
  split at h
  · cases h
  · rename_i h1
    split at h
    · cases h
    · rename_i h2
      split at h
      · cases h
      · rename_i h3
        split at h
        · cases h
        · rename_i h4
          split at h
          · cases h
          · rename_i h5
            simp only [Bool.not_eq_true] at h1 h2 h3 h4 h5
            exact ⟨anyPk_false h1 hk, anyPk_false h2 hk, anyPk_false h3 hk, anyPk_false h4 hk,
                   anyPk_false h5 hk⟩

theorem flushOutcome_not_ok_of {n : Nat} {se : Sess} {db : DB} {k : Nat} (hk : k < n)
    (h : staleUpd (actOf (se k) (db k)) (db k) = true ∨ staleDel (actOf (se k) (db k)) (db k) = true) :
    flushOutcome n se db ≠ .ok := by
  intro hok
  have p := flushOutcome_ok hok hk
  rcases h with h | h
  · rw [p.staleUpd] at h; cases h
  · rw [p.staleDel] at h; cases h

theorem noMatch_false {old : Option Nat} {row : Option Row} (h : noMatch old row = false) :
    ∃ r, row = some r ∧ useVer old row = some r.ver ∧ (∀ v, old = some v → v = r.ver) := by
  unfold noMatch at h
  cases row with
  | none => cases h
  | some r =>
    simp only [bne_eq_false_iff_eq] at h
    refine ⟨r, rfl, h, ?_⟩
    intro v hv
    subst hv
    simpa [useVer] using h

/-- what a passed flush does at one primary key: the row and the writer's slot -/
inductive FlushK (g : Gen) (t : Nat) (e : Bool) (sl : Slot) (row : Option Row) :
    Option Row → Slot → Prop
  /-- no statement -/
  | same (sl' : Slot)
      (hp : sl'.pers = sl.pers ∨ ∃ p, sl.pers = some p ∧ sl'.pers = some { p with mod := false, cval := p.val })
      (hd : isDelAct (actOf sl row) = false) (hr : reinsAt e (actOf sl row) = false)
      (hl : lostAt sl row = false) : FlushK g t e sl row row sl'
  /-- UPDATE (also the row switch) -/
  | upd (r : Row) (v : Int) (hrow : row = some r)
      (hseen : ∀ p w, sl.pers = some p → p.ver = some w → w = r.ver)
      (hd : isDelAct (actOf sl row) = false) (hr : reinsAt e (actOf sl row) = false) :
      FlushK g t e sl row (some ⟨v, newVer g (some r.ver) t, t⟩)
        ⟨some ⟨some (newVer g (some r.ver) t), some v, some v, false, false, t⟩, none⟩
  /-- INSERT -/
  | ins (v : Int) (hrow : row = none)
      (hd : isDelAct (actOf sl row) = false) (hr : reinsAt e (actOf sl row) = e)
      (hl : lostAt sl row = false) :
      FlushK g t e sl row (some ⟨v, newVer g none t, t⟩)
        ⟨some ⟨some (newVer g none t), some v, some v, false, false, t⟩, none⟩
  /-- DELETE, or INSERT followed by DELETE -/
  | del (sl' : Slot) (hd : isDelAct (actOf sl row) = true) (hr : reinsAt e (actOf sl row) = false)
      (hsl : sl'.pers = none ∨
        ∃ v, sl'.pers = some ⟨some (newVer g none t), some v, some v, false, false, t⟩)
      (hseen : ∀ r p w, row = some r → sl.pers = some p → p.ver = some w → w = r.ver) :
      FlushK g t e sl row none sl'

theorem flushK_of_pass (g : Gen) (t : Nat) (e : Bool) (sl : Slot) (row : Option Row)
    (h : PassK sl row) :
    FlushK g t e sl row (applyRow g 0 t (actOf sl row) row) (afterFlushSlot g 0 t sl row) := by
  obtain ⟨h1, h2, h3, h4, h5⟩ := h
  have tick0 : tick 0 t = t := by simp [tick]
  obtain ⟨pers, pend⟩ := sl
  cases pend with
  | some v =>
    cases pers with
    | none =>
      -- plain INSERT
      have ha : actOf ⟨none, some v⟩ row = .ins v := by simp [actOf]
      simp only [ha, dupIns] at h3
      have hrow : row = none := by cases row <;> simp_all
      subst hrow
      simp only [applyRow, afterFlushSlot, ha, tick0]
      exact .ins v rfl (by simp [ha, isDelAct]) (by simp [ha, reinsAt]) (by simp [lostAt, ha])
    | some p =>
      by_cases hdel : p.del = true
      · by_cases hx : (p.ver.isNone && row.isNone) = true
        · have hx' := hx
          simp only [Bool.and_eq_true, Option.isNone_iff_eq_none] at hx'
          by_cases hb : rowSwitchVanishedKeepsDelete = true
          · have ha : actOf ⟨some p, some v⟩ row = .insDel v := by simp [actOf, hdel, hx, hb]
            simp only [applyRow, afterFlushSlot, ha, tick0]
            refine .del _ (by simp [ha, isDelAct]) (by simp [ha, reinsAt]) (Or.inr ⟨v, rfl⟩) ?_
            intro r p' w hr
            rw [hx'.2] at hr; cases hr
          · have ha : actOf ⟨some p, some v⟩ row = .ins v := by simp [actOf, hdel, hx, hb]
            have hrow : row = none := hx'.2
            subst hrow
            simp only [applyRow, afterFlushSlot, ha, tick0]
            exact .ins v rfl (by simp [ha, isDelAct]) (by simp [ha, reinsAt]) (by simp [lostAt, ha])
        · have ha : actOf ⟨some p, some v⟩ row = .switch v p.ver := by simp [actOf, hdel, hx]
          simp only [ha, staleUpd] at h2
          obtain ⟨r, hrow, huse, hold⟩ := noMatch_false h2
          subst hrow
          simp only [applyRow, afterFlushSlot, ha, huse, tick0]
          refine .upd r v rfl ?_ (by simp [ha, isDelAct]) (by simp [ha, reinsAt])
          intro p' w hp' hw
          simp only [Option.some.injEq] at hp'
          subst hp'
          exact hold w hw
      · have ha : actOf ⟨some p, some v⟩ row = .ins v := by simp [actOf, hdel]
        simp only [ha, dupIns] at h3
        have hrow : row = none := by cases row <;> simp_all
        subst hrow
        simp only [applyRow, afterFlushSlot, ha, tick0]
        exact .ins v rfl (by simp [ha, isDelAct]) (by simp [ha, reinsAt]) (by simp [lostAt, ha])
  | none =>
    cases pers with
    | none =>
      have ha : actOf ⟨none, none⟩ row = .nothing := by simp [actOf]
      simp only [applyRow, afterFlushSlot, ha]
      exact .same _ (Or.inl rfl) (by simp [ha, isDelAct]) (by simp [ha, reinsAt]) (by simp [lostAt, ha])
    | some p =>
      by_cases hdel : p.del = true
      · have ha : actOf ⟨some p, none⟩ row = .del p.ver := by simp [actOf, hdel]
        simp only [ha, staleDel] at h5
        obtain ⟨r, hrow, huse, hold⟩ := noMatch_false h5
        simp only [applyRow, afterFlushSlot, ha]
        refine .del _ (by simp [ha, isDelAct]) (by simp [ha, reinsAt]) (Or.inl rfl) ?_
        intro r' p' w hr hp' hw
        simp only [Option.some.injEq] at hp'
        subst hp'
        rw [hrow] at hr
        cases hr
        exact hold w hw
      · by_cases hmod : p.mod = true
        · by_cases hnet : netChange p = true
          · have ha : actOf ⟨some p, none⟩ row = .upd (p.val.getD 0) p.ver := by
              simp [actOf, hdel, hmod, hnet]
            simp only [ha, staleUpd] at h2
            obtain ⟨r, hrow, huse, hold⟩ := noMatch_false h2
            subst hrow
            simp only [applyRow, afterFlushSlot, ha, huse, tick0]
            refine .upd r _ rfl ?_ (by simp [ha, isDelAct]) (by simp [ha, reinsAt])
            intro p' w hp' hw
            simp only [Option.some.injEq] at hp'
            subst hp'
            exact hold w hw
          · have ha : actOf ⟨some p, none⟩ row = .clean := by simp [actOf, hdel, hmod, hnet]
            simp only [applyRow, afterFlushSlot, ha]
            exact .same _ (Or.inr ⟨p, rfl, rfl⟩) (by simp [ha, isDelAct]) (by simp [ha, reinsAt])
              (by simp [lostAt, ha])
        · have ha : actOf ⟨some p, none⟩ row = .nothing := by simp [actOf, hdel, hmod]
          simp only [applyRow, afterFlushSlot, ha]
          exact .same _ (Or.inl rfl) (by simp [ha, isDelAct]) (by simp [ha, reinsAt])
            (by simp [lostAt, ha])

end SaVerif.Version
