import SaVerif.Model.IdentitySet
import SaVerif.Lemmas.OrderedSetOps
/-! Lemmas about the IdentitySet model (ordered key list of an id-keyed dict). -/
namespace SaVerif.Coll

theorem dictUpdate_eq_refUpdate (m ks : List ObjId) : dictUpdate m ks = refUpdate m ks := rfl

theorem dictUpdate_eq (m ks : List ObjId) :
    dictUpdate m ks = m ++ (firstOcc ks).filter (fun y => !m.contains y) := by
  rw [dictUpdate_eq_refUpdate, refUpdate_eq]

theorem mem_dictUpdate {m ks : List ObjId} {x : ObjId} : x ∈ dictUpdate m ks ↔ x ∈ m ∨ x ∈ ks := by
  rw [dictUpdate_eq]
  simp only [List.mem_append, List.mem_filter, mem_firstOcc]
  constructor
  · rintro (h | ⟨h, _⟩)
    · exact Or.inl h
    · exact Or.inr h
  · rintro (h | h)
    · exact Or.inl h
    · by_cases hx : x ∈ m
      · exact Or.inl hx
      · exact Or.inr ⟨h, by simp [hx]⟩

theorem nodup_dictUpdate {m : List ObjId} (h : m.Nodup) (ks : List ObjId) :
    (dictUpdate m ks).Nodup := by
  rw [dictUpdate_eq, List.nodup_append]
  refine ⟨h, nodup_filter _ (nodup_firstOcc ks), ?_⟩
  intro a ha b hb hab
  subst hab
  simp [List.mem_filter] at hb
  exact hb.2 ha

theorem dictUpdate_nil_of_nodup {m : List ObjId} (h : m.Nodup) : dictUpdate [] m = m := by
  rw [dictUpdate_eq, firstOcc_of_nodup h]; simp

theorem subsetB_iff {a b : List ObjId} : subsetB a b = true ↔ ∀ x ∈ a, x ∈ b := by
  unfold subsetB; simp

theorem superset_of_length_eq : ∀ (a b : List ObjId), a.Nodup → b.Nodup → a.length = b.length →
    (∀ x ∈ a, x ∈ b) → ∀ x ∈ b, x ∈ a := by
  intro a
  induction a with
  | nil =>
    intro b _ _ hlen _ x hx
    have : b = [] := List.eq_nil_of_length_eq_zero (by simpa using hlen.symm)
    subst this; cases hx
  | cons y a ih =>
    intro b ha hb hlen hsub x hx
    rw [List.nodup_cons] at ha
    have hyb : y ∈ b := hsub y (by simp)
    have hsub' : ∀ z ∈ a, z ∈ b.erase y := by
      intro z hz
      rw [hb.mem_erase_iff]
      refine ⟨?_, hsub z (by simp [hz])⟩
      rintro rfl
      exact ha.1 hz
    have hlen' : a.length = (b.erase y).length := by
      rw [List.length_erase_of_mem hyb]
      simp only [List.length_cons] at hlen
      omega
    by_cases hxy : x = y
    · subst hxy; simp
    · have : x ∈ b.erase y := by rw [hb.mem_erase_iff]; exact ⟨hxy, hx⟩
      exact List.mem_cons_of_mem _ (ih (b.erase y) ha.2 (hb.erase y) hlen' hsub' x this)

/-- for duplicate-free key lists dict equality is equality as sets -/
theorem dictEq_iff {a b : List ObjId} (ha : a.Nodup) (hb : b.Nodup) :
    dictEq a b = true ↔ ∀ x, x ∈ a ↔ x ∈ b := by
  unfold dictEq
  rw [Bool.and_eq_true, subsetB_iff, beq_iff_eq]
  constructor
  · rintro ⟨hlen, hsub⟩ x
    refine ⟨hsub x, ?_⟩
    intro hx
    exact superset_of_length_eq a b ha hb hlen hsub x hx
  · intro h
    refine ⟨?_, fun x hx => (h x).1 hx⟩
    exact ((List.perm_ext_iff_of_nodup ha hb).2 h).length_eq

namespace IdSet

theorem init_eq (it : List ObjId) : init (some it) = firstOcc it := by
  unfold init; simp only; rw [dictUpdate_eq]; simp

theorem nodup_init (it : Option (List ObjId)) : (init it).Nodup := by
  cases it with
  | none => exact List.nodup_nil
  | some l => rw [init_eq]; exact nodup_firstOcc l

theorem union_eq {m : IdSet} (h : m.Nodup) (it : List ObjId) :
    union m it = m ++ (firstOcc it).filter (fun y => !m.contains y) := by
  unfold union update
  rw [dictUpdate_nil_of_nodup h, dictUpdate_eq]

theorem symDiff_eq {m : IdSet} (it : List ObjId) :
    symDiff m it
      = m.filter (fun k => !it.contains k) ++ (firstOcc it).filter (fun k => !m.contains k) := by
  unfold symDiff
  simp only
  have ho : dictUpdate [] it = firstOcc it := by rw [dictUpdate_eq]; simp
  rw [ho, dictUpdate_eq, firstOcc_of_nodup (nodup_filter _ (nodup_firstOcc it))]
  have h1 : m.filter (fun k => !(firstOcc it).contains k) = m.filter (fun k => !it.contains k) := by
    apply List.filter_congr
    intro y _
    congr 1
    rw [Bool.eq_iff_iff, List.contains_iff_mem, List.contains_iff_mem, mem_firstOcc]
  rw [h1, List.filter_filter]
  congr 1
  apply List.filter_congr
  intro y _
  by_cases hy : y ∈ m
  · simp [hy]
  · simp [hy]

theorem nodup_symDiff {m : IdSet} (h : m.Nodup) (it : List ObjId) : (symDiff m it).Nodup := by
  rw [symDiff_eq, List.nodup_append]
  refine ⟨nodup_filter _ h, nodup_filter _ (nodup_firstOcc it), ?_⟩
  intro a ha b hb hab
  subst hab
  simp [List.mem_filter] at ha hb
  exact hb.2 ha.1

theorem nodup_remove {m : IdSet} (h : m.Nodup) (x : ObjId) : (remove m x).1.Nodup := by
  unfold remove
  split
  · exact h.erase x
  · exact h

theorem nodup_pop {m : IdSet} (h : m.Nodup) : (pop m).1.Nodup := by
  unfold pop
  split
  · exact h
  · exact List.Nodup.sublist (List.dropLast_sublist m) h

end IdSet
end SaVerif.Coll
