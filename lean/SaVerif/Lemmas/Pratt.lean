import SaVerif.Model.Pratt
/-!
Helper lemmas for the parser round trip (`Props/C01.lean`): fuel monotonicity of the three
mutually recursive parser functions and the "loop stops" lemma.
-/
set_option linter.unusedSimpArgs false

namespace SaVerif.Pratt

theorem parseLoop_stop (g : Grammar) (f m : Nat) (lhs : G) (rest : List Tok)
    (h : stops g m (follower rest) = true) :
    parseLoop g (f + 1) m lhs rest = some (lhs, rest) := by
  cases rest with
  | nil => simp [parseLoop]
  | cons tk ts =>
    cases tk with
    | inf s t =>
      simp only [follower, stops] at h
      simp only [parseLoop]
      cases hb : g.infixBp s with
      | none => simp
      | some p =>
        obtain ⟨lbp, rbp⟩ := p
        simp only [hb] at h
        have : lbp < m := by simpa using h
        simp [this]
    | atom a => simp [parseLoop]
    | pre s t => simp [parseLoop]
    | open_ k => simp [parseLoop]
    | close k => simp [parseLoop]

/-- one more unit of fuel never changes a successful parse (all three functions at once) -/
theorem mono_step (g : Grammar) : ∀ f : Nat,
    (∀ m ts r, parseExpr g f m ts = some r → parseExpr g (f + 1) m ts = some r) ∧
    (∀ ts r, parseNud g f ts = some r → parseNud g (f + 1) ts = some r) ∧
    (∀ m lhs ts r, parseLoop g f m lhs ts = some r → parseLoop g (f + 1) m lhs ts = some r) := by
  intro f
  induction f with
  | zero =>
    refine ⟨?_, ?_, ?_⟩
    · intro m ts r h; simp [parseExpr] at h
    · intro ts r h; simp [parseNud] at h
    · intro m lhs ts r h; simp [parseLoop] at h
  | succ n ih =>
    obtain ⟨ihE, ihN, ihL⟩ := ih
    refine ⟨?_, ?_, ?_⟩
    · intro m ts r h
      rw [parseExpr] at h
      rw [parseExpr]
      cases hn : parseNud g n ts with
      | none => simp [hn] at h
      | some p =>
        obtain ⟨lhs, ts'⟩ := p
        simp only [hn] at h
        rw [ihN _ _ hn]
        exact ihL _ _ _ _ h
    · intro ts r h
      cases ts with
      | nil => simp [parseNud] at h
      | cons tk ts =>
        cases tk with
        | atom a => simpa [parseNud] using h
        | pre s t =>
          simp only [parseNud] at h ⊢
          cases hb : g.prefixBp s with
          | none => simp [hb] at h
          | some bp =>
            simp only [hb] at h ⊢
            cases he : parseExpr g n bp ts with
            | none => simp [he] at h
            | some p =>
              obtain ⟨c, ts'⟩ := p
              simp only [he] at h
              rw [ihE _ _ _ he]
              exact h
        | open_ k =>
          simp only [parseNud] at h ⊢
          cases he : parseExpr g n 0 ts with
          | none => simp [he] at h
          | some p =>
            rw [ihE _ _ _ he]
            rw [he] at h
            exact h
        | inf s t => simp [parseNud] at h
        | close k => simp [parseNud] at h
    · intro m lhs ts r h
      cases ts with
      | nil => simpa [parseLoop] using h
      | cons tk ts =>
        cases tk with
        | inf s t =>
          simp only [parseLoop] at h ⊢
          cases hb : g.infixBp s with
          | none => simpa [hb] using h
          | some p =>
            obtain ⟨lbp, rbp⟩ := p
            simp only [hb] at h ⊢
            by_cases hlt : lbp < m
            · simpa [hlt] using h
            · simp only [hlt, if_false] at h ⊢
              cases he : parseExpr g n rbp ts with
              | none => simp [he] at h
              | some p =>
                obtain ⟨rhs, ts'⟩ := p
                simp only [he] at h
                rw [ihE _ _ _ he]
                simp only
                cases ht : g.ternBp s with
                | none =>
                  simp only [ht] at h ⊢
                  exact ihL _ _ _ _ h
                | some q =>
                  obtain ⟨mid, bp3, mand⟩ := q
                  simp only [ht] at h ⊢
                  cases ts' with
                  | nil =>
                    simp only at h ⊢
                    by_cases hm : mand = true
                    · simp [hm] at h
                    · simp only [hm, if_false] at h ⊢
                      exact ihL _ _ _ _ h
                  | cons tk2 ts'' =>
                    cases tk2 with
                    | inf s2 t2 =>
                      simp only at h ⊢
                      by_cases hs : s2 = mid
                      · simp only [hs, if_true] at h ⊢
                        cases he3 : parseExpr g n bp3 ts'' with
                        | none => simp [he3] at h
                        | some p3 =>
                          obtain ⟨c, ts3⟩ := p3
                          simp only [he3] at h
                          rw [ihE _ _ _ he3]
                          exact ihL _ _ _ _ h
                      · simp only [hs, if_false] at h ⊢
                        by_cases hm : mand = true
                        · simp [hm] at h
                        · simp only [hm, if_false] at h ⊢
                          exact ihL _ _ _ _ h
                    | atom a =>
                      simp only at h ⊢
                      by_cases hm : mand = true
                      · simp [hm] at h
                      · simp only [hm, if_false] at h ⊢
                        exact ihL _ _ _ _ h
                    | pre s2 t2 =>
                      simp only at h ⊢
                      by_cases hm : mand = true
                      · simp [hm] at h
                      · simp only [hm, if_false] at h ⊢
                        exact ihL _ _ _ _ h
                    | open_ k =>
                      simp only at h ⊢
                      by_cases hm : mand = true
                      · simp [hm] at h
                      · simp only [hm, if_false] at h ⊢
                        exact ihL _ _ _ _ h
                    | close k =>
                      simp only at h ⊢
                      by_cases hm : mand = true
                      · simp [hm] at h
                      · simp only [hm, if_false] at h ⊢
                        exact ihL _ _ _ _ h
        | atom a => simpa [parseLoop] using h
        | pre s t => simpa [parseLoop] using h
        | open_ k => simpa [parseLoop] using h
        | close k => simpa [parseLoop] using h

theorem parseExpr_mono (g : Grammar) {f f' m : Nat} {ts : List Tok} {r : G × List Tok}
    (h : parseExpr g f m ts = some r) (hle : f ≤ f') : parseExpr g f' m ts = some r := by
  induction hle with
  | refl => exact h
  | step _ ih => exact (mono_step g _).1 _ _ _ ih

theorem parseLoop_mono (g : Grammar) {f f' m : Nat} {lhs : G} {ts : List Tok} {r : G × List Tok}
    (h : parseLoop g f m lhs ts = some r) (hle : f ≤ f') : parseLoop g f' m lhs ts = some r := by
  induction hle with
  | refl => exact h
  | step _ ih => exact (mono_step g _).2.2 _ _ _ _ ih

/-- fuel consumed by parsing the printed form of a tree -/
def cost : G → Nat
  | G.atom _ => 2
  | G.pre _ _ c => cost c + 3
  | G.inf _ _ l r => cost l + cost r + 2
  | G.tern _ _ _ _ a b c => cost a + cost b + cost c + 2
  | G.br _ c => cost c + 3

theorem cost_le (t : G) : cost t ≤ 3 * t.print.length := by
  induction t with
  | atom a => simp [cost, G.print]
  | pre s t c ih => simp [cost, G.print]; omega
  | inf s t l r ihl ihr => simp [cost, G.print]; omega
  | tern s t m mt a b c iha ihb ihc => simp [cost, G.print]; omega
  | br k c ih => simp [cost, G.print]; omega

theorem wb_leftOK_zero (g : Grammar) : ∀ t : G, wb g t = true → leftOK g 0 t = true := by
  intro t
  induction t with
  | atom a => intro _; simp [leftOK]
  | pre s t c ih => intro _; simp [leftOK]
  | br k c ih => intro _; simp [leftOK]
  | inf s t l r ihl ihr =>
    intro h
    simp only [wb] at h
    simp only [leftOK]
    cases hb : g.infixBp s with
    | none => simp [hb] at h
    | some p =>
      obtain ⟨lbp, rbp⟩ := p
      simp only [hb, Bool.and_eq_true] at h
      simp [ihl h.1.1.1.2]
  | tern s t m mt a b c iha ihb ihc =>
    intro h
    simp only [wb] at h
    simp only [leftOK]
    cases hb : g.infixBp s with
    | none => simp [hb] at h
    | some p =>
      obtain ⟨lbp, rbp⟩ := p
      cases ht : g.ternBp s with
      | none => simp [hb, ht] at h
      | some q =>
        obtain ⟨mid, bp3, mand⟩ := q
        simp only [hb, ht, Bool.and_eq_true] at h
        simp [iha h.1.1.1.1.1.1.1.2]

/-! ### inversion lemmas for `wb`, `rightOK`, `leftOK` -/

theorem wb_pre_inv {g : Grammar} {s : Sym} {t : String} {c : G} (h : wb g (G.pre s t c) = true) :
    ∃ bp, g.prefixBp s = some bp ∧ wb g c = true ∧ leftOK g bp c = true := by
  simp only [wb] at h
  cases hb : g.prefixBp s with
  | none => simp [hb] at h
  | some bp =>
    simp only [hb, Bool.and_eq_true] at h
    exact ⟨bp, rfl, h.1, h.2⟩

theorem wb_inf_inv {g : Grammar} {s : Sym} {t : String} {l r : G}
    (h : wb g (G.inf s t l r) = true) :
    ∃ lbp rbp, g.infixBp s = some (lbp, rbp) ∧
      (∀ mid bp3, g.ternBp s ≠ some (mid, bp3, true)) ∧
      wb g l = true ∧ wb g r = true ∧ rightOK g (some s) l = true ∧ leftOK g rbp r = true := by
  simp only [wb] at h
  cases hb : g.infixBp s with
  | none => simp [hb] at h
  | some p =>
    obtain ⟨lbp, rbp⟩ := p
    simp only [hb, Bool.and_eq_true] at h
    obtain ⟨⟨⟨⟨h1, h2⟩, h3⟩, h4⟩, h5⟩ := h
    refine ⟨lbp, rbp, rfl, ?_, h2, h3, h4, h5⟩
    intro mid bp3 hc
    rw [hc] at h1
    simp at h1

theorem wb_tern_inv {g : Grammar} {s m : Sym} {t mt : String} {a b c : G}
    (h : wb g (G.tern s t m mt a b c) = true) :
    ∃ lbp rbp bp3 mand, g.infixBp s = some (lbp, rbp) ∧ g.ternBp s = some (m, bp3, mand) ∧
      wb g a = true ∧ wb g b = true ∧ wb g c = true ∧
      rightOK g (some s) a = true ∧ leftOK g rbp b = true ∧ rightOK g (some m) b = true ∧
      stops g rbp (some m) = true ∧ leftOK g bp3 c = true := by
  simp only [wb] at h
  cases hb : g.infixBp s with
  | none => simp [hb] at h
  | some p =>
    obtain ⟨lbp, rbp⟩ := p
    cases ht : g.ternBp s with
    | none => simp [hb, ht] at h
    | some q =>
      obtain ⟨mid, bp3, mand⟩ := q
      simp only [hb, ht, Bool.and_eq_true, decide_eq_true_eq] at h
      obtain ⟨⟨⟨⟨⟨⟨⟨⟨h0, h1⟩, h2⟩, h3⟩, h4⟩, h5⟩, h6⟩, h7⟩, h8⟩ := h
      subst h0
      exact ⟨lbp, rbp, bp3, mand, rfl, rfl, h1, h2, h3, h4, h5, h6, h7, h8⟩

theorem rightOK_pre_inv {g : Grammar} {f : Option Sym} {s : Sym} {t : String} {c : G}
    (h : rightOK g f (G.pre s t c) = true) {bp : Nat} (hb : g.prefixBp s = some bp) :
    stops g bp f = true ∧ rightOK g f c = true := by
  simp only [rightOK, hb, Bool.and_eq_true] at h
  exact h

theorem rightOK_inf_inv {g : Grammar} {f : Option Sym} {s : Sym} {t : String} {l r : G}
    (h : rightOK g f (G.inf s t l r) = true) {lbp rbp : Nat} (hb : g.infixBp s = some (lbp, rbp)) :
    stops g rbp f = true ∧ rightOK g f r = true ∧
      (∀ mid bp3 mand, g.ternBp s = some (mid, bp3, mand) → f ≠ some mid) := by
  simp only [rightOK, hb, Bool.and_eq_true] at h
  refine ⟨h.1.1, h.1.2, ?_⟩
  intro mid bp3 mand ht
  have h3 := h.2
  rw [ht] at h3
  simpa using h3

theorem rightOK_tern_inv {g : Grammar} {f : Option Sym} {s m : Sym} {t mt : String} {a b c : G}
    (h : rightOK g f (G.tern s t m mt a b c) = true) {mid : Sym} {bp3 : Nat} {mand : Bool}
    (ht : g.ternBp s = some (mid, bp3, mand)) :
    stops g bp3 f = true ∧ rightOK g f c = true := by
  simp only [rightOK, ht, Bool.and_eq_true] at h
  exact h

theorem leftOK_inf_inv {g : Grammar} {m : Nat} {s : Sym} {t : String} {l r : G}
    (h : leftOK g m (G.inf s t l r) = true) {lbp rbp : Nat} (hb : g.infixBp s = some (lbp, rbp)) :
    m ≤ lbp ∧ leftOK g m l = true := by
  simp only [leftOK, hb, Bool.and_eq_true, decide_eq_true_eq] at h
  exact h

theorem leftOK_tern_inv {g : Grammar} {m : Nat} {s mid : Sym} {t mt : String} {a b c : G}
    (h : leftOK g m (G.tern s t mid mt a b c) = true) {lbp rbp : Nat}
    (hb : g.infixBp s = some (lbp, rbp)) :
    m ≤ lbp ∧ leftOK g m a = true := by
  simp only [leftOK, hb, Bool.and_eq_true, decide_eq_true_eq] at h
  exact h

theorem wb_rightOK_none (g : Grammar) : ∀ t : G, wb g t = true → rightOK g none t = true := by
  intro t
  induction t with
  | atom a => intro _; simp [rightOK]
  | br k c ih => intro _; simp [rightOK]
  | pre s t c ih =>
    intro h
    obtain ⟨bp, hb, hc, _⟩ := wb_pre_inv h
    simp [rightOK, hb, stops, ih hc]
  | inf s t l r ihl ihr =>
    intro h
    obtain ⟨lbp, rbp, hb, _, _, hr, _, _⟩ := wb_inf_inv h
    simp only [rightOK, hb, stops, ihr hr, Bool.true_and]
    cases g.ternBp s with
    | none => rfl
    | some q => simp
  | tern s t m mt a b c iha ihb ihc =>
    intro h
    obtain ⟨lbp, rbp, bp3, mand, hb, ht, _, _, hc, _⟩ := wb_tern_inv h
    simp [rightOK, ht, stops, ihc hc]

/-- **Key lemma.**  Parsing the printed form of a well-bracketed tree `t` at level `m`,
    followed by any `rest` whose first token `t` does not capture, behaves exactly like the
    operator loop started with `t` already built. -/
theorem parse_print_aux (g : Grammar) : ∀ (t : G), wb g t = true →
    ∀ (m : Nat) (rest : List Tok) (k : Nat) (r : G × List Tok),
      leftOK g m t = true → rightOK g (follower rest) t = true →
      parseLoop g k m t rest = some r →
      parseExpr g (k + cost t) m (t.print ++ rest) = some r := by
  intro t
  induction t with
  | atom a =>
    intro _ m rest k r _ _ hloop
    have e : k + cost (G.atom a) = (k + 1) + 1 := by simp [cost]
    rw [e, parseExpr]
    simp only [G.print, List.cons_append, List.nil_append, parseNud]
    exact parseLoop_mono g hloop (by omega)
  | pre s t c ih =>
    intro hwb m rest k r _ hright hloop
    obtain ⟨bp, hb, hc, hlc⟩ := wb_pre_inv hwb
    obtain ⟨hstop, hrc⟩ := rightOK_pre_inv hright hb
    have e : k + cost (G.pre s t c) = (k + cost c + 1 + 1) + 1 := by simp [cost]; omega
    rw [e, parseExpr]
    have hinner : parseExpr g (k + cost c + 1) bp (c.print ++ rest) = some (c, rest) := by
      have h1 := ih hc bp rest 1 (c, rest) hlc hrc (parseLoop_stop g 0 bp c rest hstop)
      exact parseExpr_mono g h1 (by omega)
    simp only [G.print, List.cons_append, parseNud, hb, hinner]
    exact parseLoop_mono g hloop (by omega)
  | br kd c ih =>
    intro hwb m rest k r _ _ hloop
    have hc : wb g c = true := by simpa [wb] using hwb
    have e : k + cost (G.br kd c) = (k + cost c + 1 + 1) + 1 := by simp [cost]; omega
    rw [e, parseExpr]
    have hinner : parseExpr g (k + cost c + 1) 0 (c.print ++ (Tok.close kd :: rest))
        = some (c, Tok.close kd :: rest) := by
      have h1 := ih hc 0 (Tok.close kd :: rest) 1 (c, Tok.close kd :: rest)
        (wb_leftOK_zero g c hc) (by simpa [follower] using wb_rightOK_none g c hc)
        (parseLoop_stop g 0 0 c _ (by simp [follower, stops]))
      exact parseExpr_mono g h1 (by omega)
    simp only [G.print, List.cons_append, List.append_assoc, List.nil_append, parseNud, hinner,
      if_true]
    exact parseLoop_mono g hloop (by omega)
  | inf s t l r ihl ihr =>
    intro hwb m rest k res hleft hright hloop
    obtain ⟨lbp, rbp, hb, hnomand, hl, hr, hrl, hlr⟩ := wb_inf_inv hwb
    obtain ⟨hm, hll⟩ := leftOK_inf_inv hleft hb
    obtain ⟨hstop, hrr, hmid⟩ := rightOK_inf_inv hright hb
    have hrhs : parseExpr g (k + cost r + 1) rbp (r.print ++ rest) = some (r, rest) := by
      have h1 := ihr hr rbp rest 1 (r, rest) hlr hrr (parseLoop_stop g 0 rbp r rest hstop)
      exact parseExpr_mono g h1 (by omega)
    have hloop' : parseLoop g (k + cost r + 1) m (G.inf s t l r) rest = some res :=
      parseLoop_mono g hloop (by omega)
    -- the loop started with `l` in front of `s` builds the node and continues
    have hstep : parseLoop g (k + cost r + 1 + 1) m l (Tok.inf s t :: (r.print ++ rest)) = some res := by
      rw [parseLoop]
      simp only [hb]
      have : ¬ lbp < m := by omega
      simp only [this, if_false, hrhs]
      cases ht : g.ternBp s with
      | none => simpa [ht] using hloop'
      | some q =>
        obtain ⟨mid, bp3, mand⟩ := q
        have hmand : mand = false := by
          cases mand with
          | false => rfl
          | true => exact absurd ht (hnomand mid bp3)
        subst hmand
        have hne := hmid mid bp3 false ht
        simp only
        cases rest with
        | nil => simpa using hloop'
        | cons tk ts =>
          cases tk with
          | inf s2 t2 =>
            have : s2 ≠ mid := by
              intro hEq
              apply hne
              simp [follower, hEq]
            simpa [this] using hloop'
          | atom a => simpa using hloop'
          | pre s2 t2 => simpa using hloop'
          | open_ k2 => simpa using hloop'
          | close k2 => simpa using hloop'
    have h2 := ihl hl m (Tok.inf s t :: (r.print ++ rest)) (k + cost r + 1 + 1) res hll
      (by simpa [follower] using hrl) hstep
    have e : k + cost (G.inf s t l r) = k + cost r + 1 + 1 + cost l := by simp [cost]; omega
    rw [e]
    simpa [G.print, List.append_assoc] using h2
  | tern s t mid mt a b c iha ihb ihc =>
    intro hwb m rest k res hleft hright hloop
    obtain ⟨lbp, rbp, bp3, mand, hb, ht, ha, hbw, hc, hra, hlb, hrb, hstopmid, hlc⟩ := wb_tern_inv hwb
    obtain ⟨hm, hla⟩ := leftOK_tern_inv hleft hb
    obtain ⟨hstop, hrc⟩ := rightOK_tern_inv hright ht
    have hthird : parseExpr g (k + cost b + cost c + 1) bp3 (c.print ++ rest) = some (c, rest) := by
      have h1 := ihc hc bp3 rest 1 (c, rest) hlc hrc (parseLoop_stop g 0 bp3 c rest hstop)
      exact parseExpr_mono g h1 (by omega)
    have hsecond : parseExpr g (k + cost b + cost c + 1) rbp
        (b.print ++ (Tok.inf mid mt :: (c.print ++ rest)))
        = some (b, Tok.inf mid mt :: (c.print ++ rest)) := by
      have h1 := ihb hbw rbp (Tok.inf mid mt :: (c.print ++ rest)) 1
        (b, Tok.inf mid mt :: (c.print ++ rest)) hlb (by simpa [follower] using hrb)
        (parseLoop_stop g 0 rbp b _ (by simpa [follower] using hstopmid))
      exact parseExpr_mono g h1 (by omega)
    have hloop' : parseLoop g (k + cost b + cost c + 1) m (G.tern s t mid mt a b c) rest = some res :=
      parseLoop_mono g hloop (by omega)
    have hstep : parseLoop g (k + cost b + cost c + 1 + 1) m a
        (Tok.inf s t :: (b.print ++ (Tok.inf mid mt :: (c.print ++ rest)))) = some res := by
      rw [parseLoop]
      simp only [hb]
      have : ¬ lbp < m := by omega
      simp only [this, if_false, hsecond, ht, if_true, hthird]
      exact hloop'
    have h2 := iha ha m _ (k + cost b + cost c + 1 + 1) res hla
      (by simpa [follower] using hra) hstep
    have e : k + cost (G.tern s t mid mt a b c) = k + cost b + cost c + 1 + 1 + cost a := by
      simp [cost]; omega
    rw [e]
    simpa [G.print, List.append_assoc] using h2

/-- the backend reads the printed form of a well-bracketed tree back as that tree -/
theorem parse_print (g : Grammar) (t : G) (h : wb g t = true) : parse g t.print = some t := by
  have hl : parseLoop g 1 0 t [] = some (t, []) :=
    parseLoop_stop g 0 0 t [] (by simp [follower, stops])
  have h1 := parse_print_aux g t h 0 [] 1 (t, []) (wb_leftOK_zero g t h)
    (by simpa [follower] using wb_rightOK_none g t h) hl
  have h2 : parseExpr g (fuelFor t.print) 0 t.print = some (t, []) := by
    have := parseExpr_mono g h1 (f' := fuelFor t.print) (by have := cost_le t; simp [fuelFor]; omega)
    simpa using this
  simp [parse, h2]

/-! ### re-association and full parenthesisation -/

theorem print_foldl_inf (s : Sym) (xs : List (String × G)) (a : G) :
    (xs.foldl (fun acc x => G.inf s x.1 acc x.2) a).print
      = a.print ++ (xs.map (fun x => Tok.inf s x.1 :: x.2.print)).flatten := by
  induction xs generalizing a with
  | nil => simp
  | cons x xs ih => simp [ih, G.print, List.append_assoc]

theorem print_lspine (s : Sym) (r : G) :
    r.print = (G.lspine s r).1.print
      ++ ((G.lspine s r).2.map (fun x => Tok.inf s x.1 :: x.2.print)).flatten := by
  induction r with
  | atom a => simp [G.lspine]
  | pre s' t' c _ => simp [G.lspine]
  | br k c _ => simp [G.lspine]
  | tern s' t' m mt a b c _ _ _ => simp [G.lspine]
  | inf s' t' l r ihl _ =>
    by_cases hc : s' = s
    · subst hc
      simp only [G.lspine, if_true, G.print, List.map_append, List.flatten_append]
      rw [ihl]
      simp [List.append_assoc]
    · simp [G.lspine, hc]

/-- rotating associative chains does not change the text -/
theorem print_norm (t : G) : t.norm.print = t.print := by
  induction t with
  | atom a => simp [G.norm]
  | pre s t c ih => simp [G.norm, G.print, ih]
  | br k c ih => simp [G.norm, G.print, ih]
  | tern s t m mt a b c iha ihb ihc => simp [G.norm, G.print, iha, ihb, ihc]
  | inf s t l r ihl ihr =>
    by_cases ha : G.assocSym s = true
    · simp only [G.norm, ha, if_true, print_foldl_inf, G.print]
      rw [ihl, ← ihr, print_lspine s r.norm]
      simp [List.append_assoc]
    · simp [G.norm, ha, G.print, ihl, ihr]

theorem evalG_foldl_inf {V : Type} (I : Interp V) (s : Sym) (xs : List (String × G)) (a : G) :
    evalG I (xs.foldl (fun acc x => G.inf s x.1 acc x.2) a)
      = xs.foldl (fun v x => I.inf s v (evalG I x.2)) (evalG I a) := by
  induction xs generalizing a with
  | nil => simp
  | cons x xs ih => simp [ih, evalG]

theorem evalG_lspine {V : Type} (I : Interp V) (s : Sym) (r : G) :
    evalG I r = (G.lspine s r).2.foldl (fun v x => I.inf s v (evalG I x.2))
      (evalG I (G.lspine s r).1) := by
  induction r with
  | atom a => simp [G.lspine]
  | pre s' t' c _ => simp [G.lspine]
  | br k c _ => simp [G.lspine]
  | tern s' t' m mt a b c _ _ _ => simp [G.lspine]
  | inf s' t' l r ihl _ =>
    by_cases hc : s' = s
    · subst hc
      simp only [G.lspine, if_true, evalG, List.foldl_append, List.foldl_cons, List.foldl_nil]
      rw [← ihl]
    · simp [G.lspine, hc]

/-- `a ∘ (fold of xs starting at h)` = fold of `xs` starting at `a ∘ h`, for an associative `∘` -/
theorem foldl_assoc {V : Type} (f : V → V → V)
    (hassoc : ∀ a b c, f (f a b) c = f a (f b c)) (a h : V) (xs : List V) :
    f a (xs.foldl f h) = xs.foldl f (f a h) := by
  induction xs generalizing h with
  | nil => rfl
  | cons x xs ih => simp only [List.foldl_cons]; rw [ih, hassoc]

/-- re-association preserves the value under every interpretation whose associative symbols
    are associative -/
theorem evalG_norm {V : Type} (I : Interp V)
    (hassoc : ∀ s, G.assocSym s = true → ∀ a b c, I.inf s (I.inf s a b) c = I.inf s a (I.inf s b c))
    (t : G) : evalG I t.norm = evalG I t := by
  induction t with
  | atom a => simp [G.norm]
  | pre s t c ih => simp [G.norm, evalG, ih]
  | br k c ih => simp [G.norm, evalG, ih]
  | tern s t m mt a b c iha ihb ihc => simp [G.norm, evalG, iha, ihb, ihc]
  | inf s t l r ihl ihr =>
    by_cases ha : G.assocSym s = true
    · simp only [G.norm, ha, if_true, evalG_foldl_inf, evalG]
      rw [ihl, ← ihr, evalG_lspine I s r.norm]
      have key := foldl_assoc (I.inf s) (hassoc s ha) (evalG I l)
        (evalG I (G.lspine s r.norm).1) ((G.lspine s r.norm).2.map (fun x => evalG I x.2))
      simpa [List.foldl_map] using key.symm
    · simp [G.norm, ha, evalG, ihl, ihr]

/-- parentheses are transparent ⇒ the fully parenthesised form has the same value -/
theorem evalG_fullParen {V : Type} (I : Interp V) (hparen : ∀ v, I.br .paren v = v) (t : G) :
    evalG I t.fullParen = evalG I t := by
  induction t with
  | atom a => simp [G.fullParen]
  | pre s t c ih => simp [G.fullParen, evalG, ih, hparen]
  | br k c ih => simp [G.fullParen, evalG, ih]
  | tern s t m mt a b c iha ihb ihc => simp [G.fullParen, evalG, iha, ihb, ihc, hparen]
  | inf s t l r ihl ihr =>
    by_cases hs : s.isSep = true
    · simp [G.fullParen, hs, evalG, ihl, ihr]
    · simp [G.fullParen, hs, evalG, ihl, ihr, hparen]

end SaVerif.Pratt
