import SaVerif.Lemmas.EventInv
/-! Preservation of `EInv` by the operations of M-EVENT.  Core Lean only. -/
namespace SaVerif.Event

theorem instEntries_addReg (st : St) (e : RegEntry) (j : Nat) :
    instEntries (addReg st e) j =
      instEntries st j ++ (if e.target = Target.inst j then [e] else []) := by
  unfold instEntries addReg
  simp only [List.filter_append]
  congr 1
  by_cases h : e.target = Target.inst j
  · simp [h]
  · simp [h]

theorem clsEntries_addReg (st : St) (e : RegEntry) :
    clsEntries (addReg st e) = clsEntries st ++ (if isCls e then [e] else []) := by
  unfold clsEntries addReg
  simp only [List.filter_append]
  congr 1
  cases h : isCls e <;> simp [h]

theorem listenInst_inv {n : Nat} {st : St} (h : EInv n st) (i fn : Nat) (ins : Bool) (wrap : Nat)
    (hi : i < st.insts.length) (hfn : fn < n) : EInv n (listenInst st i fn ins wrap) := by
  have hmk := mkListener_core st fn wrap
  have hl := mkListener_lsn n st fn wrap hfn h.nle
  have h1 : EInv n (mkListener st fn wrap).1 := h.core hmk
  unfold listenInst
  simp only
  generalize hst1 : (mkListener st fn wrap).1 = st1 at *
  generalize hlv : (mkListener st fn wrap).2 = l at *
  have hi1 : i < st1.insts.length := by rw [hmk.insts]; exact hi
  -- for_modify(): the instance gets its own collection, same listeners
  have hf2 := setColl_frame st1 i (collOf st1 i)
  have hcoll2 : ∀ j, collOf (setColl st1 i (collOf st1 i)) j = collOf st1 j := by
    intro j
    rw [collOf_setColl st1 i j _ hi1]
    split
    · rename_i e; rw [e]
    · rfl
  have h2 : EInv n (setColl st1 i (collOf st1 i)) :=
    h1.withColl hf2.1 hf2.2.1 hf2.2.2.1 hf2.2.2.2.1 hf2.2.2.2.2 (fun j x' => setColl_cls st1 i j _ x')
      (by intro j; rw [hcoll2 j, h1.inst j]; unfold specColl instEntries; rw [hf2.2.2.1])
  generalize hst2 : setColl st1 i (collOf st1 i) = st2 at *
  have hi2 : i < st2.insts.length := by rw [hf2.2.2.2.2]; exact hi1
  have hreg2 : st2.reg = st.reg := by rw [hf2.2.2.1, hmk.reg]
  have hlsn2 : st2.lsn = st1.lsn := hf2.2.2.2.1
  by_cases hk : hasKey st2 (Target.inst i) fn = true
  · rw [if_pos hk]; exact h2
  · rw [if_neg hk]
    have hk' : hasKey (setColl st2 i (if ins = true then l :: collOf st2 i else collOf st2 i ++ [l]))
        (Target.inst i) fn = false := by
      have : (setColl st2 i (if ins = true then l :: collOf st2 i else collOf st2 i ++ [l])).reg = st2.reg :=
        (setColl_frame st2 i _).2.2.1
      unfold hasKey at hk ⊢
      rw [this]
      simpa using hk
    rw [storeKey_new hk']
    generalize hnewd : (if ins = true then l :: collOf st2 i else collOf st2 i ++ [l]) = newd at *
    have hf3 := setColl_frame st2 i newd
    generalize hst3 : setColl st2 i newd = st3 at *
    generalize he : ({ target := Target.inst i, fn := fn, lsn := l, ins := ins } : RegEntry) = e
    have het : e.target = Target.inst i := by rw [← he]
    have hel : e.lsn = l := by rw [← he]
    have hef : e.fn = fn := by rw [← he]
    have hei : e.ins = ins := by rw [← he]
    have hcl : isCls e = false := by unfold isCls; rw [het]
    -- the new listener object is not among the instance's listeners
    have hfresh : ∀ x ∈ instEntries st2 i, x.lsn ≠ l := by
      intro x hx hxl
      unfold instEntries at hx
      rw [List.mem_filter, hreg2] at hx
      obtain ⟨hxr, hxt⟩ := hx
      have hxt' : x.target = Target.inst i := by simpa using hxt
      rcases hl.2 with ⟨hw, hlf⟩ | ⟨hw, hlf⟩
      · -- the function itself
        rcases h.fnKind x hxr with ⟨h3, _⟩ | h3
        · apply hk
          rw [hasKey_iff]
          exact ⟨x, by rw [hreg2]; exact hxr, hxt', by rw [← h3, hxl, hlf]⟩
        · rw [hxl, hlf] at h3; exact absurd hfn (Nat.not_lt.2 h3)
      · have := h.lsnBound x hxr
        rw [hxl, hlf] at this
        exact absurd this (Nat.lt_irrefl _)
    have hdq : ∀ k, dequeOf (addReg st3 e) k = dequeOf st2 k := by
      intro k; unfold dequeOf addReg; rw [hf3.2.1]
    have hsp : ∀ k, specDeque (addReg st3 e) k = specDeque st2 k := by
      intro k
      rw [specDeque_addReg_inst st3 e i het k]
      exact specDeque_congr hf3.1 hf3.2.2.1 k
    have hie : ∀ j, instEntries (addReg st3 e) j =
        instEntries st2 j ++ (if e.target = Target.inst j then [e] else []) := by
      intro j
      rw [instEntries_addReg]
      congr 1
      unfold instEntries; rw [hf3.2.2.1]
    have hregmem : ∀ x, x ∈ (addReg st3 e).reg ↔ x ∈ st2.reg ∨ x = e := by
      intro x; simp [addReg, hf3.2.2.1]
    refine ⟨⟨WFTree_congr (st := st2) (st' := addReg st3 e) hf3.1 h2.base.wf, ?_, ?_, ?_⟩,
      ?_, ?_, ?_, ?_, ?_, ?_, ?_, ?_, ?_⟩
    · show st3.clslevel.length = st3.parent.length
      rw [hf3.2.1, hf3.1]; exact h2.base.len
    · intro k d hd; rw [hdq] at hd; rw [hsp]; exact h2.base.deq k d hd
    · intro x hx c hc
      rw [hregmem] at hx
      rw [hdq]
      rcases hx with hx | rfl
      · exact h2.base.tp x hx c hc
      · rw [het] at hc; cases hc
    · rw [clsEntries_addReg, hcl]
      simp only [Bool.false_eq_true, if_false, List.append_nil]
      have : clsEntries st3 = clsEntries st2 := by unfold clsEntries; rw [hf3.2.2.1]
      rw [this]; exact h2.clsDistinct
    · intro j
      rw [hie j]
      by_cases hj : e.target = Target.inst j
      · rw [if_pos hj]
        have hij : i = j := by rw [het] at hj; cases hj; rfl
        subst hij
        rw [List.map_append, List.nodup_append]
        refine ⟨h2.instDistinct i, by simp, ?_⟩
        intro a ha b hb
        simp only [List.map_cons, List.map_nil, List.mem_singleton] at hb
        rw [List.mem_map] at ha
        obtain ⟨x, hx, rfl⟩ := ha
        rw [hb, hel]
        exact hfresh x hx
      · rw [if_neg hj, List.append_nil]; exact h2.instDistinct j
    · intro e1 he1 e2 he2 ht hf
      rw [hregmem] at he1 he2
      rcases he1 with he1 | rfl <;> rcases he2 with he2 | rfl
      · exact h2.keys e1 he1 e2 he2 ht hf
      · exfalso; apply hk; rw [hasKey_iff]
        exact ⟨e1, he1, by rw [ht, het], by rw [hf, hef]⟩
      · exfalso; apply hk; rw [hasKey_iff]
        exact ⟨e2, he2, by rw [← ht, het], by rw [← hf, hef]⟩
      · rfl
    · intro x hx
      rw [hregmem] at hx
      show x.lsn < st3.lsn.length
      rw [hf3.2.2.2.1, hlsn2]
      rcases hx with hx | rfl
      · have := h2.lsnBound x hx; rw [hlsn2] at this; exact this
      · rw [hel]; exact hl.1
    · intro x hx
      rw [hregmem] at hx
      rcases hx with hx | rfl
      · exact h2.fnKind x hx
      · rcases hl.2 with ⟨_, hlf⟩ | ⟨_, hlf⟩
        · exact Or.inl ⟨by rw [hel, hef, hlf], by rw [hef]; exact hfn⟩
        · exact Or.inr (by rw [hel, hlf]; exact h.nle)
    · show n ≤ st3.lsn.length
      rw [hf3.2.2.2.1]; exact h2.nle
    · intro j
      have hc3 : collOf (addReg st3 e) j = collOf st3 j := rfl
      rw [hc3, ← hst3, collOf_setColl st2 i j newd hi2]
      unfold specColl
      rw [hst3, hie j]
      by_cases hij : i = j
      · subst hij
        rw [if_pos rfl, if_pos het, orderOf_append_single, hei, hel, ← hnewd]
        have := h2.inst i
        unfold specColl at this
        rw [← this]
      · rw [if_neg hij, if_neg (by rw [het]; intro hh; cases hh; exact hij rfl), List.append_nil]
        exact h2.inst j
    · intro j x' hx'
      have hx3 : st3.insts[j]? = some x' := hx'
      rw [← hst3] at hx3
      obtain ⟨x, hx, hxc⟩ := setColl_cls st2 i j newd x' hx3
      rw [hdq, ← hxc]; exact h2.instCls j x hx
    · intro x hx j hj
      rw [hregmem] at hx
      show j < st3.insts.length
      rw [hf3.2.2.2.2]
      rcases hx with hx | rfl
      · exact h2.instValid x hx j hj
      · rw [het] at hj; cases hj; exact hi2


theorem dequeOf_some_lt {st : St} {k : Cls} {d : List Lsn} (h : dequeOf st k = some d) :
    k < st.clslevel.length := by
  rcases Nat.lt_or_ge k st.clslevel.length with h1 | h1
  · exact h1
  · unfold dequeOf at h
    rw [List.getD_eq_getElem?_getD, List.getElem?_eq_none h1] at h
    cases h

theorem listenCls_eq (st : St) (c : Cls) (fn : Nat) (ins : Bool) (wrap : Nat) :
    listenCls st c fn ins wrap =
      storeKey (insLoop (mkListener st fn wrap).1 c (mkListener st fn wrap).2 ins
        (nClasses (mkListener st fn wrap).1)) (Target.cls c) fn (mkListener st fn wrap).2 ins := rfl

theorem listenCls_inv {n : Nat} {st : St} (h : EInv n st) (c : Cls) (fn : Nat) (ins : Bool) (wrap : Nat)
    (hc : c < nClasses st) (hfn : fn < n) (hkey : hasKey st (Target.cls c) fn = false)
    (hdist : wrap = 0 → ∀ x ∈ clsEntries st, x.lsn ≠ fn) : EInv n (listenCls st c fn ins wrap) := by
  have hmk := mkListener_core st fn wrap
  have hl := mkListener_lsn n st fn wrap hfn h.nle
  have h1 : EInv n (mkListener st fn wrap).1 := h.core hmk
  rw [listenCls_eq]
  generalize hst1 : (mkListener st fn wrap).1 = st1 at *
  generalize hlv : (mkListener st fn wrap).2 = l at *
  generalize he : ({ target := Target.cls c, fn := fn, lsn := l, ins := ins } : RegEntry) = e
  have het : e.target = Target.cls c := by rw [← he]
  have hel : e.lsn = l := by rw [← he]
  have hef : e.fn = fn := by rw [← he]
  have hei : e.ins = ins := by rw [← he]
  have hcl : isCls e = true := by unfold isCls; rw [het]
  have hm : nClasses st1 = st1.clslevel.length := by unfold nClasses; rw [h1.base.len]
  have hc1 : c < st1.clslevel.length := by rw [← hm]; unfold nClasses; rw [hmk.parent]; exact hc
  have hloop := insLoop_spec st1 h1.base c e het (nClasses st1) (by rw [hm]; exact Nat.le_refl _)
  rw [hel, hei] at hloop
  obtain ⟨hsame, hdone, hkeep⟩ := hloop
  generalize hst2 : insLoop st1 c l ins (nClasses st1) = st2 at *
  have hk2 : hasKey st2 (Target.cls c) fn = false := by
    unfold hasKey at hkey ⊢; rw [hsame.reg, hmk.reg]; exact hkey
  rw [storeKey_new hk2, he]
  -- the new listener object is not among the class-level listeners
  have hfresh : ∀ x ∈ clsEntries st1, x.lsn ≠ l := by
    intro x hx hxl
    have hx0 : x ∈ clsEntries st := by unfold clsEntries at hx ⊢; rw [hmk.reg] at hx; exact hx
    have hxr : x ∈ st.reg := (List.mem_filter.1 hx0).1
    rcases hl.2 with ⟨hw, hlf⟩ | ⟨hw, hlf⟩
    · exact hdist hw x hx0 (by rw [hxl, hlf])
    · have := h.lsnBound x hxr
      rw [hxl, hlf] at this
      exact absurd this (Nat.lt_irrefl _)
  have hpar : (addReg st2 e).parent = (addReg st1 e).parent := hsame.parent
  have hreg : (addReg st2 e).reg = (addReg st1 e).reg := by simp [addReg, hsame.reg]
  have hsp : ∀ k, specDeque (addReg st2 e) k = specDeque (addReg st1 e) k := specDeque_congr hpar hreg
  have hdq : ∀ k, dequeOf (addReg st2 e) k = dequeOf st2 k := fun k => rfl
  have hregmem : ∀ x, x ∈ (addReg st2 e).reg ↔ x ∈ st1.reg ∨ x = e := by
    intro x; simp [addReg, hsame.reg]
  have hsome : ∀ k, (dequeOf st1 k).isSome = true → (dequeOf st2 k).isSome = true := by
    intro k hk
    by_cases hr : Rel st1 c k
    · have hk' : k < nClasses st1 := by
        rw [hm]
        cases hd : dequeOf st1 k with
        | none => rw [hd] at hk; cases hk
        | some d => exact dequeOf_some_lt hd
      rw [hdone k hk' hr]; rfl
    · rw [hkeep k (Or.inr hr)]; exact hk
  have hie : ∀ j, instEntries (addReg st2 e) j = instEntries st1 j := by
    intro j
    rw [instEntries_addReg, if_neg (by rw [het]; intro hh; cases hh), List.append_nil]
    unfold instEntries; rw [hsame.reg]
  refine ⟨⟨WFTree_congr (st := st1) (st' := addReg st2 e) hsame.parent h1.base.wf, ?_, ?_, ?_⟩,
    ?_, ?_, ?_, ?_, ?_, ?_, ?_, ?_, ?_⟩
  · show st2.clslevel.length = st2.parent.length
    rw [hsame.len, hsame.parent]; exact h1.base.len
  · intro k d hd
    rw [hdq] at hd
    rw [hsp]
    by_cases hr : Rel st1 c k
    · have hk' : k < nClasses st1 := by
        rw [hm, ← hsame.len]; exact dequeOf_some_lt hd
      rw [hdone k hk' hr] at hd
      cases hd; rfl
    · rw [hkeep k (Or.inr hr)] at hd
      rw [specDeque_addReg st1 e c het k, if_neg hr]
      exact h1.base.deq k d hd
  · intro x hx t ht
    rw [hregmem] at hx
    rw [hdq]
    rcases hx with hx | rfl
    · exact hsome t (h1.base.tp x hx t ht)
    · rw [het] at ht; cases ht
      rw [hdone c (by rw [hm]; exact hc1) (rel_self st1 c)]; rfl
  · rw [clsEntries_addReg, hcl]
    simp only [if_true]
    have : clsEntries st2 = clsEntries st1 := by unfold clsEntries; rw [hsame.reg]
    rw [this, List.map_append, List.nodup_append]
    refine ⟨h1.clsDistinct, by simp, ?_⟩
    intro a ha b hb
    simp only [List.map_cons, List.map_nil, List.mem_singleton] at hb
    rw [List.mem_map] at ha
    obtain ⟨x, hx, rfl⟩ := ha
    rw [hb, hel]
    exact hfresh x hx
  · intro j; rw [hie j]; exact h1.instDistinct j
  · intro e1 he1 e2 he2 ht hf
    rw [hregmem] at he1 he2
    have hk1 : hasKey st1 (Target.cls c) fn = false := by
      unfold hasKey at hkey ⊢; rw [hmk.reg]; exact hkey
    rcases he1 with he1 | rfl <;> rcases he2 with he2 | rfl
    · exact h1.keys e1 he1 e2 he2 ht hf
    · exfalso
      have : hasKey st1 (Target.cls c) fn = true := by
        rw [hasKey_iff]; exact ⟨e1, he1, by rw [ht, het], by rw [hf, hef]⟩
      rw [hk1] at this; cases this
    · exfalso
      have : hasKey st1 (Target.cls c) fn = true := by
        rw [hasKey_iff]; exact ⟨e2, he2, by rw [← ht, het], by rw [← hf, hef]⟩
      rw [hk1] at this; cases this
    · rfl
  · intro x hx
    rw [hregmem] at hx
    show x.lsn < st2.lsn.length
    rw [hsame.lsn]
    rcases hx with hx | rfl
    · exact h1.lsnBound x hx
    · rw [hel]; exact hl.1
  · intro x hx
    rw [hregmem] at hx
    rcases hx with hx | rfl
    · exact h1.fnKind x hx
    · rcases hl.2 with ⟨_, hlf⟩ | ⟨_, hlf⟩
      · exact Or.inl ⟨by rw [hel, hef, hlf], by rw [hef]; exact hfn⟩
      · exact Or.inr (by rw [hel, hlf]; exact h.nle)
  · show n ≤ st2.lsn.length
    rw [hsame.lsn]; exact h1.nle
  · intro j
    have : collOf (addReg st2 e) j = collOf st1 j := by
      show collOf st2 j = collOf st1 j
      unfold collOf; rw [hsame.insts]
    rw [this]
    unfold specColl
    rw [hie j]
    exact h1.inst j
  · intro j x hx
    have hx1 : st1.insts[j]? = some x := by
      have : (addReg st2 e).insts = st1.insts := hsame.insts
      rw [this] at hx; exact hx
    rw [hdq]
    exact hsome x.cls (h1.instCls j x hx1)
  · intro x hx j hj
    rw [hregmem] at hx
    show j < st2.insts.length
    rw [hsame.insts]
    rcases hx with hx | rfl
    · exact h1.instValid x hx j hj
    · rw [het] at hj; cases hj

end SaVerif.Event
