import SaVerif.Lemmas.Txn
/-! Invariant lemmas for C24: the pool never holds a dirty DBAPI connection. -/
namespace SaVerif.Txn

/-- every DBAPI connection idle in the pool has no transaction in progress (so it will see
    exactly the committed rows when handed out), no savepoints, default isolation level -/
def PoolClean (db : DB) : Prop :=
  ∀ r, some r ∈ db.idle → r.follows = true ∧ r.saves = [] ∧ r.autocommit = false

/-- the connection's `_transaction` is a RootTransaction object -/
def RootPtr (c : Conn) : Prop := ∀ t, c.transaction = some t → (c.txn t).isRoot = true

/-- `db'` has the same reset style and no idle connection that `db` did not have -/
structure Shrinks (db db' : DB) : Prop where
  reset : db'.reset = db.reset
  idle : ∀ r, some r ∈ db'.idle → some r ∈ db.idle

theorem Shrinks.refl (db : DB) : Shrinks db db := ⟨rfl, fun _ h => h⟩
theorem Shrinks.trans {a b c : DB} (h1 : Shrinks a b) (h2 : Shrinks b c) : Shrinks a c :=
  ⟨h2.reset.trans h1.reset, fun r h => h1.idle r (h2.idle r h)⟩

theorem Shrinks.clean {db db' : DB} (h : Shrinks db db') (hc : PoolClean db) : PoolClean db' :=
  fun r hr => hc r (h.idle r hr)

/-- same idle queue and reset style -/
theorem shrinks_of_eq {db db' : DB} (h1 : db'.reset = db.reset) (h2 : db'.idle = db.idle) :
    Shrinks db db' := ⟨h1, fun r h => by rw [h2] at h; exact h⟩

theorem takeFault_shrinks (db : DB) (p : FPoint) : Shrinks db (db.takeFault p).2 := by
  unfold DB.takeFault
  split <;> exact shrinks_of_eq rfl rfl

theorem commit_shrinks (db : DB) : Shrinks db db.commit := shrinks_of_eq rfl rfl
theorem rollback_shrinks (db : DB) : Shrinks db db.rollback := shrinks_of_eq rfl rfl
theorem write_shrinks (db : DB) (d : Data) : Shrinks db (db.write d) := by
  unfold DB.write; split <;> exact shrinks_of_eq rfl rfl

theorem kill_shrinks (db : DB) : Shrinks db db.kill :=
  ⟨rfl, fun r h => by
    have h' : some r ∈ db.idle ++ [none] := h
    rcases List.mem_append.1 h' with h' | h'
    · exact h'
    · simp at h'⟩

theorem newRaw_shrinks (db : DB) : Shrinks db db.newRaw := shrinks_of_eq rfl rfl

theorem poolInvalidate_shrinks (db : DB) : Shrinks db db.poolInvalidate := by
  unfold DB.poolInvalidate
  split <;> exact shrinks_of_eq rfl rfl

theorem checkout_shrinks (db : DB) : Shrinks db db.checkout := by
  unfold DB.checkout
  split
  · exact newRaw_shrinks db
  · rename_i rest he
    exact ⟨rfl, fun r h => by rw [he]; exact List.mem_cons_of_mem _ h⟩
  · rename_i r rest he
    have hsub : ∀ x, some x ∈ rest → some x ∈ db.idle := fun x h => by
      rw [he]; exact List.mem_cons_of_mem _ h
    simp only []
    split
    · exact ⟨rfl, hsub⟩
    · split <;> exact ⟨rfl, hsub⟩

theorem apply_shrinks (db : DB) (q : Sql) (db' : DB) (r : Res) (h : db.apply q = (some db', r)) :
    Shrinks db db' := by
  unfold DB.apply at h
  split at h
  · split at h
    · simp only [Prod.mk.injEq, Option.some.injEq] at h; rw [← h.1]; exact write_shrinks _ _
    · simp at h
  · simp only [Prod.mk.injEq, Option.some.injEq] at h; rw [← h.1]; exact write_shrinks _ _
  · simp only [Prod.mk.injEq, Option.some.injEq] at h; rw [← h.1]; exact Shrinks.refl _
  · simp only [Prod.mk.injEq, Option.some.injEq] at h; rw [← h.1]; exact shrinks_of_eq rfl rfl
  · split at h
    · simp only [Prod.mk.injEq, Option.some.injEq] at h; rw [← h.1]; exact shrinks_of_eq rfl rfl
    · simp at h
  · split at h
    · simp only [Prod.mk.injEq, Option.some.injEq] at h; rw [← h.1]; exact shrinks_of_eq rfl rfl
    · simp at h

/-! ### what returning a connection does to the pool -/

/-- the held DBAPI connection has no uncommitted work and no savepoints -/
def HeldClean (db : DB) : Prop := db.raw.working = db.committed ∧ db.raw.saves = []

theorem poolClean_snoc {db : DB} {r : Raw} {idle : List (Option Raw)} (hc : PoolClean db)
    (hi : idle = db.idle ++ [some r]) (hr : r.follows = true ∧ r.saves = [] ∧ r.autocommit = false)
    (db' : DB) (hd : db'.idle = idle) : PoolClean db' := by
  intro x hx
  rw [hd, hi] at hx
  rcases List.mem_append.1 hx with hx | hx
  · exact hc x hx
  · simp only [List.mem_singleton, Option.some.injEq] at hx
    subst hx; exact hr

/-- reset-on-return (rollback or commit) always leaves the pool clean … -/
theorem checkin_clean_reset (db : DB) (b : Bool) (hrs : db.reset ≠ .none)
    (hb : b = true → HeldClean db) (hc : PoolClean db) :
    PoolClean (db.checkin b) ∧ (db.checkin b).reset = db.reset := by
  unfold DB.checkin
  cases hr : db.reset with
  | none => exact absurd hr hrs
  | rollback =>
    simp only []
    cases b with
    | true =>
      obtain ⟨h1, h2⟩ := hb rfl
      simp only [if_true, Bool.false_eq_true, if_false]
      refine ⟨?_, hr⟩
      refine poolClean_snoc hc rfl ?_ _ rfl
      simp [h1, h2]
    | false =>
      simp only [Bool.false_eq_true, if_false]
      cases hf : db.takeFault .rollback with
      | mk o db1 =>
        have hs : Shrinks db db1 := by have := takeFault_shrinks db .rollback; rw [hf] at this; exact this
        cases o with
        | some k =>
          simp only [if_true]
          exact ⟨(hs.trans (kill_shrinks db1)).clean hc, by simp [DB.kill, hs.reset, hr]⟩
        | none =>
          simp only [Bool.false_eq_true, if_false]
          refine ⟨?_, by simp [DB.rollback, hs.reset, hr]⟩
          refine poolClean_snoc (hs.clean hc) rfl ?_ _ rfl
          simp [DB.rollback]
  | commit =>
    simp only []
    cases hf : db.takeFault .commit with
    | mk o db1 =>
      have hs : Shrinks db db1 := by have := takeFault_shrinks db .commit; rw [hf] at this; exact this
      cases o with
      | some k =>
        simp only [if_true]
        exact ⟨(hs.trans (kill_shrinks db1)).clean hc, by simp [DB.kill, hs.reset, hr]⟩
      | none =>
        simp only [Bool.false_eq_true, if_false]
        refine ⟨?_, by simp [DB.commit, hs.reset, hr]⟩
        refine poolClean_snoc (hs.clean hc) rfl ?_ _ rfl
        simp [DB.commit]

/-- a checkout from a clean pool sees exactly the committed rows, has no savepoints and
    the default isolation level -/
theorem checkout_held_clean (db : DB) (hc : PoolClean db) :
    db.checkout.raw.working = db.checkout.committed ∧ db.checkout.raw.saves = [] ∧
    db.checkout.raw.autocommit = false := by
  unfold DB.checkout
  split
  · simp [DB.newRaw, DB.tick]
  · simp [DB.newRaw, DB.tick]
  · rename_i r rest he
    obtain ⟨h1, h2, h3⟩ := hc r (by rw [he]; exact List.mem_cons_self)
    simp only []
    split
    · simp [DB.newRaw, DB.tick]
    · simp [h1, h2, h3]


/-! ### preservation through the Connection functions -/

structure Pres (c c' : Conn) : Prop where
  root : RootPtr c → RootPtr c'
  db : Shrinks c.db c'.db

theorem Pres.refl (c : Conn) : Pres c c := ⟨id, Shrinks.refl _⟩
theorem Pres.trans {a b c : Conn} (h1 : Pres a b) (h2 : Pres b c) : Pres a c :=
  ⟨fun h => h2.root (h1.root h), h1.db.trans h2.db⟩

theorem txn_isRoot_lt {c : Conn} {t : Nat} (h : (c.txn t).isRoot = true) : t < c.txns.length := by
  rcases Nat.lt_or_ge t c.txns.length with h' | h'
  · exact h'
  · exfalso
    have : c.txns[t]? = none := by simp; omega
    simp [Conn.txn, List.getD_eq_getElem?_getD, this] at h
    exact absurd h (by decide)

/-- only the database changes -/
theorem pres_db (c : Conn) (db' : DB) (h : Shrinks c.db db') : Pres c { c with db := db' } :=
  ⟨fun hr => hr, h⟩

theorem pres_warn (c : Conn) : Pres c c.warn := ⟨fun hr => hr, Shrinks.refl _⟩

/-- a per-handle update that keeps `isRoot` -/
theorem setTxn_isRoot (c : Conn) (h : Nat) (f : Txn → Txn) (hf : ∀ t, (f t).isRoot = t.isRoot)
    (x : Nat) : ((c.setTxn h f).txn x).isRoot = (c.txn x).isRoot := by
  by_cases e : h = x
  · subst e
    by_cases hh : h < c.txns.length
    · rw [setTxn_txn_eq _ _ _ hh, hf]
    · have : c.txns[h]? = none := by simp; omega
      simp [Conn.setTxn, Conn.txn, List.getD_eq_getElem?_getD, this]
  · rw [setTxn_txn_ne _ _ _ _ e]

theorem pres_setTxn (c : Conn) (h : Nat) (f : Txn → Txn) (hf : ∀ t, (f t).isRoot = t.isRoot) :
    Pres c (c.setTxn h f) :=
  ⟨fun hr t ht => by rw [setTxn_isRoot _ _ _ hf]; exact hr t ht, Shrinks.refl _⟩

theorem pres_deactivate (c : Conn) (h : Nat) : Pres c (c.deactivate h) :=
  pres_setTxn c h _ (fun _ => rfl)

theorem pres_detach (c : Conn) : Pres c { c with transaction := none } :=
  ⟨fun _ t ht => (by cases ht), Shrinks.refl _⟩

theorem pres_setNested (c : Conn) (o : Option Nat) : Pres c { c with nested := o } :=
  ⟨fun hr => hr, Shrinks.refl _⟩

theorem pres_setCtx (c : Conn) (o : Option Nat) : Pres c { c with ctxMgr := o } :=
  ⟨fun hr => hr, Shrinks.refl _⟩

theorem pres_pushRoot (c : Conn) : Pres c c.pushRoot where
  root := fun _ t ht => by
    have : t = c.txns.length := by simp [Conn.pushRoot] at ht; exact ht.symm
    subst this
    rw [show c.pushRoot.txn c.txns.length = _ from txn_append_new c _]
  db := Shrinks.refl _

theorem pres_pushNested (c : Conn) : Pres c c.pushNested where
  root := fun hr t ht => by
    have ht' : c.transaction = some t := ht
    have := hr t ht'
    rw [show c.pushNested.txn t = c.txn t from txn_append_lt c _ t (txn_isRoot_lt this)]
    exact this
  db := Shrinks.refl _

theorem andThen_pres {c : Conn} {x : Conn × Res} {f : Conn → Conn × Res}
    (h1 : Pres c x.1) (h2 : ∀ c1, Pres c1 (f c1).1) : Pres c (andThen x f).1 := by
  obtain ⟨c1, r⟩ := x
  cases r <;> first | exact h1.trans (h2 c1) | exact h1

theorem andFinally_pres {c : Conn} {x : Conn × Res} {g : Conn → Conn}
    (h1 : Pres c x.1) (h2 : ∀ c1, Pres c1 (g c1)) : Pres c (andFinally x g).1 :=
  h1.trans (h2 x.1)

theorem revalidate_pres (c : Conn) : Pres c c.revalidate.1 := by
  unfold Conn.revalidate
  split
  · split
    · exact Pres.refl c
    · exact ⟨fun hr => hr, checkout_shrinks c.db⟩
  · exact Pres.refl c

theorem connProp_pres (c : Conn) : Pres c c.connProp.1 := by
  unfold Conn.connProp
  split
  · exact Pres.refl c
  · exact revalidate_pres c

theorem onDisconnect_pres (c : Conn) : Pres c c.onDisconnect := by
  unfold Conn.onDisconnect
  split
  · exact Pres.refl c
  · exact ⟨fun hr => hr, (poolInvalidate_shrinks c.db).trans (kill_shrinks _)⟩

theorem invalidate_pres (c : Conn) : Pres c c.invalidate.1 := by
  unfold Conn.invalidate
  split
  · exact Pres.refl c
  · split
    · exact Pres.refl c
    · exact ⟨fun hr => hr, kill_shrinks _⟩

theorem beginRoot_pres (c : Conn) : Pres c c.beginRoot.1 := by
  unfold Conn.beginRoot
  split
  · exact Pres.refl c
  · exact andThen_pres (connProp_pres c) (fun c1 => pres_pushRoot c1)

theorem begin_pres (c : Conn) : Pres c c.begin.1 := by
  unfold Conn.begin
  split
  · exact beginRoot_pres c
  · exact Pres.refl c

theorem autobegin_pres (c : Conn) : Pres c c.autobegin.1 := by
  unfold Conn.autobegin
  split
  · exact begin_pres c
  · exact Pres.refl c

theorem discError_pres (c : Conn) : Pres c c.discError.1 := by
  unfold Conn.discError
  split
  · simp only []
    split
    · exact Pres.refl c
    · exact ⟨fun hr => hr, kill_shrinks _⟩
  · exact onDisconnect_pres c

theorem plainError_pres (c : Conn) : Pres c c.plainError.1 := by
  unfold Conn.plainError
  split
  · exact Pres.refl c
  · split
    · cases hf : c.db.takeFault .rollback with
      | mk o db1 =>
        have hs : Shrinks c.db db1 := by
          have := takeFault_shrinks c.db .rollback; rw [hf] at this; exact this
        cases o with
        | some _ => exact pres_db c db1 hs
        | none => exact pres_db c _ (hs.trans (rollback_shrinks db1))
    · exact Pres.refl c

theorem dbapiError_pres (c : Conn) (k : FKind) : Pres c (c.dbapiError k).1 := by
  unfold Conn.dbapiError
  split
  · exact discError_pres c
  · cases k with
    | disc => exact discError_pres c
    | err => exact plainError_pres c

theorem dbapiCall_pres (c : Conn) (p : FPoint) (f : DB → DB) (hf : ∀ db, Shrinks db (f db)) :
    Pres c (c.dbapiCall p f).1 := by
  unfold Conn.dbapiCall
  cases hf' : c.db.takeFault p with
  | mk o db1 =>
    have hs : Shrinks c.db db1 := by
      have := takeFault_shrinks c.db p; rw [hf'] at this; exact this
    cases o with
    | some k => exact (pres_db c db1 hs).trans (dbapiError_pres _ k)
    | none => exact pres_db c _ (hs.trans (hf db1))

theorem runSql_pres (c : Conn) (q : Sql) : Pres c (c.runSql q).1 := by
  unfold Conn.runSql
  cases hf' : c.db.takeFault .execute with
  | mk o db1 =>
    have hs : Shrinks c.db db1 := by
      have := takeFault_shrinks c.db .execute; rw [hf'] at this; exact this
    cases o with
    | some k => exact (pres_db c db1 hs).trans (dbapiError_pres _ k)
    | none =>
      simp only []
      cases ha : c.db.apply q with
      | mk o2 r =>
        cases o2 with
        | some db2 => exact pres_db c db2 (apply_shrinks _ _ _ _ ha)
        | none => exact dbapiError_pres c .err

theorem execChecked_pres (c : Conn) (q : Sql) : Pres c (c.execChecked q).1 := by
  unfold Conn.execChecked
  split
  · exact Pres.refl c
  · split
    · exact Pres.refl c
    · exact andThen_pres (autobegin_pres c) (fun c1 => runSql_pres c1 q)

theorem execute_pres (c : Conn) (q : Sql) : Pres c (c.execute q).1 := by
  unfold Conn.execute
  refine andThen_pres (connProp_pres c) (fun c1 => ?_)
  exact andThen_pres (dbapiCall_pres c1 .cursor id (fun db => Shrinks.refl db))
    (fun c2 => execChecked_pres c2 q)

theorem nestedDeactivate_pres (c : Conn) (h : Nat) (w : Bool) : Pres c (c.nestedDeactivate h w) := by
  unfold Conn.nestedDeactivate
  split
  · exact pres_setNested c _
  · split
    · exact pres_warn c
    · exact Pres.refl c

theorem cancel_pres : ∀ (fuel : Nat) (c : Conn) (h : Nat), Pres c (Conn.cancel fuel c h) := by
  intro fuel
  induction fuel with
  | zero => intro c h; exact Pres.refl c
  | succ f ih =>
    intro c h
    simp only [Conn.cancel]
    have h1 : Pres c ((c.deactivate h).nestedDeactivate h true) :=
      (pres_deactivate c h).trans (nestedDeactivate_pres _ h true)
    split
    · exact h1.trans (ih _ _)
    · exact h1

theorem cancelNested_pres (c : Conn) : Pres c c.cancelNested := by
  unfold Conn.cancelNested
  split
  · exact cancel_pres _ _ _
  · exact Pres.refl c

theorem rootDeactivate_pres (c : Conn) (h : Nat) : Pres c (c.rootDeactivate h) := by
  unfold Conn.rootDeactivate
  split
  · exact pres_deactivate c h
  · split
    · exact pres_warn c
    · exact Pres.refl c

theorem rollbackImpl_pres (c : Conn) : Pres c c.rollbackImpl.1 := by
  unfold Conn.rollbackImpl
  split
  · exact dbapiCall_pres c .rollback DB.rollback rollback_shrinks
  · exact Pres.refl c

theorem rootCloseFinally_pres (c : Conn) (h : Nat) (b : Bool) : Pres c (c.rootCloseFinally h b) := by
  unfold Conn.rootCloseFinally
  have h1 : Pres c (if c.act h || b then c.rootDeactivate h else c) := by
    split
    · exact rootDeactivate_pres c h
    · exact Pres.refl c
  have key : ∀ c1 : Conn, Pres c1 (if c1.transaction == some h then { c1 with transaction := none } else c1) := by
    intro c1
    split
    · exact pres_detach _
    · exact Pres.refl _
  exact h1.trans (key _)

theorem rootCloseImpl_pres (c : Conn) (h : Nat) (b : Bool) : Pres c (c.rootCloseImpl h b).1 := by
  unfold Conn.rootCloseImpl
  refine andFinally_pres ?_ (fun c1 => rootCloseFinally_pres c1 h b)
  refine andThen_pres ?_ (fun c1 => cancelNested_pres c1)
  split
  · exact rollbackImpl_pres c
  · exact Pres.refl c

theorem commitImpl_pres (c : Conn) : Pres c c.commitImpl.1 := by
  unfold Conn.commitImpl
  exact andThen_pres (connProp_pres c) (fun c1 => dbapiCall_pres c1 .commit DB.commit commit_shrinks)

theorem rootCommit_pres (c : Conn) (h : Nat) : Pres c (c.rootCommit h).1 := by
  unfold Conn.rootCommit
  split
  · refine andThen_pres ?_ (fun c1 => pres_detach c1)
    exact andFinally_pres (commitImpl_pres c)
      (fun c1 => (cancelNested_pres c1).trans (rootDeactivate_pres _ h))
  · split
    · exact Pres.refl c
    · exact Pres.refl c

theorem nestedCloseImpl_pres (c : Conn) (h : Nat) (w : Bool) : Pres c (c.nestedCloseImpl h w).1 := by
  unfold Conn.nestedCloseImpl
  refine andFinally_pres ?_ (fun c1 => (pres_deactivate c1 h).trans (nestedDeactivate_pres _ h w))
  split
  · exact execute_pres c _
  · exact Pres.refl c

theorem nestedCommit_pres (c : Conn) (h : Nat) : Pres c (c.nestedCommit h).1 := by
  unfold Conn.nestedCommit
  split
  · refine andThen_pres ?_ (fun c1 => nestedDeactivate_pres c1 h true)
    exact andFinally_pres (execute_pres c _) (fun c1 => pres_deactivate c1 h)
  · split
    · exact Pres.refl c
    · exact Pres.refl c

theorem beginNested_pres (c : Conn) : Pres c c.beginNested.1 := by
  unfold Conn.beginNested
  refine andThen_pres (autobegin_pres c) (fun c1 => ?_)
  split
  · exact Pres.refl c1
  · simp only []
    have h0 : Pres c1 { c1 with spSeq := c1.spSeq + 1 } := ⟨fun hr => hr, Shrinks.refl _⟩
    exact h0.trans (andThen_pres (execute_pres _ _) (fun c2 => pres_pushNested c2))

theorem tCommit_pres (c : Conn) (h : Nat) : Pres c (c.tCommit h).1 := by
  unfold Conn.tCommit
  split
  · exact rootCommit_pres c h
  · exact nestedCommit_pres c h

theorem tRollback_pres (c : Conn) (h : Nat) : Pres c (c.tRollback h).1 := by
  unfold Conn.tRollback
  split
  · exact rootCloseImpl_pres c h true
  · exact nestedCloseImpl_pres c h true

theorem tClose_pres (c : Conn) (h : Nat) : Pres c (c.tClose h).1 := by
  unfold Conn.tClose
  split
  · exact rootCloseImpl_pres c h false
  · exact nestedCloseImpl_pres c h false

theorem commit_pres (c : Conn) : Pres c c.commit.1 := by
  unfold Conn.commit
  split
  · exact tCommit_pres c _
  · exact Pres.refl c

theorem rollback_pres (c : Conn) : Pres c c.rollback.1 := by
  unfold Conn.rollback
  split
  · exact tRollback_pres c _
  · exact Pres.refl c

theorem enter_pres (c : Conn) (h : Nat) : Pres c (c.enter h).1 := by
  unfold Conn.enter
  exact (pres_setTxn c h (fun t => { t with outerCtx := c.ctxMgr, subject := true }) (fun _ => rfl)).trans
    (pres_setCtx _ (some h))

theorem exitFinally_pres (c : Conn) (h : Nat) (b : Bool) : Pres c (c.exitFinally h b) := by
  unfold Conn.exitFinally
  have h1 : Pres c (if !b then { c with ctxMgr := (c.txn h).outerCtx } else c) := by
    split
    · exact pres_setCtx c _
    · exact Pres.refl c
  exact h1.trans (pres_setTxn _ h _ (fun _ => rfl))

theorem commitOrRollback_pres (c : Conn) (h : Nat) : Pres c (c.commitOrRollback h).1 := by
  unfold Conn.commitOrRollback
  simp only []
  have h1 := tCommit_pres c h
  have h2 := tRollback_pres (c.tCommit h).1 h
  cases hr : (c.tCommit h).2 <;> simp only [] <;>
    first
    | exact h1
    | (cases hr2 : ((c.tCommit h).1.tRollback h).2 <;> simp only [] <;> exact h1.trans h2)

theorem exit_pres (c : Conn) (h : Nat) (e : Bool) : Pres c (c.exit h e).1 := by
  unfold Conn.exit
  simp only []
  refine andFinally_pres ?_ (fun c1 => exitFinally_pres c1 h _)
  split
  · exact commitOrRollback_pres c h
  · split
    · split
      · exact tClose_pres c h
      · exact Pres.refl c
    · exact tRollback_pres c h

theorem setAutocommit_pres (c : Conn) : Pres c c.setAutocommit.1 := by
  unfold Conn.setAutocommit
  split
  · exact Pres.refl c
  · refine andThen_pres (connProp_pres c) (fun c1 => ?_)
    exact pres_db c1 _ ((commit_shrinks c1.db).trans (shrinks_of_eq rfl rfl))


/-! ### close(), garbage collection, new checkouts -/

def Inv (c : Conn) : Prop := RootPtr c ∧ PoolClean c.db ∧ c.db.reset ≠ .none

theorem Pres.inv {c c' : Conn} (h : Pres c c') (hi : Inv c) : Inv c' :=
  ⟨h.root hi.1, h.db.clean hi.2.1, by rw [h.db.reset]; exact hi.2.2⟩

/-- functions that touch neither the database nor the DBAPI connection -/
structure SameDb (c c' : Conn) : Prop where
  db : c'.db = c.db
  hasDbapi : c'.hasDbapi = c.hasDbapi

theorem SameDb.refl (c : Conn) : SameDb c c := ⟨rfl, rfl⟩
theorem SameDb.trans {a b c : Conn} (h1 : SameDb a b) (h2 : SameDb b c) : SameDb a c :=
  ⟨h2.db.trans h1.db, h2.hasDbapi.trans h1.hasDbapi⟩

theorem sameDb_deactivate (c : Conn) (h : Nat) : SameDb c (c.deactivate h) := ⟨rfl, rfl⟩

theorem sameDb_nestedDeactivate (c : Conn) (h : Nat) (w : Bool) : SameDb c (c.nestedDeactivate h w) := by
  unfold Conn.nestedDeactivate
  split
  · exact ⟨rfl, rfl⟩
  · split <;> exact ⟨rfl, rfl⟩

theorem sameDb_cancel : ∀ (fuel : Nat) (c : Conn) (h : Nat), SameDb c (Conn.cancel fuel c h) := by
  intro fuel
  induction fuel with
  | zero => intro c h; exact SameDb.refl c
  | succ f ih =>
    intro c h
    simp only [Conn.cancel]
    have h1 : SameDb c ((c.deactivate h).nestedDeactivate h true) :=
      (sameDb_deactivate c h).trans (sameDb_nestedDeactivate _ h true)
    split
    · exact h1.trans (ih _ _)
    · exact h1

theorem sameDb_cancelNested (c : Conn) : SameDb c c.cancelNested := by
  unfold Conn.cancelNested
  split
  · exact sameDb_cancel _ _ _
  · exact SameDb.refl c

theorem sameDb_rootDeactivate (c : Conn) (h : Nat) : SameDb c (c.rootDeactivate h) := by
  unfold Conn.rootDeactivate
  split
  · exact ⟨rfl, rfl⟩
  · split <;> exact ⟨rfl, rfl⟩

theorem sameDb_rootCloseFinally (c : Conn) (h : Nat) (b : Bool) : SameDb c (c.rootCloseFinally h b) := by
  unfold Conn.rootCloseFinally
  have h1 : SameDb c (if c.act h || b then c.rootDeactivate h else c) := by
    split
    · exact sameDb_rootDeactivate c h
    · exact SameDb.refl c
  have key : ∀ c1 : Conn, SameDb c1 (if c1.transaction == some h then { c1 with transaction := none } else c1) := by
    intro c1
    split <;> exact ⟨rfl, rfl⟩
  exact h1.trans (key _)

theorem andThen_not_ok {x : Conn × Res} {f : Conn → Conn × Res} (h : x.2 ≠ .ok) : andThen x f = x := by
  obtain ⟨c, r⟩ := x
  cases r <;> first | rfl | exact absurd rfl h

theorem discError_ne_ok (c : Conn) : c.discError.2 ≠ .ok := by
  unfold Conn.discError
  split <;> simp

theorem plainError_ne_ok (c : Conn) : c.plainError.2 ≠ .ok := by
  unfold Conn.plainError
  split
  · simp
  · split
    · split <;> simp
    · simp

theorem dbapiError_ne_ok (c : Conn) (k : FKind) : (c.dbapiError k).2 ≠ .ok := by
  unfold Conn.dbapiError
  split
  · exact discError_ne_ok c
  · cases k with
    | disc => exact discError_ne_ok c
    | err => exact plainError_ne_ok c

/-- closing an ACTIVE root transaction without error while the DBAPI connection is still
    held means the ROLLBACK really happened -/
theorem rootClose_heldClean (c : Conn) (t : Nat) (b : Bool) (hact : c.act t = true)
    (hok : (c.rootCloseImpl t b).2 = .ok) (hd : (c.rootCloseImpl t b).1.hasDbapi = true) :
    HeldClean (c.rootCloseImpl t b).1.db := by
  unfold Conn.rootCloseImpl at hok hd ⊢
  simp only [hact, if_true, andFinally] at hok hd ⊢
  have hf := sameDb_rootCloseFinally
    (andThen c.rollbackImpl fun c => (c.cancelNested, Res.ok)).1 t b
  rw [hf.db]
  rw [hf.hasDbapi] at hd
  unfold Conn.rollbackImpl at hok hd ⊢
  cases hh : c.hasDbapi with
  | false =>
    simp only [hh, Bool.false_eq_true, if_false, andThen_ok] at hd
    rw [(sameDb_cancelNested c).hasDbapi, hh] at hd
    cases hd
  | true =>
    simp only [hh, if_true] at hok hd ⊢
    unfold Conn.dbapiCall at hok hd ⊢
    cases hf' : c.db.takeFault .rollback with
    | mk o db1 =>
      simp only [hf'] at hok hd ⊢
      cases o with
      | some k =>
        exfalso
        simp only [] at hok
        rw [andThen_not_ok (dbapiError_ne_ok _ k)] at hok
        exact dbapiError_ne_ok _ k hok
      | none =>
        simp only [andThen_ok]
        rw [(sameDb_cancelNested _).db]
        simp [HeldClean, DB.rollback]

theorem release_inv {c : Conn} (b : Bool) (hi : Inv c) (hb : b = true → c.hasDbapi = true → HeldClean c.db) :
    Inv (c.release b) := by
  obtain ⟨h1, h2, h3⟩ := hi
  unfold Conn.release
  cases hh : c.hasDbapi with
  | false => simp only [Bool.false_eq_true, if_false]; exact ⟨h1, h2, h3⟩
  | true =>
    simp only [if_true]
    obtain ⟨k1, k2⟩ := checkin_clean_reset c.db b h3 (fun e => hb e hh) h2
    exact ⟨h1, k1, by rw [k2]; exact h3⟩

theorem close_inv {c : Conn} (hi : Inv c) : Inv c.close.1 := by
  unfold Conn.close
  cases ht : c.transaction with
  | none =>
    simp only []
    exact release_inv false hi (fun e => by cases e)
  | some t =>
    simp only []
    have hp := tClose_pres c t
    cases hr : (c.tClose t).2 with
    | ok =>
      have e : c.tClose t = ((c.tClose t).1, .ok) := by rw [← hr]
      rw [e, andThen_ok]
      refine release_inv _ (hp.inv hi) ?_
      intro hact hd
      have hroot := hi.1 t ht
      have e2 : c.tClose t = c.rootCloseImpl t false := by simp [Conn.tClose, hroot]
      rw [e2] at hr hd ⊢
      exact rootClose_heldClean c t false hact hr hd
    | _ =>
      have : (andThen (c.tClose t) fun c1 => (c1.release (c.act t), Res.ok)) = c.tClose t := by
        cases h' : c.tClose t with
        | mk c1 r =>
          rw [h'] at hr
          simp only at hr
          subst hr
          rfl
      rw [this]
      exact hp.inv hi

theorem gc_inv {c : Conn} (hi : Inv c) : Inv c.gc := by
  obtain ⟨_, h2, h3⟩ := hi
  unfold Conn.gc
  refine ⟨fun t ht => (by cases ht), ?_⟩
  cases hh : c.hasDbapi with
  | false => simp only [Bool.false_eq_true, if_false]; exact ⟨h2, h3⟩
  | true =>
    simp only [if_true]
    obtain ⟨k1, k2⟩ := checkin_clean_reset c.db false h3 (fun e => by cases e) h2
    exact ⟨k1, by rw [k2]; exact h3⟩

theorem connect_inv {db : DB} (h2 : PoolClean db) (h3 : db.reset ≠ .none) : Inv (Conn.connect db) :=
  ⟨fun t ht => (by cases ht), (checkout_shrinks db).clean h2, (by
    show db.checkout.reset ≠ .none
    rw [(checkout_shrinks db).reset]; exact h3)⟩

theorem warmTake_clean : ∀ (n : Nat) (db : DB) (acc : List Raw), PoolClean db → db.reset ≠ .none →
    PoolClean (DB.warmTake n db acc).1 ∧ (DB.warmTake n db acc).1.reset ≠ .none := by
  intro n
  induction n with
  | zero => intro db acc h2 h3; exact ⟨h2, h3⟩
  | succ n ih =>
    intro db acc h2 h3
    simp only [DB.warmTake]
    exact ih _ _ ((checkout_shrinks db).clean h2) (by rw [(checkout_shrinks db).reset]; exact h3)

theorem warmReturn_clean : ∀ (l : List Raw) (db : DB), PoolClean db → db.reset ≠ .none →
    PoolClean (DB.warmReturn l db) ∧ (DB.warmReturn l db).reset ≠ .none := by
  intro l
  induction l with
  | nil => intro db h2 h3; exact ⟨h2, h3⟩
  | cons r rs ih =>
    intro db h2 h3
    simp only [DB.warmReturn]
    have hc : PoolClean ({ db with raw := r } : DB) := h2
    obtain ⟨k1, k2⟩ := checkin_clean_reset ({ db with raw := r } : DB) false h3 (fun e => by cases e) hc
    exact ih _ k1 (by rw [k2]; exact h3)

theorem warm_clean (n : Nat) (db : DB) (h2 : PoolClean db) (h3 : db.reset ≠ .none) :
    PoolClean (DB.warm n db) ∧ (DB.warm n db).reset ≠ .none := by
  unfold DB.warm
  simp only []
  obtain ⟨a1, a2⟩ := warmTake_clean n db [] h2 h3
  obtain ⟨b1, b2⟩ := warmReturn_clean (DB.warmTake n db []).2 (DB.warmTake n db []).1 a1 a2
  exact ⟨b1, b2⟩

theorem step_inv {c : Conn} (hi : Inv c) (op : Op) : Inv (c.step op).1 := by
  cases op with
  | begin => exact (begin_pres c).inv hi
  | beginNested => exact (beginNested_pres c).inv hi
  | exec s => exact (execute_pres c _).inv hi
  | commit => exact (commit_pres c).inv hi
  | rollback => exact (rollback_pres c).inv hi
  | close => exact close_inv hi
  | tCommit h => exact (tCommit_pres c h).inv hi
  | tRollback h => exact (tRollback_pres c h).inv hi
  | tClose h => exact (tClose_pres c h).inv hi
  | enter h => exact (enter_pres c h).inv hi
  | exitOk h => exact (exit_pres c h false).inv hi
  | exitExc h => exact (exit_pres c h true).inv hi
  | invalidate => exact (invalidate_pres c).inv hi
  | arm p k =>
    exact ⟨hi.1, hi.2.1, hi.2.2⟩
  | disarm =>
    exact ⟨hi.1, hi.2.1, hi.2.2⟩
  | warm n =>
    obtain ⟨a, b⟩ := warm_clean n c.db hi.2.1 hi.2.2
    exact ⟨hi.1, a, b⟩
  | connect =>
    have := gc_inv hi
    exact connect_inv this.2.1 this.2.2
  | gc => exact gc_inv hi
  | autocommit => exact (setAutocommit_pres c).inv hi

theorem run_inv : ∀ (ops : List Op) (c : Conn), Inv c → Inv (c.run ops) := by
  intro ops
  induction ops with
  | nil => intro c h; exact h
  | cons op ops ih => intro c h; exact ih _ (step_inv h op)

end SaVerif.Txn
