import SaVerif.Lemmas.Txn
/-! Invariant lemmas for C24: the pool never holds a dirty DBAPI connection. -/
namespace SaVerif.Txn

/-- every DBAPI connection idle in the pool has no transaction in progress (so it will see
    exactly the committed rows when handed out), no savepoints, default isolation level -/
def PoolClean (db : DB) : Prop :=
  ∀ r, some r ∈ db.idle → r.follows = true ∧ r.saves = [] ∧ r.autocommit = false ∧
    r.readUnc = false ∧ r.finalize = []

/-- a non-default isolation level on the held DBAPI connection is always accompanied by a
    queued reset callback that covers the isolation level -/
def IsoOk (r : Raw) : Prop :=
  (r.autocommit = true ∨ r.readUnc = true) → r.finalize.any id = true

def HeldIso (db : DB) : Prop := IsoOk db.raw

/-- the connection's `_transaction` is a RootTransaction object -/
def RootPtr (c : Conn) : Prop := ∀ t, c.transaction = some t → (c.txn t).isRoot = true

/-- `db'` has the same reset style and no idle connection that `db` did not have -/
structure Shrinks (db db' : DB) : Prop where
  cfg : db'.cfg = db.cfg       -- reset_on_return style and skip_autocommit_rollback
  idle : ∀ r, some r ∈ db'.idle → some r ∈ db.idle
  held : PoolClean db → HeldIso db → HeldIso db'

theorem Shrinks.reset {db db' : DB} (h : Shrinks db db') : db'.reset = db.reset :=
  congrArg Prod.fst h.cfg
theorem Shrinks.skipAc {db db' : DB} (h : Shrinks db db') : db'.skipAc = db.skipAc :=
  congrArg Prod.snd h.cfg

theorem Shrinks.clean {db db' : DB} (h : Shrinks db db') (hc : PoolClean db) : PoolClean db' :=
  fun r hr => hc r (h.idle r hr)

theorem Shrinks.refl (db : DB) : Shrinks db db := ⟨rfl, fun _ h => h, fun _ h => h⟩
theorem Shrinks.trans {a b c : DB} (h1 : Shrinks a b) (h2 : Shrinks b c) : Shrinks a c :=
  ⟨h2.cfg.trans h1.cfg, fun r h => h1.idle r (h2.idle r h),
   fun hc hi => h2.held (h1.clean hc) (h1.held hc hi)⟩

/-- same idle queue, reset style and isolation state of the held connection -/
theorem shrinks_of_eq {db db' : DB} (h1 : db'.cfg = db.cfg) (h2 : db'.idle = db.idle)
    (h3 : db'.raw.autocommit = db.raw.autocommit) (h4 : db'.raw.readUnc = db.raw.readUnc)
    (h5 : db'.raw.finalize = db.raw.finalize) :
    Shrinks db db' :=
  ⟨h1, fun r h => by rw [h2] at h; exact h, fun _ hi => by unfold HeldIso IsoOk; rw [h3, h4, h5]; exact hi⟩

theorem heldIso_clean {db : DB} (h1 : db.raw.autocommit = false) (h2 : db.raw.readUnc = false) :
    HeldIso db := by
  intro h; rcases h with h | h
  · rw [h1] at h; cases h
  · rw [h2] at h; cases h

theorem takeFault_shrinks (db : DB) (p : FPoint) : Shrinks db (db.takeFault p).2 := by
  unfold DB.takeFault
  split <;> exact shrinks_of_eq rfl rfl rfl rfl rfl

theorem commit_shrinks (db : DB) : Shrinks db db.commit := shrinks_of_eq rfl rfl rfl rfl rfl
theorem rollback_shrinks (db : DB) : Shrinks db db.rollback := shrinks_of_eq rfl rfl rfl rfl rfl
theorem write_shrinks (db : DB) (d : Data) : Shrinks db (db.write d) := by
  unfold DB.write; split <;> exact shrinks_of_eq rfl rfl rfl rfl rfl

theorem kill_shrinks (db : DB) : Shrinks db db.kill :=
  ⟨rfl, fun r h => by
    have h' : some r ∈ db.idle ++ [none] := h
    rcases List.mem_append.1 h' with h' | h'
    · exact h'
    · simp at h', fun _ _ => heldIso_clean rfl rfl⟩

theorem newRaw_shrinks (db : DB) : Shrinks db db.newRaw :=
  ⟨rfl, fun _ h => h, fun _ _ => heldIso_clean rfl rfl⟩

theorem poolInvalidate_shrinks (db : DB) : Shrinks db db.poolInvalidate := by
  unfold DB.poolInvalidate
  split <;> exact shrinks_of_eq rfl rfl rfl rfl rfl

/-- everything `checkoutPre` can do: pop the head of the queue and maybe read the clock -/
structure PreSpec (db db1 : DB) (o : Option Raw) : Prop where
  cfg : db1.cfg = db.cfg
  committed : db1.committed = db.committed
  raw : db1.raw = db.raw
  faults : db1.faults = db.faults
  listener : db1.listener = db.listener
  engineOpts : db1.engineOpts = db.engineOpts
  recycle : db1.recycle = db.recycle
  nextRid : db1.nextRid = db.nextRid
  invalTime : db1.invalTime = db.invalTime
  clock : db.clock ≤ db1.clock
  idle : ∀ x, some x ∈ db1.idle → some x ∈ db.idle
  out : ∀ r, o = some r → some r ∈ db.idle ∧ ¬ (db.invalTime > r.born)

theorem staleCheck_spec (db : DB) (r : Raw) :
    (db.staleCheck r).1.cfg = db.cfg ∧ (db.staleCheck r).1.committed = db.committed ∧
    (db.staleCheck r).1.raw = db.raw ∧ (db.staleCheck r).1.faults = db.faults ∧
    (db.staleCheck r).1.listener = db.listener ∧ (db.staleCheck r).1.engineOpts = db.engineOpts ∧
    (db.staleCheck r).1.recycle = db.recycle ∧ (db.staleCheck r).1.nextRid = db.nextRid ∧
    (db.staleCheck r).1.invalTime = db.invalTime ∧ db.clock ≤ (db.staleCheck r).1.clock ∧
    (db.staleCheck r).1.idle = db.idle ∧
    ((db.staleCheck r).2 = false → ¬ (db.invalTime > r.born)) := by
  unfold DB.staleCheck
  cases hr : db.recycle with
  | none => simp [hr]
  | some rc => simp [DB.tick, hr, DB.cfg]

theorem checkoutPre_spec (db : DB) : PreSpec db db.checkoutPre.1 db.checkoutPre.2.1 := by
  unfold DB.checkoutPre
  cases hi : db.idle with
  | nil =>
    exact ⟨rfl, rfl, rfl, rfl, rfl, rfl, rfl, rfl, rfl, Nat.le_refl _, fun x h => by rw [hi] at h ⊢; exact h,
      fun r h => by cases h⟩
  | cons x rest =>
    cases x with
    | none =>
      exact ⟨rfl, rfl, rfl, rfl, rfl, rfl, rfl, rfl, rfl, Nat.le_refl _,
        fun y h => by rw [hi]; exact List.mem_cons_of_mem _ h, fun r h => by cases h⟩
    | some r =>
      simp only []
      obtain ⟨a1, a2, a3, a4, a5, a6, a7, a8, a9, a10, a11, a12⟩ :=
        staleCheck_spec ({ db with idle := rest } : DB) r
      cases hst : (({ db with idle := rest } : DB).staleCheck r).2 with
      | true =>
        simp only [if_true]
        exact ⟨a1, a2, a3, a4, a5, a6, a7, a8, a9, a10,
          fun y h => by rw [a11] at h; rw [hi]; exact List.mem_cons_of_mem _ h, fun r' h => by cases h⟩
      | false =>
        simp only [Bool.false_eq_true, if_false]
        refine ⟨a1, a2, a3, a4, a5, a6, a7, a8, a9, a10,
          fun y h => by rw [a11] at h; rw [hi]; exact List.mem_cons_of_mem _ h, fun r' h => ?_⟩
        simp only [Option.some.injEq] at h
        subst h
        exact ⟨by rw [hi]; exact List.mem_cons_self, a12 hst⟩

/-- a state reached by `checkoutPre` relates to the original like `Shrinks` -/
theorem preSpec_shrinks {db db1 : DB} {o : Option Raw} (h : PreSpec db db1 o) : Shrinks db db1 :=
  ⟨h.cfg, h.idle, fun _ hi => by unfold HeldIso; rw [h.raw]; exact hi⟩

/-- `staleCheck` at most reads the clock -/
theorem staleCheck_state (db : DB) (r : Raw) :
    (db.staleCheck r).1 = db ∨ (db.staleCheck r).1 = db.tick.1 := by
  unfold DB.staleCheck
  cases db.recycle with
  | none => exact Or.inl rfl
  | some rc => exact Or.inr rfl

/-- whatever is closed under "new DBAPI connection" and "clock reading" holds of a freshly
    created and checked-out record -/
theorem freshRaw_cases (db : DB) (P : DB → Prop) (h1 : P db.newRaw)
    (ht : ∀ d, P d → P d.tick.1) (hn : ∀ d, P d → P d.newRaw) : P db.freshRaw := by
  unfold DB.freshRaw
  simp only []
  rcases staleCheck_state db.newRaw db.newRaw.raw with h | h
  · split
    · rw [h]; exact hn _ h1
    · rw [h]; exact h1
  · split
    · rw [h]; exact hn _ (ht _ h1)
    · rw [h]; exact ht _ h1

/-- case analysis of a successful `Pool.connect()` -/
theorem checkout_cases (db : DB) (P : DB → Prop)
    (h1 : ∀ db1 r, PreSpec db db1 (some r) → P (db1.handOut r))
    (h2 : ∀ db1, PreSpec db db1 none → P db1.newRaw)
    (ht : ∀ d, P d → P d.tick.1) (hn : ∀ d, P d → P d.newRaw) : P db.checkout := by
  have hp := checkoutPre_spec db
  unfold DB.checkout
  cases hx : db.checkoutPre with
  | mk db1 rest =>
    obtain ⟨o, hr⟩ := rest
    rw [hx] at hp
    cases o with
    | none =>
      cases hr with
      | true => exact h2 db1 hp
      | false => exact freshRaw_cases db1 P (h2 db1 hp) ht hn
    | some r => exact h1 db1 r hp

theorem handOut_frame (db : DB) (r : Raw) :
    (db.handOut r).cfg = db.cfg ∧ (db.handOut r).committed = db.committed ∧
    (db.handOut r).faults = db.faults ∧ (db.handOut r).listener = db.listener ∧
    (db.handOut r).engineOpts = db.engineOpts ∧ (db.handOut r).recycle = db.recycle ∧
    (db.handOut r).nextRid = db.nextRid ∧ (db.handOut r).invalTime = db.invalTime ∧
    (db.handOut r).clock = db.clock ∧ (db.handOut r).idle = db.idle ∧
    (db.handOut r).raw.rid = r.rid ∧ (db.handOut r).raw.born = r.born := by
  unfold DB.handOut
  split <;> exact ⟨rfl, rfl, rfl, rfl, rfl, rfl, rfl, rfl, rfl, rfl, rfl, rfl⟩

theorem checkout_shrinks (db : DB) : Shrinks db db.checkout := by
  apply checkout_cases db (fun d => Shrinks db d)
  · intro db1 r hp
    have hin := (hp.out r rfl).1
    refine ⟨?_, ?_, ?_⟩
    · have : (db1.handOut r).cfg = db1.cfg := by unfold DB.handOut; split <;> rfl
      rw [this]; exact hp.cfg
    · intro x hx
      have : (db1.handOut r).idle = db1.idle := by unfold DB.handOut; split <;> rfl
      rw [this] at hx; exact hp.idle x hx
    · intro hc _
      have := hc r hin
      have e1 : (db1.handOut r).raw.autocommit = r.autocommit := by unfold DB.handOut; split <;> rfl
      have e2 : (db1.handOut r).raw.readUnc = r.readUnc := by unfold DB.handOut; split <;> rfl
      exact heldIso_clean (by rw [e1]; exact this.2.2.1) (by rw [e2]; exact this.2.2.2.1)
  · intro db1 hp
    exact (preSpec_shrinks hp).trans (newRaw_shrinks db1)
  · intro d h
    exact h.trans (shrinks_of_eq rfl rfl rfl rfl rfl)
  · intro d h
    exact h.trans (newRaw_shrinks d)

theorem apply_shrinks (db : DB) (q : Sql) (db' : DB) (r : Res) (h : db.apply q = (some db', r)) :
    Shrinks db db' := by
  unfold DB.apply at h
  split at h
  · split at h
    · simp only [Prod.mk.injEq, Option.some.injEq] at h; rw [← h.1]; exact write_shrinks _ _
    · simp at h
  · simp only [Prod.mk.injEq, Option.some.injEq] at h; rw [← h.1]; exact write_shrinks _ _
  · simp only [Prod.mk.injEq, Option.some.injEq] at h; rw [← h.1]; exact Shrinks.refl _
  · simp only [Prod.mk.injEq, Option.some.injEq] at h; rw [← h.1]; exact shrinks_of_eq rfl rfl rfl rfl rfl
  · split at h
    · rename_i r' hr
      simp only [Prod.mk.injEq, Option.some.injEq] at h; rw [← h.1]
      unfold Raw.rollbackTo at hr
      split at hr
      · simp only [Option.some.injEq] at hr; rw [← hr]; exact shrinks_of_eq rfl rfl rfl rfl rfl
      · simp at hr
    · simp at h
  · split at h
    · rename_i r' hr
      simp only [Prod.mk.injEq, Option.some.injEq] at h; rw [← h.1]
      unfold Raw.release at hr
      split at hr
      · simp only [Option.some.injEq] at hr; rw [← hr]; split <;> exact shrinks_of_eq rfl rfl rfl rfl rfl
      · simp at hr
    · simp at h

/-! ### what returning a connection does to the pool -/

/-- the held DBAPI connection has no uncommitted work and no savepoints -/
def HeldClean (db : DB) : Prop := db.raw.working = db.committed ∧ db.raw.saves = []

theorem poolClean_snoc {db : DB} {r : Raw} {idle : List (Option Raw)} (hc : PoolClean db)
    (hi : idle = db.idle ++ [some r])
    (hr : r.follows = true ∧ r.saves = [] ∧ r.autocommit = false ∧ r.readUnc = false ∧ r.finalize = [])
    (db' : DB) (hd : db'.idle = idle) : PoolClean db' := by
  intro x hx
  rw [hd, hi] at hx
  rcases List.mem_append.1 hx with hx | hx
  · exact hc x hx
  · simp only [List.mem_singleton, Option.some.injEq] at hx
    subst hx; exact hr

/-- the record put back by `checkin` once the transaction state is clean -/
theorem returned_clean (db : DB) (hw : db.raw.working = db.committed) (hs : db.raw.saves = [])
    (hi : HeldIso db) :
    let iso := db.raw.finalize.any id
    let r : Raw := { db.raw with autocommit := db.raw.autocommit && !iso, readUnc := db.raw.readUnc && !iso,
                                 finalize := [],
                                 follows := decide (db.raw.working = db.committed) && db.raw.saves.isEmpty }
    r.follows = true ∧ r.saves = [] ∧ r.autocommit = false ∧ r.readUnc = false ∧ r.finalize = [] := by
  refine ⟨by simp [hw, hs], hs, ?_, ?_, rfl⟩
  · cases ha : db.raw.autocommit with
    | false => rfl
    | true => simp [hi (Or.inl ha)]
  · cases hu : db.raw.readUnc with
    | false => rfl
    | true => simp [hi (Or.inr hu)]

/-- reset-on-return (rollback or commit) always leaves the pool clean … -/
theorem checkin_clean_gen (db : DB) (b : Bool) (hrs : db.reset ≠ .none)
    (hauto : db.skipsRollback = true → HeldClean db)
    (hb : b = true → HeldClean db) (hc : PoolClean db) (hi : HeldIso db) :
    PoolClean (db.checkin b) ∧ (db.checkin b).cfg = db.cfg ∧ HeldIso (db.checkin b) := by
  unfold DB.checkin
  cases hr : db.reset with
  | none => exact absurd hr hrs
  | rollback =>
    simp only []
    cases hbb : (b || db.skipsRollback) with
    | true =>
      have hcl : HeldClean db := by
        cases hb' : b with
        | true => exact hb hb'
        | false => rw [hb'] at hbb; exact hauto (by simpa using hbb)
      obtain ⟨h1, h2⟩ := hcl
      simp only [if_true, Bool.false_eq_true, if_false]
      have hrc := returned_clean db h1 h2 hi
      refine ⟨poolClean_snoc hc rfl hrc _ rfl, rfl, heldIso_clean hrc.2.2.1 hrc.2.2.2.1⟩
    | false =>
      simp only [Bool.false_eq_true, if_false]
      cases hf : db.takeFault .rollback with
      | mk o db1 =>
        have hs : Shrinks db db1 := by have := takeFault_shrinks db .rollback; rw [hf] at this; exact this
        cases o with
        | some k =>
          simp only [if_true]
          exact ⟨(hs.trans (kill_shrinks db1)).clean hc, by simp [DB.cfg, DB.kill, hs.reset, hs.skipAc],
            heldIso_clean rfl rfl⟩
        | none =>
          simp only [Bool.false_eq_true, if_false]
          have hi1 : HeldIso db1.rollback := (hs.trans (rollback_shrinks db1)).held hc hi
          have hrc := returned_clean db1.rollback rfl rfl hi1
          refine ⟨poolClean_snoc (hs.clean hc) rfl hrc _ rfl, by simp [DB.cfg, DB.rollback, hs.reset, hs.skipAc],
            heldIso_clean hrc.2.2.1 hrc.2.2.2.1⟩
  | commit =>
    simp only []
    cases hf : db.takeFault .commit with
    | mk o db1 =>
      have hs : Shrinks db db1 := by have := takeFault_shrinks db .commit; rw [hf] at this; exact this
      cases o with
      | some k =>
        simp only [if_true]
        exact ⟨(hs.trans (kill_shrinks db1)).clean hc, by simp [DB.cfg, DB.kill, hs.reset, hs.skipAc],
          heldIso_clean rfl rfl⟩
      | none =>
        simp only [Bool.false_eq_true, if_false]
        have hi1 : HeldIso db1.commit := (hs.trans (commit_shrinks db1)).held hc hi
        have hrc := returned_clean db1.commit rfl rfl hi1
        refine ⟨poolClean_snoc (hs.clean hc) rfl hrc _ rfl, by simp [DB.cfg, DB.commit, hs.reset, hs.skipAc],
          heldIso_clean hrc.2.2.1 hrc.2.2.2.1⟩

/-- … in particular for engines without `skip_autocommit_rollback` -/
theorem checkin_clean_reset (db : DB) (b : Bool) (hrs : db.reset ≠ .none) (hsk : db.skipAc = false)
    (hb : b = true → HeldClean db) (hc : PoolClean db) (hi : HeldIso db) :
    PoolClean (db.checkin b) ∧ (db.checkin b).cfg = db.cfg ∧ HeldIso (db.checkin b) :=
  checkin_clean_gen db b hrs (fun h => by simp [DB.skipsRollback, hsk] at h) hb hc hi

/-- a checkout from a clean pool sees exactly the committed rows, has no savepoints and
    the default isolation level -/
theorem checkout_held_clean (db : DB) (hc : PoolClean db) :
    db.checkout.raw.working = db.checkout.committed ∧ db.checkout.raw.saves = [] ∧
    db.checkout.raw.autocommit = false ∧ db.checkout.raw.readUnc = false ∧
    db.checkout.raw.finalize = [] := by
  apply checkout_cases db (fun d => d.raw.working = d.committed ∧ d.raw.saves = [] ∧
    d.raw.autocommit = false ∧ d.raw.readUnc = false ∧ d.raw.finalize = [])
  · intro db1 r hp
    obtain ⟨h1, h2, h3, h4, h5⟩ := hc r (hp.out r rfl).1
    simp only [DB.handOut, h1, if_true]
    exact ⟨trivial, h2, h3, h4, h5⟩
  · intro db1 _
    simp [DB.newRaw, DB.tick]
  · intro d h
    exact h
  · intro d _
    simp [DB.newRaw, DB.tick]

/-- what a failing connect leaves behind -/
theorem checkoutF_shrinks (db : DB) : Shrinks db db.checkoutF.1 := by
  have hp := checkoutPre_spec db
  unfold DB.checkoutF
  cases hx : db.checkoutPre with
  | mk db1 rest =>
    obtain ⟨o, hr⟩ := rest
    rw [hx] at hp
    simp only [] at hp
    have hs := preSpec_shrinks hp
    cases o with
    | some r => exact checkout_shrinks db
    | none =>
      simp only []
      cases hf : db1.takeFault .connect with
      | mk ok db2 =>
        have hs2 : Shrinks db1 db2 := by
          have := takeFault_shrinks db1 .connect; rw [hf] at this; exact this
        cases ok with
        | none => exact checkout_shrinks db
        | some k =>
          simp only []
          have h3 : Shrinks db2 db2.tick.1 := shrinks_of_eq rfl rfl rfl rfl rfl
          cases hr with
          | false => exact (hs.trans hs2).trans h3
          | true =>
            simp only [if_true]
            refine ((hs.trans hs2).trans h3).trans ⟨rfl, fun x hx' => ?_, fun _ hi => hi⟩
            have hx'' : some x ∈ db2.tick.1.idle ++ [none] := hx'
            rcases List.mem_append.1 hx'' with h | h
            · exact h
            · simp at h

theorem checkoutF_none {db db' : DB} (h : db.checkoutF = (db', none)) : db' = db.checkout := by
  unfold DB.checkoutF at h
  split at h
  · split at h
    · simp at h
    · simp only [Prod.mk.injEq] at h; exact h.1.symm
  · simp only [Prod.mk.injEq] at h; exact h.1.symm

theorem checkout_faults (db : DB) : db.checkout.faults = db.faults := by
  apply checkout_cases db (fun d => d.faults = db.faults)
  · intro db1 r hp
    rw [(handOut_frame db1 r).2.2.1]; exact hp.faults
  · intro db1 hp
    simp only [DB.newRaw, DB.tick]; exact hp.faults
  · intro d h; exact h
  · intro d h; simp only [DB.newRaw, DB.tick]; exact h

theorem checkout_listener (db : DB) : db.checkout.listener = db.listener := by
  apply checkout_cases db (fun d => d.listener = db.listener)
  · intro db1 r hp
    rw [(handOut_frame db1 r).2.2.2.1]; exact hp.listener
  · intro db1 hp
    simp only [DB.newRaw, DB.tick]; exact hp.listener
  · intro d h; exact h
  · intro d h; simp only [DB.newRaw, DB.tick]; exact h

/-- with no fault armed `Pool.connect()` succeeds -/
theorem checkoutF_nofault {db : DB} (hf : db.faults = []) : db.checkoutF = (db.checkout, none) := by
  have hp := checkoutPre_spec db
  unfold DB.checkoutF
  cases hx : db.checkoutPre with
  | mk db1 rest =>
    obtain ⟨o, hr⟩ := rest
    rw [hx] at hp
    cases o with
    | some r => rfl
    | none =>
      simp only []
      have : db1.takeFault .connect = (none, db1) := by
        unfold DB.takeFault
        rw [hp.faults, hf]; rfl
      rw [this]

/-- shape of a failed `Pool.connect()` -/
theorem checkoutF_some {db db' : DB} {k : FKind} (h : db.checkoutF = (db', some k)) :
    ∃ db1 hasRec db2, db.checkoutPre = (db1, none, hasRec) ∧ db1.takeFault .connect = (some k, db2) ∧
      db' = (if hasRec then { db2.tick.1 with idle := db2.tick.1.idle ++ [none] } else db2.tick.1) := by
  unfold DB.checkoutF at h
  split at h
  · rename_i db1 hasRec hx
    split at h
    · rename_i k' db2 hf
      simp only [Prod.mk.injEq, Option.some.injEq] at h
      exact ⟨db1, hasRec, db2, hx, by rw [hf, h.2], h.1.symm⟩
    · simp at h
  · simp at h

/-- `_set_connection_characteristics` keeps pool and reset style, and queues the callback
    that will undo what it sets -/
theorem applyChar_shrinks (db : DB) (b : Bool) : Shrinks db (db.applyChar b) := by
  unfold DB.applyChar
  refine ⟨by cases b <;> rfl, fun r h => by cases b <;> exact h, ?_⟩
  intro _ hi
  cases b with
  | true => intro _; simp
  | false =>
    intro h
    have := hi h
    simp only [Bool.false_eq_true, if_false] at this ⊢
    simp [this]

theorem connectRaw_shrinks (db : DB) : Shrinks db db.connectRaw := by
  unfold DB.connectRaw
  have key : ∀ (l : List Bool) (d : DB), Shrinks d (l.foldl DB.applyChar d) := by
    intro l
    induction l with
    | nil => intro d; exact Shrinks.refl d
    | cons b bs ih => intro d; exact (applyChar_shrinks d b).trans (ih _)
  exact (checkout_shrinks db).trans (key _ _)

/-! ### preservation through the Connection functions -/

/-- `_previous_nested` always points to an older handle, and the current savepoint exists -/
structure PrevWF (c : Conn) : Prop where
  prev : ∀ h p, (c.txn h).prev = some p → p < h
  nested : ∀ n, c.nested = some n → n < c.txns.length

/-- structural well-formedness of the handle table -/
def WFc (c : Conn) : Prop := RootPtr c ∧ PrevWF c

theorem wfc_congr {c c' : Conn} (h1 : c'.txns = c.txns) (h2 : c'.transaction = c.transaction)
    (h3 : c'.nested = c.nested) (hw : WFc c) : WFc c' := by
  have htx : ∀ x, c'.txn x = c.txn x := fun x => by simp [Conn.txn, h1]
  refine ⟨fun t ht => ?_, ⟨fun h p hx => ?_, fun n hn => ?_⟩⟩
  · rw [htx]; exact hw.1 t (by rw [← h2]; exact ht)
  · rw [htx] at hx; exact hw.2.prev h p hx
  · rw [h1]; exact hw.2.nested n (by rw [← h3]; exact hn)

structure Pres (c c' : Conn) : Prop where
  root : WFc c → WFc c'
  db : Shrinks c.db c'.db

theorem wfc_empty {c : Conn} (h1 : c.txns = []) (h2 : c.transaction = none) (h3 : c.nested = none) :
    WFc c := by
  refine ⟨fun t ht => ?_, ⟨fun h p hx => ?_, fun n hn => ?_⟩⟩
  · rw [h2] at ht; cases ht
  · have : c.txn h = default := by simp [Conn.txn, h1]
    rw [this] at hx; cases hx
  · rw [h3] at hn; cases hn

theorem Pres.refl (c : Conn) : Pres c c := ⟨id, Shrinks.refl _⟩
theorem Pres.trans {a b c : Conn} (h1 : Pres a b) (h2 : Pres b c) : Pres a c :=
  ⟨fun h => h2.root (h1.root h), h1.db.trans h2.db⟩

theorem txn_isRoot_lt {c : Conn} {t : Nat} (h : (c.txn t).isRoot = true) : t < c.txns.length := by
  rcases Nat.lt_or_ge t c.txns.length with h' | h'
  · exact h'
  · exfalso
    have : c.txns[t]? = none := by simp; omega
    simp [Conn.txn, List.getD_eq_getElem?_getD, this] at h
    exact absurd h (by decide)

/-- only the database changes -/
theorem pres_db (c : Conn) (db' : DB) (h : Shrinks c.db db') : Pres c { c with db := db' } :=
  ⟨wfc_congr rfl rfl rfl, h⟩

theorem pres_warn (c : Conn) : Pres c c.warn := ⟨wfc_congr rfl rfl rfl, Shrinks.refl _⟩

/-- a per-handle update that keeps `isRoot` -/
theorem setTxn_isRoot (c : Conn) (h : Nat) (f : Txn → Txn) (hf : ∀ t, (f t).isRoot = t.isRoot)
    (x : Nat) : ((c.setTxn h f).txn x).isRoot = (c.txn x).isRoot := by
  by_cases e : h = x
  · subst e
    by_cases hh : h < c.txns.length
    · rw [setTxn_txn_eq _ _ _ hh, hf]
    · have : c.txns[h]? = none := by simp; omega
      simp [Conn.setTxn, Conn.txn, List.getD_eq_getElem?_getD, this]
  · rw [setTxn_txn_ne _ _ _ _ e]

theorem setTxn_prev (c : Conn) (h : Nat) (f : Txn → Txn) (hf : ∀ t, (f t).prev = t.prev)
    (x : Nat) : ((c.setTxn h f).txn x).prev = (c.txn x).prev := by
  by_cases e : h = x
  · subst e
    by_cases hh : h < c.txns.length
    · rw [setTxn_txn_eq _ _ _ hh, hf]
    · have : c.txns[h]? = none := by simp; omega
      simp [Conn.setTxn, Conn.txn, List.getD_eq_getElem?_getD, this]
  · rw [setTxn_txn_ne _ _ _ _ e]

theorem pres_setTxn (c : Conn) (h : Nat) (f : Txn → Txn) (hf : ∀ t, (f t).isRoot = t.isRoot)
    (hp : ∀ t, (f t).prev = t.prev) :
    Pres c (c.setTxn h f) :=
  ⟨fun hw => ⟨fun t ht => by rw [setTxn_isRoot _ _ _ hf]; exact hw.1 t ht,
     ⟨fun x p hx => by rw [setTxn_prev _ _ _ hp] at hx; exact hw.2.prev x p hx,
      fun n hn => by rw [setTxn_length]; exact hw.2.nested n hn⟩⟩, Shrinks.refl _⟩

theorem pres_deactivate (c : Conn) (h : Nat) : Pres c (c.deactivate h) :=
  pres_setTxn c h _ (fun _ => rfl) (fun _ => rfl)

theorem pres_detach (c : Conn) : Pres c { c with transaction := none } :=
  ⟨fun hw => ⟨fun t ht => (by cases ht), ⟨hw.2.prev, hw.2.nested⟩⟩, Shrinks.refl _⟩

/-- `_nested_transaction = self._previous_nested` for the current savepoint `h` -/
theorem pres_popNested (c : Conn) (h : Nat) (hn : c.nested = some h) :
    Pres c { c with nested := (c.txn h).prev } :=
  ⟨fun hw => ⟨hw.1, ⟨hw.2.prev, fun n hx => by
      have h1 := hw.2.prev h n hx
      have h2 := hw.2.nested h hn
      show n < c.txns.length
      omega⟩⟩, Shrinks.refl _⟩

theorem pres_setCtx (c : Conn) (o : Option Nat) : Pres c { c with ctxMgr := o } :=
  ⟨wfc_congr rfl rfl rfl, Shrinks.refl _⟩

theorem txn_ge_default (c : Conn) (x : Nat) (hx : c.txns.length ≤ x) : c.txn x = default := by
  have : c.txns[x]? = none := by simp; omega
  simp [Conn.txn, List.getD_eq_getElem?_getD, this]

/-- appending a handle whose `_previous_nested` is an existing handle keeps `PrevWF.prev` -/
theorem append_prev {c : Conn} (t : Txn) (hw : PrevWF c) (ht : ∀ p, t.prev = some p → p < c.txns.length) :
    ∀ h p, (({ c with txns := c.txns ++ [t] } : Conn).txn h).prev = some p → p < h := by
  intro h p hx
  rcases Nat.lt_trichotomy h c.txns.length with hl | hl | hl
  · rw [txn_append_lt c t h hl] at hx; exact hw.prev h p hx
  · subst hl; rw [txn_append_new c t] at hx; exact ht p hx
  · have : ({ c with txns := c.txns ++ [t] } : Conn).txn h = default :=
      txn_ge_default _ h (by simp; omega)
    rw [this] at hx; cases hx

theorem pres_pushRoot (c : Conn) : Pres c c.pushRoot where
  root := fun hw => ⟨fun t ht => by
      have : t = c.txns.length := by simp [Conn.pushRoot] at ht; exact ht.symm
      subst this
      rw [show c.pushRoot.txn c.txns.length = _ from txn_append_new c _],
    ⟨append_prev _ hw.2 (fun p hp => by cases hp), fun n hn => by
      have := hw.2.nested n hn
      simp [Conn.pushRoot]; omega⟩⟩
  db := Shrinks.refl _

theorem pres_pushNested (c : Conn) : Pres c c.pushNested where
  root := fun hw => ⟨fun t ht => by
      have ht' : c.transaction = some t := ht
      have := hw.1 t ht'
      rw [show c.pushNested.txn t = c.txn t from txn_append_lt c _ t (txn_isRoot_lt this)]
      exact this,
    ⟨append_prev _ hw.2 (fun p hp => hw.2.nested p hp), fun n hn => by
      have : n = c.txns.length := by simp [Conn.pushNested] at hn; exact hn.symm
      subst this
      simp [Conn.pushNested]⟩⟩
  db := Shrinks.refl _

theorem andThen_pres {c : Conn} {x : Conn × Res} {f : Conn → Conn × Res}
    (h1 : Pres c x.1) (h2 : ∀ c1, Pres c1 (f c1).1) : Pres c (andThen x f).1 := by
  obtain ⟨c1, r⟩ := x
  cases r <;> first | exact h1.trans (h2 c1) | exact h1

theorem andFinally_pres {c : Conn} {x : Conn × Res} {g : Conn → Conn}
    (h1 : Pres c x.1) (h2 : ∀ c1, Pres c1 (g c1)) : Pres c (andFinally x g).1 :=
  h1.trans (h2 x.1)

theorem revalidate_pres (c : Conn) : Pres c c.revalidate.1 := by
  unfold Conn.revalidate
  split
  · split
    · exact Pres.refl c
    · have hs := checkoutF_shrinks c.db
      cases hx : c.db.checkoutF with
      | mk db1 ok =>
        rw [hx] at hs
        cases ok <;> exact ⟨wfc_congr rfl rfl rfl, hs⟩
  · exact Pres.refl c

theorem connProp_pres (c : Conn) : Pres c c.connProp.1 := by
  unfold Conn.connProp
  split
  · exact Pres.refl c
  · exact revalidate_pres c

theorem onDisconnect_pres (c : Conn) : Pres c c.onDisconnect := by
  unfold Conn.onDisconnect
  split
  · exact Pres.refl c
  · exact ⟨wfc_congr rfl rfl rfl, (poolInvalidate_shrinks c.db).trans (kill_shrinks _)⟩

theorem invalidate_pres (c : Conn) : Pres c c.invalidate.1 := by
  unfold Conn.invalidate
  split
  · exact Pres.refl c
  · split
    · exact Pres.refl c
    · exact ⟨wfc_congr rfl rfl rfl, kill_shrinks _⟩

theorem beginRoot_pres (c : Conn) : Pres c c.beginRoot.1 := by
  unfold Conn.beginRoot
  split
  · exact Pres.refl c
  · exact andThen_pres (connProp_pres c) (fun c1 => pres_pushRoot c1)

theorem begin_pres (c : Conn) : Pres c c.begin.1 := by
  unfold Conn.begin
  split
  · exact beginRoot_pres c
  · exact Pres.refl c

theorem autobegin_pres (c : Conn) : Pres c c.autobegin.1 := by
  unfold Conn.autobegin
  split
  · exact begin_pres c
  · exact Pres.refl c

theorem discError_pres (c : Conn) : Pres c c.discError.1 := by
  unfold Conn.discError
  split
  · simp only []
    split
    · exact Pres.refl c
    · exact ⟨wfc_congr rfl rfl rfl, kill_shrinks _⟩
  · exact onDisconnect_pres c

theorem plainError_pres (c : Conn) : Pres c c.plainError.1 := by
  unfold Conn.plainError
  split
  · exact Pres.refl c
  · split
    · split
      · exact Pres.refl c
      · cases hf : c.db.takeFault .rollback with
        | mk o db1 =>
          have hs : Shrinks c.db db1 := by
            have := takeFault_shrinks c.db .rollback; rw [hf] at this; exact this
          cases o with
          | some k =>
            cases k with
            | err => exact pres_db c db1 hs
            | disc => exact (pres_db c db1 hs).trans (discError_pres _)
            | kbi => exact (pres_db c db1 hs).trans (discError_pres _)
          | none => exact pres_db c _ (hs.trans (rollback_shrinks db1))
    · exact Pres.refl c

theorem kbiError_pres (c : Conn) : Pres c c.kbiError.1 := by
  unfold Conn.kbiError
  simp only []
  split
  · exact Pres.refl c
  · exact ⟨wfc_congr rfl rfl rfl, kill_shrinks _⟩

theorem dbapiError_pres (c : Conn) (k : FKind) : Pres c (c.dbapiError k).1 := by
  unfold Conn.dbapiError
  split
  · exact kbiError_pres c
  · split
    · exact discError_pres c
    · cases k with
      | disc => exact discError_pres c
      | err => exact plainError_pres c
      | kbi => exact plainError_pres c

theorem dbapiCall_pres (c : Conn) (p : FPoint) (f : DB → DB) (hf : ∀ db, Shrinks db (f db)) :
    Pres c (c.dbapiCall p f).1 := by
  unfold Conn.dbapiCall
  cases hf' : c.db.takeFault p with
  | mk o db1 =>
    have hs : Shrinks c.db db1 := by
      have := takeFault_shrinks c.db p; rw [hf'] at this; exact this
    cases o with
    | some k => exact (pres_db c db1 hs).trans (dbapiError_pres _ k)
    | none => exact pres_db c _ (hs.trans (hf db1))

theorem runSql_pres (c : Conn) (q : Sql) : Pres c (c.runSql q).1 := by
  unfold Conn.runSql
  cases hf' : c.db.takeFault .execute with
  | mk o db1 =>
    have hs : Shrinks c.db db1 := by
      have := takeFault_shrinks c.db .execute; rw [hf'] at this; exact this
    cases o with
    | some k => exact (pres_db c db1 hs).trans (dbapiError_pres _ k)
    | none =>
      simp only []
      cases ha : c.db.apply q with
      | mk o2 r =>
        cases o2 with
        | some db2 => exact pres_db c db2 (apply_shrinks _ _ _ _ ha)
        | none => exact dbapiError_pres c .err

theorem execChecked_pres (c : Conn) (q : Sql) : Pres c (c.execChecked q).1 := by
  unfold Conn.execChecked
  split
  · exact Pres.refl c
  · split
    · exact Pres.refl c
    · exact andThen_pres (autobegin_pres c) (fun c1 => runSql_pres c1 q)

theorem execute_pres (c : Conn) (q : Sql) : Pres c (c.execute q).1 := by
  unfold Conn.execute
  refine andThen_pres (connProp_pres c) (fun c1 => ?_)
  exact andThen_pres (dbapiCall_pres c1 .cursor id (fun db => Shrinks.refl db))
    (fun c2 => execChecked_pres c2 q)

theorem nestedDeactivate_pres (c : Conn) (h : Nat) (w : Bool) : Pres c (c.nestedDeactivate h w) := by
  unfold Conn.nestedDeactivate
  split
  · rename_i hn
    exact pres_popNested c h (by simpa using hn)
  · split
    · exact pres_warn c
    · exact Pres.refl c

theorem cancel_pres : ∀ (fuel : Nat) (c : Conn) (h : Nat), Pres c (Conn.cancel fuel c h) := by
  intro fuel
  induction fuel with
  | zero => intro c h; exact Pres.refl c
  | succ f ih =>
    intro c h
    simp only [Conn.cancel]
    have h1 : Pres c ((c.deactivate h).nestedDeactivate h true) :=
      (pres_deactivate c h).trans (nestedDeactivate_pres _ h true)
    split
    · exact h1.trans (ih _ _)
    · exact h1

theorem cancelNested_pres (c : Conn) : Pres c c.cancelNested := by
  unfold Conn.cancelNested
  split
  · exact cancel_pres _ _ _
  · exact Pres.refl c

theorem rootDeactivate_pres (c : Conn) (h : Nat) : Pres c (c.rootDeactivate h) := by
  unfold Conn.rootDeactivate
  split
  · exact pres_deactivate c h
  · split
    · exact pres_warn c
    · exact Pres.refl c

theorem rollbackImpl_pres (c : Conn) : Pres c c.rollbackImpl.1 := by
  unfold Conn.rollbackImpl
  split
  · split
    · exact Pres.refl c
    · exact dbapiCall_pres c .rollback DB.rollback rollback_shrinks
  · exact Pres.refl c

theorem rootCloseFinally_pres (c : Conn) (h : Nat) (b : Bool) : Pres c (c.rootCloseFinally h b) := by
  unfold Conn.rootCloseFinally
  have h1 : Pres c (if c.act h || b then c.rootDeactivate h else c) := by
    split
    · exact rootDeactivate_pres c h
    · exact Pres.refl c
  have key : ∀ c1 : Conn, Pres c1 (if c1.transaction == some h then { c1 with transaction := none } else c1) := by
    intro c1
    split
    · exact pres_detach _
    · exact Pres.refl _
  exact h1.trans (key _)

theorem rootCloseImpl_pres (c : Conn) (h : Nat) (b : Bool) : Pres c (c.rootCloseImpl h b).1 := by
  unfold Conn.rootCloseImpl
  refine andFinally_pres ?_ (fun c1 => rootCloseFinally_pres c1 h b)
  refine andThen_pres ?_ (fun c1 => cancelNested_pres c1)
  split
  · exact rollbackImpl_pres c
  · exact Pres.refl c

theorem commitImpl_pres (c : Conn) : Pres c c.commitImpl.1 := by
  unfold Conn.commitImpl
  exact andThen_pres (connProp_pres c) (fun c1 => dbapiCall_pres c1 .commit DB.commit commit_shrinks)

theorem rootCommit_pres (c : Conn) (h : Nat) : Pres c (c.rootCommit h).1 := by
  unfold Conn.rootCommit
  split
  · refine andThen_pres ?_ (fun c1 => pres_detach c1)
    exact andFinally_pres (commitImpl_pres c)
      (fun c1 => (cancelNested_pres c1).trans (rootDeactivate_pres _ h))
  · split
    · exact Pres.refl c
    · exact Pres.refl c

theorem nestedCloseImpl_pres (c : Conn) (h : Nat) (w : Bool) : Pres c (c.nestedCloseImpl h w).1 := by
  unfold Conn.nestedCloseImpl
  refine andFinally_pres ?_ (fun c1 => (pres_deactivate c1 h).trans (nestedDeactivate_pres _ h w))
  split
  · exact execute_pres c _
  · exact Pres.refl c

theorem nestedCommit_pres (c : Conn) (h : Nat) : Pres c (c.nestedCommit h).1 := by
  unfold Conn.nestedCommit
  split
  · refine andThen_pres ?_ (fun c1 => nestedDeactivate_pres c1 h true)
    exact andFinally_pres (execute_pres c _) (fun c1 => pres_deactivate c1 h)
  · split
    · exact Pres.refl c
    · exact Pres.refl c

theorem beginNested_pres (c : Conn) : Pres c c.beginNested.1 := by
  unfold Conn.beginNested
  refine andThen_pres (autobegin_pres c) (fun c1 => ?_)
  split
  · exact Pres.refl c1
  · simp only []
    have h0 : Pres c1 { c1 with spSeq := c1.spSeq + 1 } := ⟨wfc_congr rfl rfl rfl, Shrinks.refl _⟩
    exact h0.trans (andThen_pres (execute_pres _ _) (fun c2 => pres_pushNested c2))

theorem tCommit_pres (c : Conn) (h : Nat) : Pres c (c.tCommit h).1 := by
  unfold Conn.tCommit
  split
  · exact rootCommit_pres c h
  · exact nestedCommit_pres c h

theorem tRollback_pres (c : Conn) (h : Nat) : Pres c (c.tRollback h).1 := by
  unfold Conn.tRollback
  split
  · exact rootCloseImpl_pres c h true
  · exact nestedCloseImpl_pres c h true

theorem tClose_pres (c : Conn) (h : Nat) : Pres c (c.tClose h).1 := by
  unfold Conn.tClose
  split
  · exact rootCloseImpl_pres c h false
  · exact nestedCloseImpl_pres c h false

theorem commit_pres (c : Conn) : Pres c c.commit.1 := by
  unfold Conn.commit
  split
  · exact tCommit_pres c _
  · exact Pres.refl c

theorem rollback_pres (c : Conn) : Pres c c.rollback.1 := by
  unfold Conn.rollback
  split
  · exact tRollback_pres c _
  · exact Pres.refl c

theorem enter_pres (c : Conn) (h : Nat) : Pres c (c.enter h).1 := by
  unfold Conn.enter
  exact (pres_setTxn c h (fun t => { t with outerCtx := c.ctxMgr, subject := true }) (fun _ => rfl) (fun _ => rfl)).trans
    (pres_setCtx _ (some h))

theorem exitFinally_pres (c : Conn) (h : Nat) (b : Bool) : Pres c (c.exitFinally h b) := by
  unfold Conn.exitFinally
  have h1 : Pres c (if !b then { c with ctxMgr := (c.txn h).outerCtx } else c) := by
    split
    · exact pres_setCtx c _
    · exact Pres.refl c
  exact h1.trans (pres_setTxn _ h _ (fun _ => rfl) (fun _ => rfl))

theorem commitOrRollback_pres (c : Conn) (h : Nat) : Pres c (c.commitOrRollback h).1 := by
  unfold Conn.commitOrRollback
  simp only []
  have h1 := tCommit_pres c h
  have h2 := tRollback_pres (c.tCommit h).1 h
  cases hr : (c.tCommit h).2 <;> simp only [] <;>
    first
    | exact h1
    | (cases hr2 : ((c.tCommit h).1.tRollback h).2 <;> simp only [] <;> exact h1.trans h2)

theorem exit_pres (c : Conn) (h : Nat) (e : Bool) : Pres c (c.exit h e).1 := by
  unfold Conn.exit
  simp only []
  refine andFinally_pres ?_ (fun c1 => exitFinally_pres c1 h _)
  split
  · exact commitOrRollback_pres c h
  · split
    · split
      · exact tClose_pres c h
      · exact Pres.refl c
    · exact tRollback_pres c h

theorem setAutocommit_pres (c : Conn) : Pres c c.setAutocommit.1 := by
  unfold Conn.setAutocommit
  split
  · exact Pres.refl c
  · exact andThen_pres (connProp_pres c) (fun c1 => pres_db c1 _ (applyChar_shrinks c1.db true))

theorem setLogToken_pres (c : Conn) : Pres c c.setLogToken.1 := by
  unfold Conn.setLogToken
  exact andThen_pres (connProp_pres c) (fun c1 => pres_db c1 _ (applyChar_shrinks c1.db false))

theorem setReadUnc_pres (c : Conn) : Pres c c.setReadUnc.1 := by
  unfold Conn.setReadUnc
  split
  · exact Pres.refl c
  · refine andThen_pres (connProp_pres c) (fun c1 => pres_db c1 _ ⟨rfl, fun _ h => h, ?_⟩)
    intro _ _ _
    simp

/-! ### close(), garbage collection, new checkouts -/

theorem resets_of_cfg {db db' : DB} (h : db'.cfg = db.cfg) (h3 : db.reset ≠ .none ∧ db.skipAc = false) :
    db'.reset ≠ .none ∧ db'.skipAc = false := by
  have a := congrArg Prod.fst h
  have b := congrArg Prod.snd h
  simp only [DB.cfg] at a b
  rw [a, b]; exact h3

def Inv (c : Conn) : Prop :=
  WFc c ∧ PoolClean c.db ∧ (c.db.reset ≠ .none ∧ c.db.skipAc = false) ∧ HeldIso c.db

theorem Pres.inv {c c' : Conn} (h : Pres c c') (hi : Inv c) : Inv c' :=
  ⟨h.root hi.1, h.db.clean hi.2.1, by rw [h.db.reset, h.db.skipAc]; exact hi.2.2.1, h.db.held hi.2.1 hi.2.2.2⟩

/-- functions that touch neither the database nor the DBAPI connection -/
structure SameDb (c c' : Conn) : Prop where
  db : c'.db = c.db
  hasDbapi : c'.hasDbapi = c.hasDbapi

theorem SameDb.refl (c : Conn) : SameDb c c := ⟨rfl, rfl⟩
theorem SameDb.trans {a b c : Conn} (h1 : SameDb a b) (h2 : SameDb b c) : SameDb a c :=
  ⟨h2.db.trans h1.db, h2.hasDbapi.trans h1.hasDbapi⟩

theorem sameDb_deactivate (c : Conn) (h : Nat) : SameDb c (c.deactivate h) := ⟨rfl, rfl⟩

theorem sameDb_nestedDeactivate (c : Conn) (h : Nat) (w : Bool) : SameDb c (c.nestedDeactivate h w) := by
  unfold Conn.nestedDeactivate
  split
  · exact ⟨rfl, rfl⟩
  · split <;> exact ⟨rfl, rfl⟩

theorem sameDb_cancel : ∀ (fuel : Nat) (c : Conn) (h : Nat), SameDb c (Conn.cancel fuel c h) := by
  intro fuel
  induction fuel with
  | zero => intro c h; exact SameDb.refl c
  | succ f ih =>
    intro c h
    simp only [Conn.cancel]
    have h1 : SameDb c ((c.deactivate h).nestedDeactivate h true) :=
      (sameDb_deactivate c h).trans (sameDb_nestedDeactivate _ h true)
    split
    · exact h1.trans (ih _ _)
    · exact h1

theorem sameDb_cancelNested (c : Conn) : SameDb c c.cancelNested := by
  unfold Conn.cancelNested
  split
  · exact sameDb_cancel _ _ _
  · exact SameDb.refl c

theorem sameDb_rootDeactivate (c : Conn) (h : Nat) : SameDb c (c.rootDeactivate h) := by
  unfold Conn.rootDeactivate
  split
  · exact ⟨rfl, rfl⟩
  · split <;> exact ⟨rfl, rfl⟩

theorem sameDb_rootCloseFinally (c : Conn) (h : Nat) (b : Bool) : SameDb c (c.rootCloseFinally h b) := by
  unfold Conn.rootCloseFinally
  have h1 : SameDb c (if c.act h || b then c.rootDeactivate h else c) := by
    split
    · exact sameDb_rootDeactivate c h
    · exact SameDb.refl c
  have key : ∀ c1 : Conn, SameDb c1 (if c1.transaction == some h then { c1 with transaction := none } else c1) := by
    intro c1
    split <;> exact ⟨rfl, rfl⟩
  exact h1.trans (key _)

theorem andThen_not_ok {x : Conn × Res} {f : Conn → Conn × Res} (h : x.2 ≠ .ok) : andThen x f = x := by
  obtain ⟨c, r⟩ := x
  cases r <;> first | rfl | exact absurd rfl h

theorem discError_ne_ok (c : Conn) : c.discError.2 ≠ .ok := by
  unfold Conn.discError
  split <;> simp

theorem plainError_ne_ok (c : Conn) : c.plainError.2 ≠ .ok := by
  unfold Conn.plainError
  split
  · simp
  · split
    · split
      · simp
      · split <;> simp
    · simp

theorem dbapiError_ne_ok (c : Conn) (k : FKind) : (c.dbapiError k).2 ≠ .ok := by
  unfold Conn.dbapiError
  split
  · simp [Conn.kbiError]
  · split
    · exact discError_ne_ok c
    · cases k with
      | disc => exact discError_ne_ok c
      | err => exact plainError_ne_ok c
      | kbi => exact plainError_ne_ok c

/-- closing an ACTIVE root transaction without error while the DBAPI connection is still
    held means the ROLLBACK really happened -/
theorem rootClose_heldClean (c : Conn) (t : Nat) (b : Bool) (hact : c.act t = true)
    (hsk : c.db.skipAc = false)
    (hok : (c.rootCloseImpl t b).2 = .ok) (hd : (c.rootCloseImpl t b).1.hasDbapi = true) :
    HeldClean (c.rootCloseImpl t b).1.db := by
  have hns : c.db.skipsRollback = false := by simp [DB.skipsRollback, hsk]
  unfold Conn.rootCloseImpl at hok hd ⊢
  simp only [hact, if_true, andFinally] at hok hd ⊢
  have hf := sameDb_rootCloseFinally
    (andThen c.rollbackImpl fun c => (c.cancelNested, Res.ok)).1 t b
  rw [hf.db]
  rw [hf.hasDbapi] at hd
  unfold Conn.rollbackImpl at hok hd ⊢
  cases hh : c.hasDbapi with
  | false =>
    simp only [hh, Bool.false_eq_true, if_false, andThen_ok] at hd
    rw [(sameDb_cancelNested c).hasDbapi, hh] at hd
    cases hd
  | true =>
    simp only [hh, if_true, hns, Bool.false_eq_true, if_false] at hok hd ⊢
    unfold Conn.dbapiCall at hok hd ⊢
    cases hf' : c.db.takeFault .rollback with
    | mk o db1 =>
      simp only [hf'] at hok hd ⊢
      cases o with
      | some k =>
        exfalso
        simp only [] at hok
        rw [andThen_not_ok (dbapiError_ne_ok _ k)] at hok
        exact dbapiError_ne_ok _ k hok
      | none =>
        simp only [andThen_ok]
        rw [(sameDb_cancelNested _).db]
        simp [HeldClean, DB.rollback]

theorem release_inv {c : Conn} (b : Bool) (hi : Inv c) (hb : b = true → c.hasDbapi = true → HeldClean c.db) :
    Inv (c.release b) := by
  obtain ⟨h1, h2, h3, h4⟩ := hi
  unfold Conn.release
  cases hh : c.hasDbapi with
  | false => simp only [Bool.false_eq_true, if_false]; exact ⟨wfc_congr (by rfl) (by rfl) (by rfl) h1, h2, h3, h4⟩
  | true =>
    simp only [if_true]
    obtain ⟨k1, k2, k3⟩ := checkin_clean_reset c.db b h3.1 h3.2 (fun e => hb e hh) h2 h4
    exact ⟨wfc_congr (by rfl) (by rfl) (by rfl) h1, k1, resets_of_cfg k2 h3, k3⟩

theorem releaseOrInterrupt_inv {c : Conn} (b : Bool) (hi : Inv c)
    (hb : b = true → c.hasDbapi = true → HeldClean c.db) : Inv (c.releaseOrInterrupt b).1 := by
  unfold Conn.releaseOrInterrupt
  split
  · rename_i hcond
    simp only [Bool.and_eq_true] at hcond
    obtain ⟨h1, h2, h3, h4⟩ := hi
    obtain ⟨k1, k2, k3⟩ := checkin_clean_reset c.db b h3.1 h3.2 (fun e => hb e hcond.1) h2 h4
    exact ⟨wfc_congr (by rfl) (by rfl) (by rfl) h1, k1, resets_of_cfg k2 h3, k3⟩
  · exact release_inv b hi hb

theorem close_inv {c : Conn} (hi : Inv c) : Inv c.close.1 := by
  unfold Conn.close
  cases ht : c.transaction with
  | none =>
    simp only []
    exact releaseOrInterrupt_inv false hi (fun e => by cases e)
  | some t =>
    simp only []
    have hp := tClose_pres c t
    cases hr : (c.tClose t).2 with
    | ok =>
      have e : c.tClose t = ((c.tClose t).1, .ok) := by rw [← hr]
      rw [e, andThen_ok]
      refine releaseOrInterrupt_inv _ (hp.inv hi) ?_
      intro hact hd
      have hroot := hi.1.1 t ht
      have e2 : c.tClose t = c.rootCloseImpl t false := by simp [Conn.tClose, hroot]
      rw [e2] at hr hd ⊢
      exact rootClose_heldClean c t false hact hi.2.2.1.2 hr hd
    | _ =>
      rw [andThen_not_ok (by rw [hr]; simp)]
      exact hp.inv hi

theorem gc_inv {c : Conn} (hi : Inv c) : Inv c.gc := by
  obtain ⟨_, h2, h3, h4⟩ := hi
  unfold Conn.gc
  refine ⟨wfc_empty rfl rfl rfl, ?_⟩
  cases hz : c.zombie with
  | true => simp only [if_true]; exact ⟨h2, h3, h4⟩
  | false =>
    simp only [Bool.false_eq_true, if_false]
    cases hh : c.hasDbapi with
    | false => simp only [Bool.false_eq_true, if_false]; exact ⟨h2, h3, h4⟩
    | true =>
      simp only [if_true]
      obtain ⟨k1, k2, k3⟩ := checkin_clean_reset c.db false h3.1 h3.2 (fun e => by cases e) h2 h4
      exact ⟨k1, resets_of_cfg k2 h3, k3⟩

theorem connect_inv {db : DB} (h2 : PoolClean db) (h3 : db.reset ≠ .none ∧ db.skipAc = false)
    (h4 : HeldIso db) : Inv (Conn.connect db) :=
  ⟨wfc_empty rfl rfl rfl, (connectRaw_shrinks db).clean h2,
   resets_of_cfg (connectRaw_shrinks db).cfg h3, (connectRaw_shrinks db).held h2 h4⟩

theorem warmTake_clean : ∀ (n : Nat) (db : DB) (acc : List Raw), PoolClean db →
    (db.reset ≠ .none ∧ db.skipAc = false) →
    HeldIso db → (∀ r ∈ acc, IsoOk r) →
    PoolClean (DB.warmTake n db acc).1 ∧
    ((DB.warmTake n db acc).1.reset ≠ .none ∧ (DB.warmTake n db acc).1.skipAc = false) ∧
    (∀ r ∈ (DB.warmTake n db acc).2, IsoOk r) := by
  intro n
  induction n with
  | zero => intro db acc h2 h3 _ h5; exact ⟨h2, h3, h5⟩
  | succ n ih =>
    intro db acc h2 h3 h4 h5
    simp only [DB.warmTake]
    have hs := connectRaw_shrinks db
    refine ih _ _ (hs.clean h2) (resets_of_cfg hs.cfg h3) (hs.held h2 h4) ?_
    intro r hr
    rcases List.mem_append.1 hr with hr | hr
    · exact h5 r hr
    · simp only [List.mem_singleton] at hr
      subst hr
      exact hs.held h2 h4

theorem warmReturn_clean : ∀ (l : List Raw) (db : DB), PoolClean db →
    (db.reset ≠ .none ∧ db.skipAc = false) →
    (∀ r ∈ l, IsoOk r) →
    PoolClean (DB.warmReturn l db) ∧
    ((DB.warmReturn l db).reset ≠ .none ∧ (DB.warmReturn l db).skipAc = false) := by
  intro l
  induction l with
  | nil => intro db h2 h3 _; exact ⟨h2, h3⟩
  | cons r rs ih =>
    intro db h2 h3 h5
    simp only [DB.warmReturn]
    have hc : PoolClean ({ db with raw := r } : DB) := h2
    obtain ⟨k1, k2, _⟩ := checkin_clean_reset ({ db with raw := r } : DB) false h3.1 h3.2
      (fun e => by cases e) hc (h5 r List.mem_cons_self)
    exact ih _ k1 (resets_of_cfg (db := ({ db with raw := r } : DB)) k2 h3)
      (fun x hx => h5 x (List.mem_cons_of_mem _ hx))

theorem warm_clean (n : Nat) (db : DB) (h2 : PoolClean db) (h3 : db.reset ≠ .none ∧ db.skipAc = false)
    (h4 : HeldIso db) :
    PoolClean (DB.warm n db) ∧ ((DB.warm n db).reset ≠ .none ∧ (DB.warm n db).skipAc = false) ∧
    HeldIso (DB.warm n db) := by
  unfold DB.warm
  simp only []
  obtain ⟨a1, a2, a3⟩ := warmTake_clean n db [] h2 h3 h4 (fun _ h => by cases h)
  obtain ⟨b1, b2⟩ := warmReturn_clean (DB.warmTake n db []).2 (DB.warmTake n db []).1 a1 a2 a3
  exact ⟨b1, b2, h4⟩

theorem step_inv {c : Conn} (hi : Inv c) (op : Op) : Inv (c.step op).1 := by
  cases op with
  | begin => exact (begin_pres c).inv hi
  | beginNested => exact (beginNested_pres c).inv hi
  | exec s => exact (execute_pres c _).inv hi
  | commit => exact (commit_pres c).inv hi
  | rollback => exact (rollback_pres c).inv hi
  | close => exact close_inv hi
  | tCommit h => exact (tCommit_pres c h).inv hi
  | tRollback h => exact (tRollback_pres c h).inv hi
  | tClose h => exact (tClose_pres c h).inv hi
  | enter h => exact (enter_pres c h).inv hi
  | exitOk h => exact (exit_pres c h false).inv hi
  | exitExc h => exact (exit_pres c h true).inv hi
  | invalidate => exact (invalidate_pres c).inv hi
  | arm p k =>
    exact ⟨wfc_congr (by rfl) (by rfl) (by rfl) hi.1, hi.2.1, hi.2.2.1, hi.2.2.2⟩
  | disarm =>
    exact ⟨wfc_congr (by rfl) (by rfl) (by rfl) hi.1, hi.2.1, hi.2.2.1, hi.2.2.2⟩
  | warm n =>
    obtain ⟨a, b, d⟩ := warm_clean n c.db hi.2.1 hi.2.2.1 hi.2.2.2
    exact ⟨wfc_congr (by rfl) (by rfl) (by rfl) hi.1, a, b, d⟩
  | connect =>
    have := gc_inv hi
    exact connect_inv this.2.1 this.2.2.1 this.2.2.2
  | gc => exact gc_inv hi
  | autocommit => exact (setAutocommit_pres c).inv hi
  | readUnc => exact (setReadUnc_pres c).inv hi
  | logToken => exact (setLogToken_pres c).inv hi
  | otherOpt => exact hi
  | tokenAuto => exact (setAutocommit_pres c).inv hi

theorem release_wfc {c : Conn} (b : Bool) (hw : WFc c) : WFc (c.release b) := by
  unfold Conn.release
  split
  · exact wfc_congr (by rfl) (by rfl) (by rfl) hw
  · exact wfc_congr (by rfl) (by rfl) (by rfl) hw

theorem releaseOrInterrupt_wfc {c : Conn} (b : Bool) (hw : WFc c) : WFc (c.releaseOrInterrupt b).1 := by
  unfold Conn.releaseOrInterrupt
  split
  · exact wfc_congr (by rfl) (by rfl) (by rfl) hw
  · exact release_wfc b hw

theorem close_wfc {c : Conn} (hw : WFc c) : WFc c.close.1 := by
  unfold Conn.close
  cases ht : c.transaction with
  | none => exact releaseOrInterrupt_wfc false hw
  | some t =>
    simp only []
    have hp := (tClose_pres c t).root hw
    cases hr : (c.tClose t).2 with
    | ok =>
      have e : c.tClose t = ((c.tClose t).1, .ok) := by rw [← hr]
      rw [e, andThen_ok]
      exact releaseOrInterrupt_wfc _ hp
    | _ =>
      rw [andThen_not_ok (by rw [hr]; simp)]
      exact hp

/-- structural well-formedness of the handle table is preserved by EVERY operation -/
theorem step_wfc {c : Conn} (hw : WFc c) (op : Op) : WFc (c.step op).1 := by
  cases op with
  | begin => exact (begin_pres c).root hw
  | beginNested => exact (beginNested_pres c).root hw
  | exec s => exact (execute_pres c _).root hw
  | commit => exact (commit_pres c).root hw
  | rollback => exact (rollback_pres c).root hw
  | close => exact close_wfc hw
  | tCommit h => exact (tCommit_pres c h).root hw
  | tRollback h => exact (tRollback_pres c h).root hw
  | tClose h => exact (tClose_pres c h).root hw
  | enter h => exact (enter_pres c h).root hw
  | exitOk h => exact (exit_pres c h false).root hw
  | exitExc h => exact (exit_pres c h true).root hw
  | invalidate => exact (invalidate_pres c).root hw
  | arm p k => exact wfc_congr (by rfl) (by rfl) (by rfl) hw
  | disarm => exact wfc_congr (by rfl) (by rfl) (by rfl) hw
  | warm n => exact wfc_congr (by rfl) (by rfl) (by rfl) hw
  | connect => exact wfc_empty rfl rfl rfl
  | gc => exact wfc_empty rfl rfl rfl
  | autocommit => exact (setAutocommit_pres c).root hw
  | readUnc => exact (setReadUnc_pres c).root hw
  | logToken => exact (setLogToken_pres c).root hw
  | otherOpt => exact hw
  | tokenAuto => exact (setAutocommit_pres c).root hw

theorem run_wfc : ∀ (ops : List Op) (c : Conn), WFc c → WFc (c.run ops) := by
  intro ops
  induction ops with
  | nil => intro c h; exact h
  | cons op ops ih => intro c h; exact ih _ (step_wfc h op)

theorem run_inv : ∀ (ops : List Op) (c : Conn), Inv c → Inv (c.run ops) := by
  intro ops
  induction ops with
  | nil => intro c h; exact h
  | cons op ops ih => intro c h; exact ih _ (step_inv h op)

end SaVerif.Txn
