import SaVerif.Model.TxnSpec
/-! Helper lemmas about M-TXN (core Lean only). -/
namespace SaVerif.Txn

/-! ### handle table -/

theorem txn_append_lt (c : Conn) (x : Txn) (h : Nat) (hh : h < c.txns.length) :
    ({ c with txns := c.txns ++ [x] } : Conn).txn h = c.txn h := by
  simp [Conn.txn, List.getD_eq_getElem?_getD, List.getElem?_append_left hh]

theorem txn_append_new (c : Conn) (x : Txn) :
    ({ c with txns := c.txns ++ [x] } : Conn).txn c.txns.length = x := by
  simp [Conn.txn, List.getD_eq_getElem?_getD]

theorem setTxn_txn_ne (c : Conn) (h h' : Nat) (f : Txn → Txn) (hne : h ≠ h') :
    (c.setTxn h f).txn h' = c.txn h' := by
  simp [Conn.txn, Conn.setTxn, List.getD_eq_getElem?_getD, List.getElem?_modify_ne _ _ hne]

theorem setTxn_txn_eq (c : Conn) (h : Nat) (f : Txn → Txn) (hh : h < c.txns.length) :
    (c.setTxn h f).txn h = f (c.txn h) := by
  simp [Conn.txn, Conn.setTxn, List.getD_eq_getElem?_getD, List.getElem?_eq_getElem hh]

@[simp] theorem setTxn_length (c : Conn) (h : Nat) (f : Txn → Txn) :
    (c.setTxn h f).txns.length = c.txns.length := by
  simp [Conn.setTxn]

theorem takeFault_nil (db : DB) (p : FPoint) (h : db.faults = []) : db.takeFault p = (none, db) := by
  simp [DB.takeFault, h]


/-! ### SAVEPOINT stack -/

/-- names strictly decrease from the top of the stack (newer savepoints have larger
    sequence numbers and sit above older ones) -/
def Sorted (l : List (Nat × Data)) : Prop := l.Pairwise (fun a b => b.1 < a.1)

theorem dropTo_of_sublist {n : Nat} {d : Data} {sp : List (Nat × Data)} :
    ∀ {saves : List (Nat × Data)}, Sorted saves → ((n, d) :: sp).Sublist saves →
      ∃ tail, dropTo n saves = some ((n, d) :: tail) ∧ sp.Sublist tail ∧
        Sorted ((n, d) :: tail) ∧ ∀ p ∈ tail, p ∈ saves := by
  intro saves
  induction saves with
  | nil => intro _ h; cases h
  | cons x rest ih =>
    intro hs hsub
    obtain ⟨m, e⟩ := x
    cases hsub with
    | cons _ h' =>
      have hs' : Sorted rest := (List.pairwise_cons.1 hs).2
      have hmem : (n, d) ∈ rest := h'.subset (List.mem_cons_self)
      have hlt : n < m := (List.pairwise_cons.1 hs).1 (n, d) hmem
      obtain ⟨tail, h1, h2, h3, h4⟩ := ih hs' h'
      refine ⟨tail, ?_, h2, h3, fun p hp => List.mem_cons_of_mem _ (h4 p hp)⟩
      have : (m == n) = false := by simp; omega
      simp [dropTo, this, h1]
    | cons_cons _ h' =>
      refine ⟨rest, by simp [dropTo], h', hs, fun p hp => List.mem_cons_of_mem _ hp⟩

theorem sorted_push {saves : List (Nat × Data)} {k : Nat} {d : Data}
    (hs : Sorted saves) (hb : ∀ p ∈ saves, p.1 ≤ k) : Sorted ((k + 1, d) :: saves) := by
  refine List.pairwise_cons.2 ⟨fun p hp => ?_, hs⟩
  have := hb p hp
  simp only []; omega


/-! ### the simulation relation between the Connection model and the stack-of-scopes spec -/

/-- following `_previous_nested` from `o` visits exactly the handles of `l` (innermost first),
    all of them live savepoint objects -/
def ChainOk (c : Conn) : Option Nat → List Scope → Prop
  | none, [] => True
  | some h, sc :: rest =>
      sc.h = h ∧ h < c.txns.length ∧ (c.txn h).isRoot = false ∧ (c.txn h).active = true
      ∧ (∀ p, (c.txn h).prev = some p → p < h) ∧ ChainOk c (c.txn h).prev rest
  | _, _ => False

def specSaves (c : Conn) (l : List Scope) : List (Nat × Data) :=
  l.map (fun sc => ((c.txn sc.h).sp, sc.snap))

structure Sim (c : Conn) (s : Spec) : Prop where
  dbapi : c.hasDbapi = true
  reconn : c.canReconnect = true
  nofault : c.db.faults = []
  nolistener : c.db.listener = .none
  noctx : c.ctxMgr = none
  noauto : c.db.raw.autocommit = false
  kindsLen : s.kinds.length = c.txns.length
  kindsAt : ∀ h, h < c.txns.length → s.kinds.getD h false = (c.txn h).isRoot
  committed : c.db.committed = s.committed
  working : c.db.raw.working = s.cur
  root : c.transaction = s.root
  rootOk : ∀ t, s.root = some t →
    t < c.txns.length ∧ (c.txn t).isRoot = true ∧ (c.txn t).active = true
  rootNone : s.root = none → s.scopes = []
  clean : s.root = none → s.cur = s.committed
  savesNone : s.root = none → c.db.raw.saves = []
  chain : ChainOk c c.nested s.scopes
  saves : (specSaves c s.scopes).Sublist c.db.raw.saves
  sorted : Sorted c.db.raw.saves
  bound : ∀ p ∈ c.db.raw.saves, p.1 ≤ c.spSeq
  others : ∀ h, h < c.txns.length → s.root ≠ some h → (∀ sc ∈ s.scopes, sc.h ≠ h) →
    (c.txn h).active = false

theorem chain_nested_active {c : Conn} {o : Option Nat} {l : List Scope} (h : ChainOk c o l) :
    ∀ n, o = some n → c.act n = true := by
  intro n hn
  subst hn
  cases l with
  | nil => simp [ChainOk] at h
  | cons sc rest => exact h.2.2.2.1

theorem chain_handles_le {c : Conn} : ∀ {l : List Scope} {n : Nat}, ChainOk c (some n) l →
    ∀ sc ∈ l, sc.h ≤ n := by
  intro l
  induction l with
  | nil => intro n h; simp [ChainOk] at h
  | cons sc rest ih =>
    intro n h x hx
    obtain ⟨h1, h2, h3, h4, h5, h6⟩ := h
    rcases List.mem_cons.1 hx with rfl | hx
    · omega
    · cases hp : (c.txn n).prev with
      | none =>
        rw [hp] at h6
        cases rest with
        | nil => cases hx
        | cons _ _ => simp [ChainOk] at h6
      | some p =>
        rw [hp] at h6
        have := ih h6 x hx
        have := h5 p hp
        omega

@[simp] theorem andThen_ok (c : Conn) (f : Conn → Conn × Res) : andThen (c, .ok) f = f c := rfl

theorem andThen_err (c : Conn) (r : Res) (f : Conn → Conn × Res) (h : r ≠ .ok) :
    andThen (c, r) f = (c, r) := by
  cases r <;> first | rfl | exact absurd rfl h

@[simp] theorem andFinally_mk (c : Conn) (r : Res) (g : Conn → Conn) :
    andFinally (c, r) g = (g c, r) := rfl

theorem dbapiCall_nofault (c : Conn) (p : FPoint) (f : DB → DB) (h : c.db.faults = []) :
    c.dbapiCall p f = ({ c with db := f c.db }, .ok) := by
  simp [Conn.dbapiCall, takeFault_nil _ _ h]

theorem dbapiError_err_plain (c : Conn) (hl : c.db.listener = .none) (hin : c.inTransaction = true) :
    c.dbapiError .err = (c, .operational) := by
  simp [Conn.dbapiError, hl, Conn.plainError, hin]

/-! ### frame lemmas -/

theorem chain_frame {c c' : Conn} (hlen : c.txns.length ≤ c'.txns.length) :
    ∀ {l : List Scope} {o : Option Nat}, (∀ sc ∈ l, c'.txn sc.h = c.txn sc.h) →
      ChainOk c o l → ChainOk c' o l := by
  intro l
  induction l with
  | nil => intro o _ h; cases o <;> simp_all [ChainOk]
  | cons sc rest ih =>
    intro o hs h
    cases o with
    | none => simp [ChainOk] at h
    | some n =>
      obtain ⟨h1, h2, h3, h4, h5, h6⟩ := h
      have e : c'.txn n = c.txn n := by rw [← h1]; exact hs sc List.mem_cons_self
      refine ⟨h1, by omega, by rw [e]; exact h3, by rw [e]; exact h4, by rw [e]; exact h5, ?_⟩
      rw [e]
      exact ih (fun x hx => hs x (List.mem_cons_of_mem _ hx)) h6

theorem specSaves_frame {c c' : Conn} {l : List Scope} (hs : ∀ sc ∈ l, c'.txn sc.h = c.txn sc.h) :
    specSaves c' l = specSaves c l := by
  unfold specSaves
  apply List.map_congr_left
  intro sc hsc
  rw [hs sc hsc]

theorem chain_none {c : Conn} {l : List Scope} (h : ChainOk c none l) : l = [] := by
  cases l with
  | nil => rfl
  | cons _ _ => simp [ChainOk] at h

theorem chain_nil {c : Conn} {o : Option Nat} (h : ChainOk c o []) : o = none := by
  cases o with
  | none => rfl
  | some _ => simp [ChainOk] at h

theorem chain_length_le {c : Conn} : ∀ {l : List Scope} {n : Nat}, ChainOk c (some n) l →
    l.length ≤ n + 1 := by
  intro l
  induction l with
  | nil => intro n h; simp [ChainOk] at h
  | cons sc rest ih =>
    intro n h
    obtain ⟨_, _, _, _, h5, h6⟩ := h
    cases hp : (c.txn n).prev with
    | none => rw [hp] at h6; rw [chain_none h6]; simp
    | some p =>
      rw [hp] at h6
      have := ih h6
      have := h5 p hp
      simp only [List.length_cons]; omega

theorem chain_tail_ne {c : Conn} {sc : Scope} {rest : List Scope} {n : Nat}
    (h : ChainOk c (some n) (sc :: rest)) : ∀ x ∈ rest, x.h ≠ n := by
  intro x hx
  obtain ⟨_, _, _, _, h5, h6⟩ := h
  cases hp : (c.txn n).prev with
  | none => rw [hp] at h6; rw [chain_none h6] at hx; cases hx
  | some p =>
    rw [hp] at h6
    have := chain_handles_le h6 x hx
    have := h5 p hp
    omega

theorem chain_handles_lt {c : Conn} : ∀ {l : List Scope} {o : Option Nat}, ChainOk c o l →
    ∀ sc ∈ l, sc.h < c.txns.length := by
  intro l
  induction l with
  | nil => intro o _ x hx; cases hx
  | cons sc rest ih =>
    intro o h x hx
    cases o with
    | none => simp [ChainOk] at h
    | some n =>
      obtain ⟨h1, h2, _, _, _, h6⟩ := h
      rcases List.mem_cons.1 hx with rfl | hx
      · omega
      · exact ih h6 x hx

theorem chain_isRoot {c : Conn} : ∀ {l : List Scope} {o : Option Nat}, ChainOk c o l →
    ∀ sc ∈ l, (c.txn sc.h).isRoot = false := by
  intro l
  induction l with
  | nil => intro o _ x hx; cases hx
  | cons sc rest ih =>
    intro o h x hx
    cases o with
    | none => simp [ChainOk] at h
    | some n =>
      obtain ⟨h1, _, h3, _, _, h6⟩ := h
      rcases List.mem_cons.1 hx with rfl | hx
      · rw [h1]; exact h3
      · exact ih h6 x hx

theorem chain_active {c : Conn} : ∀ {l : List Scope} {o : Option Nat}, ChainOk c o l →
    ∀ sc ∈ l, (c.txn sc.h).active = true := by
  intro l
  induction l with
  | nil => intro o _ x hx; cases hx
  | cons sc rest ih =>
    intro o h x hx
    cases o with
    | none => simp [ChainOk] at h
    | some n =>
      obtain ⟨h1, _, _, h4, _, h6⟩ := h
      rcases List.mem_cons.1 hx with rfl | hx
      · rw [h1]; exact h4
      · exact ih h6 x hx

theorem chain_head_lt {c : Conn} {l : List Scope} {n : Nat} (h : ChainOk c (some n) l) :
    n < c.txns.length := by
  cases l with
  | nil => simp [ChainOk] at h
  | cons _ _ => exact h.2.1

theorem chain_txns {c c' : Conn} (e : c'.txns = c.txns) {l : List Scope} {o : Option Nat}
    (h : ChainOk c o l) : ChainOk c' o l :=
  chain_frame (by rw [e]; exact Nat.le_refl _) (fun _ _ => by simp [Conn.txn, e]) h

theorem specSaves_txns {c c' : Conn} (e : c'.txns = c.txns) (l : List Scope) :
    specSaves c' l = specSaves c l :=
  specSaves_frame (fun _ _ => by simp [Conn.txn, e])

/-! ### deactivation -/

theorem deactivate_txn_eq (c : Conn) (h : Nat) (hh : h < c.txns.length) :
    (c.deactivate h).txn h = { c.txn h with active := false } := by
  simp [Conn.deactivate, setTxn_txn_eq _ _ _ hh]

theorem deactivate_txn_ne (c : Conn) (h h' : Nat) (hne : h ≠ h') :
    (c.deactivate h).txn h' = c.txn h' := by
  simp [Conn.deactivate, setTxn_txn_ne _ _ _ _ hne]

theorem deactivate_isRoot (c : Conn) (h h' : Nat) :
    ((c.deactivate h).txn h').isRoot = (c.txn h').isRoot := by
  by_cases e : h = h'
  · subst e
    by_cases hh : h < c.txns.length
    · rw [deactivate_txn_eq _ _ hh]
    · simp [Conn.deactivate, Conn.setTxn, Conn.txn, List.getD_eq_getElem?_getD]
      have : c.txns[h]? = none := by simp; omega
      simp [this]
  · rw [deactivate_txn_ne _ _ _ e]


/-! ### `_cancel` over the whole savepoint chain -/

/-- `c'` is `c` except for `nested`, `warns` and the non-structural fields of some handles -/
structure Frame (c c' : Conn) : Prop where
  len : c'.txns.length = c.txns.length
  transaction : c'.transaction = c.transaction
  db : c'.db = c.db
  spSeq : c'.spSeq = c.spSeq
  ctxMgr : c'.ctxMgr = c.ctxMgr
  hasDbapi : c'.hasDbapi = c.hasDbapi
  canReconnect : c'.canReconnect = c.canReconnect
  isRoot : ∀ h, (c'.txn h).isRoot = (c.txn h).isRoot

theorem Frame.refl (c : Conn) : Frame c c := ⟨rfl, rfl, rfl, rfl, rfl, rfl, rfl, fun _ => rfl⟩

theorem Frame.trans {a b c : Conn} (h1 : Frame a b) (h2 : Frame b c) : Frame a c :=
  ⟨h2.len.trans h1.len, h2.transaction.trans h1.transaction, h2.db.trans h1.db,
   h2.spSeq.trans h1.spSeq, h2.ctxMgr.trans h1.ctxMgr, h2.hasDbapi.trans h1.hasDbapi,
   h2.canReconnect.trans h1.canReconnect, fun h => (h2.isRoot h).trans (h1.isRoot h)⟩

theorem cancel_chain : ∀ (l : List Scope) (fuel n : Nat) (c : Conn),
    ChainOk c (some n) l → c.nested = some n → l.length ≤ fuel →
    (Conn.cancel fuel c n).nested = none ∧
    Frame c (Conn.cancel fuel c n) ∧
    (Conn.cancel fuel c n).warns = c.warns ∧
    (∀ sc ∈ l, ((Conn.cancel fuel c n).txn sc.h).active = false) ∧
    (∀ h, (∀ sc ∈ l, sc.h ≠ h) → (Conn.cancel fuel c n).txn h = c.txn h) := by
  intro l
  induction l with
  | nil => intro fuel n c h; simp [ChainOk] at h
  | cons sc rest ih =>
    intro fuel n c hch hn hf
    cases fuel with
    | zero => simp at hf
    | succ f =>
      have hch' := hch
      obtain ⟨h1, h2, h3, h4, h5, h6⟩ := hch
      -- the state after this handle is cancelled
      have hd_n : (c.deactivate n).nested = some n := by simp [Conn.deactivate, Conn.setTxn, hn]
      have hprev : ((c.deactivate n).txn n).prev = (c.txn n).prev := by
        rw [deactivate_txn_eq _ _ h2]
      let c1 : Conn := { c.deactivate n with nested := (c.txn n).prev }
      have hc1 : (c.deactivate n).nestedDeactivate n true = c1 := by
        simp [Conn.nestedDeactivate, hd_n, hprev, c1]
      have c1_txn_n : c1.txn n = { c.txn n with active := false } := by
        show (c.deactivate n).txn n = _
        exact deactivate_txn_eq _ _ h2
      have c1_txn_ne : ∀ x, n ≠ x → c1.txn x = c.txn x := fun x hx => deactivate_txn_ne _ _ _ hx
      have c1_frame : Frame c c1 :=
        ⟨by simp [c1, Conn.deactivate], rfl, rfl, rfl, rfl, rfl, rfl, fun h => deactivate_isRoot c n h⟩
      have c1_warns : c1.warns = c.warns := rfl
      have hstep : Conn.cancel (f + 1) c n =
          (match (c1.txn n).prev with
           | some p => Conn.cancel f c1 p
           | none => c1) := by
        simp only [Conn.cancel, hc1]
        rfl
      rw [hstep, c1_txn_n]
      cases hp : (c.txn n).prev with
      | none =>
        rw [hp] at h6
        have hr := chain_none h6
        subst hr
        simp only []
        refine ⟨by simp [c1, hp], c1_frame, c1_warns, ?_, ?_⟩
        · intro x hx
          simp only [List.mem_singleton] at hx
          subst hx
          rw [h1, c1_txn_n]
        · intro h hne
          have : n ≠ h := by
            intro e; exact hne sc List.mem_cons_self (by rw [h1, e])
          exact c1_txn_ne h this
      | some p =>
        rw [hp] at h6
        simp only []
        have hne_rest : ∀ x ∈ rest, x.h ≠ n := chain_tail_ne hch'
        have hch1 : ChainOk c1 (some p) rest := by
          refine chain_frame (by rw [c1_frame.len]; exact Nat.le_refl _) ?_ h6
          intro x hx
          exact c1_txn_ne x.h (fun e => hne_rest x hx e.symm)
        have hn1 : c1.nested = some p := by simp [c1, hp]
        have hf1 : rest.length ≤ f := by simp at hf; omega
        obtain ⟨r1, r2, r3, r4, r5⟩ := ih f p c1 hch1 hn1 hf1
        refine ⟨r1, c1_frame.trans r2, r3.trans c1_warns, ?_, ?_⟩
        · intro x hx
          rcases List.mem_cons.1 hx with rfl | hx
          · rw [h1]
            have : ∀ y ∈ rest, y.h ≠ n := hne_rest
            rw [r5 n this, c1_txn_n]
          · exact r4 x hx
        · intro h hne
          have hne' : ∀ y ∈ rest, y.h ≠ h := fun y hy => hne y (List.mem_cons_of_mem _ hy)
          rw [r5 h hne']
          have : n ≠ h := by
            intro e; exact hne sc List.mem_cons_self (by rw [h1, e])
          exact c1_txn_ne h this


theorem cancelNested_spec {c : Conn} {l : List Scope} (hch : ChainOk c c.nested l) :
    c.cancelNested.nested = none ∧
    Frame c c.cancelNested ∧
    c.cancelNested.warns = c.warns ∧
    (∀ sc ∈ l, (c.cancelNested.txn sc.h).active = false) ∧
    (∀ h, (∀ sc ∈ l, sc.h ≠ h) → c.cancelNested.txn h = c.txn h) := by
  cases hn : c.nested with
  | none =>
    rw [hn] at hch
    have := chain_none hch
    subst this
    have e : c.cancelNested = c := by simp [Conn.cancelNested, hn]
    rw [e]
    refine ⟨hn, Frame.refl c, rfl, ?_, ?_⟩
    · intro sc hsc; cases hsc
    · intro _ _; rfl
  | some n =>
    rw [hn] at hch
    have hl : l.length ≤ c.txns.length := by
      have := chain_length_le hch
      have := chain_head_lt hch
      omega
    have e : c.cancelNested = Conn.cancel c.txns.length c n := by simp [Conn.cancelNested, hn]
    rw [e]
    exact cancel_chain l c.txns.length n c hch hn hl

end SaVerif.Txn
