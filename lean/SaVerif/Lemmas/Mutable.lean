import SaVerif.Model.Mutable
/-! Helper lemmas about M-MUT (core Lean only): the invariant and its preservation by
every primitive of the model. -/
namespace SaVerif.Mutable

/-- The tracking invariant.
* `wf*`      : every reference points to an allocated value object
* `cleanRef/cleanNone` : an attribute with no entry in committed_state mirrors the row
* `origRef/origNone`   : the original remembered in committed_state mirrors the row
* `linked`   : the current value object is linked (`_parents`) to its parent
* `modOrig`  : a state with a committed_state entry is in the session's modified set -/
structure Inv (st : St) : Prop where
  wfCur : ∀ p v, (st.pars p).cur = .ref v → v < st.nv
  wfOrig : ∀ p v, (st.pars p).orig = .ref v → v < st.nv
  wfH : ∀ v, v ∈ st.handles → v < st.nv
  cleanRef : ∀ p v, (st.pars p).orig = .absent → (st.pars p).cur = .ref v →
    (st.pars p).db = some (st.vals v).content
  cleanNone : ∀ p, (st.pars p).orig = .absent → (st.pars p).cur = .none → (st.pars p).db = none
  origRef : ∀ p w, (st.pars p).orig = .ref w → (st.pars p).db = some (st.vals w).content
  origNone : ∀ p, (st.pars p).orig = .none → (st.pars p).db = none
  linked : ∀ p v, (st.pars p).cur = .ref v → p ∈ (st.vals v).parents
  modOrig : ∀ p, (st.pars p).orig ≠ .absent → (st.pars p).modified = true

/-! ### projections of the primitive updates -/

@[simp] theorem setPar_pars (st : St) (p : Nat) (x : Par) (q : Nat) :
    (setPar st p x).pars q = if q = p then x else st.pars q := rfl
@[simp] theorem setPar_vals (st : St) (p : Nat) (x : Par) : (setPar st p x).vals = st.vals := rfl
@[simp] theorem setPar_nv (st : St) (p : Nat) (x : Par) : (setPar st p x).nv = st.nv := rfl
@[simp] theorem setPar_handles (st : St) (p : Nat) (x : Par) :
    (setPar st p x).handles = st.handles := rfl
@[simp] theorem setPar_af (st : St) (p : Nat) (x : Par) : (setPar st p x).af = st.af := rfl

@[simp] theorem putVal_vals (st : St) (v : Nat) (x : Val) (w : Nat) :
    (putVal st v x).vals w = if w = v then x else st.vals w := rfl
@[simp] theorem putVal_pars (st : St) (v : Nat) (x : Val) : (putVal st v x).pars = st.pars := rfl
@[simp] theorem putVal_nv (st : St) (v : Nat) (x : Val) : (putVal st v x).nv = st.nv := rfl
@[simp] theorem putVal_handles (st : St) (v : Nat) (x : Val) :
    (putVal st v x).handles = st.handles := rfl
@[simp] theorem putVal_af (st : St) (v : Nat) (x : Val) : (putVal st v x).af = st.af := rfl

@[simp] theorem alloc_vals (st : St) (c : Content) (ps : List Nat) (w : Nat) :
    (alloc st c ps).vals w = if w = st.nv then ⟨c, ps⟩ else st.vals w := rfl
@[simp] theorem alloc_pars (st : St) (c : Content) (ps : List Nat) :
    (alloc st c ps).pars = st.pars := rfl
@[simp] theorem alloc_nv (st : St) (c : Content) (ps : List Nat) :
    (alloc st c ps).nv = st.nv + 1 := rfl
@[simp] theorem alloc_handles (st : St) (c : Content) (ps : List Nat) :
    (alloc st c ps).handles = st.handles := rfl
@[simp] theorem alloc_af (st : St) (c : Content) (ps : List Nat) :
    (alloc st c ps).af = st.af := rfl

@[grind =] theorem mem_link {ps : List Nat} {p q : Nat} : q ∈ link ps p ↔ q ∈ ps ∨ q = p := by
  unfold link
  split
  · rename_i h
    simp only [List.contains_eq_mem, decide_eq_true_eq] at h
    constructor
    · intro h1; exact Or.inl h1
    · rintro (h1 | h1)
      · exact h1
      · subst h1; exact h
  · simp

@[grind =] theorem mem_unlink {ps : List Nat} {p q : Nat} : q ∈ unlink ps p ↔ q ∈ ps ∧ q ≠ p := by
  unfold unlink
  simp

/-! ### flush -/

@[simp] theorem flush_nv (st : St) : (flush st).nv = st.nv + st.np := rfl
@[simp] theorem flush_handles (st : St) : (flush st).handles = st.handles := rfl
@[simp] theorem flush_af (st : St) : (flush st).af = st.af := rfl
@[simp] theorem flush_np (st : St) : (flush st).np = st.np := rfl
@[simp] theorem flush_pars (st : St) (p : Nat) : (flush st).pars p = flushPar st p := rfl

/-- value objects that existed before the flush are untouched -/
theorem flush_vals_old (st : St) (w : Nat) (hw : w < st.nv) : (flush st).vals w = st.vals w := by
  simp only [flush]
  split
  · rename_i h; omega
  · rfl

/-- the value object created for parent `p` by the pk-triggered load -/
theorem flush_vals_new (st : St) (p : Nat) (c : Content) (hl : flushLoads st p = true)
    (hdb : (st.pars p).db = some c) : (flush st).vals (st.nv + p) = ⟨c, [p]⟩ := by
  have hp : p < st.np := by
    simp only [flushLoads, Bool.and_eq_true, decide_eq_true_eq] at hl
    exact hl.1.1.1.1
  simp only [flush]
  rw [if_pos]
  · simp only [Nat.add_sub_cancel_left, hdb]
  · refine ⟨by omega, by omega, ?_⟩
    simp only [Nat.add_sub_cancel_left]
    exact hl

theorem flushLoads_spec {st : St} {p : Nat} (h : flushLoads st p = true) :
    p < st.np ∧ (st.pars p).modified = true ∧ (st.pars p).pkx = true ∧
      (st.pars p).cur = .absent ∧ (st.pars p).orig = .absent := by
  simp only [flushLoads, Bool.and_eq_true, decide_eq_true_eq] at h
  exact ⟨h.1.1.1.1, h.1.1.1.2, h.1.1.2, h.1.2, h.2⟩

theorem flushPar_orig (st : St) (p : Nat) (hm : (st.pars p).modified = true) :
    (flushPar st p).orig = .absent := by
  simp [flushPar, hm]

theorem flushPar_unmodified (st : St) (p : Nat) (hm : (st.pars p).modified = false) :
    flushPar st p = st.pars p := by
  simp [flushPar, hm]

/-- the heart of `flush_stores_current`: under the invariant's clauses for one parent the
    UPDATE decision leaves the in-memory value in the row -/
theorem flushDb_eq (st : St) (x : Par)
    (hcr : ∀ v, x.orig = .absent → x.cur = .ref v → x.db = some (st.vals v).content)
    (hcn : x.orig = .absent → x.cur = .none → x.db = none)
    (hor : ∀ w, x.orig = .ref w → x.db = some (st.vals w).content)
    (hon : x.orig = .none → x.db = none) :
    ∀ c, contentOfCur st x.cur = some c → flushDb st x = c := by
  intro c hc
  unfold flushDb
  split
  · rename_i ho
    cases hx : x.cur with
    | absent => rw [hx] at hc; simp [contentOfCur] at hc
    | none =>
      rw [hx] at hc; simp only [contentOfCur, Option.some.injEq] at hc
      rw [← hc]; exact hcn ho hx
    | ref v =>
      rw [hx] at hc; simp only [contentOfCur, Option.some.injEq] at hc
      rw [← hc]; exact hcr v ho hx
  · rw [hc]
    simp only
    split
    · rename_i heq
      -- equal: the original mirrors the row, so the row already holds the value
      cases hx : x.cur with
      | absent => rw [hx] at hc; simp [contentOfCur] at hc
      | none =>
        cases ho : x.orig with
        | none =>
          rw [hx] at hc; simp only [contentOfCur, Option.some.injEq] at hc
          rw [← hc]; exact hon ho
        | absent => rw [hx, ho] at heq; simp [isEqual] at heq
        | noValue => rw [hx, ho] at heq; simp [isEqual] at heq
        | ref w => rw [hx, ho] at heq; simp [isEqual] at heq
      | ref v =>
        cases ho : x.orig with
        | ref w =>
          rw [hx, ho] at heq
          simp only [isEqual, beq_iff_eq] at heq
          rw [hx] at hc; simp only [contentOfCur, Option.some.injEq] at hc
          rw [← hc, heq]; exact hor w ho
        | absent => rw [hx, ho] at heq; simp [isEqual] at heq
        | noValue => rw [hx, ho] at heq; simp [isEqual] at heq
        | none => rw [hx, ho] at heq; simp [isEqual] at heq
    · rfl

theorem flushDb_absent (st : St) (x : Par) (hc : x.cur = .absent) : flushDb st x = x.db := by
  unfold flushDb
  split
  · rfl
  · simp [hc, contentOfCur]

/-- after a flush: for every parent whose attribute is loaded, row = in-memory value;
    stated on the components so that it can be used before `Inv (flush st)` is known -/
theorem flush_db_eq_mem {st : St} (h : Inv st) (p : Nat) :
    (∀ v, ((flush st).pars p).orig = .absent → ((flush st).pars p).cur = .ref v →
        ((flush st).pars p).db = some ((flush st).vals v).content) ∧
    (((flush st).pars p).orig = .absent → ((flush st).pars p).cur = .none →
        ((flush st).pars p).db = none) := by
  simp only [flush_pars]
  by_cases hm : (st.pars p).modified = true
  · by_cases hl : flushLoads st p = true
    · have ⟨_, _, _, hc, _⟩ := flushLoads_spec hl
      cases hdb : (st.pars p).db with
      | none =>
        simp [flushPar, hm, hl, hdb, flushDb_absent st _ hc]
      | some c =>
        have hv := flush_vals_new st p c hl hdb
        simp only [flushPar, hm, hl, hdb, if_true, flushDb_absent st _ hc]
        constructor
        · intro v _ hv'
          cases hv'
          rw [hv]
        · intro _ hc'; cases hc'
    · have hl' : flushLoads st p = false := by simpa using hl
      simp only [flushPar, hm, hl', if_true, Bool.false_eq_true, if_false]
      constructor
      · intro v _ hv
        have hw := h.wfCur p v hv
        rw [flush_vals_old st v hw]
        exact flushDb_eq st (st.pars p) (fun v => h.cleanRef p v) (h.cleanNone p)
          (fun w => h.origRef p w) (h.origNone p) _ (by rw [hv]; rfl)
      · intro _ hc
        exact flushDb_eq st (st.pars p) (fun v => h.cleanRef p v) (h.cleanNone p)
          (fun w => h.origRef p w) (h.origNone p) _ (by rw [hc]; rfl)
  · have hm' : (st.pars p).modified = false := by simpa using hm
    rw [flushPar_unmodified st p hm']
    constructor
    · intro v ho hv
      rw [flush_vals_old st v (h.wfCur p v hv)]
      exact h.cleanRef p v ho hv
    · exact h.cleanNone p

theorem inv_flush {st : St} (h : Inv st) : Inv (flush st) := by
  refine ⟨?_, ?_, ?_, ?_, ?_, ?_, ?_, ?_, ?_⟩
  · intro p v hc
    simp only [flush_pars, flush_nv] at hc ⊢
    by_cases hm : (st.pars p).modified = true
    · by_cases hl : flushLoads st p = true
      · have ⟨hp, _⟩ := flushLoads_spec hl
        simp only [flushPar, hm, hl, if_true] at hc
        split at hc
        · cases hc
        · cases hc; omega
      · have hl' : flushLoads st p = false := by simpa using hl
        simp only [flushPar, hm, hl', if_true, Bool.false_eq_true, if_false] at hc
        have := h.wfCur p v hc; omega
    · have hm' : (st.pars p).modified = false := by simpa using hm
      rw [flushPar_unmodified st p hm'] at hc
      have := h.wfCur p v hc; omega
  · intro p v ho
    simp only [flush_pars, flush_nv] at ho ⊢
    by_cases hm : (st.pars p).modified = true
    · rw [flushPar_orig st p hm] at ho; cases ho
    · have hm' : (st.pars p).modified = false := by simpa using hm
      rw [flushPar_unmodified st p hm'] at ho
      have := h.wfOrig p v ho; omega
  · intro v hv
    have := h.wfH v hv
    simp only [flush_nv]; omega
  · intro p v ho hc
    exact (flush_db_eq_mem h p).1 v ho hc
  · intro p ho hc
    exact (flush_db_eq_mem h p).2 ho hc
  · intro p w ho
    simp only [flush_pars] at ho ⊢
    by_cases hm : (st.pars p).modified = true
    · rw [flushPar_orig st p hm] at ho; cases ho
    · have hm' : (st.pars p).modified = false := by simpa using hm
      rw [flushPar_unmodified st p hm'] at ho ⊢
      rw [flush_vals_old st w (h.wfOrig p w ho)]
      exact h.origRef p w ho
  · intro p ho
    simp only [flush_pars] at ho ⊢
    by_cases hm : (st.pars p).modified = true
    · rw [flushPar_orig st p hm] at ho; cases ho
    · have hm' : (st.pars p).modified = false := by simpa using hm
      rw [flushPar_unmodified st p hm'] at ho ⊢
      exact h.origNone p ho
  · intro p v hc
    simp only [flush_pars] at hc
    by_cases hm : (st.pars p).modified = true
    · by_cases hl : flushLoads st p = true
      · simp only [flushPar, hm, hl, if_true] at hc
        cases hdb : (st.pars p).db with
        | none => rw [hdb] at hc; cases hc
        | some c =>
          rw [hdb] at hc
          cases hc
          rw [flush_vals_new st p c hl hdb]
          simp
      · have hl' : flushLoads st p = false := by simpa using hl
        simp only [flushPar, hm, hl', if_true, Bool.false_eq_true, if_false] at hc
        rw [flush_vals_old st v (h.wfCur p v hc)]
        exact h.linked p v hc
    · have hm' : (st.pars p).modified = false := by simpa using hm
      rw [flushPar_unmodified st p hm'] at hc
      rw [flush_vals_old st v (h.wfCur p v hc)]
      exact h.linked p v hc
  · intro p ho
    simp only [flush_pars] at ho ⊢
    by_cases hm : (st.pars p).modified = true
    · rw [flushPar_orig st p hm] at ho; exact absurd rfl ho
    · have hm' : (st.pars p).modified = false := by simpa using hm
      rw [flushPar_unmodified st p hm'] at ho ⊢
      exact h.modOrig p ho

theorem inv_autoflush {st : St} (h : Inv st) : Inv (autoflush st) := by
  unfold autoflush
  split
  · exact inv_flush h
  · exact h

/-! ### expire / commit / rollback -/

theorem inv_expireAll_of {st : St} (hH : ∀ v, v ∈ st.handles → v < st.nv) : Inv (expireAll st) := by
  refine ⟨?_, ?_, hH, ?_, ?_, ?_, ?_, ?_, ?_⟩ <;> intros <;> simp_all [expireAll, expireObj]

theorem inv_commit {st : St} (h : Inv st) : Inv (commit st) := by
  unfold commit
  exact inv_expireAll_of (inv_flush h).wfH

theorem inv_rollback {st : St} (h : Inv st) : Inv (rollback st) := by
  unfold rollback
  exact inv_expireAll_of h.wfH

/-- replacing a parent by one whose attribute is neither loaded nor modified keeps `Inv` -/
theorem inv_setPar_absent {st : St} (h : Inv st) (p : Nat) (x : Par) (hc : x.cur = .absent)
    (ho : x.orig = .absent) : Inv (setPar st p x) := by
  have ⟨h1, h2, h3, h4, h5, h6, h7, h8, h9⟩ := h
  refine ⟨?_, ?_, ?_, ?_, ?_, ?_, ?_, ?_, ?_⟩ <;> intros <;>
    simp only [setPar_pars, setPar_vals, setPar_nv, setPar_handles] at * <;> grind

theorem inv_expire {st : St} (h : Inv st) (p : Nat) : Inv (setPar st p (expireObj (st.pars p))) :=
  inv_setPar_absent h p _ rfl rfl

theorem inv_expireAttr {st : St} (h : Inv st) (p : Nat) :
    Inv (setPar st p (expireAttr (st.pars p))) :=
  inv_setPar_absent h p _ rfl rfl

/-! ### load / access / refresh -/

/-- closes the eight clauses of `Inv` for a state built from `setPar`/`putVal`/`alloc` -/
macro "inv_auto" : tactic =>
  `(tactic| (refine ⟨?_, ?_, ?_, ?_, ?_, ?_, ?_, ?_, ?_⟩ <;> intros <;>
      simp only [setPar_pars, setPar_vals, setPar_nv, setPar_handles, putVal_vals, putVal_pars,
        putVal_nv, putVal_handles, alloc_vals, alloc_pars, alloc_nv, alloc_handles] at * <;> grind))

theorem inv_load {st : St} (h : Inv st) (p : Nat) : Inv (load st p) := by
  have ⟨h1, h2, h3, h4, h5, h6, h7, h8, h9⟩ := h
  unfold load
  simp only
  split
  · inv_auto
  · inv_auto

/-- `pkx` and `dbc` play no role in the invariant -/
theorem inv_setFlags {st : St} (h : Inv st) (p : Nat) (x : Par) (hc : x.cur = (st.pars p).cur)
    (ho : x.orig = (st.pars p).orig) (hd : x.db = (st.pars p).db)
    (hmo : x.modified = (st.pars p).modified) : Inv (setPar st p x) := by
  have ⟨h1, h2, h3, h4, h5, h6, h7, h8, h9⟩ := h
  refine ⟨?_, ?_, ?_, ?_, ?_, ?_, ?_, ?_, ?_⟩ <;> intros <;>
    simp only [setPar_pars, setPar_vals, setPar_nv, setPar_handles] at * <;> grind

theorem inv_loadExpired {st : St} (h : Inv st) (p : Nat) : Inv (loadExpired st p) := by
  unfold loadExpired
  exact inv_setFlags (inv_load h p) p _ rfl rfl rfl rfl

theorem inv_access {st : St} (h : Inv st) (p : Nat) : Inv (access st p) := by
  unfold access
  split
  · exact inv_loadExpired (inv_autoflush h) p
  · exact h

theorem inv_refresh {st : St} (h : Inv st) (p : Nat) : Inv (refresh st p) := by
  unfold refresh
  exact inv_loadExpired (inv_autoflush (inv_expire h p)) p

theorem inv_refreshAttr {st : St} (h : Inv st) (p : Nat) : Inv (refreshAttr st p) := by
  unfold refreshAttr
  exact inv_load (inv_autoflush (inv_expireAttr h p)) p

/-! ### changed() -/

/-- what `changed()` may do to a state: only committed_state entries become NO_VALUE -/
structure FlagSpec (st st' : St) : Prop where
  vals : st'.vals = st.vals
  nv : st'.nv = st.nv
  handles : st'.handles = st.handles
  af : st'.af = st.af
  cur : ∀ q, (st'.pars q).cur = (st.pars q).cur
  db : ∀ q, (st'.pars q).db = (st.pars q).db
  dbc : ∀ q, (st'.pars q).dbc = (st.pars q).dbc
  orig : ∀ q, (st'.pars q).orig = (st.pars q).orig ∨ (st'.pars q).orig = .noValue
  modified : ∀ q, (st'.pars q).modified = true ∨
    ((st'.pars q).modified = (st.pars q).modified ∧ (st'.pars q).orig = (st.pars q).orig)

theorem FlagSpec.refl (st : St) : FlagSpec st st :=
  ⟨rfl, rfl, rfl, rfl, fun _ => rfl, fun _ => rfl, fun _ => rfl, fun _ => Or.inl rfl,
    fun _ => Or.inr ⟨rfl, rfl⟩⟩

theorem FlagSpec.trans {a b c : St} (h1 : FlagSpec a b) (h2 : FlagSpec b c) : FlagSpec a c := by
  refine ⟨h2.vals.trans h1.vals, h2.nv.trans h1.nv, h2.handles.trans h1.handles,
    h2.af.trans h1.af, fun q => (h2.cur q).trans (h1.cur q), fun q => (h2.db q).trans (h1.db q),
    fun q => (h2.dbc q).trans (h1.dbc q), ?_, ?_⟩
  · intro q
    rcases h2.orig q with h | h
    · rcases h1.orig q with h' | h'
      · exact Or.inl (h.trans h')
      · exact Or.inr (h.trans h')
    · exact Or.inr h
  · intro q
    rcases h2.modified q with h | ⟨h, ho⟩
    · exact Or.inl h
    · rcases h1.modified q with h' | ⟨h', ho'⟩
      · exact Or.inl (h.trans h')
      · exact Or.inr ⟨h.trans h', ho.trans ho'⟩

theorem flagSpec_flag (st : St) (p : Nat) : FlagSpec st (flag st p) := by
  refine ⟨rfl, rfl, rfl, rfl, ?_, ?_, ?_, ?_, ?_⟩ <;> intro q <;> simp only [flag, setPar_pars] <;>
    split <;> simp_all

theorem changed_spec : ∀ (ps : List Nat) (st : St), FlagSpec st (changed st ps).1
  | [], st => FlagSpec.refl st
  | p :: ps, st => by
    unfold changed
    split
    · exact FlagSpec.refl st
    · exact (flagSpec_flag st p).trans (changed_spec ps (flag st p))

/-- when no linked parent is expired, `changed()` does not raise and flags them all -/
theorem changed_all : ∀ (ps : List Nat) (st : St),
    (∀ q, q ∈ ps → (st.pars q).cur ≠ .absent) →
    (changed st ps).2 = true ∧ ∀ q, q ∈ ps → ((changed st ps).1.pars q).orig = .noValue
  | [], st, _ => ⟨rfl, fun q hq => by cases hq⟩
  | p :: ps, st, h => by
    have hp : (st.pars p).cur ≠ .absent := h p (List.mem_cons_self ..)
    have hrest : ∀ q, q ∈ ps → ((flag st p).pars q).cur ≠ .absent := by
      intro q hq
      rw [(flagSpec_flag st p).cur q]
      exact h q (List.mem_cons_of_mem _ hq)
    have ih := changed_all ps (flag st p) hrest
    unfold changed
    rw [if_neg hp]
    refine ⟨ih.1, ?_⟩
    intro q hq
    rcases List.mem_cons.1 hq with rfl | hq
    · rcases (changed_spec ps (flag st q)).orig q with h' | h'
      · rw [h']; simp [flag]
      · exact h'
    · exact ih.2 q hq

/-- a state that differs only by extra NO_VALUE flags keeps the invariant -/
theorem inv_flagSpec {st st' : St} (h : Inv st) (f : FlagSpec st st') : Inv st' := by
  have ⟨h1, h2, h3, h4, h5, h6, h7, h8, h9⟩ := h
  have ⟨f1, f2, f3, _, f5, f6, _, f8, f9⟩ := f
  refine ⟨?_, ?_, ?_, ?_, ?_, ?_, ?_, ?_, ?_⟩ <;> intros <;> grind

/-! ### a method call on a value object -/

/-- guard of a call of method `m` on value `v` that leaves content `c`:
    either the content is unchanged, or the override reaches `changed()` (table),
    the builtin did not raise, no linked parent is expired (else `changed()` aborts)
    and every parent remembering `v` as its committed original is linked to `v` -/
def MutGuard (tracked : String → Bool) (st : St) (v : Nat) (m : String) (c : Content)
    (raised : Bool) : Prop :=
  c = (st.vals v).content ∨
    (tracked m = true ∧ raised = false ∧
      (∀ q, q ∈ (st.vals v).parents → (st.pars q).cur ≠ .absent) ∧
      (∀ q, (st.pars q).orig = .ref v → q ∈ (st.vals v).parents))

theorem putVal_same (st : St) (v : Nat) :
    putVal st v { st.vals v with content := (st.vals v).content } = st := by
  cases st with
  | mk vals nv pars handles af =>
    simp only [putVal, St.mk.injEq, and_true]
    funext w
    split
    · rename_i hw; subst hw; rfl
    · rfl

theorem inv_mut_core {st st2 : St} (h : Inv st) (v : Nat) (c : Content)
    (hv : ∀ w, st2.vals w = if w = v then { st.vals v with content := c } else st.vals w)
    (hnv : st2.nv = st.nv) (hh : st2.handles = st.handles)
    (hcur : ∀ q, (st2.pars q).cur = (st.pars q).cur)
    (hdb : ∀ q, (st2.pars q).db = (st.pars q).db)
    (horig : ∀ q, (st2.pars q).orig = (st.pars q).orig ∨ (st2.pars q).orig = .noValue)
    (hmod : ∀ q, (st2.pars q).modified = true ∨
      ((st2.pars q).modified = (st.pars q).modified ∧ (st2.pars q).orig = (st.pars q).orig))
    (hall : ∀ q, q ∈ (st.vals v).parents → (st2.pars q).orig = .noValue)
    (gal : ∀ q, (st.pars q).orig = .ref v → q ∈ (st.vals v).parents) : Inv st2 := by
  have ⟨h1, h2, h3, h4, h5, h6, h7, h8, h9⟩ := h
  refine ⟨?_, ?_, ?_, ?_, ?_, ?_, ?_, ?_, ?_⟩ <;> intros <;> grind

theorem inv_mutVal {tracked : String → Bool} {st : St} (h : Inv st) (v : Nat) (m : String)
    (c : Content) (raised : Bool) (g : MutGuard tracked st v m c raised) :
    Inv (mutVal tracked st v m c raised).1 := by
  unfold mutVal
  simp only
  rcases g with g | ⟨gt, gr, gna, gal⟩
  · -- content unchanged
    subst g
    rw [putVal_same]
    split
    · have := changed_spec (st.vals v).parents st
      split <;> (rename_i heq; rw [heq] at this; exact inv_flagSpec h this)
    · exact h
  · subst gr
    simp only [gt, Bool.not_false, Bool.and_self, if_true]
    have hps : ((putVal st v { st.vals v with content := c }).vals v).parents = (st.vals v).parents := by
      simp
    rw [hps]
    have f := changed_spec (st.vals v).parents (putVal st v { st.vals v with content := c })
    have a := changed_all (st.vals v).parents (putVal st v { st.vals v with content := c })
      (by intro q hq; simpa using gna q hq)
    have key : Inv (changed (putVal st v { st.vals v with content := c }) (st.vals v).parents).1 := by
      refine inv_mut_core h v c ?_ f.nv f.handles f.cur f.db f.orig f.modified a.2 gal
      intro w
      rw [f.vals]
      rfl
    split <;> (rename_i heq; rw [heq] at key; exact key)

/-! ### attribute set -/

theorem recordOld_cases (x : Par) :
    (x.orig ≠ .absent ∧ recordOld x = x.orig) ∨
    (x.orig = .absent ∧ x.cur = .absent ∧ recordOld x = .noValue) ∨
    (x.orig = .absent ∧ x.cur = .none ∧ recordOld x = .none) ∨
    (∃ v, x.orig = .absent ∧ x.cur = .ref v ∧ recordOld x = .ref v) := by
  unfold recordOld
  cases ho : x.orig <;> cases hc : x.cur <;> simp

theorem inv_setAttrRef {st : St} (h : Inv st) (p : Nat) (new : Cur)
    (hnew : ∀ w, new = .ref w → w < st.nv) : Inv (setAttrRef st p new) := by
  have ⟨h1, h2, h3, h4, h5, h6, h7, h8, h9⟩ := h
  have ro := recordOld_cases (st.pars p)
  unfold setAttrRef
  simp only
  split
  · inv_auto
  · cases new with
    | absent => cases hx : (st.pars p).cur <;> simp only [] <;> inv_auto
    | none => cases hx : (st.pars p).cur <;> simp only [] <;> inv_auto
    | ref w =>
      have hw := hnew w rfl
      cases hx : (st.pars p).cur <;> simp only [] <;> inv_auto

theorem inv_alloc {st : St} (h : Inv st) (c : Content) (ps : List Nat) : Inv (alloc st c ps) := by
  have ⟨h1, h2, h3, h4, h5, h6, h7, h8, h9⟩ := h
  inv_auto

theorem inv_setPlain {st : St} (h : Inv st) (p : Nat) (c : Content) : Inv (setPlain st p c) := by
  unfold setPlain
  exact inv_setAttrRef (inv_alloc h c []) p _ (by intro w hw; cases hw; simp)

/-! ### pickle / expunge+get -/

theorem inv_dropParent_expire {st : St} (h : Inv st) (p : Nat) :
    Inv (setPar (dropParent st p) p (expireObj ((dropParent st p).pars p))) := by
  have ⟨h1, h2, h3, h4, h5, h6, h7, h8, h9⟩ := h
  refine ⟨?_, ?_, ?_, ?_, ?_, ?_, ?_, ?_, ?_⟩ <;> intros <;>
    simp only [setPar_pars, setPar_vals, setPar_nv, setPar_handles, dropParent, expireObj] at * <;>
    grind

theorem inv_reget {st : St} (h : Inv st) (p : Nat) : Inv (reget st p) := by
  unfold reget
  exact inv_loadExpired (inv_autoflush (inv_dropParent_expire h p)) p

theorem inv_pickleP {st : St} (h : Inv st) (p : Nat) : Inv (pickleP st p) := by
  have ⟨h1, h2, h3, h4, h5, h6, h7, h8, h9⟩ := h
  unfold pickleP
  simp only
  split
  · split
    · split
      · refine ⟨?_, ?_, ?_, ?_, ?_, ?_, ?_, ?_, ?_⟩ <;> intros <;>
          simp only [setPar_pars, setPar_vals, setPar_nv, setPar_handles, alloc_vals, alloc_pars,
            alloc_nv, alloc_handles, dropParent] at * <;> grind
      · refine ⟨?_, ?_, ?_, ?_, ?_, ?_, ?_, ?_, ?_⟩ <;> intros <;>
          simp only [setPar_pars, setPar_vals, setPar_nv, setPar_handles, alloc_vals, alloc_pars,
            alloc_nv, alloc_handles, dropParent] at * <;> grind
    · refine ⟨?_, ?_, ?_, ?_, ?_, ?_, ?_, ?_, ?_⟩ <;> intros <;>
        simp only [setPar_pars, setPar_vals, setPar_nv, setPar_handles, alloc_vals, alloc_pars,
          alloc_nv, alloc_handles, dropParent] at * <;> grind
  · split
    · refine ⟨?_, ?_, ?_, ?_, ?_, ?_, ?_, ?_, ?_⟩ <;> intros <;>
        simp only [setPar_pars, setPar_vals, setPar_nv, setPar_handles, alloc_vals, alloc_pars,
          alloc_nv, alloc_handles, dropParent] at * <;> grind
    · refine ⟨?_, ?_, ?_, ?_, ?_, ?_, ?_, ?_, ?_⟩ <;> intros <;>
        simp only [dropParent] at * <;> grind

end SaVerif.Mutable
