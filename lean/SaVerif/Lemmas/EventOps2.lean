import SaVerif.Lemmas.EventOps
/-! Preservation of `EInv` by remove / subclass / newinst / fire, and by `exec`. -/
namespace SaVerif.Event

/-- dropping entry `e` from a sub-list `es` of a registry with unique keys -/
theorem orderOf_drop {st : St}
    (hk : ∀ e1 ∈ st.reg, ∀ e2 ∈ st.reg, e1.target = e2.target → e1.fn = e2.fn → e1 = e2)
    {e : RegEntry} (he : e ∈ st.reg) (es : List RegEntry) (hsub : ∀ x ∈ es, x ∈ st.reg)
    (hnd : (es.map (fun x => x.lsn)).Nodup) :
    orderOf (es.filter (notKey e.target e.fn)) =
      if e ∈ es then (orderOf es).erase e.lsn else orderOf es := by
  by_cases hin : e ∈ es
  · rw [if_pos hin, erase_eq_filter_of_nodup (orderOf_nodup hnd)]
    apply orderOf_filter
    intro x hx
    by_cases hxe : x = e
    · subst hxe
      have := (notKey_iff hk he he).2 rfl
      rw [this]; simp
    · have h1 : notKey e.target e.fn x = true := by
        cases hv : notKey e.target e.fn x with
        | true => rfl
        | false => exact absurd ((notKey_iff hk he (hsub x hx)).1 hv) hxe
      rw [h1]
      have : x.lsn ≠ e.lsn := fun hl => hxe (eq_of_lsn_eq hnd hx hin hl)
      simp [this]
  · rw [if_neg hin]
    congr 1
    rw [List.filter_eq_self]
    intro x hx
    cases hv : notKey e.target e.fn x with
    | true => rfl
    | false =>
      have := (notKey_iff hk he (hsub x hx)).1 hv
      subst this; exact absurd hx hin

theorem relevant_dropKey (st : St) (t : Target) (fn : Nat) (k : Cls) :
    relevant (dropKey st t fn) k = (relevant st k).filter (notKey t fn) := by
  have hcg : isClsRel (dropKey st t fn) k = isClsRel st k :=
    isClsRel_congr (st := st) (st' := dropKey st t fn) rfl k
  unfold relevant
  rw [hcg, dropKey_reg, List.filter_filter, List.filter_filter]
  apply List.filter_congr
  intro x _
  exact Bool.and_comm _ _

theorem instEntries_dropKey (st : St) (t : Target) (fn : Nat) (j : Nat) :
    instEntries (dropKey st t fn) j = (instEntries st j).filter (notKey t fn) := by
  unfold instEntries
  rw [dropKey_reg, List.filter_filter, List.filter_filter]
  apply List.filter_congr
  intro x _
  exact Bool.and_comm _ _

theorem clsEntries_dropKey (st : St) (t : Target) (fn : Nat) :
    clsEntries (dropKey st t fn) = (clsEntries st).filter (notKey t fn) := by
  unfold clsEntries
  rw [dropKey_reg, List.filter_filter, List.filter_filter]
  apply List.filter_congr
  intro x _
  exact Bool.and_comm _ _

theorem mem_relevant_of {st : St} {e : RegEntry} {c k : Cls} (he : e ∈ st.reg)
    (hc : e.target = Target.cls c) : e ∈ relevant st k ↔ Rel st c k := by
  rw [mem_relevant]
  constructor
  · rintro ⟨_, c', hc', hr⟩
    rw [hc] at hc'; cases hc'; exact hr
  · intro hr; exact ⟨he, c, hc, hr⟩

theorem mem_instEntries {st : St} {e : RegEntry} {j : Nat} :
    e ∈ instEntries st j ↔ e ∈ st.reg ∧ e.target = Target.inst j := by
  unfold instEntries
  rw [List.mem_filter]
  simp

/-- everything `dropKey` keeps of the invariant except the deques / collections -/
structure DropFacts (n : Nat) (st st1 : St) : Prop where
  clsDistinct : ((clsEntries st1).map (fun e => e.lsn)).Nodup
  instDistinct : ∀ (i : Nat), ((instEntries st1 i).map (fun e => e.lsn)).Nodup
  keys : ∀ e1 ∈ st1.reg, ∀ e2 ∈ st1.reg, e1.target = e2.target → e1.fn = e2.fn → e1 = e2
  sub : ∀ x ∈ st1.reg, x ∈ st.reg

theorem dropFacts {n : Nat} {st : St} (h : EInv n st) (t : Target) (fn : Nat) :
    DropFacts n st (dropKey st t fn) := by
  refine ⟨?_, ?_, ?_, ?_⟩
  · rw [clsEntries_dropKey]
    exact ((List.filter_sublist).map _).nodup h.clsDistinct
  · intro i
    rw [instEntries_dropKey]
    exact ((List.filter_sublist).map _).nodup (h.instDistinct i)
  · intro e1 he1 e2 he2
    rw [dropKey_reg] at he1 he2
    exact h.keys e1 (List.mem_filter.1 he1).1 e2 (List.mem_filter.1 he2).1
  · intro x hx
    rw [dropKey_reg] at hx
    exact (List.mem_filter.1 hx).1


theorem removeCls_inv {n : Nat} {st : St} (h : EInv n st) (c : Cls) (fn : Nat) (e : RegEntry)
    (hf : findKey st (Target.cls c) fn = some e) :
    EInv n (removeCls (dropKey st (Target.cls c) fn) c e.lsn).1 ∧
    (removeCls (dropKey st (Target.cls c) fn) c e.lsn).2 = false := by
  obtain ⟨her, het, hef⟩ := findKey_some hf
  have hdf := dropFacts h (Target.cls c) fn
  generalize hst1 : dropKey st (Target.cls c) fn = st1 at *
  have hpar : st1.parent = st.parent := by rw [← hst1]; rfl
  have hcl : st1.clslevel = st.clslevel := by rw [← hst1]; rfl
  have hins : st1.insts = st.insts := by rw [← hst1]; rfl
  have hlsn : st1.lsn = st.lsn := by rw [← hst1]; rfl
  have hdq1 : ∀ k, dequeOf st1 k = dequeOf st k := by intro k; unfold dequeOf; rw [hcl]
  have hrel : ∀ k, Rel st1 c k ↔ Rel st c k := by
    intro k; rw [← descOrSelf_iff, ← descOrSelf_iff, descOrSelf_congr hpar]
  -- the spec after dropping the key
  have hspec : ∀ k, specDeque st1 k =
      if Rel st c k then (specDeque st k).erase e.lsn else specDeque st k := by
    intro k
    unfold specDeque
    rw [← hst1, relevant_dropKey, ← het, ← hef,
      orderOf_drop h.keys her (relevant st k) (fun x hx => (mem_relevant.1 hx).1)
        (relevant_nodup h.clsDistinct k)]
    have : e ∈ relevant st k ↔ Rel st c k := mem_relevant_of her het
    by_cases hr : Rel st c k
    · rw [if_pos (this.2 hr), if_pos hr]
    · rw [if_neg (fun hm => hr (this.1 hm)), if_neg hr]
  have hmem : ∀ k d, Rel st1 c k → dequeOf st1 k = some d → e.lsn ∈ d := by
    intro k d hr hd
    rw [hdq1] at hd
    rw [h.base.deq k d hd]
    unfold specDeque
    rw [mem_orderOf]
    exact ⟨e, (mem_relevant_of her het).2 ((hrel k).1 hr), rfl⟩
  have hm : nClasses st1 = st1.clslevel.length := by
    unfold nClasses; rw [hpar, hcl]; exact h.base.len.symm
  rw [removeCls_eq]
  obtain ⟨hsame, hflag, hdone, hkeep⟩ :=
    remLoop_spec st1 c e.lsn hmem (nClasses st1) (by rw [hm]; exact Nat.le_refl _)
  generalize remLoop st1 c e.lsn (nClasses st1) = R at *
  refine ⟨?_, hflag⟩
  have hdq2 : ∀ k, dequeOf R.1 k =
      if Rel st c k then (dequeOf st k).map (fun d => d.erase e.lsn) else dequeOf st k := by
    intro k
    by_cases hr : Rel st c k
    · rw [if_pos hr]
      by_cases hk : k < nClasses st1
      · rw [hdone k hk ((hrel k).2 hr), hdq1]
      · rw [hkeep k (Or.inl (Nat.le_of_not_lt hk)), hdq1]
        have : dequeOf st k = none := by
          cases hd : dequeOf st k with
          | none => rfl
          | some d =>
            have := dequeOf_some_lt hd
            rw [← hcl, ← hm] at this; exact absurd this hk
        rw [this]; rfl
    · rw [if_neg hr, hkeep k (Or.inr (fun h' => hr ((hrel k).1 h'))), hdq1]
  have hsome : ∀ k, (dequeOf st k).isSome = true → (dequeOf R.1 k).isSome = true := by
    intro k hk
    rw [hdq2]
    split
    · cases hd : dequeOf st k with
      | none => rw [hd] at hk; cases hk
      | some d => rfl
    · exact hk
  have hsp2 : ∀ k, specDeque R.1 k = specDeque st1 k := specDeque_congr hsame.parent hsame.reg
  have hie : ∀ j, instEntries R.1 j = instEntries st j := by
    intro j
    have : instEntries R.1 j = instEntries st1 j := by unfold instEntries; rw [hsame.reg]
    rw [this, ← hst1, instEntries_dropKey]
    rw [List.filter_eq_self]
    intro x hx
    obtain ⟨_, hxt⟩ := mem_instEntries.1 hx
    unfold notKey
    rw [hxt]; rfl
  refine ⟨⟨WFTree_congr (hsame.parent.trans hpar) h.base.wf, ?_, ?_, ?_⟩,
    ?_, ?_, ?_, ?_, ?_, ?_, ?_, ?_, ?_⟩
  · rw [hsame.len, hsame.parent, hcl, hpar]; exact h.base.len
  · intro k d' hd'
    rw [hdq2] at hd'
    rw [hsp2, hspec]
    by_cases hr : Rel st c k
    · rw [if_pos hr] at hd' ⊢
      cases hd : dequeOf st k with
      | none => rw [hd] at hd'; cases hd'
      | some d =>
        rw [hd] at hd'
        simp only [Option.map_some] at hd'
        cases hd'
        rw [h.base.deq k d hd]
    · rw [if_neg hr] at hd' ⊢
      exact h.base.deq k d' hd'
  · intro x hx t ht
    rw [hsame.reg] at hx
    exact hsome t (h.base.tp x (hdf.sub x hx) t ht)
  · have : clsEntries R.1 = clsEntries st1 := by unfold clsEntries; rw [hsame.reg]
    rw [this]; exact hdf.clsDistinct
  · intro j; rw [hie j]; exact h.instDistinct j
  · rw [hsame.reg]; exact hdf.keys
  · intro x hx
    rw [hsame.reg] at hx
    rw [hsame.lsn, hlsn]; exact h.lsnBound x (hdf.sub x hx)
  · intro x hx
    rw [hsame.reg] at hx
    exact h.fnKind x (hdf.sub x hx)
  · rw [hsame.lsn, hlsn]; exact h.nle
  · intro j
    have : collOf R.1 j = collOf st j := by unfold collOf; rw [hsame.insts, hins]
    rw [this]
    unfold specColl
    rw [hie j]
    exact h.inst j
  · intro j x hx
    rw [hsame.insts, hins] at hx
    exact hsome x.cls (h.instCls j x hx)
  · intro x hx j hj
    rw [hsame.reg] at hx
    rw [hsame.insts, hins]
    exact h.instValid x (hdf.sub x hx) j hj


theorem removeInst_inv {n : Nat} {st : St} (h : EInv n st) (i fn : Nat) (e : RegEntry)
    (hf : findKey st (Target.inst i) fn = some e) :
    (collOf (dropKey st (Target.inst i) fn) i).contains e.lsn = true ∧
    EInv n (setColl (dropKey st (Target.inst i) fn) i
      ((collOf (dropKey st (Target.inst i) fn) i).erase e.lsn)) := by
  obtain ⟨her, het, hef⟩ := findKey_some hf
  have hdf := dropFacts h (Target.inst i) fn
  have hi : i < st.insts.length := h.instValid e her i het
  generalize hst1 : dropKey st (Target.inst i) fn = st1 at *
  have hpar : st1.parent = st.parent := by rw [← hst1]; rfl
  have hcl : st1.clslevel = st.clslevel := by rw [← hst1]; rfl
  have hins : st1.insts = st.insts := by rw [← hst1]; rfl
  have hlsn : st1.lsn = st.lsn := by rw [← hst1]; rfl
  have hi1 : i < st1.insts.length := by rw [hins]; exact hi
  have hcoll1 : ∀ j, collOf st1 j = collOf st j := by intro j; unfold collOf; rw [hins]
  have hein : e ∈ instEntries st i := mem_instEntries.2 ⟨her, het⟩
  have hcont : (collOf st1 i).contains e.lsn = true := by
    rw [hcoll1, h.inst i]
    unfold specColl
    simp only [List.contains_iff_mem]
    rw [mem_orderOf]
    exact ⟨e, hein, rfl⟩
  refine ⟨hcont, ?_⟩
  -- class-level lists do not see an instance key
  have hspec : ∀ k, specDeque st1 k = specDeque st k := by
    intro k
    unfold specDeque
    rw [← hst1, relevant_dropKey, ← het, ← hef,
      orderOf_drop h.keys her (relevant st k) (fun x hx => (mem_relevant.1 hx).1)
        (relevant_nodup h.clsDistinct k)]
    rw [if_neg]
    intro hm
    obtain ⟨_, c, hc, _⟩ := mem_relevant.1 hm
    rw [het] at hc; cases hc
  have hspecI : ∀ j, specColl st1 j =
      if i = j then (specColl st i).erase e.lsn else specColl st j := by
    intro j
    unfold specColl
    rw [← hst1, instEntries_dropKey, ← het, ← hef,
      orderOf_drop h.keys her (instEntries st j) (fun x hx => (mem_instEntries.1 hx).1)
        (h.instDistinct j)]
    by_cases hij : i = j
    · subst hij; rw [if_pos hein, if_pos rfl]
    · rw [if_neg hij, if_neg]
      intro hm
      have := (mem_instEntries.1 hm).2
      rw [het] at this; cases this; exact hij rfl
  generalize hnd : (collOf st1 i).erase e.lsn = nd
  have hf2 := setColl_frame st1 i nd
  generalize hst2 : setColl st1 i nd = st2 at *
  have hdq : ∀ k, dequeOf st2 k = dequeOf st k := by intro k; unfold dequeOf; rw [hf2.2.1, hcl]
  have hsp : ∀ k, specDeque st2 k = specDeque st k := by
    intro k; rw [specDeque_congr hf2.1 hf2.2.2.1 k, hspec]
  refine ⟨⟨WFTree_congr (hf2.1.trans hpar) h.base.wf, ?_, ?_, ?_⟩,
    ?_, ?_, ?_, ?_, ?_, ?_, ?_, ?_, ?_⟩
  · rw [hf2.2.1, hf2.1, hcl, hpar]; exact h.base.len
  · intro k d hd; rw [hdq] at hd; rw [hsp]; exact h.base.deq k d hd
  · intro x hx t ht
    rw [hf2.2.2.1] at hx
    rw [hdq]; exact h.base.tp x (hdf.sub x hx) t ht
  · have : clsEntries st2 = clsEntries st1 := by unfold clsEntries; rw [hf2.2.2.1]
    rw [this]; exact hdf.clsDistinct
  · intro j
    have : instEntries st2 j = instEntries st1 j := by unfold instEntries; rw [hf2.2.2.1]
    rw [this]; exact hdf.instDistinct j
  · rw [hf2.2.2.1]; exact hdf.keys
  · intro x hx
    rw [hf2.2.2.1] at hx
    rw [hf2.2.2.2.1, hlsn]; exact h.lsnBound x (hdf.sub x hx)
  · intro x hx
    rw [hf2.2.2.1] at hx
    exact h.fnKind x (hdf.sub x hx)
  · rw [hf2.2.2.2.1, hlsn]; exact h.nle
  · intro j
    have hsc : specColl st2 j = specColl st1 j := by unfold specColl instEntries; rw [hf2.2.2.1]
    rw [hsc, hspecI j, ← hst2, collOf_setColl st1 i j nd hi1]
    by_cases hij : i = j
    · subst hij
      rw [if_pos rfl, if_pos rfl, ← hnd, hcoll1, h.inst i]
    · rw [if_neg hij, if_neg hij, hcoll1]; exact h.inst j
  · intro j x' hx'
    rw [← hst2] at hx'
    obtain ⟨x, hx, hxc⟩ := setColl_cls st1 i j nd x' hx'
    rw [hins] at hx
    rw [hdq, ← hxc]; exact h.instCls j x hx
  · intro x hx j hj
    rw [hf2.2.2.1] at hx
    rw [hf2.2.2.2.2, hins]
    exact h.instValid x (hdf.sub x hx) j hj


/-! ### update_subclass on its own, new instances, new classes -/

/-- a state that differs only in deques: every deque it has is the spec list, and no
    deque disappeared -/
theorem EInv.withDeques {n : Nat} {st st' : St} (h : EInv n st) (hs : SameBut st st')
    (hd : ∀ k d, dequeOf st' k = some d → d = specDeque st k)
    (hm : ∀ k, (dequeOf st k).isSome = true → (dequeOf st' k).isSome = true) : EInv n st' := by
  have hsp : ∀ k, specDeque st' k = specDeque st k := specDeque_congr hs.parent hs.reg
  have hce : clsEntries st' = clsEntries st := by unfold clsEntries; rw [hs.reg]
  have hie : ∀ i, instEntries st' i = instEntries st i := by intro i; unfold instEntries; rw [hs.reg]
  have hco : ∀ i, collOf st' i = collOf st i := by intro i; unfold collOf; rw [hs.insts]
  refine ⟨⟨WFTree_congr hs.parent h.base.wf, by rw [hs.len, hs.parent]; exact h.base.len, ?_, ?_⟩,
    by rw [hce]; exact h.clsDistinct, by intro i; rw [hie]; exact h.instDistinct i,
    by rw [hs.reg]; exact h.keys, by rw [hs.reg, hs.lsn]; exact h.lsnBound,
    by rw [hs.reg]; exact h.fnKind, by rw [hs.lsn]; exact h.nle, ?_, ?_,
    by rw [hs.reg, hs.insts]; exact h.instValid⟩
  · intro k d hk; rw [hsp]; exact hd k d hk
  · intro e he c hc; rw [hs.reg] at he; exact hm c (h.base.tp e he c hc)
  · intro i; unfold specColl; rw [hco, hie]; exact h.inst i
  · intro i x hx; rw [hs.insts] at hx; exact hm x.cls (h.instCls i x hx)

theorem updateSubclass_inv {n : Nat} {st : St} (h : EInv n st) (c : Cls)
    (hc : c < nClasses st) (hnone : dequeOf st c = none) :
    EInv n (updateSubclass st c) ∧ (dequeOf (updateSubclass st c) c).isSome = true := by
  have hlen : c < st.clslevel.length := by rw [h.base.len]; exact hc
  have hp : pull st [] (ancestorsOf st c) = specDeque st c :=
    pull_absent st h.base.wf (specDeque st) h.base.deq
      (fun g a hr => specDeque_mono st h.base.wf hr)
      (fun k hk => specDeque_absent st h.base.wf h.base.tp hk) c hnone
  have heq : updateSubclass st c = setDeque st c (specDeque st c) := by
    rw [updateSubclass_eq, hnone]; simp only [Option.getD_none]; rw [hp]
  rw [heq]
  constructor
  · apply h.withDeques (setDeque_same st c _)
    · intro k d hk
      rw [dequeOf_setDeque] at hk
      split at hk
      · rename_i hh; cases hk; rw [hh.1]
      · exact h.base.deq k d hk
    · intro k hk
      rw [dequeOf_setDeque]
      split
      · rfl
      · exact hk
  · rw [dequeOf_setDeque]; simp [hlen]

theorem newinst_inv {n : Nat} {st : St} (h : EInv n st) (c : Cls) (hc : c < nClasses st) :
    EInv n { (if (dequeOf st c).isNone then updateSubclass st c else st) with
      insts := (if (dequeOf st c).isNone then updateSubclass st c else st).insts ++ [{ cls := c, coll := none }] } := by
  -- first make sure the class has its deque
  have h1 : EInv n (if (dequeOf st c).isNone then updateSubclass st c else st) ∧
      (dequeOf (if (dequeOf st c).isNone then updateSubclass st c else st) c).isSome = true := by
    cases hd : dequeOf st c with
    | none => simp only [Option.isNone_none, if_true]; exact updateSubclass_inv h c hc hd
    | some d => simp only [Option.isNone_some, Bool.false_eq_true, if_false]; exact ⟨h, by rw [hd]; rfl⟩
  generalize (if (dequeOf st c).isNone then updateSubclass st c else st) = s1 at *
  obtain ⟨h1, hsome⟩ := h1
  have hnoent : ∀ j, s1.insts.length ≤ j → instEntries s1 j = [] := by
    intro j hj
    unfold instEntries
    rw [List.filter_eq_nil_iff]
    intro x hx hxt
    have : x.target = Target.inst j := by simpa using hxt
    exact absurd (h1.instValid x hx j this) (Nat.not_lt.2 hj)
  have hcoll : ∀ j, collOf { s1 with insts := s1.insts ++ [{ cls := c, coll := none }] } j = collOf s1 j := by
    intro j
    unfold collOf
    simp only
    rcases Nat.lt_trichotomy j s1.insts.length with hj | hj | hj
    · rw [List.getElem?_append_left hj]
    · subst hj
      simp
    · rw [List.getElem?_eq_none (by simp; omega), List.getElem?_eq_none (Nat.le_of_lt hj)]
  generalize hs2 : ({ s1 with insts := s1.insts ++ [{ cls := c, coll := none }] } : St) = s2 at *
  have e1 : s2.parent = s1.parent := by rw [← hs2]
  have e2 : s2.clslevel = s1.clslevel := by rw [← hs2]
  have e3 : s2.reg = s1.reg := by rw [← hs2]
  have e4 : s2.lsn = s1.lsn := by rw [← hs2]
  have e5 : s2.insts = s1.insts ++ [{ cls := c, coll := none }] := by rw [← hs2]
  have hdq : ∀ k, dequeOf s2 k = dequeOf s1 k := by intro k; unfold dequeOf; rw [e2]
  have hsp : ∀ k, specDeque s2 k = specDeque s1 k := specDeque_congr e1 e3
  have hce : clsEntries s2 = clsEntries s1 := by unfold clsEntries; rw [e3]
  have hie : ∀ i, instEntries s2 i = instEntries s1 i := by intro i; unfold instEntries; rw [e3]
  refine ⟨⟨WFTree_congr e1 h1.base.wf, by rw [e2, e1]; exact h1.base.len, ?_, ?_⟩,
    by rw [hce]; exact h1.clsDistinct, by intro i; rw [hie]; exact h1.instDistinct i,
    by rw [e3]; exact h1.keys, by rw [e3, e4]; exact h1.lsnBound, by rw [e3]; exact h1.fnKind,
    by rw [e4]; exact h1.nle, ?_, ?_, ?_⟩
  · intro k d hk; rw [hdq] at hk; rw [hsp]; exact h1.base.deq k d hk
  · intro x hx t ht; rw [e3] at hx; rw [hdq]; exact h1.base.tp x hx t ht
  · intro j; rw [hcoll j]; unfold specColl; rw [hie]; exact h1.inst j
  · intro j x hx
    rw [e5] at hx
    rw [hdq]
    rcases Nat.lt_or_ge j s1.insts.length with hj | hj
    · rw [List.getElem?_append_left hj] at hx; exact h1.instCls j x hx
    · rw [List.getElem?_append_right hj] at hx
      cases hjj : j - s1.insts.length with
      | zero => rw [hjj] at hx; simp at hx; subst hx; exact hsome
      | succ m => rw [hjj] at hx; simp at hx
  · intro x hx j hj
    rw [e3] at hx
    have := h1.instValid x hx j hj
    rw [e5]
    simp only [List.length_append, List.length_cons, List.length_nil]
    omega


/-- `type("C", (Parent,), {})`: a new class, no deque yet -/
def addClass (st : St) (p : Cls) : St :=
  { st with parent := st.parent ++ [some p], clslevel := st.clslevel ++ [none] }

theorem parentOf_addClass (st : St) (p : Cls) (k : Nat) :
    parentOf (addClass st p) k =
      if k < st.parent.length then parentOf st k else if k = st.parent.length then some p else none := by
  unfold parentOf addClass
  simp only [List.getD_eq_getElem?_getD]
  rcases Nat.lt_trichotomy k st.parent.length with h | h | h
  · rw [List.getElem?_append_left h, if_pos h]
  · subst h; simp
  · rw [List.getElem?_eq_none (by simp; omega)]
    rw [if_neg (by omega), if_neg (by omega)]; rfl

theorem dequeOf_addClass (st : St) (p : Cls) (k : Nat) : dequeOf (addClass st p) k = dequeOf st k := by
  unfold dequeOf addClass
  simp only [List.getD_eq_getElem?_getD]
  rcases Nat.lt_trichotomy k st.clslevel.length with h | h | h
  · rw [List.getElem?_append_left h]
  · subst h; simp
  · rw [List.getElem?_eq_none (by simp; omega), List.getElem?_eq_none (Nat.le_of_lt h)]

theorem wf_addClass {st : St} (hw : WFTree st) (p : Cls) (hp : p < st.parent.length) :
    WFTree (addClass st p) := by
  intro k q hq
  rw [parentOf_addClass] at hq
  split at hq
  · exact hw k q hq
  · split at hq
    · rename_i h1 h2; cases hq; rw [h2]; exact hp
    · cases hq

theorem ancestorsOf_addClass {st : St} (hw : WFTree st) (p : Cls) (hp : p < st.parent.length) :
    ∀ (k : Nat), k < st.parent.length → ancestorsOf (addClass st p) k = ancestorsOf st k := by
  have hw' := wf_addClass hw p hp
  intro k
  induction k using Nat.strongRecOn with
  | _ k ih =>
    intro hk
    rw [ancestorsOf_eq _ hw' k, ancestorsOf_eq st hw k, parentOf_addClass, if_pos hk]
    cases hq : parentOf st k with
    | none => rfl
    | some q =>
      have hqk : (q : Nat) < (k : Nat) := hw k q hq
      simp only
      rw [ih q hqk (Nat.lt_trans hqk hk)]

theorem specDeque_addClass {st : St} (hw : WFTree st) (p : Cls) (hp : p < st.parent.length)
    (k : Nat) (hk : k < st.parent.length) : specDeque (addClass st p) k = specDeque st k := by
  unfold specDeque relevant
  have : (addClass st p).reg = st.reg := rfl
  rw [this]
  congr 1
  apply List.filter_congr
  intro e _
  unfold isClsRel
  cases e.target with
  | inst i => rfl
  | cls c =>
    simp only
    unfold descOrSelf
    rw [ancestorsOf_addClass hw p hp k hk]

theorem subclass_inv {n : Nat} {st : St} (h : EInv n st) (p : Cls) (hp : p < nClasses st) :
    EInv n (addClass st p) := by
  have hp' : p < st.parent.length := hp
  have hreg : (addClass st p).reg = st.reg := rfl
  have hlsn : (addClass st p).lsn = st.lsn := rfl
  have hins : (addClass st p).insts = st.insts := rfl
  have hce : clsEntries (addClass st p) = clsEntries st := rfl
  have hie : ∀ i, instEntries (addClass st p) i = instEntries st i := fun _ => rfl
  have hco : ∀ i, collOf (addClass st p) i = collOf st i := fun _ => rfl
  refine ⟨⟨wf_addClass h.base.wf p hp', ?_, ?_, ?_⟩, by rw [hce]; exact h.clsDistinct,
    by intro i; rw [hie]; exact h.instDistinct i, by rw [hreg]; exact h.keys,
    by rw [hreg, hlsn]; exact h.lsnBound, by rw [hreg]; exact h.fnKind, by rw [hlsn]; exact h.nle,
    ?_, ?_, by rw [hreg, hins]; exact h.instValid⟩
  · simp [addClass, h.base.len]
  · intro k d hd
    rw [dequeOf_addClass] at hd
    have hk : k < st.parent.length := by rw [← h.base.len]; exact dequeOf_some_lt hd
    rw [specDeque_addClass h.base.wf p hp' k hk]
    exact h.base.deq k d hd
  · intro e he c hc
    rw [hreg] at he
    rw [dequeOf_addClass]; exact h.base.tp e he c hc
  · intro i; unfold specColl; rw [hco, hie]; exact h.inst i
  · intro i x hx
    rw [hins] at hx
    rw [dequeOf_addClass]; exact h.instCls i x hx

end SaVerif.Event
