import SaVerif.Model.SchemaTr
import SaVerif.Lemmas.Bind
/-
Helper lemmas for M-STR/C16: the schema-token scanner consumes input, is fuel
independent, recovers rendered tokens exactly; association-map facts.
Core Lean only.
-/
namespace SaVerif.SchemaTr
open SaVerif.Bind

theorem scanName_length {acc s n r : Str} (h : scanName acc s = some (n, r)) :
    r.length < s.length := by
  induction s generalizing acc with
  | nil => simp [scanName] at h
  | cons c cs ih =>
    simp only [scanName] at h
    split at h
    · split at h
      · cases h
      · cases h; simp
    · have := ih h; simp only [List.length_cons]; omega

theorem matchS_length {s n r : Str} (h : matchS s = some (n, r)) : r.length < s.length := by
  unfold matchS at h
  split at h
  · cases h
  · rename_i r' hs
    have h1 := stripPrefix_length hs
    have h2 := scanName_length h
    omega

theorem tokensAuxS_fuel :
    ∀ (f1 f2 : Nat) (s : Str), s.length < f1 → s.length < f2 →
      tokensAuxS f1 s = tokensAuxS f2 s := by
  intro f1
  induction f1 with
  | zero => intro f2 s h1; omega
  | succ n ih =>
    intro f2 s h1 h2
    cases f2 with
    | zero => omega
    | succ k =>
      cases s with
      | nil => simp [tokensAuxS]
      | cons c cs =>
        simp only [tokensAuxS]
        cases hm : matchS (c :: cs) with
        | none =>
          simp only [List.length_cons] at h1 h2
          rw [ih k cs (by omega) (by omega)]
        | some p =>
          obtain ⟨h, r⟩ := p
          have hl := matchS_length hm
          simp only [List.length_cons] at h1 h2 hl
          simp only
          rw [ih k r (by omega) (by omega)]

theorem tokensS_nil : tokensS [] = [] := by simp [tokensS, tokensAuxS]

theorem tokensS_cons_none {c : Char} {cs : Str} (h : matchS (c :: cs) = none) :
    tokensS (c :: cs) = STok.lit c :: tokensS cs := by
  unfold tokensS
  simp only [List.length_cons, tokensAuxS, h]

theorem tokensS_cons_hit {c : Char} {cs r n : Str} (hm : matchS (c :: cs) = some (n, r)) :
    tokensS (c :: cs) = STok.sch n :: tokensS r := by
  have hl := matchS_length hm
  simp only [List.length_cons] at hl
  unfold tokensS
  simp only [List.length_cons, tokensAuxS, hm]
  rw [tokensAuxS_fuel (cs.length + 1) (r.length + 1) r (by omega) (by omega)]

theorem scanName_exact (n R : Str) (hn : ']' ∉ n) :
    ∀ acc, scanName acc (n ++ ']' :: R) =
      if (acc ++ n).isEmpty then none else some (acc ++ n, R) := by
  induction n with
  | nil => intro acc; simp [scanName]
  | cons c n ih =>
    intro acc
    have hc : c ≠ ']' := fun h => hn (by simp [h])
    have hn' : ']' ∉ n := fun h => hn (by simp [h])
    simp only [List.cons_append, scanName, hc, if_false]
    rw [ih hn' (acc ++ [c])]
    simp

/-- schema names the scanner recovers exactly -/
def goodName (n : Str) : Prop := n ≠ [] ∧ ']' ∉ n

instance (n : Str) : Decidable (goodName n) := by unfold goodName; infer_instance

theorem matchS_exact {n : Str} (h : goodName n) (R : Str) :
    matchS (token n ++ R) = some (n, R) := by
  unfold matchS token
  rw [List.append_assoc, List.append_assoc, stripPrefix_append]
  have := scanName_exact n R h.2 []
  simp only [List.nil_append, List.singleton_append] at this ⊢
  rw [this]
  have : n.isEmpty = false := by
    cases n with
    | nil => exact absurd rfl h.1
    | cons _ _ => rfl
  simp [this]

/-! ## pieces, guard, round trip -/

inductive SPiece
  | lit (t : Str)
  | tok (n : Str)
  deriving DecidableEq, Repr

def SPiece.render : SPiece → Str
  | .lit t => t
  | .tok n => token n

def renderSP : List SPiece → Str
  | [] => []
  | p :: ps => p.render ++ renderSP ps

def spToks : List SPiece → List STok
  | [] => []
  | .lit t :: ps => t.map STok.lit ++ spToks ps
  | .tok n :: ps => STok.sch n :: spToks ps

/-- **NoSchemaToken** for a text `t` followed by `R`: at no position inside `t` does
    the literal `__[SCHEMA_` begin -/
def quietS : Str → Str → Bool
  | [], _ => true
  | c :: t, R => (stripPrefix schemaPrefix (c :: t ++ R)).isNone && quietS t R

def SafeSP : List SPiece → Prop
  | [] => True
  | .lit t :: ps => quietS t (renderSP ps) = true ∧ SafeSP ps
  | .tok n :: ps => goodName n ∧ SafeSP ps

def decSafeSP : (ps : List SPiece) → Decidable (SafeSP ps)
  | [] => isTrue trivial
  | .lit t :: ps =>
    have := decSafeSP ps
    by unfold SafeSP; infer_instance
  | .tok n :: ps =>
    have := decSafeSP ps
    by unfold SafeSP; infer_instance

instance (ps : List SPiece) : Decidable (SafeSP ps) := decSafeSP ps

theorem matchS_none_of_prefix {s : Str} (h : (stripPrefix schemaPrefix s).isNone = true) :
    matchS s = none := by
  unfold matchS
  cases hs : stripPrefix schemaPrefix s with
  | none => rfl
  | some r => simp [hs] at h

theorem tokensS_quiet (R : Str) :
    ∀ t : Str, quietS t R = true → tokensS (t ++ R) = t.map STok.lit ++ tokensS R := by
  intro t
  induction t with
  | nil => intro _; simp
  | cons c t ih =>
    intro h
    simp only [quietS, Bool.and_eq_true] at h
    have h1 := matchS_none_of_prefix h.1
    rw [List.cons_append] at h1
    rw [List.cons_append, tokensS_cons_none h1, ih h.2]
    simp

theorem tokensS_render :
    ∀ ps : List SPiece, SafeSP ps → tokensS (renderSP ps) = spToks ps := by
  intro ps
  induction ps with
  | nil => intro _; simp [renderSP, spToks, tokensS_nil]
  | cons p ps ih =>
    intro h
    cases p with
    | lit t =>
      obtain ⟨hq, hs⟩ := h
      simp only [renderSP, SPiece.render, spToks]
      rw [tokensS_quiet _ t hq, ih hs]
    | tok n =>
      obtain ⟨hk, hs⟩ := h
      simp only [renderSP, SPiece.render, spToks]
      have hm := matchS_exact hk (renderSP ps)
      have hne : token n = '_' :: (['_', '[', 'S', 'C', 'H', 'E', 'M', 'A', '_'] ++ n ++ [']']) := by
        simp [token, schemaPrefix]
      rw [hne, List.cons_append] at hm
      rw [hne, List.cons_append, tokensS_cons_hit hm, ih hs]

/-! ## maps -/

theorem mlookup_mset_ne (k k' : Option Str) (v : Option Str) (m : SMap) (h : k' ≠ k) :
    mlookup k (mset k' v m) = mlookup k m := by
  induction m with
  | nil => simp [mset, mlookup, h]
  | cons x m ih =>
    obtain ⟨a, b⟩ := x
    by_cases ha : a = k'
    · subst ha; simp [mset, mlookup, h]
    · by_cases hk : a = k
      · subst hk; simp [mset, mlookup, ha]
      · simp [mset, mlookup, ha, hk, ih]

theorem mlookup_mset_self (k : Option Str) (v : Option Str) (m : SMap) :
    mlookup k (mset k v m) = some v := by
  induction m with
  | nil => simp [mset, mlookup]
  | cons x m ih =>
    obtain ⟨a, b⟩ := x
    by_cases ha : a = k
    · subst ha; simp [mset, mlookup]
    · simp [mset, mlookup, ha, ih]

end SaVerif.SchemaTr
