import SaVerif.Lemmas.Sess
/-! Frame lemmas: which functions of M-ORM/Sess leave the rows (visible and committed) alone. -/
set_option linter.unusedSimpArgs false
namespace SaVerif.Sess

/-- the rows visible to the connection and the committed rows -/
def rows (σ : Sess) : List Nat × List Nat := (σ.db, σ.committed)

@[simp] theorem rows_setO (σ : Sess) (o : Oid) (f : Obj → Obj) : rows (setO σ o f) = rows σ := rfl
@[simp] theorem rows_emit (σ : Sess) (e : Ev) (o : Oid) : rows (emit σ e o) = rows σ := rfl
@[simp] theorem rows_updTxn (σ : Sess) (f : Txn → Txn) : rows (updTxn σ f) = rows σ := by
  unfold updTxn; split <;> rfl
@[simp] theorem rows_autobegin (σ : Sess) : rows (autobegin σ) = rows σ := by
  unfold autobegin; split <;> rfl
@[simp] theorem rows_popTxnDeleted (σ : Sess) (o : Oid) : rows (popTxnDeleted σ o) = rows σ := by
  unfold popTxnDeleted; split <;> rfl
@[simp] theorem rows_markNondetIf (c : Bool) (σ : Sess) : rows (markNondetIf c σ) = rows σ := by
  unfold markNondetIf; split <;> rfl
@[simp] theorem rows_imSafeDiscard (σ : Sess) (o : Oid) : rows (imSafeDiscard σ o) = rows σ := by
  unfold imSafeDiscard; repeat' split
  all_goals rfl
@[simp] theorem rows_imReplace (σ : Sess) (o : Oid) : rows (imReplace σ o) = rows σ := by
  unfold imReplace; repeat' split
  all_goals rfl
@[simp] theorem rows_imAdd (σ : Sess) (o : Oid) : rows (imAdd σ o).1 = rows σ := by
  unfold imAdd; repeat' split
  all_goals rfl
@[simp] theorem rows_detachOne (t : Bool) (σ : Sess) (o : Oid) : rows (detachOne t σ o) = rows σ := by
  unfold detachOne; simp only; repeat' split
  all_goals rfl

theorem rows_foldl {α : Type} (g : Sess → α → Sess) (hg : ∀ σ a, rows (g σ a) = rows σ) :
    ∀ (l : List α) (σ : Sess), rows (l.foldl g σ) = rows σ := by
  intro l
  induction l with
  | nil => intro σ; rfl
  | cons a t ih => intro σ; simp only [List.foldl_cons]; rw [ih, hg]

@[simp] theorem rows_detachStates (σ : Sess) (os : List Oid) (t : Bool) : rows (detachStates σ os t) = rows σ :=
  rows_foldl _ (rows_detachOne t) _ _

@[simp] theorem rows_deleted_upd (σ : Sess) (l : List Oid) : rows { σ with deleted := l } = rows σ := rfl
@[simp] theorem rows_new_upd (σ : Sess) (l : List Oid) : rows { σ with new := l } = rows σ := rfl

@[simp] theorem rows_expungeOne (σ : Sess) (o : Oid) : rows (expungeOne σ o) = rows σ := by
  unfold expungeOne
  split
  · rfl
  · split
    · simp only [rows_deleted_upd, rows_imSafeDiscard]
    · exact rows_popTxnDeleted σ o

@[simp] theorem rows_expungeStates (σ : Sess) (os : List Oid) (t : Bool) : rows (expungeStates σ os t) = rows σ := by
  unfold expungeStates
  rw [rows_detachStates]
  exact rows_foldl _ rows_expungeOne _ _

@[simp] theorem rows_beforeAttach (σ : Sess) (o : Oid) : rows (beforeAttach σ o).1 = rows σ := by
  unfold beforeAttach; simp only; split <;> simp

@[simp] theorem rows_afterAttach (σ : Sess) (o : Oid) : rows (afterAttach σ o) = rows σ := by
  unfold afterAttach; simp only; split <;> rfl

theorem rows_bind {r : R} {f : Sess → R} {σ : Sess} (h : rows r.1 = rows σ) (hf : ∀ τ, rows (f τ).1 = rows τ) :
    rows (r.bind f).1 = rows σ := by
  unfold R.bind
  split
  · exact h
  · rw [hf]; exact h

@[simp] theorem rows_updateImpl (σ : Sess) (o : Oid) (r : Bool) : rows (updateImpl σ o r).1 = rows σ := by
  unfold updateImpl
  simp only
  split
  · rfl
  · split
    · rfl
    · split
      · rfl
      · have h0 : ∀ τ : Sess, rows τ = rows σ → rows (beforeAttach τ o).1 = rows σ := fun τ h => by
          rw [rows_beforeAttach]; exact h
        apply rows_bind (σ := σ)
        · split
          · simp only [ok, rows_imReplace, rows_deleted_upd]
            apply h0
            split <;> simp
          · rw [rows_imAdd]
            simp only [rows_deleted_upd]
            apply h0
            split <;> simp
        · intro τ
          repeat' split
          all_goals first | rfl | simp [ok]

theorem rows_revertDeletions : ∀ (os : List Oid) (σ : Sess), rows (revertDeletions σ os).1 = rows σ
  | [], σ => rfl
  | o :: os, σ => by
    unfold revertDeletions
    exact rows_bind (rows_updateImpl _ _ _) (fun τ => rows_revertDeletions os τ)

@[simp] theorem rows_restoreKeySwitch (te : List Oid) (σ : Sess) (e : Oid × Nat × Nat) :
    rows (restoreKeySwitch te σ e) = rows σ := by
  unfold restoreKeySwitch; simp only; split <;> simp

@[simp] theorem rows_failNondet (c : Bool) (r : R) : rows (failNondet c r).1 = rows r.1 := by
  unfold failNondet; split <;> simp [fail]

/-- `_restore_snapshot` touches neither the rows visible to the connection nor the committed rows -/
theorem rows_restoreSnapshot (σ : Sess) (d : Bool) : rows (restoreSnapshot σ d).1 = rows σ := by
  unfold restoreSnapshot
  split
  · rfl
  · simp only
    apply rows_bind
    · rw [rows_failNondet, rows_revertDeletions, rows_markNondetIf, rows_foldl _ (rows_restoreKeySwitch _),
          rows_expungeStates]
    · intro τ
      simp only [ok]
      apply rows_foldl
      intro σ a
      split <;> simp

end SaVerif.Sess
