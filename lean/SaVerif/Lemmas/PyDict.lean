import SaVerif.Lemmas.PySeq
import SaVerif.Model.PySetDict
/-! Lemmas about the instrumented dict model: association lists with unique keys. -/
namespace SaVerif.PySeq

def dKeys (d : Dict) : List Key := d.map (·.1)
def dVals (d : Dict) : List Item := d.map (·.2)

/-- a dict holds every key once -/
def DWf (d : Dict) : Prop := (dKeys d).Nodup

theorem dGet_nil (k : Key) : dGet [] k = none := rfl

theorem dGet_cons (e : Key × Item) (d : Dict) (k : Key) :
    dGet (e :: d) k = if e.1 = k then some e.2 else dGet d k := by
  unfold dGet
  rw [List.find?_cons]
  by_cases h : e.1 = k
  · simp [h]
  · have : (e.1 == k) = false := by simpa using h
    simp [this, h]

theorem dHas_iff_mem {d : Dict} {k : Key} : dHas d k = true ↔ k ∈ dKeys d := by
  simp [dHas, dKeys, List.any_eq_true]

theorem dGet_none_iff {d : Dict} {k : Key} : dGet d k = none ↔ k ∉ dKeys d := by
  induction d with
  | nil => simp [dGet_nil, dKeys]
  | cons e d ih =>
    rw [dGet_cons]
    by_cases h : e.1 = k
    · simp [h, dKeys]
    · simp only [h, if_false, ih, dKeys, List.map_cons, List.mem_cons, not_or]
      constructor
      · intro h1; exact ⟨fun hk => h hk.symm, h1⟩
      · intro h1; exact h1.2

theorem dHas_eq_isSome (d : Dict) (k : Key) : dHas d k = (dGet d k).isSome := by
  cases hg : dGet d k with
  | none =>
    have := dGet_none_iff.1 hg
    rw [Bool.eq_false_iff.2 (fun h => this (dHas_iff_mem.1 h))]; rfl
  | some v =>
    have : k ∈ dKeys d := by
      apply Classical.byContradiction
      intro hn
      rw [dGet_none_iff.2 hn] at hg; cases hg
    rw [dHas_iff_mem.2 this]; rfl

theorem wf_cons {e : Key × Item} {d : Dict} (h : DWf (e :: d)) : e.1 ∉ dKeys d ∧ DWf d := by
  unfold DWf dKeys at h
  rw [List.map_cons, List.nodup_cons] at h
  exact h

/-- deleting a present key removes exactly its value -/
theorem acc_dDel {d : Dict} (hw : DWf d) {k : Key} {old : Item} (hg : dGet d k = some old) :
    Accounts (dVals d) [.rem old] (dVals (dDel d k)) ∧ DWf (dDel d k) := by
  induction d with
  | nil => rw [dGet_nil] at hg; cases hg
  | cons e d ih =>
    obtain ⟨he, hwd⟩ := wf_cons hw
    rw [dGet_cons] at hg
    by_cases h : e.1 = k
    · rw [if_pos h] at hg
      cases hg
      have hnot : k ∉ dKeys d := h ▸ he
      have hfil : dDel (e :: d) k = d := by
        unfold dDel
        rw [List.filter_cons]
        have : (e.1 != k) = false := by simp [h]
        rw [this]
        simp only [Bool.false_eq_true, if_false]
        rw [List.filter_eq_self]
        intro x hx
        simp only [bne_iff_ne, ne_eq]
        intro hxk
        apply hnot
        rw [← hxk]
        exact List.mem_map.2 ⟨x, hx, rfl⟩
      rw [hfil]
      refine ⟨?_, hwd⟩
      unfold Accounts dVals
      simp only [apps, rems, List.append_nil, List.map_cons]
      exact (List.perm_append_comm (l₁ := [e.2])).trans (by simp)
    · rw [if_neg h] at hg
      obtain ⟨hacc, hwf⟩ := ih hwd hg
      have hfil : dDel (e :: d) k = e :: dDel d k := by
        unfold dDel
        rw [List.filter_cons]
        have : (e.1 != k) = true := by simp [h]
        rw [this]; rfl
      rw [hfil]
      constructor
      · unfold Accounts dVals at *
        simp only [apps, rems, List.append_nil, List.map_cons, List.cons_append] at *
        exact List.Perm.cons e.2 hacc
      · unfold DWf dKeys
        rw [List.map_cons, List.nodup_cons]
        refine ⟨?_, hwf⟩
        intro hm
        apply he
        obtain ⟨x, hx, hxe⟩ := List.mem_map.1 hm
        exact List.mem_map.2 ⟨x, (List.mem_filter.1 hx).1, hxe⟩

theorem dKeys_map_replace (d : Dict) (k : Key) (v : Item) :
    dKeys (d.map (fun e => if e.1 == k then (k, v) else e)) = dKeys d := by
  unfold dKeys
  rw [List.map_map]
  apply List.map_congr_left
  intro e _
  by_cases he : e.1 = k
  · simp [he]
  · simp [he]

/-- storing under a key: the old value (if any) leaves, the new one enters -/
theorem acc_dSet {d : Dict} (hw : DWf d) (k : Key) (v : Item) :
    DWf (dSet d k v) ∧
    (∀ old, dGet d k = some old → Accounts (dVals d) [.rem old, .app v] (dVals (dSet d k v))) ∧
    (dGet d k = none → Accounts (dVals d) [.app v] (dVals (dSet d k v))) := by
  induction d with
  | nil =>
    refine ⟨by simp [dSet, dHas, DWf, dKeys], ?_, ?_⟩
    · intro old h; rw [dGet_nil] at h; cases h
    · intro _
      simp [dSet, dHas, Accounts, dVals, apps, rems]
  | cons e d ih =>
    obtain ⟨he, hwd⟩ := wf_cons hw
    obtain ⟨ihw, ihs, ihn⟩ := ih hwd
    by_cases h : e.1 = k
    · -- the head is the entry for k; nothing else is
      have hnot : k ∉ dKeys d := h ▸ he
      have hhas : dHas (e :: d) k = true := dHas_iff_mem.2 (by simp [dKeys, h])
      have hmap : d.map (fun x => if x.1 == k then (k, v) else x) = d := by
        conv => rhs; rw [← List.map_id d]
        apply List.map_congr_left
        intro x hx
        have : ¬ x.1 = k := by
          intro hxk; apply hnot; rw [← hxk]; exact List.mem_map.2 ⟨x, hx, rfl⟩
        have : (x.1 == k) = false := by simpa using this
        simp [this]
      have hset : dSet (e :: d) k v = (k, v) :: d := by
        unfold dSet
        rw [hhas]
        simp only [if_true, List.map_cons, hmap]
        have : (e.1 == k) = true := by simpa using h
        simp [this]
      rw [hset]
      refine ⟨?_, ?_, ?_⟩
      · unfold DWf dKeys
        rw [List.map_cons, List.nodup_cons]
        exact ⟨hnot, hwd⟩
      · intro old hg
        rw [dGet_cons, if_pos h] at hg
        cases hg
        unfold Accounts dVals
        simp only [apps, rems, List.map_cons]
        -- e.2 :: vals ++ [v] ~ v :: vals ++ [e.2]
        have p1 : (e.2 :: List.map (·.2) d ++ [v]).Perm (e.2 :: v :: List.map (·.2) d) := by
          simp only [List.cons_append]
          exact List.Perm.cons _ ((List.perm_append_comm).trans (by simp))
        have p2 : (v :: List.map (·.2) d ++ [e.2]).Perm (e.2 :: v :: List.map (·.2) d) :=
          (List.perm_append_comm).trans (by simp)
        exact p1.trans p2.symm
      · intro hg
        rw [dGet_cons, if_pos h] at hg; cases hg
    · have hb : (e.1 == k) = false := by simpa using h
      have hhas : dHas (e :: d) k = dHas d k := by
        unfold dHas; rw [List.any_cons, hb]; simp
      have hset : dSet (e :: d) k v = e :: dSet d k v := by
        unfold dSet
        rw [hhas]
        by_cases hd : dHas d k = true
        · rw [if_pos hd, if_pos hd, List.map_cons, hb]; simp
        · rw [if_neg hd, if_neg hd]; simp
      rw [hset]
      refine ⟨?_, ?_, ?_⟩
      · unfold DWf dKeys
        rw [List.map_cons, List.nodup_cons]
        refine ⟨?_, ihw⟩
        intro hm
        -- keys of dSet d k v are keys of d plus possibly k
        have : e.1 ∈ dKeys d ∨ e.1 = k := by
          unfold dSet at hm
          by_cases hd : dHas d k = true
          · rw [if_pos hd] at hm
            have := dKeys_map_replace d k v
            unfold dKeys at this
            rw [this] at hm
            exact Or.inl hm
          · rw [if_neg hd, List.map_append, List.mem_append] at hm
            rcases hm with hm | hm
            · exact Or.inl hm
            · simp at hm; exact Or.inr hm
        rcases this with h1 | h1
        · exact he h1
        · exact h h1
      · intro old hg
        rw [dGet_cons, if_neg h] at hg
        have := ihs old hg
        unfold Accounts dVals at *
        simp only [apps, rems, List.map_cons, List.cons_append] at *
        exact List.Perm.cons e.2 this
      · intro hg
        rw [dGet_cons, if_neg h] at hg
        have := ihn hg
        unfold Accounts dVals at *
        simp only [apps, rems, List.map_cons, List.cons_append, List.append_nil] at *
        exact List.Perm.cons e.2 this

/-- re-storing the value already held changes nothing -/
theorem dSet_same {d : Dict} (hw : DWf d) {k : Key} {v : Item} (hg : dGet d k = some v) :
    dSet d k v = d := by
  induction d with
  | nil => rw [dGet_nil] at hg; cases hg
  | cons e d ih =>
    obtain ⟨he, hwd⟩ := wf_cons hw
    rw [dGet_cons] at hg
    by_cases h : e.1 = k
    · rw [if_pos h] at hg
      cases hg
      have hnot : k ∉ dKeys d := h ▸ he
      have hhas : dHas (e :: d) k = true := dHas_iff_mem.2 (by simp [dKeys, h])
      unfold dSet
      rw [hhas]
      simp only [if_true, List.map_cons]
      have hb : (e.1 == k) = true := by simpa using h
      rw [hb]
      simp only [if_true]
      have hek : (k, e.2) = e := by rw [← h]
      rw [hek]
      congr 1
      conv => rhs; rw [← List.map_id d]
      apply List.map_congr_left
      intro x hx
      have : ¬ x.1 = k := by
        intro hxk; apply hnot; rw [← hxk]; exact List.mem_map.2 ⟨x, hx, rfl⟩
      have : (x.1 == k) = false := by simpa using this
      simp [this]
    · rw [if_neg h] at hg
      have hb : (e.1 == k) = false := by simpa using h
      have hd : dHas d k = true := by
        rw [dHas_eq_isSome, hg]; rfl
      have hhas : dHas (e :: d) k = true := by
        unfold dHas; rw [List.any_cons, hb]; simpa [dHas] using hd
      have ihd := ih hwd hg
      unfold dSet at ihd ⊢
      rw [hhas]
      rw [hd] at ihd
      simp only [if_true, List.map_cons, hb, Bool.false_eq_true, if_false] at ihd ⊢
      rw [ihd]

end SaVerif.PySeq
