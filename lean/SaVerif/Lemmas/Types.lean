import SaVerif.Model.Types
/-! Helper lemmas for M-TYPES: zero-padded decimal rendering and its parsers. -/
namespace SaVerif.Types

theorem digitChar_ok : ∀ d, d < 10 → isDigit (digitChar d) = true ∧ charVal (digitChar d) = d := by
  decide

theorem fixedDigits_lt : ∀ (w n : Nat), ∀ x ∈ fixedDigits w n, x < 10 := by
  intro w
  induction w with
  | zero => intro n x hx; simp [fixedDigits] at hx
  | succ w ih =>
    intro n x hx
    simp only [fixedDigits, List.mem_append, List.mem_singleton] at hx
    rcases hx with h | h
    · exact ih _ x h
    · rw [h]; exact Nat.mod_lt _ (by decide)

theorem fixedDigits_length : ∀ (w n : Nat), (fixedDigits w n).length = w := by
  intro w
  induction w with
  | zero => intro n; rfl
  | succ w ih => intro n; simp [fixedDigits, ih]

theorem digitsVal_append (l : List Nat) (d : Nat) : digitsVal (l ++ [d]) = digitsVal l * 10 + d := by
  simp [digitsVal, List.foldl_append]

theorem digitsVal_fixedDigits : ∀ (w n : Nat), n < 10 ^ w → digitsVal (fixedDigits w n) = n := by
  intro w
  induction w with
  | zero => intro n h; simp at h; subst h; rfl
  | succ w ih =>
    intro n h
    simp only [fixedDigits, digitsVal_append]
    have hd : n / 10 < 10 ^ w := by
      rw [Nat.pow_succ] at h
      exact Nat.div_lt_of_lt_mul (by rw [Nat.mul_comm]; exact h)
    rw [ih _ hd]
    have := Nat.div_add_mod n 10
    omega

theorem takeFixed_digits : ∀ (ds : List Nat) (rest : List Char), (∀ x ∈ ds, x < 10) →
    takeFixed ds.length (ds.map digitChar ++ rest) = some (ds, rest) := by
  intro ds
  induction ds with
  | nil => intro rest _; rfl
  | cons d ds ih =>
    intro rest h
    have hd := digitChar_ok d (h d (by simp))
    simp only [List.length_cons, List.map_cons, List.cons_append, takeFixed, hd.1, if_true]
    rw [ih rest (fun x hx => h x (by simp [hx]))]
    simp [hd.2]

/-- a field rendered with `%0wd` is read back by a fixed-width digit scan -/
theorem takeFixed_pad (w n : Nat) (rest : List Char) (h : n < 10 ^ w) :
    takeFixed w (padNat w n ++ rest) = some (fixedDigits w n, rest) := by
  simp only [padNat, h, if_true]
  have := takeFixed_digits (fixedDigits w n) rest (fixedDigits_lt w n)
  rw [fixedDigits_length] at this
  exact this

theorem takeDigits_digits : ∀ (ds : List Nat) (rest : List Char), (∀ x ∈ ds, x < 10) →
    (∀ c, rest.head? = some c → isDigit c = false) →
    takeDigits (ds.map digitChar ++ rest) = (ds, rest) := by
  intro ds
  induction ds with
  | nil =>
    intro rest _ hr
    cases rest with
    | nil => rfl
    | cons c s => simp [takeDigits, hr c rfl]
  | cons d ds ih =>
    intro rest h hr
    have hd := digitChar_ok d (h d (by simp))
    simp only [List.map_cons, List.cons_append, takeDigits, hd.1, if_true]
    rw [ih rest (fun x hx => h x (by simp [hx])) hr]
    simp [hd.2]

end SaVerif.Types
