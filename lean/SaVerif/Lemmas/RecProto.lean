import SaVerif.Model.RecProto
/-! Inductive invariant of the entry hand-over protocol (all interleavings). -/
namespace SaVerif.RecProto

structure Inv (s : St) : Prop where
  holdRef : ∀ a r, s.pc a = .holding r → s.ref r = some a
  excl : ∀ a b r, Owns s a r → Owns s b r → a = b
  ownState : ∀ a r, Owns s a r → s.idle r = false ∧ s.used r = true ∧ s.dead r = false
  refHold : ∀ r a, s.ref r = some a → s.pc a = .holding r
  accounted : ∀ r, s.used r = true → s.dead r = true ∨ s.idle r = true ∨ ∃ a, Owns s a r
  idleUsed : ∀ r, s.idle r = true → s.used r = true ∧ s.dead r = false
  deadUsed : ∀ r, s.dead r = true → s.used r = true

theorem inv_init : Inv init := by
  constructor <;> simp [init, Owns]

theorem upd_same {β : Type} (f : Nat → β) (k : Nat) (v : β) : upd f k v k = v := by simp [upd]
theorem upd_other {β : Type} (f : Nat → β) (k x : Nat) (v : β) (h : x ≠ k) : upd f k v x = f x := by
  simp [upd, h]

/-- ownership after actor `a`'s pc moved to `p` -/
theorem owns_upd (s : St) (a : Fid) (p : Pc) (b : Fid) (r : Rid) (pc' : Fid → Pc)
    (h : pc' = upd s.pc a p) :
    (pc' b = .got r ∨ pc' b = .holding r ∨ pc' b = .cleared r) ↔
      (if b = a then (p = .got r ∨ p = .holding r ∨ p = .cleared r) else Owns s b r) := by
  subst h
  by_cases hb : b = a
  · subst hb; simp [upd]
  · simp [upd, hb, Owns]

theorem inv_step (s s' : St) (l : Label) (hi : Inv s) (h : step s l = some s') : Inv s' := by
  cases l with
  | create a r =>
    simp only [step] at h
    split at h
    · rename_i hc
      obtain ⟨hpc, hu⟩ := hc
      injection h with h; subst h
      have hno : ∀ b, ¬ Owns s b r := fun b hb => by
        have := (hi.ownState b r hb).2.1; rw [hu] at this; cases this
      have hidle : s.idle r = false := by
        cases hx : s.idle r with
        | false => rfl
        | true => have := (hi.idleUsed r hx).1; rw [hu] at this; cases this
      have hdead : s.dead r = false := by
        cases hx : s.dead r with
        | false => rfl
        | true => have := hi.deadUsed r hx; rw [hu] at this; cases this
      constructor
      · intro b q hb
        by_cases hba : b = a
        · subst hba; simp [upd] at hb
        · simp [upd, hba] at hb; exact hi.holdRef b q hb
      · intro b c q hb hc
        simp only [Owns] at hb hc
        by_cases hba : b = a <;> by_cases hca : c = a
        · rw [hba, hca]
        · subst hba; simp [upd, hca] at hb hc
          subst hb; exact absurd hc (hno c)
        · subst hca; simp [upd, hba] at hb hc
          subst hc; exact absurd hb (hno b)
        · simp [upd, hba, hca] at hb hc; exact hi.excl b c q hb hc
      · intro b q hb
        simp only [Owns] at hb
        by_cases hba : b = a
        · subst hba; simp [upd] at hb; subst hb
          simp [upd, hidle, hdead]
        · simp [upd, hba] at hb
          have := hi.ownState b q hb
          by_cases hq : q = r
          · subst hq; exact absurd hb (hno b)
          · simp [upd, hq]; exact this
      · intro q b hb
        have := hi.refHold q b hb
        by_cases hba : b = a
        · subst hba; rw [hpc] at this; cases this
        · simp [upd, hba]; exact this
      · intro q hq
        by_cases hqr : q = r
        · subst hqr; right; right; exact ⟨a, by simp [Owns, upd]⟩
        · simp [upd, hqr] at hq
          rcases hi.accounted q hq with h1 | h1 | ⟨b, hb⟩
          · left; exact h1
          · right; left; exact h1
          · right; right
            refine ⟨b, ?_⟩
            have hba : b ≠ a := by
              intro e; subst e; simp [Owns, hpc] at hb
            simp [Owns, upd, hba]; exact hb
      · intro q hq
        have := hi.idleUsed q hq
        by_cases hqr : q = r
        · subst hqr; rw [hidle] at hq; cases hq
        · simp [upd, hqr]; exact this
      · intro q hq
        have := hi.deadUsed q hq
        by_cases hqr : q = r
        · subst hqr; simp [upd]
        · simp [upd, hqr]; exact this
    · cases h
  | pop a r =>
    simp only [step] at h
    split at h
    · rename_i hc
      obtain ⟨hpc, hidle⟩ := hc
      injection h with h; subst h
      have hno : ∀ b, ¬ Owns s b r := fun b hb => by
        have := (hi.ownState b r hb).1; rw [hidle] at this; cases this
      have hu := (hi.idleUsed r hidle)
      constructor
      · intro b q hb
        by_cases hba : b = a
        · subst hba; simp [upd] at hb
        · simp [upd, hba] at hb; exact hi.holdRef b q hb
      · intro b c q hb hc
        simp only [Owns] at hb hc
        by_cases hba : b = a <;> by_cases hca : c = a
        · rw [hba, hca]
        · subst hba; simp [upd, hca] at hb hc
          subst hb; exact absurd hc (hno c)
        · subst hca; simp [upd, hba] at hb hc
          subst hc; exact absurd hb (hno b)
        · simp [upd, hba, hca] at hb hc; exact hi.excl b c q hb hc
      · intro b q hb
        simp only [Owns] at hb
        by_cases hba : b = a
        · subst hba; simp [upd] at hb; subst hb
          simp [upd, hu.1, hu.2]
        · simp [upd, hba] at hb
          have := hi.ownState b q hb
          by_cases hq : q = r
          · subst hq; exact absurd hb (hno b)
          · simp [upd, hq]; exact this
      · intro q b hb
        have := hi.refHold q b hb
        by_cases hba : b = a
        · subst hba; rw [hpc] at this; cases this
        · simp [upd, hba]; exact this
      · intro q hq
        by_cases hqr : q = r
        · subst hqr; right; right; exact ⟨a, by simp [Owns, upd]⟩
        · rcases hi.accounted q hq with h1 | h1 | ⟨b, hb⟩
          · left; exact h1
          · right; left; simp [upd, hqr]; exact h1
          · right; right
            refine ⟨b, ?_⟩
            have hba : b ≠ a := by
              intro e; subst e; simp [Owns, hpc] at hb
            simp [Owns, upd, hba]; exact hb
      · intro q hq
        by_cases hqr : q = r
        · subst hqr; simp [upd] at hq
        · simp [upd, hqr] at hq; exact hi.idleUsed q hq
      · exact hi.deadUsed
    · cases h
  | setref a r =>
    simp only [step] at h
    split at h
    · rename_i hpc
      injection h with h; subst h
      have hown : Owns s a r := Or.inl hpc
      constructor
      · intro b q hb
        by_cases hba : b = a
        · subst hba; simp [upd] at hb; subst hb; simp [upd]
        · simp [upd, hba] at hb
          have h1 := hi.holdRef b q hb
          by_cases hq : q = r
          · subst hq; exact absurd (hi.excl b a q (Or.inr (Or.inl hb)) hown) hba
          · simp [upd, hq]; exact h1
      · intro b c q hb hc
        simp only [Owns] at hb hc
        by_cases hba : b = a <;> by_cases hca : c = a
        · rw [hba, hca]
        · subst hba; simp [upd, hca] at hb hc
          subst hb; exact hi.excl _ _ _ hown hc
        · subst hca; simp [upd, hba] at hb hc
          subst hc; exact hi.excl _ _ _ hb hown
        · simp [upd, hba, hca] at hb hc; exact hi.excl b c q hb hc
      · intro b q hb
        simp only [Owns] at hb
        by_cases hba : b = a
        · subst hba; simp [upd] at hb; subst hb
          exact hi.ownState _ _ hown
        · simp [upd, hba] at hb
          exact hi.ownState b q hb
      · intro q b hb
        by_cases hq : q = r
        · subst hq; simp [upd] at hb; subst hb; simp [upd]
        · simp [upd, hq] at hb
          have := hi.refHold q b hb
          by_cases hba : b = a
          · subst hba; rw [hpc] at this; cases this
          · simp [upd, hba]; exact this
      · intro q hq
        rcases hi.accounted q hq with h1 | h1 | ⟨b, hb⟩
        · left; exact h1
        · right; left; exact h1
        · right; right
          by_cases hba : b = a
          · subst hba
            have : q = r := by
              simp [Owns, hpc] at hb; exact hb.symm
            subst this
            exact ⟨b, by simp [Owns, upd]⟩
          · exact ⟨b, by simp [Owns, upd, hba]; exact hb⟩
      · exact hi.idleUsed
      · exact hi.deadUsed
    · cases h
  | clear a r =>
    simp only [step] at h
    split at h
    · rename_i hc
      obtain ⟨hpc, href⟩ := hc
      injection h with h; subst h
      have hown : Owns s a r := Or.inr (Or.inl hpc)
      constructor
      · intro b q hb
        by_cases hba : b = a
        · subst hba; simp [upd] at hb
        · simp [upd, hba] at hb
          have h1 := hi.holdRef b q hb
          by_cases hq : q = r
          · subst hq; exact absurd (hi.excl b a q (Or.inr (Or.inl hb)) hown) hba
          · simp [upd, hq]; exact h1
      · intro b c q hb hc
        simp only [Owns] at hb hc
        by_cases hba : b = a <;> by_cases hca : c = a
        · rw [hba, hca]
        · subst hba; simp [upd, hca] at hb hc
          subst hb; exact hi.excl _ _ _ hown hc
        · subst hca; simp [upd, hba] at hb hc
          subst hc; exact hi.excl _ _ _ hb hown
        · simp [upd, hba, hca] at hb hc; exact hi.excl b c q hb hc
      · intro b q hb
        simp only [Owns] at hb
        by_cases hba : b = a
        · subst hba; simp [upd] at hb; subst hb
          exact hi.ownState _ _ hown
        · simp [upd, hba] at hb
          exact hi.ownState b q hb
      · intro q b hb
        by_cases hq : q = r
        · subst hq; simp [upd] at hb
        · simp [upd, hq] at hb
          have := hi.refHold q b hb
          by_cases hba : b = a
          · subst hba; rw [hpc] at this; injection this with this; exact absurd this.symm hq
          · simp [upd, hba]; exact this
      · intro q hq
        rcases hi.accounted q hq with h1 | h1 | ⟨b, hb⟩
        · left; exact h1
        · right; left; exact h1
        · right; right
          by_cases hba : b = a
          · subst hba
            have : q = r := by
              simp [Owns, hpc] at hb; exact hb.symm
            subst this
            exact ⟨b, by simp [Owns, upd]⟩
          · exact ⟨b, by simp [Owns, upd, hba]; exact hb⟩
      · exact hi.idleUsed
      · exact hi.deadUsed
    · cases h
  | clearf a r =>
    simp only [step] at h
    split at h
    · rename_i hpc
      injection h with h; subst h
      have hown : Owns s a r := Or.inl hpc
      constructor
      · intro b q hb
        by_cases hba : b = a
        · subst hba; simp [upd] at hb
        · simp [upd, hba] at hb
          have h1 := hi.holdRef b q hb
          by_cases hq : q = r
          · subst hq; exact absurd (hi.excl b a q (Or.inr (Or.inl hb)) hown) hba
          · simp [upd, hq]; exact h1
      · intro b c q hb hc
        simp only [Owns] at hb hc
        by_cases hba : b = a <;> by_cases hca : c = a
        · rw [hba, hca]
        · subst hba; simp [upd, hca] at hb hc
          subst hb; exact hi.excl _ _ _ hown hc
        · subst hca; simp [upd, hba] at hb hc
          subst hc; exact hi.excl _ _ _ hb hown
        · simp [upd, hba, hca] at hb hc; exact hi.excl b c q hb hc
      · intro b q hb
        simp only [Owns] at hb
        by_cases hba : b = a
        · subst hba; simp [upd] at hb; subst hb
          exact hi.ownState _ _ hown
        · simp [upd, hba] at hb
          exact hi.ownState b q hb
      · intro q b hb
        by_cases hq : q = r
        · subst hq; simp [upd] at hb
        · simp [upd, hq] at hb
          have := hi.refHold q b hb
          by_cases hba : b = a
          · subst hba; rw [hpc] at this; cases this
          · simp [upd, hba]; exact this
      · intro q hq
        rcases hi.accounted q hq with h1 | h1 | ⟨b, hb⟩
        · left; exact h1
        · right; left; exact h1
        · right; right
          by_cases hba : b = a
          · subst hba
            have : q = r := by
              simp [Owns, hpc] at hb; exact hb.symm
            subst this
            exact ⟨b, by simp [Owns, upd]⟩
          · exact ⟨b, by simp [Owns, upd, hba]; exact hb⟩
      · exact hi.idleUsed
      · exact hi.deadUsed
    · cases h
  | put a r =>
    simp only [step] at h
    split at h
    · rename_i hpc
      injection h with h; subst h
      have hown : Owns s a r := Or.inr (Or.inr hpc)
      have hst := hi.ownState a r hown
      have hother : ∀ b, b ≠ a → ¬ Owns s b r := fun b hba hb => hba (hi.excl b a r hb hown)
      constructor
      · intro b q hb
        by_cases hba : b = a
        · subst hba; simp [upd] at hb
        · simp [upd, hba] at hb; exact hi.holdRef b q hb
      · intro b c q hb hc
        simp only [Owns] at hb hc
        by_cases hba : b = a
        · subst hba; simp [upd] at hb
        · by_cases hca : c = a
          · subst hca; simp [upd] at hc
          · simp [upd, hba, hca] at hb hc; exact hi.excl b c q hb hc
      · intro b q hb
        simp only [Owns] at hb
        by_cases hba : b = a
        · subst hba; simp [upd] at hb
        · simp [upd, hba] at hb
          have := hi.ownState b q hb
          by_cases hq : q = r
          · subst hq; exact absurd hb (hother b hba)
          · simp [upd, hq]; exact this
      · intro q b hb
        have := hi.refHold q b hb
        by_cases hba : b = a
        · subst hba; rw [hpc] at this; cases this
        · simp [upd, hba]; exact this
      · intro q hq
        by_cases hqr : q = r
        · subst hqr; right; left; simp [upd]
        · rcases hi.accounted q hq with h1 | h1 | ⟨b, hb⟩
          · left; exact h1
          · right; left; simp [upd, hqr]; exact h1
          · right; right
            have hba : b ≠ a := by
              intro e; subst e
              simp [Owns, hpc] at hb; exact hqr hb.symm
            exact ⟨b, by simp [Owns, upd, hba]; exact hb⟩
      · intro q hq
        by_cases hqr : q = r
        · subst hqr; exact ⟨hst.2.1, hst.2.2⟩
        · simp [upd, hqr] at hq; exact hi.idleUsed q hq
      · exact hi.deadUsed
    · cases h
  | drop a r =>
    simp only [step] at h
    split at h
    · rename_i hpc
      injection h with h; subst h
      have hown : Owns s a r := Or.inr (Or.inr hpc)
      have hst := hi.ownState a r hown
      have hother : ∀ b, b ≠ a → ¬ Owns s b r := fun b hba hb => hba (hi.excl b a r hb hown)
      constructor
      · intro b q hb
        by_cases hba : b = a
        · subst hba; simp [upd] at hb
        · simp [upd, hba] at hb; exact hi.holdRef b q hb
      · intro b c q hb hc
        simp only [Owns] at hb hc
        by_cases hba : b = a
        · subst hba; simp [upd] at hb
        · by_cases hca : c = a
          · subst hca; simp [upd] at hc
          · simp [upd, hba, hca] at hb hc; exact hi.excl b c q hb hc
      · intro b q hb
        simp only [Owns] at hb
        by_cases hba : b = a
        · subst hba; simp [upd] at hb
        · simp [upd, hba] at hb
          have := hi.ownState b q hb
          by_cases hq : q = r
          · subst hq; exact absurd hb (hother b hba)
          · simp [upd, hq]; exact this
      · intro q b hb
        have := hi.refHold q b hb
        by_cases hba : b = a
        · subst hba; rw [hpc] at this; cases this
        · simp [upd, hba]; exact this
      · intro q hq
        by_cases hqr : q = r
        · subst hqr; left; simp [upd]
        · rcases hi.accounted q hq with h1 | h1 | ⟨b, hb⟩
          · left; simp [upd, hqr]; exact h1
          · right; left; exact h1
          · right; right
            have hba : b ≠ a := by
              intro e; subst e
              simp [Owns, hpc] at hb; exact hqr hb.symm
            exact ⟨b, by simp [Owns, upd, hba]; exact hb⟩
      · intro q hq
        have := hi.idleUsed q hq
        by_cases hqr : q = r
        · subst hqr; rw [hst.1] at hq; cases hq
        · simp [upd, hqr]; exact this
      · intro q hq
        by_cases hqr : q = r
        · subst hqr; exact hst.2.1
        · simp [upd, hqr] at hq; exact hi.deadUsed q hq
    · cases h
  | skip a r =>
    simp only [step] at h
    split at h
    · rename_i hc
      exact absurd (hi.holdRef a r hc.1) hc.2
    · cases h

theorem inv_run (ls : List Label) : ∀ s s', Inv s → run s ls = some s' → Inv s' := by
  induction ls with
  | nil => intro s s' hi h; simp [run] at h; subst h; exact hi
  | cons l ls ih =>
    intro s s' hi h
    simp only [run] at h
    split at h
    · rename_i s1 hs1
      exact ih s1 s' (inv_step s s1 l hi hs1) h
    · cases h

end SaVerif.RecProto
