import SaVerif.Model.Ident
/-! Helper lemmas about M-STR / identifiers (core Lean only). -/
namespace SaVerif.Ident

/-! ## `pyReplace` -/

theorem isPrefix_cons_ne {a c : Nat} {as t : Str} (h : a ≠ c) : isPrefix (a :: as) (c :: t) = false := by
  simp [isPrefix, h]

/-- replacing a one-character pattern is a `flatMap` -/
theorem pyReplace_single (a : Nat) (new s : Str) :
    pyReplace [a] new s = s.flatMap (fun c => if c = a then new else [c]) := by
  unfold pyReplace
  induction s with
  | nil => simp [pyReplaceAux]
  | cons c t ih =>
    simp only [pyReplaceAux, isPrefix, Bool.and_true, List.length_cons, List.length_nil,
      Nat.zero_add, Nat.sub_self, List.flatMap_cons]
    by_cases h : c = a
    · subst h; simp [ih]
    · have : (a == c) = false := by simp; exact fun e => h e.symm
      simp [this, h, ih]

/-- a block free of `q` is copied by `replace(qq, q)` -/
theorem pyReplaceAux_pair_free (q : Nat) (w t : Str) (hw : q ∉ w) :
    pyReplaceAux [q, q] [q] (w ++ t) 0 = w ++ pyReplaceAux [q, q] [q] t 0 := by
  induction w with
  | nil => rfl
  | cons c w ih =>
    have hc : q ≠ c := fun e => hw (by simp [e])
    have hw' : q ∉ w := fun e => hw (by simp [e])
    simp only [List.cons_append, pyReplaceAux, isPrefix_cons_ne hc]
    simp [ih hw']

theorem pyReplaceAux_pair_hit (q : Nat) (t : Str) :
    pyReplaceAux [q, q] [q] (q :: q :: t) 0 = q :: pyReplaceAux [q, q] [q] t 0 := by
  simp [pyReplaceAux, isPrefix]

/-- `replace(qq, q)` undoes any character-wise encoding that doubles `q` and
    otherwise emits `q`-free blocks -/
theorem pyReplace_pair_flatMap (q : Nat) (f : Nat → Str) (hq : f q = [q, q])
    (hf : ∀ c, c ≠ q → q ∉ f c) (s : Str) :
    pyReplace [q, q] [q] (s.flatMap f) = s.flatMap (fun c => if c = q then [q] else f c) := by
  unfold pyReplace
  induction s with
  | nil => simp [pyReplaceAux]
  | cons c t ih =>
    simp only [List.flatMap_cons]
    by_cases h : c = q
    · subst h
      rw [hq]
      simp only [List.cons_append, List.nil_append, pyReplaceAux_pair_hit, ih]
      simp
    · rw [pyReplaceAux_pair_free q _ _ (hf c h), ih]
      simp [h]

theorem pyReplace_pair_free (q : Nat) (w : Str) (hw : q ∉ w) : pyReplace [q, q] [q] w = w := by
  have := pyReplaceAux_pair_free q w [] hw
  simpa [pyReplace, pyReplaceAux] using this


/-! ## well-formedness of a preparer (decidable; discharged per dialect by `decide`
    over the regenerated tables) -/

/-- `_double_percents` is on: the escape chain contains the `%` → `%%` step -/
def dbl (p : Prep) : Bool := p.escOps.any (fun op => op.1 == [37])

def wf (p : Prep) : Bool :=
  (p.escOps == [([p.fq], [p.fq, p.fq])] ||
    p.escOps == [([p.fq], [p.fq, p.fq]), ([37], [37, 37])])
  && p.unescOps == [([p.fq, p.fq], [p.fq])]
  && p.fq != 46 && p.fq != 10 && p.fq != 37 && p.iq != 46 && p.iq != 10 && p.iq != 37
  && !p.legalChars.contains 46 && !p.legalChars.contains p.iq
  && !p.legalChars.contains p.fq && !p.legalChars.contains 37
  && !p.legalChars.contains 10

/-- per-character image of `_escape_identifier` -/
def escChar (fq : Nat) (d : Bool) (c : Nat) : Str :=
  if c = fq then [fq, fq] else if d && c == 37 then [37, 37] else [c]

/-- what the server receives for a character: `%%` collapses again -/
def pctChar (d : Bool) (c : Nat) : Str := if d && c == 37 then [37, 37] else [c]

structure WF (p : Prep) : Prop where
  esc : p.escOps = [([p.fq], [p.fq, p.fq])] ∨
        p.escOps = [([p.fq], [p.fq, p.fq]), ([37], [37, 37])]
  unesc : p.unescOps = [([p.fq, p.fq], [p.fq])]
  fq_dot : p.fq ≠ 46
  fq_nl : p.fq ≠ 10
  fq_pct : p.fq ≠ 37
  iq_dot : p.iq ≠ 46
  iq_nl : p.iq ≠ 10
  iq_pct : p.iq ≠ 37
  legal_dot : 46 ∉ p.legalChars
  legal_iq : p.iq ∉ p.legalChars
  legal_fq : p.fq ∉ p.legalChars
  legal_pct : 37 ∉ p.legalChars
  legal_nl : 10 ∉ p.legalChars

theorem wf_iff (p : Prep) : wf p = true → WF p := by
  intro h
  simp only [wf, Bool.and_eq_true, Bool.or_eq_true, beq_iff_eq, bne_iff_ne, ne_eq,
    Bool.not_eq_true', List.contains_eq_mem, decide_eq_false_iff_not] at h
  obtain ⟨⟨⟨⟨⟨⟨⟨⟨⟨⟨⟨⟨h1, h2⟩, h3⟩, h4⟩, h5⟩, h6⟩, h7⟩, h8⟩, h8b⟩, h9⟩, h10⟩, h11⟩, h12⟩ := h
  exact ⟨h1, h2, h3, h4, h5, h6, h7, h8, h8b, h9, h10, h11, h12⟩

theorem escape_eq (p : Prep) (h : WF p) (s : Str) :
    escape p s = s.flatMap (escChar p.fq (dbl p)) := by
  rcases h.esc with he | he
  · have hd : dbl p = false := by simp [dbl, he, h.fq_pct]
    simp only [escape, applyOps, he, List.foldl_cons, List.foldl_nil, pyReplace_single, hd]
    congr 1
  · have hd : dbl p = true := by simp [dbl, he]
    simp only [escape, applyOps, he, List.foldl_cons, List.foldl_nil, pyReplace_single, hd,
      List.flatMap_assoc]
    congr 1
    funext c
    by_cases h1 : c = p.fq
    · subst h1; simp [escChar, h.fq_pct]
    · by_cases h2 : c = 37
      · subst h2; simp [escChar, h1]
      · simp [escChar, h1, h2]

theorem unescape_escape (p : Prep) (h : WF p) (s : Str) :
    unescape p (escape p s) = s.flatMap (pctChar (dbl p)) := by
  rw [escape_eq p h]
  simp only [unescape, applyOps, h.unesc, List.foldl_cons, List.foldl_nil]
  rw [pyReplace_pair_flatMap p.fq (escChar p.fq (dbl p))]
  · congr 1
    funext c
    by_cases h1 : c = p.fq
    · subst h1; simp [pctChar, h.fq_pct]
    · simp [escChar, pctChar, h1]
  · simp [escChar]
  · intro c hc
    by_cases h2 : (dbl p && c == 37) = true
    · simp only [escChar, hc, h2, if_true, if_false]
      simp; exact h.fq_pct
    · simp only [escChar, hc, h2, if_false]
      simp; exact fun e => hc e.symm

theorem flatMap_pctChar_false (s : Str) : s.flatMap (pctChar false) = s := by
  induction s with
  | nil => rfl
  | cons c t ih => simp [pctChar, ih]


/-! ## the `_r_identifiers` matcher on well-formed input -/

/-- text produced by doubling `fq`: pairs `fq fq` and characters other than `fq` -/
inductive WellEsc (fq : Nat) : Str → Prop
  | nil : WellEsc fq []
  | pair {w : Str} : WellEsc fq w → WellEsc fq (fq :: fq :: w)
  | char {c : Nat} {w : Str} : c ≠ fq → WellEsc fq w → WellEsc fq (c :: w)

theorem wellEsc_flatMap (fq : Nat) (d : Bool) (hp : fq ≠ 37) (s : Str) :
    WellEsc fq (s.flatMap (escChar fq d)) := by
  induction s with
  | nil => exact .nil
  | cons c t ih =>
    simp only [List.flatMap_cons, escChar]
    by_cases h1 : c = fq
    · subst h1; simpa using WellEsc.pair ih
    · by_cases h2 : (d && c == 37) = true
      · simp only [h1, h2, if_true, if_false]
        have : c = 37 := by
          simp only [Bool.and_eq_true, beq_iff_eq] at h2; exact h2.2
        subst this
        exact .char h1 (.char h1 ih)
      · simp only [h1, h2, if_false]
        exact .char h1 ih

theorem lookahead_head {c : Nat} {r : Str} (h : lookahead (c :: r) = true) : c = 10 ∨ c = 46 := by
  unfold lookahead at h
  split at h
  · cases ‹c :: r = []›
  · rename_i heq; cases heq; exact Or.inl rfl
  · rename_i c' _ _ heq; cases heq; right; simpa using h

theorem not_prefix_of_lookahead (fq : Nat) (hdot : fq ≠ 46) (hnl : fq ≠ 10) (rest : Str)
    (hl : lookahead rest = true) : isPrefix [fq] rest = false := by
  cases rest with
  | nil => rfl
  | cons c r =>
    rcases lookahead_head hl with h | h <;> subst h
    · exact isPrefix_cons_ne hnl
    · exact isPrefix_cons_ne hdot

theorem qbody_wellEsc (fq : Nat) (hdot : fq ≠ 46) (hnl : fq ≠ 10) (rest : Str)
    (hl : lookahead rest = true) :
    ∀ w, WellEsc fq w → ∀ fuel ne, (w ++ fq :: rest).length + 1 ≤ fuel → (ne = true ∨ w ≠ []) →
      qbody [fq, fq] fq fuel (w ++ fq :: rest) ne = some (w, rest) := by
  intro w hw
  induction hw with
  | nil =>
    intro fuel ne hf hne
    have hne : ne = true := by rcases hne with h | h; exact h; exact absurd rfl h
    subst hne
    cases fuel with
    | zero => simp at hf
    | succ k =>
      have hp := not_prefix_of_lookahead fq hdot hnl rest hl
      simp [qbody, isPrefix, hp, hl]
  | pair hw ih =>
    rename_i w
    intro fuel ne hf _
    cases fuel with
    | zero => simp at hf
    | succ k =>
      have hk : (w ++ fq :: rest).length + 1 ≤ k := by
        simp only [List.cons_append, List.length_cons, List.length_append] at hf ⊢; omega
      have := ih k true hk (Or.inl rfl)
      simp [qbody, isPrefix, this]
  | char hc hw ih =>
    rename_i c w
    intro fuel ne hf _
    cases fuel with
    | zero => simp at hf
    | succ k =>
      have hk : (w ++ fq :: rest).length + 1 ≤ k := by
        simp only [List.cons_append, List.length_cons, List.length_append] at hf ⊢; omega
      have := ih k true hk (Or.inl rfl)
      have hfc : (fq == c) = false := by simp; exact fun e => hc e.symm
      simp [qbody, isPrefix, this, hfc, hc]


/-- what follows a component of a dotted name: end of text or a dot -/
def Boundary (rest : Str) : Prop := rest = [] ∨ ∃ r, rest = 46 :: r

theorem boundary_lookahead {rest : Str} (h : Boundary rest) : lookahead rest = true := by
  rcases h with h | ⟨r, h⟩ <;> subst h <;> simp [lookahead]

theorem takeWhile_nodot (n rest : Str) (hn : ∀ c ∈ n, c ≠ 46) (hb : Boundary rest) :
    (n ++ rest).takeWhile (· != 46) = n ∧ (n ++ rest).dropWhile (· != 46) = rest := by
  induction n with
  | nil =>
    rcases hb with h | ⟨r, h⟩ <;> subst h <;> simp
  | cons c t ih =>
    have hc : c ≠ 46 := hn c (by simp)
    have := ih (fun x hx => hn x (by simp [hx]))
    simp [hc, this.1, this.2]

theorem bareRun_append (n rest : Str) (hne : n ≠ []) (hn : ∀ c ∈ n, c ≠ 46) (hb : Boundary rest) :
    bareRun (n ++ rest) = some (n, rest) := by
  have := takeWhile_nodot n rest hn hb
  unfold bareRun
  simp only [this.1, this.2]
  cases n with
  | nil => exact absurd rfl hne
  | cons c t => simp

theorem matchIter_boundary (p : Prep) (h : WF p) (rest : Str) (hb : Boundary rest) :
    matchIter p rest = none := by
  rcases hb with hb | ⟨r, hb⟩ <;> subst hb
  · simp [matchIter, bareRun]
  · have : (46 == p.iq) = false := by simp; exact fun e => h.iq_dot e.symm
    simp [matchIter, bareRun, this]

theorem matchLoop_stop (p : Prep) (fuel : Nat) (g1 g2 : Option Str) (t : Str)
    (h : matchIter p t = none) : matchLoop p fuel g1 g2 t = (g1, g2, t) := by
  cases fuel <;> simp [matchLoop, h]

theorem escape_fq (p : Prep) (h : WF p) : escape p [p.fq] = [p.fq, p.fq] := by
  rw [escape_eq p h]; simp [escChar]

theorem escape_ne_nil (p : Prep) (h : WF p) (n : Str) (hn : n ≠ []) : escape p n ≠ [] := by
  rw [escape_eq p h]
  cases n with
  | nil => exact absurd rfl hn
  | cons c t =>
    simp only [List.flatMap_cons, escChar]
    split
    · simp
    · split <;> simp

theorem matchAt_quoted (p : Prep) (h : WF p) (n rest : Str) (hn : n ≠ []) (hb : Boundary rest) :
    matchAt p (quoteIdentifier p n ++ rest) = some (some (escape p n), none, rest) := by
  have hq : qbody [p.fq, p.fq] p.fq ((escape p n ++ p.fq :: rest).length + 1)
      (escape p n ++ p.fq :: rest) false = some (escape p n, rest) := by
    apply qbody_wellEsc p.fq h.fq_dot h.fq_nl rest (boundary_lookahead hb)
    · rw [escape_eq p h]; exact wellEsc_flatMap _ _ h.fq_pct _
    · exact Nat.le_refl _
    · exact Or.inr (escape_ne_nil p h n hn)
  have ht : quoteIdentifier p n ++ rest = p.iq :: (escape p n ++ p.fq :: rest) := by
    simp [quoteIdentifier]
  rw [ht]
  simp only [matchAt, matchIter, beq_self_eq_true, if_true, escape_fq p h, hq]
  rw [matchLoop_stop p _ _ _ _ (matchIter_boundary p h rest hb)]

theorem matchAt_bare (p : Prep) (h : WF p) (c : Nat) (t rest : Str) (hc : c ≠ p.iq)
    (hn : ∀ x ∈ c :: t, x ≠ 46) (hb : Boundary rest) :
    matchAt p ((c :: t) ++ rest) = some (none, some (c :: t), rest) := by
  have hb' := bareRun_append (c :: t) rest (by simp) hn hb
  have hci : (c == p.iq) = false := by simp [hc]
  simp only [List.cons_append] at hb' ⊢
  simp only [matchAt, matchIter, hci, hb']
  simp only [Bool.false_eq_true, if_false]
  rw [matchLoop_stop p _ _ _ _ (matchIter_boundary p h rest hb)]

theorem findall_nil (p : Prep) (fuel : Nat) : findall p fuel [] = [] := by
  cases fuel <;> simp [findall, matchAt, matchIter, bareRun]

theorem findall_dot (p : Prep) (h : WF p) (fuel : Nat) (more : Str) :
    findall p (fuel + 1) (46 :: more) = findall p fuel more := by
  have : matchAt p (46 :: more) = none := by
    have := matchIter_boundary p h (46 :: more) (Or.inr ⟨more, rfl⟩)
    simp [matchAt, this]
  simp [findall, this]

theorem findall_step (p : Prep) (fuel : Nat) (comp rest : Str) (g1 g2 : Option Str)
    (hc : comp ≠ []) (hm : matchAt p (comp ++ rest) = some (g1, g2, rest)) :
    findall p (fuel + 1) (comp ++ rest) = (g1.getD [], g2.getD []) :: findall p fuel rest := by
  have : rest.length < (comp ++ rest).length := by
    cases comp with
    | nil => exact absurd rfl hc
    | cons c t => simp only [List.cons_append, List.length_cons, List.length_append]; omega
  simp [findall, hm, hc]

/-! ## names that `_requires_quotes` lets through unquoted -/

theorem legalMatch_chars (p : Prep) (s : Str) (h : legalMatch p s = true) :
    s ≠ [] ∧ (∀ c ∈ s, c ∈ p.legalChars ∨ c = 10) ∧ (∀ c t, s = c :: t → c ∈ p.legalChars) := by
  unfold legalMatch at h
  simp only [Bool.and_eq_true, Bool.not_eq_true', List.isEmpty_eq_false_iff, List.all_eq_true,
    List.contains_eq_mem, decide_eq_true_eq, ne_eq] at h
  by_cases hl : s.getLast? = some 10
  · obtain ⟨ys, hys⟩ := List.getLast?_eq_some_iff.1 hl
    subst hys
    simp only [List.getLast?_concat, beq_self_eq_true, if_true, List.dropLast_concat] at h
    refine ⟨by simp, ?_, ?_⟩
    · intro c hc
      simp only [List.mem_append, List.mem_singleton] at hc
      rcases hc with hc | hc
      · exact Or.inl (h.2 c hc)
      · exact Or.inr hc
    · intro c t hct
      cases ys with
      | nil => exact absurd rfl h.1
      | cons y ys' =>
        simp only [List.cons_append, List.cons.injEq] at hct
        exact hct.1 ▸ h.2 y (by simp)
  · have hl' : (s.getLast? == some 10) = false := by simpa using hl
    simp only [hl', Bool.false_eq_true, if_false] at h
    refine ⟨h.1, fun c hc => Or.inl (h.2 c hc), ?_⟩
    intro c t hct; subst hct; exact h.2 c (by simp)

/-- everything `_requires_quotes = False` tells us about a name -/
theorem bare_facts (p : Prep) (s : Str) (h : requiresQuotes p s = some false) :
    p.reserved.contains (lower p s) = false ∧ legalMatch p s = true ∧ lower p s = s ∧
    ∃ c t, s = c :: t ∧ p.illegalInitial.contains c = false := by
  unfold requiresQuotes at h
  simp only at h
  split at h
  · cases h
  · rename_i hres
    cases s with
    | nil => cases h
    | cons c t =>
      simp only [Option.some.injEq, Bool.or_eq_false_iff, Bool.not_eq_false',
        bne_eq_false_iff_eq] at h
      exact ⟨by simpa using hres, h.1.2, h.2, c, t, rfl, h.1.1⟩


/-! ## one component of a dotted name -/

/-- the two regex groups captured for the component rendered from `n` -/
def grp (p : Prep) (n : Str) : Str × Str :=
  if requiresQuotes p n = some true then (escape p n, []) else ([], n)

theorem bare_chars (p : Prep) (h : WF p) (n : Str) (hb : requiresQuotes p n = some false) :
    (∃ c t, n = c :: t ∧ c ≠ p.iq) ∧ (∀ x ∈ n, x ≠ 46) ∧ p.fq ∉ n ∧ 37 ∉ n := by
  obtain ⟨_, hlegal, _, c, t, hct, _⟩ := bare_facts p n hb
  obtain ⟨_, hall, hhead⟩ := legalMatch_chars p n hlegal
  refine ⟨⟨c, t, hct, ?_⟩, ?_, ?_, ?_⟩
  · intro e; exact h.legal_iq (e ▸ hhead c t hct)
  · intro x hx e
    rcases hall x hx with h1 | h1
    · exact h.legal_dot (e ▸ h1)
    · rw [e] at h1; cases h1
  · intro hx
    rcases hall _ hx with h1 | h1
    · exact h.legal_fq h1
    · exact h.fq_nl h1
  · intro hx
    rcases hall _ hx with h1 | h1
    · exact h.legal_pct h1
    · cases h1

theorem comp_match (p : Prep) (h : WF p) (n q rest : Str) (hq : quote p none n = some q)
    (hn : n ≠ []) (hb : Boundary rest) :
    q ≠ [] ∧ ∃ g1 g2, matchAt p (q ++ rest) = some (g1, g2, rest) ∧
      (g1.getD [], g2.getD []) = grp p n := by
  unfold quote at hq
  simp only at hq
  cases hr : requiresQuotes p n with
  | none => rw [hr] at hq; cases hq
  | some b =>
    rw [hr] at hq
    cases b with
    | true =>
      simp only [Option.some.injEq] at hq
      subst hq
      refine ⟨by simp [quoteIdentifier], some (escape p n), none, matchAt_quoted p h n rest hn hb, ?_⟩
      simp [grp, hr]
    | false =>
      simp only [Option.some.injEq] at hq
      subst hq
      obtain ⟨⟨c, t, hct, hc⟩, hdots, _, _⟩ := bare_chars p h n hr
      subst hct
      refine ⟨hn, none, some (c :: t), matchAt_bare p h c t rest hc hdots hb, ?_⟩
      simp [grp, hr]

theorem findall_format (p : Prep) (h : WF p) :
    ∀ (names qs : List Str), quoteAll p names = some qs → (∀ n ∈ names, n ≠ []) →
      ∀ fuel, (intercalateDot qs).length + 1 ≤ fuel →
        findall p fuel (intercalateDot qs) = names.map (grp p) := by
  intro names
  induction names with
  | nil =>
    intro qs hq _ fuel _
    simp only [quoteAll, Option.some.injEq] at hq
    subst hq
    simp [intercalateDot, findall_nil]
  | cons n ns ih =>
    intro qs hq hne fuel hf
    simp only [quoteAll] at hq
    cases hq1 : quote p none n with
    | none => simp [hq1] at hq
    | some q =>
      cases hq2 : quoteAll p ns with
      | none => simp [hq1, hq2] at hq
      | some qs' =>
        simp only [hq1, hq2, Option.some.injEq] at hq
        subst hq
        have hn : n ≠ [] := hne n (by simp)
        have hns : ∀ m ∈ ns, m ≠ [] := fun m hm => hne m (by simp [hm])
        cases ns with
        | nil =>
          simp only [quoteAll, Option.some.injEq] at hq2
          subst hq2
          obtain ⟨hqne, g1, g2, hm, hg⟩ := comp_match p h n q [] hq1 hn (Or.inl rfl)
          simp only [intercalateDot] at hf ⊢
          cases fuel with
          | zero => simp at hf
          | succ k =>
            have := findall_step p k q [] g1 g2 hqne hm
            simp only [List.append_nil] at this
            rw [this, findall_nil, hg]
            simp
        | cons n2 ns2 =>
          -- qs' is non-empty: q2 :: qs2
          cases qs' with
          | nil =>
            simp only [quoteAll] at hq2
            split at hq2 <;> cases hq2
          | cons q2 qs2 =>
            obtain ⟨hqne, g1, g2, hm, hg⟩ :=
              comp_match p h n q (46 :: intercalateDot (q2 :: qs2)) hq1 hn (Or.inr ⟨_, rfl⟩)
            simp only [intercalateDot] at hf ⊢
            simp only [List.length_append, List.length_cons] at hf
            have hql : 1 ≤ q.length := by
              cases q with
              | nil => exact absurd rfl hqne
              | cons _ _ => simp
            cases fuel with
            | zero => omega
            | succ k =>
              cases k with
              | zero => omega
              | succ k2 =>
                rw [findall_step p (k2 + 1) q _ g1 g2 hqne hm, findall_dot p h k2,
                  ih (q2 :: qs2) hq2 hns k2 (by omega), hg]
                simp


/-! ## what the server lexes -/

theorem lexQuotedBody_escaped (fq : Nat) (n rest : Str) (hr : ∀ c t, rest = c :: t → c ≠ fq) :
    lexQuotedBody fq (n.flatMap (escChar fq false) ++ fq :: rest) = some (n, rest) := by
  unfold lexQuotedBody
  induction n with
  | nil =>
    cases rest with
    | nil => simp [lexQuotedAux]
    | cons d t =>
      have : (d == fq) = false := by simpa using hr d t rfl
      simp [lexQuotedAux, this]
  | cons c t ih =>
    by_cases h : c = fq
    · subst h
      simp [escChar, lexQuotedAux, ih]
    · simp [escChar, h, lexQuotedAux, ih]

theorem unPercentAux_free (a b : Str) (ha : 37 ∉ a) :
    unPercentAux (a ++ b) false = (unPercentAux b false).map (a ++ ·) := by
  induction a with
  | nil => simp
  | cons c t ih =>
    have hc : (c == 37) = false := by
      simp; exact fun e => ha (by simp [e])
    have ht : 37 ∉ t := fun e => ha (by simp [e])
    simp [unPercentAux, hc, ih ht, Option.map_map, Function.comp_def]

theorem unPercentAux_escaped (fq : Nat) (hp : fq ≠ 37) (n tail : Str) :
    unPercentAux (n.flatMap (escChar fq true) ++ tail) false
      = (unPercentAux tail false).map (n.flatMap (escChar fq false) ++ ·) := by
  induction n with
  | nil => simp
  | cons c t ih =>
    by_cases h1 : c = fq
    · subst h1
      have hc : (c == 37) = false := by simpa using hp
      simp [escChar, unPercentAux, hc, ih, Option.map_map, Function.comp_def]
    · by_cases h2 : c = 37
      · subst h2
        simp [escChar, h1, unPercentAux, ih, Option.map_map, Function.comp_def]
      · have hc : (c == 37) = false := by simpa using h2
        simp [escChar, h1, h2, unPercentAux, hc, ih, Option.map_map, Function.comp_def]

/-- the statement text as the server receives it: under `format`/`pyformat` the
    DBAPI applies `%` formatting first -/
def serverSees (p : Prep) (s : Str) : Option Str := if dbl p then unPercent s else some s

theorem serverSees_quoted (p : Prep) (h : WF p) (n : Str) :
    serverSees p (quoteIdentifier p n) = some (p.iq :: (n.flatMap (escChar p.fq false) ++ [p.fq])) := by
  unfold serverSees quoteIdentifier
  rw [escape_eq p h]
  cases hd : dbl p with
  | false => simp
  | true =>
    have hi : (p.iq == 37) = false := by simpa using h.iq_pct
    have hf : (p.fq == 37) = false := by simpa using h.fq_pct
    simp [unPercent, unPercentAux, hi, unPercentAux_escaped p.fq h.fq_pct, hf]

/-! ## regular (undelimited) identifiers -/

/-- decidable compatibility of a preparer with a backend grammar -/
def compat (p : Prep) (b : Backend) : Bool :=
  b.iq == p.iq && b.fq == p.fq
  && p.legalChars.all (fun c => b.isCont c)
  && p.legalChars.all (fun c => p.illegalInitial.contains c || b.isStart c)
  && b.keywords.all (fun k => p.reserved.contains k)
  && p.lowerSpecial.all (fun e => !e.2.isEmpty)
  && b.keywords.all (fun k => k.all (fun c => c < 128))

structure Compat (p : Prep) (b : Backend) : Prop where
  iq : b.iq = p.iq
  fq : b.fq = p.fq
  cont : ∀ c ∈ p.legalChars, b.isCont c = true
  start : ∀ c ∈ p.legalChars, c ∉ p.illegalInitial → b.isStart c = true
  kw : ∀ k ∈ b.keywords, k ∈ p.reserved
  ascii : ∀ c : Nat, c < 128 → lowerChar p c = [asciiLowerChar c]
  special : ∀ e ∈ p.lowerSpecial, e.2 ≠ []
  kwAscii : ∀ k ∈ b.keywords, ∀ c ∈ k, c < 128

theorem compat_iff (p : Prep) (b : Backend) (h : compat p b = true) : Compat p b := by
  simp only [compat, Bool.and_eq_true, beq_iff_eq, List.all_eq_true, Bool.or_eq_true,
    List.contains_eq_mem, decide_eq_true_eq, List.mem_range, Bool.not_eq_true',
    List.isEmpty_eq_false_iff] at h
  obtain ⟨⟨⟨⟨⟨⟨h1, h2⟩, h3⟩, h4⟩, h5⟩, h7⟩, h8⟩ := h
  refine ⟨h1, h2, h3, ?_, h5, ?_, h7, h8⟩
  · intro c hc hni
    rcases h4 c hc with h | h
    · exact absurd h hni
    · exact h
  · intro c hc
    simp [lowerChar, hc]

theorem lowerChar_ne_nil (p : Prep) (b : Backend) (h : Compat p b) (c : Nat) : lowerChar p c ≠ [] := by
  unfold lowerChar
  split
  · simp
  split
  · rename_i w hw
    have := (List.lookup_eq_some_iff.1 hw)
    obtain ⟨l1, l2, hl, _⟩ := this
    exact h.special (c, w) (by rw [hl]; simp)
  · split <;> simp


theorem flatMap_length_ge (f : Nat → Str) (hf : ∀ c, f c ≠ []) (s : Str) :
    s.length ≤ (s.flatMap f).length := by
  induction s with
  | nil => simp
  | cons c t ih =>
    have : 1 ≤ (f c).length := by
      cases hfc : f c with
      | nil => exact absurd hfc (hf c)
      | cons _ _ => simp
    simp only [List.flatMap_cons, List.length_append, List.length_cons]; omega

/-- a length-non-decreasing character map that fixes the string fixes every character -/
theorem flatMap_fix (f : Nat → Str) (hf : ∀ c, f c ≠ []) (s : Str) (h : s.flatMap f = s) :
    ∀ c ∈ s, f c = [c] := by
  induction s with
  | nil => intro c hc; cases hc
  | cons a t ih =>
    simp only [List.flatMap_cons] at h
    have hlen := congrArg List.length h
    simp only [List.length_append, List.length_cons] at hlen
    have hge := flatMap_length_ge f hf t
    cases hfa : f a with
    | nil => exact absurd hfa (hf a)
    | cons x xs =>
      rw [hfa] at h hlen
      simp only [List.length_cons] at hlen
      have hxs : xs = [] := List.eq_nil_of_length_eq_zero (by omega)
      subst hxs
      simp only [List.cons_append, List.nil_append, List.cons.injEq] at h
      intro c hc
      simp only [List.mem_cons] at hc
      rcases hc with hc | hc
      · subst hc; rw [hfa, h.1]
      · exact ih h.2 c hc

theorem asciiLowerChar_high (c : Nat) (h : 128 ≤ c) : asciiLowerChar c = c := by
  unfold asciiLowerChar
  have : (65 ≤ c && c ≤ 90) = false := by
    simp only [Bool.and_eq_false_iff, decide_eq_false_iff_not]
    right; omega
  simp only [this, Bool.false_eq_true, if_false]

/-- a name left unquoted is fixed by the server's ASCII lower-casing -/
theorem bare_asciiLower (p : Prep) (b : Backend) (hc : Compat p b) (n : Str) (h : lower p n = n) :
    n.map asciiLowerChar = n := by
  have hfix := flatMap_fix (lowerChar p) (lowerChar_ne_nil p b hc) n h
  have : ∀ c ∈ n, asciiLowerChar c = c := by
    intro c hcn
    by_cases hlt : c < 128
    · have h1 := hc.ascii c hlt
      have h2 := hfix c hcn
      rw [h1] at h2
      simpa using h2
    · exact asciiLowerChar_high c (by omega)
  calc n.map asciiLowerChar = n.map id := List.map_congr_left this
    _ = n := by simp

theorem legalMatch_all (p : Prep) (s : Str) (h : legalMatch p s = true) (hnl : s.getLast? ≠ some 10) :
    ∀ c ∈ s, c ∈ p.legalChars := by
  unfold legalMatch at h
  have hl' : (s.getLast? == some 10) = false := by simpa using hnl
  simp only [hl', Bool.false_eq_true, if_false, Bool.and_eq_true, List.all_eq_true,
    List.contains_eq_mem, decide_eq_true_eq] at h
  exact h.2

theorem takeWhile_cont (b : Backend) (n rest : Str) (hn : ∀ c ∈ n, b.isCont c = true)
    (hr : ∀ c t, rest = c :: t → b.isCont c = false) :
    (n ++ rest).takeWhile b.isCont = n ∧ (n ++ rest).dropWhile b.isCont = rest := by
  induction n with
  | nil =>
    cases rest with
    | nil => simp
    | cons d t => simp [hr d t rfl]
  | cons c t ih =>
    have hc := hn c (by simp)
    have := ih (fun x hx => hn x (by simp [hx]))
    simp [hc, this.1, this.2]

/-- **regular identifiers**: a name SQLAlchemy leaves unquoted is one token for the
    server, is not a keyword, and is stored as itself up to the server's case folding -/
theorem lex_bare (p : Prep) (b : Backend) (hw : WF p) (hc : Compat p b) (n rest : Str)
    (hb : requiresQuotes p n = some false) (hnl : n.getLast? ≠ some 10)
    (hr : ∀ c t, rest = c :: t → b.isCont c = false) :
    lexIdent b (n ++ rest) = some (b.foldStr n, rest) := by
  obtain ⟨hres, hlegal, hlow, c, t, hct, hini⟩ := bare_facts p n hb
  have hall := legalMatch_all p n hlegal hnl
  have hcont : ∀ x ∈ n, b.isCont x = true := fun x hx => hc.cont x (hall x hx)
  have hfold := bare_asciiLower p b hc n hlow
  subst hct
  have hcl : c ∈ p.legalChars := hall c (by simp)
  have hstart : b.isStart c = true := hc.start c hcl (by simpa using hini)
  have hciq : (c == b.iq) = false := by
    rw [hc.iq]
    simp only [beq_eq_false_iff_ne, ne_eq]
    intro e
    exact hw.legal_iq (e ▸ hcl)
  have htw := takeWhile_cont b t rest (fun x hx => hcont x (by simp [hx])) hr
  have hkw : b.keywords.contains ((c :: t).map asciiLowerChar) = false := by
    rw [hfold]
    cases hk : b.keywords.contains (c :: t) with
    | false => rfl
    | true =>
      have hmem : (c :: t) ∈ p.reserved := hc.kw _ (by simpa using hk)
      rw [hlow] at hres
      have : p.reserved.contains (c :: t) = true := by simpa using hmem
      rw [this] at hres; cases hres
  simp only [List.cons_append, lexIdent, hciq, Bool.false_eq_true, if_false, hstart, if_true,
    htw.1, htw.2, hkw]

theorem foldStr_id (p : Prep) (b : Backend) (hc : Compat p b) (n : Str)
    (hb : requiresQuotes p n = some false) (hf : b.fold ≠ 2) : b.foldStr n = n := by
  obtain ⟨_, _, hlow, _⟩ := bare_facts p n hb
  unfold Backend.foldStr
  by_cases h1 : b.fold = 1
  · simp [h1, bare_asciiLower p b hc n hlow]
  · simp [h1, hf]

/-! ## the `_strings` memo never changes what `quote` returns -/

def CacheOK (p : Prep) (cache : Cache) : Prop :=
  ∀ s r, cache.lookup s = some r → quote p none s = some r

theorem cacheOK_nil (p : Prep) : CacheOK p [] := by
  intro s r h; simp at h

theorem quoteC_spec (p : Prep) (cache : Cache) (hok : CacheOK p cache) (f : Option Bool) (s : Str) :
    (quoteC p cache f s).1 = quote p f s ∧ CacheOK p (quoteC p cache f s).2 := by
  cases f with
  | some b => cases b <;> simp [quoteC, quote, hok]
  | none =>
    simp only [quoteC]
    cases hl : cache.lookup s with
    | some r => exact ⟨(hok s r hl).symm, hok⟩
    | none =>
      cases hr : requiresQuotes p s with
      | none => simp [quote, hr, hok]
      | some b =>
        have hq : quote p none s = some (if b then quoteIdentifier p s else s) := by
          cases b <;> simp [quote, hr]
        cases b
        · refine ⟨by simp [quote, hr], ?_⟩
          intro s' r' h'
          simp only [List.lookup_cons] at h'
          split at h'
          · rename_i heq
            have : s' = s := by simpa using heq
            subst this; cases h'; simpa using hq
          · exact hok s' r' h'
        · refine ⟨by simp [quote, hr], ?_⟩
          intro s' r' h'
          simp only [List.lookup_cons] at h'
          split at h'
          · rename_i heq
            have : s' = s := by simpa using heq
            subst this; cases h'; simpa using hq
          · exact hok s' r' h'

theorem quoteSeq_spec (p : Prep) :
    ∀ (ops : List (Option Bool × Str)) (cache : Cache), CacheOK p cache →
      quoteSeq p cache ops = ops.map (fun op => quote p op.1 op.2) := by
  intro ops
  induction ops with
  | nil => intro _ _; rfl
  | cons op rest ih =>
    intro cache hok
    obtain ⟨f, s⟩ := op
    have := quoteC_spec p cache hok f s
    simp only [quoteSeq, List.map_cons]
    rw [← this.1, ih _ this.2]


/-! ## `normalize_name` / `denormalize_name` -/

/-- **denormalize ∘ normalize** on a server-side name, under the two case-map facts
    Python's tables satisfy on the name (proved below for ASCII names) -/
theorem denormalize_normalize_gen (p : Prep) (X n : Str) (f : Option Bool)
    (hlow : lower p (lower p X) = lower p X) (hup : upper p (lower p X) = upper p X)
    (h : normalizeName p X = some (n, f)) : denormalizeName p f n = some X := by
  unfold normalizeName at h
  simp only at h
  by_cases h1 : upper p X = lower p X
  · simp only [h1, beq_self_eq_true, if_true, Option.some.injEq, Prod.mk.injEq] at h
    obtain ⟨hn, hf⟩ := h
    subst hn; subst hf
    simp [denormalizeName, lowerQ, upperQ, h1]
  · have h1' : (upper p X == lower p X) = false := by simpa using h1
    simp only [h1', Bool.false_eq_true, if_false] at h
    have hXtrue : denormalizeName p (some true) X = some X := by
      simp [denormalizeName, lowerQ, upperQ]
    have hXnone : lower p X ≠ X → denormalizeName p none X = some X := by
      intro hne
      have : (lower p X == X) = false := by simpa using hne
      simp [denormalizeName, lowerQ, upperQ, h1', this]
    by_cases h2 : upper p X = X
    · simp only [h2, beq_self_eq_true, if_true] at h
      cases hr : requiresQuotes p (lower p X) with
      | none => rw [hr] at h; cases h
      | some b =>
        rw [hr] at h
        cases b with
        | false =>
          simp only [Option.some.injEq, Prod.mk.injEq] at h
          obtain ⟨hn, hf⟩ := h
          subst hn; subst hf
          have hne : (upper p X == lower p X) = false := h1'
          have hne2 : ¬ X = lower p X := fun e => h1 (by rw [h2]; exact e)
          simp only [denormalizeName, lowerQ, upperQ, hlow, hup, beq_self_eq_true, if_true, hr]
          simp [h2, hne2, hr]
        | true =>
          simp only at h
          by_cases h3 : lower p X = X
          · simp only [h3, beq_self_eq_true, if_true, Option.some.injEq, Prod.mk.injEq] at h
            obtain ⟨hn, hf⟩ := h
            subst hn; subst hf
            exact hXtrue
          · have : (lower p X == X) = false := by simpa using h3
            simp only [this, Bool.false_eq_true, if_false, Option.some.injEq, Prod.mk.injEq] at h
            obtain ⟨hn, hf⟩ := h
            subst hn; subst hf
            exact hXnone h3
    · have h2' : (upper p X == X) = false := by simpa using h2
      simp only [h2', Bool.false_eq_true, if_false] at h
      by_cases h3 : lower p X = X
      · simp only [h3, beq_self_eq_true, if_true, Option.some.injEq, Prod.mk.injEq] at h
        obtain ⟨hn, hf⟩ := h
        subst hn; subst hf
        exact hXtrue
      · have : (lower p X == X) = false := by simpa using h3
        simp only [this, Bool.false_eq_true, if_false, Option.some.injEq, Prod.mk.injEq] at h
        obtain ⟨hn, hf⟩ := h
        subst hn; subst hf
        exact hXnone h3

theorem lower_ascii (p : Prep) (X : Str) (h : ∀ c ∈ X, c < 128) : lower p X = X.map asciiLowerChar := by
  unfold lower
  induction X with
  | nil => rfl
  | cons c t ih =>
    have hc := h c (by simp)
    simp only [List.flatMap_cons, List.map_cons, lowerChar, hc, if_true]
    rw [ih (fun x hx => h x (by simp [hx]))]
    rfl

theorem upper_ascii (p : Prep) (X : Str) (h : ∀ c ∈ X, c < 128) : upper p X = X.map asciiUpperChar := by
  unfold upper
  induction X with
  | nil => rfl
  | cons c t ih =>
    have hc := h c (by simp)
    simp only [List.flatMap_cons, List.map_cons, upperChar, hc, if_true]
    rw [ih (fun x hx => h x (by simp [hx]))]
    rfl

theorem asciiLower_lt (c : Nat) (h : c < 128) : asciiLowerChar c < 128 := by
  unfold asciiLowerChar; split <;> simp_all <;> omega

theorem asciiLower_idem (c : Nat) : asciiLowerChar (asciiLowerChar c) = asciiLowerChar c := by
  unfold asciiLowerChar
  by_cases h : (65 ≤ c && c ≤ 90) = true
  · simp only [h, if_true]
    simp only [Bool.and_eq_true, decide_eq_true_eq] at h
    have : (65 ≤ c + 32 && c + 32 ≤ 90) = false := by
      simp only [Bool.and_eq_false_iff, decide_eq_false_iff_not]; right; omega
    rw [if_neg (by simp only [this]; decide)]
  · simp [h]

theorem asciiUpper_lower (c : Nat) : asciiUpperChar (asciiLowerChar c) = asciiUpperChar c := by
  unfold asciiLowerChar asciiUpperChar
  by_cases h : (65 ≤ c && c ≤ 90) = true
  · simp only [h, if_true]
    simp only [Bool.and_eq_true, decide_eq_true_eq] at h
    have h1 : (97 ≤ c + 32 && c + 32 ≤ 122) = true := by
      simp only [Bool.and_eq_true, decide_eq_true_eq]; omega
    have h2 : (97 ≤ c && c ≤ 122) = false := by
      simp only [Bool.and_eq_false_iff, decide_eq_false_iff_not]; left; omega
    rw [if_pos h1, if_neg (by simp only [h2]; decide)]
    omega
  · simp [h]

/-- **denormalize ∘ normalize** for every ASCII server-side name -/
theorem denormalize_normalize_ascii (p : Prep) (X n : Str) (f : Option Bool)
    (hX : ∀ c ∈ X, c < 128) (h : normalizeName p X = some (n, f)) :
    denormalizeName p f n = some X := by
  have hlo : ∀ c ∈ X.map asciiLowerChar, c < 128 := by
    intro c hc
    obtain ⟨a, ha, e⟩ := List.mem_map.1 hc
    exact e ▸ asciiLower_lt a (hX a ha)
  apply denormalize_normalize_gen p X n f _ _ h
  · rw [lower_ascii p X hX, lower_ascii p _ hlo, List.map_map]
    apply List.map_congr_left
    intro c _; exact asciiLower_idem c
  · rw [lower_ascii p X hX, upper_ascii p _ hlo, upper_ascii p X hX, List.map_map]
    apply List.map_congr_left
    intro c _; exact asciiUpper_lower c

end SaVerif.Ident
