import SaVerif.Model.Literal
import SaVerif.Lemmas.Ident
/-! Helper lemmas about M-STR / literals (core Lean only). -/
namespace SaVerif.Literal
open SaVerif.Ident

/-- per-character image of a string value inside the rendered literal:
    `d` = percent doubling, `bs` = backslash doubling -/
def litChar (d bs : Bool) (c : Nat) : Str :=
  if c = 39 then [39, 39] else if d && c == 37 then [37, 37]
  else if bs && c == 92 then [92, 92] else [c]

def qOps : List (Str × Str) := [([39], [39, 39])]
def qpOps : List (Str × Str) := [([39], [39, 39]), ([37], [37, 37])]
def bsOps : List (Str × Str) := [([92], [92, 92])]

/-- decidable well-formedness of a literal configuration -/
def wfLit (c : Cfg) : Bool :=
  (c.strOps == qOps || c.strOps == qpOps) && (c.pre == [39] || c.pre == [78, 39])
  && c.post == [39] && (c.outerOps == [] || c.outerOps == bsOps)

def dblLit (c : Cfg) : Bool := c.strOps == qpOps
def bsLit (c : Cfg) : Bool := c.outerOps == bsOps
def npreLit (c : Cfg) : Bool := c.pre == [78, 39]

theorem strOps_eq (d : Bool) (s : Str) :
    applyOps (if d then qpOps else qOps) s = s.flatMap (litChar d false) := by
  cases d
  · simp only [Bool.false_eq_true, if_false, qOps, applyOps, List.foldl_cons, List.foldl_nil,
      pyReplace_single]
    congr 1
    try (funext c; by_cases h : c = 39 <;> simp [litChar, h])
  · simp only [if_true, qpOps, applyOps, List.foldl_cons, List.foldl_nil, pyReplace_single,
      List.flatMap_assoc]
    congr 1
    funext c
    by_cases h1 : c = 39
    · subst h1; simp [litChar]
    · by_cases h2 : c = 37
      · subst h2; simp [litChar]
      · simp [litChar, h1, h2]

theorem bs_flatMap (d : Bool) (s : Str) :
    (s.flatMap (litChar d false)).flatMap (fun c => if c = 92 then [92, 92] else [c])
      = s.flatMap (litChar d true) := by
  rw [List.flatMap_assoc]
  congr 1
  funext c
  by_cases h1 : c = 39
  · subst h1; simp [litChar]
  · by_cases h2 : c = 37
    · subst h2; cases d <;> simp [litChar]
    · by_cases h3 : c = 92
      · subst h3; simp [litChar]
      · simp [litChar, h1, h2, h3]

/-- shape of the rendered string literal -/
theorem renderString_eq (c : Cfg) (h : wfLit c = true) (s : Str) :
    renderString c s = c.pre ++ s.flatMap (litChar (dblLit c) (bsLit c)) ++ [39] := by
  simp only [wfLit, Bool.and_eq_true, Bool.or_eq_true, beq_iff_eq] at h
  obtain ⟨⟨⟨h1, h2⟩, h3⟩, h4⟩ := h
  have hstr : applyOps c.strOps s = s.flatMap (litChar (dblLit c) false) := by
    rcases h1 with h1 | h1
    · have : dblLit c = false := by simp [dblLit, h1, qOps, qpOps]
      rw [this, h1]; exact strOps_eq false s
    · have : dblLit c = true := by simp [dblLit, h1]
      rw [this, h1]; exact strOps_eq true s
  unfold renderString
  rw [hstr, h3]
  rcases h4 with h4 | h4
  · have : bsLit c = false := by simp [bsLit, h4, bsOps]
    rw [this, h4]
    simp [applyOps]
  · have : bsLit c = true := by simp [bsLit, h4]
    rw [this, h4]
    simp only [applyOps, bsOps, List.foldl_cons, List.foldl_nil, pyReplace_single,
      List.flatMap_append, bs_flatMap]
    rcases h2 with h2 | h2 <;> rw [h2] <;> simp

theorem unPercentAux_lit (bs : Bool) (s tail : Str) :
    unPercentAux (s.flatMap (litChar true bs) ++ tail) false
      = (unPercentAux tail false).map (s.flatMap (litChar false bs) ++ ·) := by
  induction s with
  | nil => simp
  | cons c t ih =>
    by_cases h1 : c = 39
    · subst h1
      simp [litChar, unPercentAux, ih, Option.map_map, Function.comp_def]
    · by_cases h2 : c = 37
      · subst h2
        simp [litChar, unPercentAux, ih, Option.map_map, Function.comp_def]
      · have hc : (c == 37) = false := by simpa using h2
        by_cases h3 : c = 92
        · subst h3
          cases bs <;> simp [litChar, unPercentAux, ih, Option.map_map, Function.comp_def]
        · simp [litChar, h1, h2, h3, unPercentAux, hc, ih, Option.map_map, Function.comp_def]

/-- the tokenizer decodes the rendered body back to the value -/
theorem lexStrAux_lit (mode : Nat) (bs : Bool) (hm : bs = (mode != 0))
    (hesc : decodeEsc mode 92 = [92]) (s rest : Str) (hr : ∀ c t, rest = c :: t → c ≠ 39) :
    lexStrAux mode (s.flatMap (litChar false bs) ++ 39 :: rest) 0 = some (s, rest) := by
  induction s with
  | nil =>
    cases rest with
    | nil => simp [lexStrAux]
    | cons d t =>
      have : (d == 39) = false := by simpa using hr d t rfl
      simp [lexStrAux, this]
  | cons c t ih =>
    by_cases h1 : c = 39
    · subst h1
      simp [litChar, lexStrAux, ih]
    · have hc39 : (c == 39) = false := by simpa using h1
      by_cases h3 : c = 92
      · subst h3
        cases bs with
        | false =>
          have hm0 : (mode != 0) = false := hm ▸ rfl
          simp [litChar, lexStrAux, hm0, ih]
        | true =>
          have hm1 : (mode != 0) = true := hm ▸ rfl
          simp [litChar, lexStrAux, hm1, ih, hesc]
      · have hc92 : (c == 92) = false := by simpa using h3
        simp [litChar, h1, h3, lexStrAux, hc39, hc92, ih]

/-! ## integers -/

theorem digitsVal_snoc (ds : Str) (x : Nat) : digitsVal (ds ++ [x]) = digitsVal ds * 10 + (x - 48) := by
  simp [digitsVal, List.foldl_append]

theorem natDigitsAux_spec : ∀ (f n : Nat) (acc : Str), n < 10 ^ f → 1 ≤ f →
    ∃ ds, natDigitsAux f n acc = ds ++ acc ∧ ds ≠ [] ∧ (∀ c ∈ ds, isDigit c = true) ∧
      digitsVal ds = n := by
  intro f
  induction f with
  | zero => intro n acc _ h; omega
  | succ k ih =>
    intro n acc hn _
    by_cases hlt : n < 10
    · refine ⟨[48 + n], by simp [natDigitsAux, hlt], by simp, ?_, ?_⟩
      · intro c hc
        simp only [List.mem_singleton] at hc
        subst hc
        simp only [isDigit, Bool.and_eq_true, decide_eq_true_eq]; omega
      · simp [digitsVal]
    · have hk : 1 ≤ k := by
        cases k with
        | zero => simp at hn; omega
        | succ _ => omega
      have hdiv : n / 10 < 10 ^ k := by
        rw [Nat.pow_succ] at hn
        exact Nat.div_lt_of_lt_mul (by omega)
      obtain ⟨ds, h1, _, h3, h4⟩ := ih (n / 10) ((48 + n % 10) :: acc) hdiv hk
      refine ⟨ds ++ [48 + n % 10], ?_, by simp, ?_, ?_⟩
      · simp [natDigitsAux, hlt, h1]
      · intro c hc
        simp only [List.mem_append, List.mem_singleton] at hc
        rcases hc with hc | hc
        · exact h3 c hc
        · subst hc
          have := Nat.mod_lt n (show 10 > 0 by omega)
          simp only [isDigit, Bool.and_eq_true, decide_eq_true_eq]; omega
      · rw [digitsVal_snoc, h4]
        have := Nat.div_add_mod n 10
        omega

theorem natStr_spec (n : Nat) :
    natStr n ≠ [] ∧ (∀ c ∈ natStr n, isDigit c = true) ∧ digitsVal (natStr n) = n := by
  have hlt : n < 10 ^ (n + 1) := by
    have h1 : n < 10 ^ n := Nat.lt_pow_self (by omega)
    have h2 : 10 ^ n ≤ 10 ^ (n + 1) := Nat.pow_le_pow_right (by omega) (by omega)
    omega
  obtain ⟨ds, h1, h2, h3, h4⟩ := natDigitsAux_spec (n + 1) n [] hlt (by omega)
  simp only [List.append_nil] at h1
  unfold natStr
  rw [h1]
  exact ⟨h2, h3, h4⟩

theorem takeWhile_digits (ds rest : Str) (hd : ∀ c ∈ ds, isDigit c = true)
    (hr : ∀ c t, rest = c :: t → isDigit c = false) :
    (ds ++ rest).takeWhile isDigit = ds ∧ (ds ++ rest).dropWhile isDigit = rest := by
  induction ds with
  | nil =>
    cases rest with
    | nil => simp
    | cons d t => simp [hr d t rfl]
  | cons c t ih =>
    have hc := hd c (by simp)
    have := ih (fun x hx => hd x (by simp [hx]))
    simp [hc, this.1, this.2]

/-! ## the positional regex pass -/

theorem matchPyformat_none (t : Str) (h : hasPctParen t = false) : matchPyformat t = none := by
  unfold matchPyformat
  split
  · simp [hasPctParen] at h
  · rfl

theorem hasPctParen_tail (c : Nat) (t : Str) (h : hasPctParen (c :: t) = false) :
    hasPctParen t = false := by
  unfold hasPctParen at h
  split at h
  · cases h
  · rename_i heq
    cases heq
    exact h
  · rename_i heq; cases heq


theorem hasPctParen_cons (c : Nat) (X : Str) :
    hasPctParen (c :: X) = ((c == 37 && X.head? == some 40) || hasPctParen X) := by
  rw [hasPctParen.eq_def]
  split
  · rename_i heq
    simp only [List.cons.injEq] at heq
    obtain ⟨h1, h2⟩ := heq
    subst h1; subst h2
    simp
  · rename_i hd tl hne heq
    simp only [List.cons.injEq] at heq
    obtain ⟨h1, h2⟩ := heq
    subst h1; subst h2
    by_cases hc : c = 37
    · subst hc
      cases X with
      | nil => simp
      | cons d Y =>
        have hd : d ≠ 40 := fun e => hne Y rfl (by rw [e])
        have : (d == 40) = false := by simpa using hd
        simp [this, hd]
    · have : (c == 37) = false := by simpa using hc
      simp [this]
  · rename_i heq; cases heq

theorem litChar_head (bs : Bool) (c : Nat) : ∃ t, litChar false bs c = c :: t ∧ (t = [] ∨ (t = [c] ∧ c ≠ 37)) := by
  unfold litChar
  by_cases h1 : c = 39
  · subst h1; exact ⟨[39], by simp, Or.inr ⟨rfl, by decide⟩⟩
  · by_cases h3 : (bs && c == 92) = true
    · simp only [Bool.and_eq_true, beq_iff_eq] at h3
      obtain ⟨_, h3⟩ := h3
      subst h3
      refine ⟨[92], ?_, Or.inr ⟨rfl, by decide⟩⟩
      simp_all
    · refine ⟨[], ?_, Or.inl rfl⟩
      simp [h1, h3]

theorem head_flatMap_lit (bs : Bool) (s tail : Str) :
    (s.flatMap (litChar false bs) ++ tail).head? = (s ++ tail).head? := by
  cases s with
  | nil => rfl
  | cons c t =>
    obtain ⟨u, hu, _⟩ := litChar_head bs c
    simp [hu]

/-- quote and backslash doubling neither creates nor destroys an occurrence of `%(` -/
theorem hasPctParen_lit (bs : Bool) (s tail : Str) :
    hasPctParen (s.flatMap (litChar false bs) ++ tail) = hasPctParen (s ++ tail) := by
  induction s with
  | nil => rfl
  | cons c t ih =>
    obtain ⟨u, hu, hcase⟩ := litChar_head bs c
    simp only [List.flatMap_cons, hu, List.cons_append]
    rcases hcase with h | ⟨h, hc⟩
    · subst h
      simp only [List.nil_append]
      rw [hasPctParen_cons, hasPctParen_cons, head_flatMap_lit, ih]
    · subst h
      have h37 : (c == 37) = false := by simpa using hc
      simp only [List.cons_append, List.nil_append]
      rw [hasPctParen_cons, hasPctParen_cons, hasPctParen_cons, ih]
      simp [h37]

/-! ## date / time bodies -/

/-- characters of ISO date/time text: digits, `-`, `:`, `.`, space -/
def isPlain (c : Nat) : Bool := isDigit c || c == 45 || c == 58 || c == 46 || c == 32

theorem plain_ne (c : Nat) (h : isPlain c = true) : c ≠ 39 ∧ c ≠ 92 ∧ c ≠ 37 := by
  simp only [isPlain, isDigit, Bool.or_eq_true, Bool.and_eq_true, decide_eq_true_eq, beq_iff_eq] at h
  omega

theorem plain_flatMap (d bs : Bool) (body : Str) (h : ∀ c ∈ body, isPlain c = true) :
    body.flatMap (litChar d bs) = body := by
  induction body with
  | nil => rfl
  | cons c t ih =>
    obtain ⟨h1, h2, h3⟩ := plain_ne c (h c (by simp))
    simp [litChar, h1, h2, h3, ih (fun x hx => h x (by simp [hx]))]

theorem pad_plain (w n : Nat) : ∀ c ∈ pad w n, isPlain c = true := by
  intro c hc
  simp only [pad, List.mem_append, List.mem_replicate] at hc
  rcases hc with ⟨_, hc⟩ | hc
  · subst hc; decide
  · simp [isPlain, (natStr_spec n).2.1 c hc]

theorem all_append {P : Nat → Prop} {a b : Str} (ha : ∀ c ∈ a, P c) (hb : ∀ c ∈ b, P c) :
    ∀ c ∈ a ++ b, P c := by
  intro c hc
  rcases List.mem_append.1 hc with h | h
  · exact ha c h
  · exact hb c h

theorem all_cons {P : Nat → Prop} {x : Nat} {b : Str} (hx : P x) (hb : ∀ c ∈ b, P c) :
    ∀ c ∈ x :: b, P c := by
  intro c hc
  rcases List.mem_cons.1 hc with h | h
  · exact h ▸ hx
  · exact hb c h

theorem isoDate_plain (y m d : Nat) : ∀ c ∈ isoDate y m d, isPlain c = true := by
  unfold isoDate
  simp only [List.append_assoc, List.cons_append]
  exact all_append (pad_plain 4 y) (all_cons (by decide) (all_append (pad_plain 2 m)
    (all_cons (by decide) (pad_plain 2 d))))

theorem isoTime_plain (h mi s us : Nat) : ∀ c ∈ isoTime h mi s us, isPlain c = true := by
  unfold isoTime
  simp only [List.append_assoc, List.cons_append]
  refine all_append (pad_plain 2 h) (all_cons (by decide) (all_append (pad_plain 2 mi)
    (all_cons (by decide) (all_append (pad_plain 2 s) ?_))))
  split
  · intro c hc; cases hc
  · exact all_cons (by decide) (pad_plain 6 us)

/-- a quoted plain body is untouched by the compiler's backslash pass and lexes to itself -/
theorem plain_literal (c : Cfg) (h : wfLit c = true) (mode : Nat) (hm : bsLit c = (mode != 0))
    (hesc : decodeEsc mode 92 = [92]) (body rest : Str) (hb : ∀ x ∈ body, isPlain x = true)
    (hr : ∀ x t, rest = x :: t → x ≠ 39) :
    applyOps c.outerOps (39 :: body ++ [39]) = 39 :: body ++ [39] ∧
    37 ∉ (39 :: body ++ [39]) ∧
    lexString mode false ((39 :: body ++ [39]) ++ rest) = some (body, rest) := by
  refine ⟨?_, ?_, ?_⟩
  · simp only [wfLit, Bool.and_eq_true, Bool.or_eq_true, beq_iff_eq] at h
    rcases h.2 with h4 | h4
    · simp [h4, applyOps]
    · simp only [h4, applyOps, bsOps, List.foldl_cons, List.foldl_nil, pyReplace_single]
      have : ∀ (t : Str), (92 ∉ t) → t.flatMap (fun c => if c = 92 then [92, 92] else [c]) = t := by
        intro t ht
        induction t with
        | nil => rfl
        | cons a u ih =>
          have ha : a ≠ 92 := fun e => ht (by simp [e])
          simp [ha, ih (fun e => ht (by simp [e]))]
      apply this
      intro hmem
      have hmem' : 92 ∈ body := by simpa using hmem
      exact (plain_ne 92 (hb 92 hmem')).2.1 rfl
  · intro hmem
    have hmem' : 37 ∈ body := by simpa using hmem
    exact (plain_ne 37 (hb 37 hmem')).2.2 rfl
  · have := lexStrAux_lit mode (bsLit c) hm hesc body rest hr
    rw [plain_flatMap false (bsLit c) body hb] at this
    simpa [lexString] using this

end SaVerif.Literal
