import SaVerif.Model.PoolFault
/-! Helper lemmas about M-POOL part 2 (fault machine).  Core Lean only. -/
namespace SaVerif.PoolFault

/-- connection of record r (none for records that do not exist) -/
def connOf (recs : List Rec) (r : Nat) : Option Nat := (recs.getD r blankRec).conn

theorem connOf_set (recs : List Rec) (r r' : Nat) (x : Rec) :
    connOf (recs.set r x) r' = if r = r' ∧ r < recs.length then x.conn else connOf recs r' := by
  unfold connOf
  by_cases h : r = r'
  · subst h
    by_cases h2 : r < recs.length
    · simp [h2]
    · simp [h2]
  · simp [h, List.getD_eq_getElem?_getD, List.getElem?_set_ne h]

/-- every record's connection is open in the ledger, and no two records share one -/
structure RInv (recs : List Rec) (conns : List Bool) : Prop where
  isOpen : ∀ r c, connOf recs r = some c → conns[c]? = some true
  inj : ∀ r r' c, connOf recs r = some c → connOf recs r' = some c → r = r'

theorem RInv.set_same {recs conns} (h : RInv recs conns) (r : Nat) (x : Rec)
    (hx : x.conn = connOf recs r) : RInv (recs.set r x) conns := by
  have key : ∀ r', connOf (recs.set r x) r' = connOf recs r' := by
    intro r'
    rw [connOf_set]
    split
    · rename_i hh; rw [hx, hh.1]
    · rfl
  constructor
  · intro r' c hc; rw [key] at hc; exact h.isOpen r' c hc
  · intro r1 r2 c h1 h2; rw [key] at h1 h2; exact h.inj r1 r2 c h1 h2

theorem RInv.set_none {recs conns} (h : RInv recs conns) (r : Nat) (x : Rec)
    (hx : x.conn = none) : RInv (recs.set r x) conns := by
  constructor
  · intro r' c hc
    rw [connOf_set] at hc
    split at hc
    · rw [hx] at hc; cases hc
    · exact h.isOpen r' c hc
  · intro r1 r2 c h1 h2
    rw [connOf_set] at h1 h2
    split at h1
    · rw [hx] at h1; cases h1
    · split at h2
      · rw [hx] at h2; cases h2
      · exact h.inj r1 r2 c h1 h2

theorem RInv.set_new {recs conns} (h : RInv recs conns) (r : Nat) (x : Rec)
    (hx : x.conn = some conns.length) : RInv (recs.set r x) (conns ++ [true]) := by
  have lt : ∀ r' c, connOf recs r' = some c → c < conns.length := by
    intro r' c hc
    have := h.isOpen r' c hc
    rcases Nat.lt_or_ge c conns.length with h1 | h1
    · exact h1
    · rw [List.getElem?_eq_none h1] at this; cases this
  constructor
  · intro r' c hc
    rw [connOf_set] at hc
    split at hc
    · rw [hx] at hc; cases hc; simp
    · have := lt r' c hc
      rw [List.getElem?_append_left this]
      exact h.isOpen r' c hc
  · intro r1 r2 c h1 h2
    rw [connOf_set] at h1 h2
    split at h1
    · rename_i e1
      split at h2
      · rename_i e2; rw [← e1.1, ← e2.1]
      · rw [hx] at h1; cases h1
        have := lt r2 _ h2; omega
    · split at h2
      · rw [hx] at h2; cases h2
        have := lt r1 _ h1; omega
      · exact h.inj r1 r2 c h1 h2

theorem RInv.set_close {recs conns} (h : RInv recs conns) (r c : Nat) (x : Rec)
    (hc : connOf recs r = some c) (hx : x.conn = none) :
    RInv (recs.set r x) (conns.set c false) := by
  constructor
  · intro r' c' hc'
    rw [connOf_set] at hc'
    split at hc'
    · rw [hx] at hc'; cases hc'
    · rename_i hne
      have hcc : c ≠ c' := by
        intro e; subst e
        have := h.inj r r' c hc hc'
        subst this
        have hlt : r < recs.length := by
          rcases Nat.lt_or_ge r recs.length with h1 | h1
          · exact h1
          · simp [connOf, List.getD_eq_getElem?_getD, List.getElem?_eq_none h1, blankRec] at hc
        exact hne ⟨rfl, hlt⟩
      rw [List.getElem?_set_ne hcc]
      exact h.isOpen r' c' hc'
  · intro r1 r2 c' h1 h2
    rw [connOf_set] at h1 h2
    split at h1
    · rw [hx] at h1; cases h1
    · split at h2
      · rw [hx] at h2; cases h2
      · exact h.inj r1 r2 c' h1 h2

theorem RInv.append_blank {recs conns} (h : RInv recs conns) : RInv (recs ++ [blankRec]) conns := by
  have key : ∀ r', connOf (recs ++ [blankRec]) r' = connOf recs r' := by
    intro r'
    unfold connOf
    rcases Nat.lt_trichotomy r' recs.length with h1 | h1 | h1
    · simp [List.getD_eq_getElem?_getD, List.getElem?_append_left h1]
    · subst h1; simp [List.getD_eq_getElem?_getD, blankRec]
    · have : recs.length + 1 ≤ r' := h1
      simp [List.getD_eq_getElem?_getD, this, Nat.le_of_lt h1]
  constructor
  · intro r' c hc; rw [key] at hc; exact h.isOpen r' c hc
  · intro r1 r2 c h1 h2; rw [key] at h1 h2; exact h.inj r1 r2 c h1 h2




/-! ### group R: records, ledger, clock -/

/-- timestamps stored anywhere are in the past of the logical clock -/
structure TInv (st : St) : Prop where
  inv : st.invTime < st.clock
  recs : ∀ x ∈ st.recs, x.start < st.clock ∧ x.softInv < st.clock

/-- every open connection of the ledger is some record's connection -/
def Owned (recs : List Rec) (conns : List Bool) : Prop :=
  ∀ c, conns[c]? = some true → ∃ r, connOf recs r = some c

structure GR (st : St) : Prop where
  r : RInv st.recs st.conns
  o : Owned st.recs st.conns
  t : TInv st

theorem GR.congr {st st' : St} (h : GR st) (h1 : st'.recs = st.recs) (h2 : st'.conns = st.conns)
    (h3 : st'.invTime = st.invTime) (h4 : st.clock ≤ st'.clock) : GR st' := by
  refine ⟨by rw [h1, h2]; exact h.r, by rw [h1, h2]; exact h.o, ⟨by have := h.t.inv; omega, ?_⟩⟩
  intro x hx
  rw [h1] at hx
  have := h.t.recs x hx
  omega

theorem mem_set_cases {recs : List Rec} {r : Nat} {x y : Rec} (h : y ∈ recs.set r x) :
    y = x ∨ y ∈ recs := by
  rcases List.mem_or_eq_of_mem_set h with h1 | h1
  · exact Or.inr h1
  · exact Or.inl h1

theorem connOf_some_lt {recs : List Rec} {r c : Nat} (h : connOf recs r = some c) : r < recs.length := by
  rcases Nat.lt_or_ge r recs.length with h1 | h1
  · exact h1
  · simp [connOf, List.getD_eq_getElem?_getD, List.getElem?_eq_none h1, blankRec] at h

theorem getRec_mem_or_blank (st : St) (r : Nat) : getRec st r ∈ st.recs ∨ getRec st r = blankRec := by
  unfold getRec
  rcases Nat.lt_or_ge r st.recs.length with h1 | h1
  · left; simp [List.getD_eq_getElem?_getD, List.getElem?_eq_getElem h1]
  · right; simp [List.getD_eq_getElem?_getD, List.getElem?_eq_none h1]

theorem TInv.getRec {st : St} (h : TInv st) (r : Nat) :
    (getRec st r).start < st.clock ∧ (getRec st r).softInv < st.clock := by
  rcases getRec_mem_or_blank st r with h1 | h1
  · exact h.recs _ h1
  · rw [h1]; have := h.inv; simp [blankRec]; omega

theorem getRec_conn (st : St) (r : Nat) : (getRec st r).conn = connOf st.recs r := rfl

theorem Owned.set_keep {recs conns} (h : Owned recs conns) (r : Nat) (x : Rec)
    (hx : x.conn = connOf recs r) : Owned (recs.set r x) conns := by
  intro c hc
  obtain ⟨r', hr'⟩ := h c hc
  refine ⟨r', ?_⟩
  rw [connOf_set]
  split
  · rename_i hh; rw [hx, hh.1]; exact hr'
  · exact hr'

/-- a record update that keeps the connection and stores only past timestamps -/
theorem GR.setRec_keep {st : St} (h : GR st) (r : Nat) (x : Rec)
    (hc : x.conn = connOf st.recs r) (ht : x.start < st.clock ∧ x.softInv < st.clock) :
    GR (setRec st r x) := by
  refine ⟨h.r.set_same r x hc, h.o.set_keep r x hc, ⟨h.t.inv, ?_⟩⟩
  intro y hy
  rcases mem_set_cases hy with e | e
  · subst e; exact ht
  · exact h.t.recs y e

theorem GR.tick {st : St} (h : GR st) : GR (tickSt st) :=
  h.congr rfl rfl rfl (by simp [tickSt])

theorem GR.dropFault {st : St} (h : GR st) : GR (dropFault st) :=
  h.congr rfl rfl rfl (Nat.le_refl _)

theorem connectPre_GR {st : St} (r : Nat) (h : GR st) (hn : connOf st.recs r = none) :
    GR (connectPre st r) := by
  unfold connectPre
  apply GR.setRec_keep h.tick
  · simp [tickSt, hn]
  · have := (h.t.getRec r).2
    simp [tickSt]; omega

theorem connectPre_connOf {st : St} (r : Nat) (hn : connOf st.recs r = none) (r' : Nat) :
    connOf (connectPre st r).recs r' = connOf st.recs r' := by
  simp only [connectPre, setRec, tickSt, connOf_set]
  split
  · rename_i hh; rw [← hh.1, hn]
  · rfl

theorem connectOk_GR {st : St} (r : Nat) (h : GR st) (hr : r < st.recs.length)
    (hn : connOf st.recs r = none) : GR (connectOk st r) := by
  unfold connectOk
  refine ⟨h.r.set_new r _ rfl, ?_, ⟨h.t.inv, ?_⟩⟩
  · intro c hc
    simp only [setRec] at hc ⊢
    by_cases hcl : c < st.conns.length
    · rw [List.getElem?_append_left hcl] at hc
      obtain ⟨r', hr'⟩ := h.o c hc
      refine ⟨r', ?_⟩
      rw [connOf_set]
      split
      · rename_i hh; rw [← hh.1, hn] at hr'; cases hr'
      · exact hr'
    · have : c = st.conns.length := by
        rcases Nat.lt_or_ge c (st.conns.length + 1) with h1 | h1
        · omega
        · rw [List.getElem?_eq_none (by simp; omega)] at hc; cases hc
      subst this
      exact ⟨r, by rw [connOf_set]; simp [hr]⟩
  · intro y hy
    simp only [setRec] at hy ⊢
    rcases mem_set_cases hy with e | e
    · subst e; exact h.t.getRec r
    · exact h.t.recs y e

theorem connect_GR {st : St} (r : Nat) (h : GR st) (hr : r < st.recs.length)
    (hn : connOf st.recs r = none) : GR (connect st r).1 := by
  have g1 := connectPre_GR r h hn
  have hn1 : connOf (connectPre st r).recs r = none := by rw [connectPre_connOf r hn]; exact hn
  have hr1 : r < (connectPre st r).recs.length := by simp [connectPre, setRec, tickSt, hr]
  unfold connect
  split
  · exact g1.dropFault
  · exact connectOk_GR r g1.dropFault hr1 hn1

theorem closeConn_GR {st : St} (r c : Nat) (h : GR st) (hc : connOf st.recs r = some c) :
    GR (closeConn st r c) := by
  unfold closeConn
  refine ⟨h.r.set_close r c _ hc rfl, ?_, ⟨h.t.inv, ?_⟩⟩
  · intro c' hc'
    simp only [setRec] at hc' ⊢
    have hne : c ≠ c' := by
      intro e; subst e
      have hlt : c < st.conns.length := by
        have := h.r.isOpen r c hc
        rcases Nat.lt_or_ge c st.conns.length with h1 | h1
        · exact h1
        · rw [List.getElem?_eq_none h1] at this; cases this
      simp [hlt] at hc'
    rw [List.getElem?_set_ne hne] at hc'
    obtain ⟨r', hr'⟩ := h.o c' hc'
    refine ⟨r', ?_⟩
    rw [connOf_set]
    split
    · rename_i hh
      rw [← hh.1, hc] at hr'
      cases hr'; exact absurd rfl hne
    · exact hr'
  · intro y hy
    simp only [setRec] at hy ⊢
    rcases mem_set_cases hy with e | e
    · subst e; exact h.t.getRec r
    · exact h.t.recs y e

theorem closeConn_connOf (st : St) (r c : Nat) (hr : r < st.recs.length) :
    connOf (closeConn st r c).recs r = none := by
  simp [closeConn, setRec, connOf_set, hr]

theorem closeRec_GR {st : St} (r : Nat) (h : GR st) : GR (closeRec st r) := by
  unfold closeRec
  split
  · exact h
  · rename_i c hc
    exact closeConn_GR r c h.dropFault hc

theorem closeRec_connOf (st : St) (r : Nat) : connOf (closeRec st r).recs r = none := by
  unfold closeRec
  split
  · rename_i hc; exact hc
  · rename_i c hc
    have : r < (dropFault st).recs.length := connOf_some_lt (c := c) hc
    exact closeConn_connOf _ r c this

theorem closeRec_length (st : St) (r : Nat) : (closeRec st r).recs.length = st.recs.length := by
  unfold closeRec
  split
  · rfl
  · simp [closeConn, setRec, dropFault]

theorem invalidate_GR {st : St} (r : Nat) (soft : Bool) (h : GR st) : GR (invalidate st r soft) := by
  unfold invalidate
  split
  · exact h
  · split
    · apply GR.setRec_keep h.tick
      · simp [tickSt, getRec_conn]
      · have := (h.t.getRec r).1
        simp [tickSt]; omega
    · exact closeRec_GR r h

theorem getConnection_GR {c : Cfg} {st : St} (r : Nat) (h : GR st) (hr : r < st.recs.length) :
    GR (getConnection c st r).1 := by
  unfold getConnection
  split
  · rename_i hc; exact connect_GR r h hr hc
  · split
    · split
      · exact connect_GR r (closeRec_GR r h.tick) (by rw [closeRec_length]; exact hr)
          (closeRec_connOf _ r)
      · exact h.tick
    · split
      · exact connect_GR r (closeRec_GR r h) (by rw [closeRec_length]; exact hr) (closeRec_connOf _ r)
      · exact h


/-! ### record-list length is preserved by everything except `newRec` -/

@[simp] theorem setRec_length (st : St) (r : Nat) (x : Rec) : (setRec st r x).recs.length = st.recs.length := by
  simp [setRec]
@[simp] theorem connectPre_length (st : St) (r : Nat) : (connectPre st r).recs.length = st.recs.length := by
  simp [connectPre, tickSt]
@[simp] theorem connectOk_length (st : St) (r : Nat) : (connectOk st r).recs.length = st.recs.length := by
  simp [connectOk]
@[simp] theorem connect_length (st : St) (r : Nat) : (connect st r).1.recs.length = st.recs.length := by
  unfold connect; split <;> simp [dropFault]
@[simp] theorem invalidate_length (st : St) (r : Nat) (b : Bool) :
    (invalidate st r b).recs.length = st.recs.length := by
  unfold invalidate
  split
  · rfl
  · split
    · simp [tickSt]
    · exact closeRec_length st r
@[simp] theorem getConnection_length (c : Cfg) (st : St) (r : Nat) :
    (getConnection c st r).1.recs.length = st.recs.length := by
  unfold getConnection
  split
  · simp
  · split
    · split
      · simp [closeRec_length, tickSt]
      · simp [tickSt]
    · split
      · simp [closeRec_length]
      · rfl
@[simp] theorem doReturn_length (c : Cfg) (st : St) (r : Nat) :
    (doReturn c st r).recs.length = st.recs.length := by
  unfold doReturn; split
  · simp [closeRec_length]
  · rfl
@[simp] theorem checkin_length (c : Cfg) (st : St) (r : Nat) (b : Bool) :
    (checkin c st r b).recs.length = st.recs.length := by
  unfold checkin; split
  · rfl
  · simp
@[simp] theorem checkinFailed_length (c : Cfg) (st : St) (r : Nat) (b : Bool) :
    (checkinFailed c st r b).recs.length = st.recs.length := by
  simp [checkinFailed]
@[simp] theorem bumpInvTime_length (st : St) (r : Nat) : (bumpInvTime st r).recs.length = st.recs.length := by
  unfold bumpInvTime; split <;> simp [tickSt]
@[simp] theorem afterDisconnect_length (st : St) (r ev : Nat) :
    (afterDisconnect st r ev).recs.length = st.recs.length := by
  unfold afterDisconnect; split <;> simp
@[simp] theorem pingSt_length (c : Cfg) (st : St) (b : Bool) : (pingSt c st b).recs.length = st.recs.length := by
  unfold pingSt; split <;> simp [dropFault]
@[simp] theorem evSt_length (c : Cfg) (st : St) (n : Nat) : (evSt c st n).recs.length = st.recs.length := by
  unfold evSt; split
  · rfl
  · split <;> simp [dropFault]
@[simp] theorem markInUse_length (st : St) (r : Nat) : (markInUse st r).recs.length = st.recs.length := by
  simp [markInUse]

theorem checkoutLoop_length (c : Cfg) (r : Nat) :
    ∀ (n : Nat) (st : St), (checkoutLoop c r n st).1.recs.length = st.recs.length := by
  intro n
  induction n with
  | zero => intro st; simp only [checkoutLoop]; split <;> simp
  | succ n ih =>
    intro st
    simp only [checkoutLoop]
    split
    · simp
    · split
      · simp
      · split
        · simp
        · split
          · rw [ih]; simp
          · simp

/-! ### group R through the composite operations -/

theorem GR.setField {st : St} (h : GR st) (r : Nat) (x : Rec)
    (hc : x.conn = (getRec st r).conn) (h1 : x.start = (getRec st r).start)
    (h2 : x.softInv = (getRec st r).softInv) : GR (setRec st r x) := by
  apply h.setRec_keep r x hc
  rw [h1, h2]; exact h.t.getRec r

theorem doReturn_GR {c : Cfg} {st : St} (r : Nat) (h : GR st) : GR (doReturn c st r) := by
  unfold doReturn
  split
  · exact (closeRec_GR r h).congr rfl rfl rfl (Nat.le_refl _)
  · exact h.congr rfl rfl rfl (Nat.le_refl _)

theorem checkin_GR {c : Cfg} {st : St} (r : Nat) (b : Bool) (h : GR st) : GR (checkin c st r b) := by
  unfold checkin
  split
  · exact h
  · exact doReturn_GR r (h.setField r _ rfl rfl rfl)

theorem checkinFailed_GR {c : Cfg} {st : St} (r : Nat) (b : Bool) (h : GR st) :
    GR (checkinFailed c st r b) := checkin_GR r b (invalidate_GR r false h)

theorem connOf_append_blank (recs : List Rec) (r : Nat) :
    connOf (recs ++ [blankRec]) r = connOf recs r := by
  unfold connOf
  rcases Nat.lt_trichotomy r recs.length with h1 | h1 | h1
  · simp [List.getD_eq_getElem?_getD, List.getElem?_append_left h1]
  · subst h1; simp [List.getD_eq_getElem?_getD, blankRec]
  · have : recs.length + 1 ≤ r := h1
    simp [List.getD_eq_getElem?_getD, this, Nat.le_of_lt h1]

theorem newRec_GR {st : St} (h : GR st) : GR (newRec st) := by
  unfold newRec
  refine ⟨h.r.append_blank, ?_, ⟨h.t.inv, ?_⟩⟩
  · intro c hc
    obtain ⟨r, hr⟩ := h.o c hc
    exact ⟨r, by simp only []; rw [connOf_append_blank]; exact hr⟩
  · intro y hy
    simp only [List.mem_append, List.mem_singleton] at hy
    rcases hy with e | e
    · exact h.t.recs y e
    · subst e; have := h.t.inv; simp [blankRec]; omega

theorem newRec_connOf_new (st : St) : connOf (newRec st).recs st.recs.length = none := by
  simp [newRec, connOf, List.getD_eq_getElem?_getD, blankRec]

/-- pool-level validity of indices: idle records and live fairies point at existing records -/
structure QV (st : St) : Prop where
  q : ∀ r ∈ st.queue, r < st.recs.length
  f : ∀ (h : Nat) (x : Fairy), st.fairies[h]? = some (some x) → x.rid < st.recs.length

theorem takeOne_mem {lifo : Bool} {q : List Nat} {r : Nat} {rest : List Nat}
    (h : takeOne lifo q = some (r, rest)) : r ∈ q ∧ (∀ x ∈ rest, x ∈ q) := by
  unfold takeOne at h
  split at h
  · split at h
    · rename_i r' hl
      cases h
      obtain ⟨ys, hys⟩ := List.getLast?_eq_some_iff.1 hl
      subst hys
      simp
      intro x hx; exact Or.inl hx
    · cases h
  · split at h
    · cases h; simp
      intro x hx; exact Or.inr hx
    · cases h

theorem doGet_GR {c : Cfg} {st : St} (h : GR st) : GR (doGet c st).1 := by
  unfold doGet
  split
  · exact h.congr rfl rfl rfl (Nat.le_refl _)
  · split
    · exact h
    · have g := connect_GR st.recs.length (newRec_GR h) (by simp [newRec]) (newRec_connOf_new st)
      split
      · exact g
      · exact g.congr rfl rfl rfl (Nat.le_refl _)

theorem bumpInvTime_GR {st : St} (r : Nat) (h : GR st) : GR (bumpInvTime st r) := by
  unfold bumpInvTime
  split
  · refine ⟨h.r, h.o, ⟨by simp [tickSt], ?_⟩⟩
    intro y hy
    have := h.t.recs y hy
    simp [tickSt] at hy ⊢; omega
  · exact h

theorem afterDisconnect_GR {st : St} (r ev : Nat) (h : GR st) : GR (afterDisconnect st r ev) := by
  unfold afterDisconnect
  split
  · exact bumpInvTime_GR r (invalidate_GR r false h)
  · exact invalidate_GR r false h

theorem pingSt_GR {c : Cfg} {st : St} (b : Bool) (h : GR st) : GR (pingSt c st b) := by
  unfold pingSt; split
  · exact h.dropFault
  · exact h

theorem evSt_GR {c : Cfg} {st : St} (n : Nat) (h : GR st) : GR (evSt c st n) := by
  unfold evSt; split
  · exact h
  · split
    · exact h.dropFault
    · exact h

theorem checkoutLoop_GR (c : Cfg) (r : Nat) :
    ∀ (n : Nat) (st : St), GR st → r < st.recs.length → GR (checkoutLoop c r n st).1 := by
  intro n
  induction n with
  | zero =>
    intro st h _
    simp only [checkoutLoop]
    split
    · exact checkin_GR r true (invalidate_GR r false h)
    · exact invalidate_GR r false h
  | succ n ih =>
    intro st h hr
    have g1 : GR (pingSt c (setRec st r { getRec st r with fresh := false }) (getRec st r).fresh) :=
      pingSt_GR _ (h.setField r _ rfl rfl rfl)
    simp only [checkoutLoop]
    split
    · exact checkinFailed_GR r true g1
    · have g2 := evSt_GR (c := c) (pingRes c (setRec st r { getRec st r with fresh := false }) (getRec st r).fresh) g1
      split
      · exact g2
      · split
        · exact checkinFailed_GR r true g2
        · split
          · apply ih
            · apply getConnection_GR
              · exact afterDisconnect_GR r _ g2
              · simp [hr]
            · simp [hr]
          · apply checkinFailed_GR
            apply getConnection_GR
            · exact afterDisconnect_GR r _ g2
            · simp [hr]

theorem markInUse_GR {st : St} (r : Nat) (h : GR st) : GR (markInUse st r) :=
  h.setField r _ rfl rfl rfl

theorem checkoutFairy_GR {c : Cfg} {st : St} (r : Nat) (h : GR st) (hr : r < st.recs.length) :
    GR (checkoutFairy c st r).1 := by
  unfold checkoutFairy
  split
  · exact markInUse_GR r h
  · exact checkoutLoop_GR c r 2 _ (markInUse_GR r h) (by simp [hr])

theorem finishCheckout_GR {st : St} (r : Nat) (res : LoopRes) (h : GR st) :
    GR (finishCheckout st r res).1 := by
  unfold finishCheckout
  split
  · exact h.congr rfl rfl rfl (Nat.le_refl _)
  all_goals exact h

theorem doGet_valid {c : Cfg} {st : St} {r : Nat} (hq : QV st) (h : (doGet c st).2 = GetRes.ok r) :
    r < (doGet c st).1.recs.length := by
  cases hto : takeOne c.lifo st.queue with
  | some p =>
    obtain ⟨r', rest⟩ := p
    simp only [doGet, hto] at h ⊢
    cases h
    exact hq.q r (takeOne_mem hto).1
  | none =>
    simp only [doGet, hto] at h ⊢
    split at h
    · cases h
    · rename_i hlim
      simp only [hlim, if_false]
      split at h
      · rename_i hc
        cases h
        rw [if_pos hc]
        simp [newRec]
      · cases h

theorem checkout_GR {c : Cfg} {st : St} (h : GR st) (hq : QV st) : GR (checkout c st).1 := by
  unfold checkout
  have g := doGet_GR (c := c) h
  split
  · exact g
  · exact g
  · rename_i r hr
    have hv := doGet_valid hq hr
    have g2 := getConnection_GR (c := c) r g hv
    split
    · exact finishCheckout_GR r _ (checkoutFairy_GR r g2 (by simp [hv]))
    · exact checkinFailed_GR r false g2

theorem resetStep_GR {c : Cfg} {st : St} (r : Nat) (ca : Option Nat) (h : GR st) :
    GR (resetStep c st r ca) := by
  unfold resetStep
  split
  · exact h
  · split
    · exact h
    · split
      · exact invalidate_GR r false h.dropFault
      · exact h.dropFault

theorem finalize_GR {c : Cfg} {st : St} (r : Nat) (ca : Option Nat) (h : GR st) :
    GR (finalize c st r ca) := by
  unfold finalize
  split
  · exact checkin_GR r true (resetStep_GR r ca h)
  · exact resetStep_GR r ca h

theorem release_GR {st : St} (k : Nat) (h : GR st) : GR (release st k) :=
  h.congr rfl rfl rfl (Nat.le_refl _)

theorem hardInvalidate_GR {c : Cfg} {st : St} (k : Nat) (f : Fairy) (h : GR st) :
    GR (hardInvalidate c st k f) := by
  unfold hardInvalidate
  split
  · exact h
  · exact release_GR k (finalize_GR f.rid none (invalidate_GR f.rid false h))

theorem exec_GR {c : Cfg} {st : St} (op : Op) (h : GR st) (hq : QV st) : GR (exec c st op).1 := by
  cases op with
  | co => simp only [exec]; exact checkout_GR h hq
  | wait n => simp only [exec]; exact h.congr rfl rfl rfl (by simp)
  | ci k =>
    simp only [exec]; split
    · exact h
    · exact release_GR k (finalize_GR _ _ h)
  | drop k =>
    simp only [exec]; split
    · exact h
    · exact release_GR k (finalize_GR _ _ h)
  | inv k =>
    simp only [exec]; split
    · exact h
    · exact hardInvalidate_GR k _ h
  | soft k =>
    simp only [exec]; split
    · exact h
    · split
      · exact h
      · exact invalidate_GR _ true h
  | pinv k =>
    simp only [exec]; split
    · exact h
    · exact hardInvalidate_GR k _ (bumpInvTime_GR _ h)

end SaVerif.PoolFault
