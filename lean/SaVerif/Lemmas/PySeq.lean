import SaVerif.Model.PySeq
/-! Lemmas about M-PYSEQ lists: event accounting, the slice-assignment loops. -/
namespace SaVerif.PySeq

def apps : List Event → List Item
  | [] => []
  | .app x :: es => x :: apps es
  | .rem _ :: es => apps es

def rems : List Event → List Item
  | [] => []
  | .rem x :: es => x :: rems es
  | .app _ :: es => rems es

theorem apps_append (a b : List Event) : apps (a ++ b) = apps a ++ apps b := by
  induction a with
  | nil => rfl
  | cons e es ih => cases e <;> simp [apps, ih]

theorem rems_append (a b : List Event) : rems (a ++ b) = rems a ++ rems b := by
  induction a with
  | nil => rfl
  | cons e es ih => cases e <;> simp [rems, ih]

theorem apps_map_app (xs : List Item) : apps (xs.map .app) = xs := by
  induction xs with
  | nil => rfl
  | cons x xs ih => simp [apps, ih]

theorem rems_map_app (xs : List Item) : rems (xs.map .app) = [] := by
  induction xs with
  | nil => rfl
  | cons x xs ih => simp [rems, ih]

theorem rems_map_rem (xs : List Item) : rems (xs.map .rem) = xs := by
  induction xs with
  | nil => rfl
  | cons x xs ih => simp [rems, ih]

theorem apps_map_rem (xs : List Item) : apps (xs.map .rem) = [] := by
  induction xs with
  | nil => rfl
  | cons x xs ih => simp [apps, ih]

/-- **event accounting**: old contents plus everything appended is, as a multiset, the new
    contents plus everything removed -/
def Accounts (l : List Item) (ev : List Event) (l' : List Item) : Prop :=
  (l ++ apps ev).Perm (l' ++ rems ev)

theorem acc_refl (l : List Item) : Accounts l [] l := by
  unfold Accounts; simp [apps, rems]

theorem acc_trans {a b c : List Item} {e1 e2 : List Event} (h1 : Accounts a e1 b) (h2 : Accounts b e2 c) :
    Accounts a (e1 ++ e2) c := by
  unfold Accounts at *
  rw [apps_append, rems_append]
  -- a ++ A1 ++ A2 ~ b ++ R1 ++ A2 ~ (b ++ A2) ++ R1 ~ (c ++ R2) ++ R1
  have s1 : (a ++ (apps e1 ++ apps e2)).Perm ((b ++ rems e1) ++ apps e2) := by
    rw [← List.append_assoc]
    exact h1.append_right _
  have s2 : ((b ++ rems e1) ++ apps e2).Perm ((b ++ apps e2) ++ rems e1) := by
    rw [List.append_assoc, List.append_assoc]
    exact List.Perm.append_left _ List.perm_append_comm
  have s3 : ((b ++ apps e2) ++ rems e1).Perm ((c ++ rems e2) ++ rems e1) := h2.append_right _
  have s4 : ((c ++ rems e2) ++ rems e1).Perm (c ++ (rems e1 ++ rems e2)) := by
    rw [List.append_assoc]
    exact List.Perm.append_left _ List.perm_append_comm
  exact ((s1.trans s2).trans s3).trans s4

/-! ### indices -/

theorem normIndex_some {len : Nat} {i : Int} {k : Nat} (h : normIndex len i = some k) : k < len := by
  unfold normIndex at h
  by_cases h0 : (if i < 0 then i + (len : Int) else i) < 0
  · simp [h0] at h
  · by_cases h1 : (if i < 0 then i + (len : Int) else i).toNat < len
    · simp [h0, h1] at h; omega
    · simp [h0, h1] at h

theorem insertPos_le (n : Nat) (pos : Int) : insertPos n pos ≤ n := by
  unfold insertPos
  split
  · split
    · omega
    · omega
  · split
    · omega
    · omega

theorem insertPos_of_le {n : Nat} {k : Nat} (h : k ≤ n) : insertPos n (k : Int) = k := by
  unfold insertPos
  have h0 : ¬ ((k : Int) < 0) := by omega
  rw [if_neg h0]
  split
  · omega
  · omega

/-! ### single-position operations -/

theorem split_at {l : List Item} {k : Nat} {x : Item} (h : l[k]? = some x) :
    l = l.take k ++ x :: l.drop (k + 1) ∧ k < l.length := by
  obtain ⟨hk, hx⟩ := List.getElem?_eq_some_iff.1 h
  refine ⟨?_, hk⟩
  have := List.drop_eq_getElem_cons hk
  rw [hx] at this
  rw [← this, List.take_append_drop]

theorem acc_set {l : List Item} {k : Nat} {old x : Item} (h : l[k]? = some old) :
    Accounts l [.rem old, .app x] (l.set k x) := by
  obtain ⟨hl, hk⟩ := split_at h
  unfold Accounts
  simp only [apps, rems]
  rw [List.set_eq_take_append_cons_drop, if_pos hk]
  conv => lhs; rw [hl]
  -- (take ++ old :: drop) ++ [x]  ~  (take ++ x :: drop) ++ [old]
  have p1 : ((l.take k ++ old :: l.drop (k + 1)) ++ [x]).Perm (old :: x :: (l.take k ++ l.drop (k + 1))) := by
    have a1 : (l.take k ++ old :: l.drop (k + 1)).Perm (old :: (l.take k ++ l.drop (k + 1))) :=
      List.perm_middle
    have a2 := a1.append_right [x]
    refine a2.trans ?_
    simp only [List.cons_append]
    refine List.Perm.cons old ?_
    exact (List.perm_append_comm).trans (by simp)
  have p2 : ((l.take k ++ x :: l.drop (k + 1)) ++ [old]).Perm (old :: x :: (l.take k ++ l.drop (k + 1))) := by
    have a1 : (l.take k ++ x :: l.drop (k + 1)).Perm (x :: (l.take k ++ l.drop (k + 1))) :=
      List.perm_middle
    have a2 := a1.append_right [old]
    refine a2.trans ?_
    exact (List.perm_append_comm).trans (by simp)
  exact p1.trans p2.symm

theorem acc_eraseIdx {l : List Item} {k : Nat} {old : Item} (h : l[k]? = some old) :
    Accounts l [.rem old] (l.eraseIdx k) := by
  obtain ⟨hl, _⟩ := split_at h
  unfold Accounts
  simp only [apps, rems, List.append_nil]
  rw [List.eraseIdx_eq_take_drop_succ]
  conv => lhs; rw [hl]
  exact (List.perm_middle).trans ((List.perm_append_comm (l₁ := [old])).trans (by simp))

theorem acc_insert (l : List Item) (pos : Int) (x : Item) : Accounts l [.app x] (pInsert l pos x) := by
  unfold Accounts pInsert
  simp only [apps, rems, List.append_nil]
  have := List.take_append_drop (insertPos l.length pos) l
  conv => lhs; rw [← this]
  exact (List.perm_append_comm (l₂ := [x])).trans (by
    simp only [List.singleton_append]
    exact (List.perm_middle).symm)

theorem acc_erase {l : List Item} {x : Item} (h : x ∈ l) : Accounts l [.rem x] (l.erase x) := by
  unfold Accounts
  simp only [apps, rems, List.append_nil]
  exact (List.perm_cons_erase h).trans ((List.perm_append_comm (l₁ := [x])).trans (by simp))

/-! ### the step-1 slice assignment loops -/

/-- `del self[start]` executed `n` times removes `l[start : start+n]` -/
theorem delLoop_eq (n : Nat) : ∀ (start : Nat) (l : List Item) (ev : List Event),
    start + n ≤ l.length →
    delLoop n start l ev
      = (l.take start ++ l.drop (start + n), ev ++ ((l.drop start).take n).map .rem) := by
  induction n with
  | zero =>
    intro start l ev _
    simp [delLoop]
  | succ n ih =>
    intro start l ev h
    have hlt : start < l.length := by omega
    have hget : l[start]? = some l[start] := List.getElem?_eq_getElem hlt
    simp only [delLoop]
    rw [if_pos hlt, hget]
    simp only
    have hlen : start + n ≤ (l.eraseIdx start).length := by
      rw [List.length_eraseIdx]; simp [hlt]; omega
    rw [ih start (l.eraseIdx start) _ hlen]
    have he : l.eraseIdx start = l.take start ++ l.drop (start + 1) := List.eraseIdx_eq_take_drop_succ l start
    have ht : (l.eraseIdx start).take start = l.take start := by
      rw [he, List.take_append_of_le_length (by rw [List.length_take]; omega)]
      rw [List.take_take]; simp
    have hd : ∀ m, (l.eraseIdx start).drop (start + m) = l.drop (start + 1 + m) := by
      intro m
      rw [he, List.drop_append, List.length_take]
      have h1 : min start l.length = start := by omega
      rw [h1]
      have h2 : (l.take start).drop (start + m) = [] := by
        apply List.drop_eq_nil_of_le; rw [List.length_take]; omega
      rw [h2, List.nil_append, List.drop_drop]
      congr 1; omega
    have hd0 := hd 0
    simp only [Nat.add_zero] at hd0
    rw [ht, hd n, hd0]
    refine Prod.ext ?_ ?_
    · simp only; congr 2; omega
    · simp only
      rw [List.append_assoc]
      congr 1
      have : l.drop start = l[start] :: l.drop (start + 1) := List.drop_eq_getElem_cons hlt
      rw [this]
      simp only [List.take_succ_cons, List.map_cons, List.singleton_append]

/-- `self.insert(i + start, item)` for each item inserts the whole value at `start` -/
theorem insLoop_eq (xs : List Item) : ∀ (pre done post : List Item) (ev : List Event),
    insLoop done.length (pre.length : Int) xs (pre ++ done ++ post) ev
      = (pre ++ done ++ xs ++ post, ev ++ xs.map .app) := by
  induction xs with
  | nil => intro pre done post ev; simp [insLoop]
  | cons x xs ih =>
    intro pre done post ev
    simp only [insLoop]
    have hpos : insertPos (pre ++ done ++ post).length ((pre.length : Int) + (done.length : Int))
        = pre.length + done.length := by
      have : ((pre.length : Int) + (done.length : Int)) = ((pre.length + done.length : Nat) : Int) := by
        simp
      rw [this]
      apply insertPos_of_le
      simp only [List.length_append]; omega
    have hins : pInsert (pre ++ done ++ post) ((pre.length : Int) + (done.length : Int)) x
        = pre ++ (done ++ [x]) ++ post := by
      unfold pInsert
      simp only
      rw [hpos]
      have h1 : (pre ++ done ++ post).take (pre.length + done.length) = pre ++ done := by
        have : pre.length + done.length = (pre ++ done).length := by simp
        rw [this, List.take_left]
      have h2 : (pre ++ done ++ post).drop (pre.length + done.length) = post := by
        have : pre.length + done.length = (pre ++ done).length := by simp
        rw [this, List.drop_left]
      rw [h1, h2]
      simp
    rw [hins]
    have := ih pre (done ++ [x]) post (ev ++ [.app x])
    simp only [List.length_append, List.length_singleton] at this
    rw [this]
    simp

theorem insLoop_zero (xs pre post : List Item) (ev : List Event) :
    insLoop 0 (pre.length : Int) xs (pre ++ post) ev = (pre ++ xs ++ post, ev ++ xs.map .app) := by
  have := insLoop_eq xs pre [] post ev
  simpa using this

end SaVerif.PySeq
