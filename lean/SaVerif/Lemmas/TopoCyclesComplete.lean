import SaVerif.Lemmas.TopoCycles
/-!
Completeness of the `find_cycles` model: every node on a cycle is reported.

The DFS started from `start` ends with an empty stack (the fuel
`2 * nodes.length + 2` is enough: `2*|todo| + |stack|` strictly decreases).
Invariant `CInv`: every *finished* node `f` (in `nodes`, neither in `todo` nor on
the stack) has all its children outside `todo`, and if `start` is one of its
children then `start` was reported.  At the end `start` itself is finished, so
walking along a cycle through `start` never meets a `todo` node, every node of
the cycle is finished, and the last edge of the cycle gives `start ∈ output`.
-/
namespace SaVerif.Topo

theorem mem_parentNodes {ts : List Edge} {p : Node} :
    p ∈ parentNodes ts ↔ ∃ c, (p, c) ∈ ts := by
  unfold parentNodes
  simp only [List.mem_eraseDups, List.mem_map]
  constructor
  · rintro ⟨⟨a, b⟩, h1, h2⟩
    simp only at h2
    subst h2
    exact ⟨b, h1⟩
  · rintro ⟨c, h⟩
    exact ⟨(p, c), h, rfl⟩

theorem mem_cycSlice_self :
    ∀ (stack : List Node) (c : Node), c ∈ stack → c ∈ cycSlice stack c := by
  intro stack
  induction stack with
  | nil => intro c h; cases h
  | cons x xs ih =>
    intro c h
    unfold cycSlice
    split
    · rename_i hxc
      simp only [beq_iff_eq] at hxc
      simp [hxc]
    · rename_i hxc
      simp only [beq_iff_eq] at hxc
      rcases List.mem_cons.1 h with h | h
      · exact absurd h.symm hxc
      · exact List.mem_cons_of_mem _ (ih c h)

theorem cycSlice_subset :
    ∀ (stack : List Node) (c y : Node), y ∈ cycSlice stack c → y ∈ stack := by
  intro stack
  induction stack with
  | nil => intro c y hy; simp [cycSlice] at hy
  | cons x xs ih =>
    intro c y hy
    unfold cycSlice at hy
    split at hy
    · simp only [List.mem_singleton] at hy; subst hy; simp
    · rcases List.mem_cons.1 hy with rfl | hy
      · simp
      · exact List.mem_cons_of_mem _ (ih c y hy)

/-- the `if node in stack: ...` statement of the inner loop -/
def mark (c : Node) (st : DfsState) : DfsState :=
  if st.stack.contains c then
    { st with todo := st.todo.filter (fun t => !(cycSlice st.stack c).contains t),
              output := st.output ++ cycSlice st.stack c }
  else st

theorem scanChildren_cons (c : Node) (cs : List Node) (st : DfsState) :
    scanChildren (c :: cs) st =
      if (mark c st).todo.contains c then
        ({ mark c st with stack := c :: (mark c st).stack,
                          todo := (mark c st).todo.filter (· != c) }, true)
      else scanChildren cs (mark c st) := rfl

theorem mark_stack (c : Node) (st : DfsState) : (mark c st).stack = st.stack := by
  unfold mark; split <;> rfl

theorem mark_todo_sub (c : Node) (st : DfsState) : ∀ t ∈ (mark c st).todo, t ∈ st.todo := by
  unfold mark
  split
  · intro t ht; exact (List.mem_filter.1 ht).1
  · intro t ht; exact ht

theorem mark_todo_len (c : Node) (st : DfsState) : (mark c st).todo.length ≤ st.todo.length := by
  unfold mark
  split
  · exact List.length_filter_le _ _
  · exact Nat.le_refl _

theorem mark_output_mono (c : Node) (st : DfsState) :
    ∀ y ∈ st.output, y ∈ (mark c st).output := by
  unfold mark
  split
  · intro y hy; exact List.mem_append_left _ hy
  · intro y hy; exact hy

theorem mark_output_self (c : Node) (st : DfsState) (h : c ∈ st.stack) :
    c ∈ (mark c st).output := by
  unfold mark
  rw [if_pos (by simpa using h)]
  exact List.mem_append_right _ (mem_cycSlice_self _ _ h)

/-! ### output only grows -/

theorem scanChildren_output_mono :
    ∀ (cs : List Node) (st : DfsState), ∀ y ∈ st.output, y ∈ (scanChildren cs st).1.output := by
  intro cs
  induction cs with
  | nil => intro st y hy; exact hy
  | cons c cs ih =>
    intro st y hy
    rw [scanChildren_cons]
    split
    · exact mark_output_mono c st y hy
    · exact ih _ y (mark_output_mono c st y hy)

theorem dfsLoop_output_mono (ts : List Edge) :
    ∀ (fuel : Nat) (st : DfsState), ∀ y ∈ st.output, y ∈ (dfsLoop ts fuel st).output := by
  intro fuel
  induction fuel with
  | zero => intro st y hy; exact hy
  | succ n ih =>
    intro st y hy
    simp only [dfsLoop]
    split
    · exact hy
    · rename_i top rest hst
      have hm := scanChildren_output_mono (childrenOf ts top) st y hy
      generalize scanChildren (childrenOf ts top) st = res at hm
      obtain ⟨st', pushed⟩ := res
      simp only at hm ⊢
      split
      · exact ih _ y hm
      · exact ih _ y hm

theorem findCyclesFrom_mono (ts : List Edge) (nodes : List Node) (n : Node) (out : List Node) :
    ∀ y ∈ out, y ∈ findCyclesFrom ts nodes n out := by
  intro y hy
  unfold findCyclesFrom
  exact dfsLoop_output_mono ts _ _ y hy

theorem foldl_findCyclesFrom_mono (ts : List Edge) (nodes : List Node) :
    ∀ (l : List Node) (out : List Node), ∀ y ∈ out,
      y ∈ l.foldl (fun out n => findCyclesFrom ts nodes n out) out := by
  intro l
  induction l with
  | nil => intro out y hy; exact hy
  | cons a l ih =>
    intro out y hy
    simp only [List.foldl_cons]
    exact ih _ y (findCyclesFrom_mono ts nodes a out y hy)

/-! ### the completeness invariant -/

structure CInv (ts : List Edge) (nodes : List Node) (start : Node) (st : DfsState) : Prop where
  last : st.stack = [] ∨ st.stack.getLast? = some start
  start_todo : start ∉ st.todo
  fin : ∀ f ∈ nodes, f ∉ st.todo → f ∉ st.stack → ∀ c, (f, c) ∈ ts →
    c ∉ st.todo ∧ (c = start → start ∈ st.output)

theorem CInv.mark {ts : List Edge} {nodes : List Node} {start : Node} {st : DfsState}
    (c : Node) (h : CInv ts nodes start st) : CInv ts nodes start (mark c st) := by
  refine ⟨?_, ?_, ?_⟩
  · rw [mark_stack]; exact h.last
  · intro hm; exact h.start_todo (mark_todo_sub c st _ hm)
  · intro f hf hft hfs d hfd
    rw [mark_stack] at hfs
    by_cases hft' : f ∈ st.todo
    · -- `f` was removed from `todo` by `mark`: then it is in the slice, hence on the stack
      exfalso
      unfold SaVerif.Topo.mark at hft
      split at hft
      · have : ¬ (!(cycSlice st.stack c).contains f) = true := by
          intro hb; exact hft (List.mem_filter.2 ⟨hft', hb⟩)
        simp only [Bool.not_eq_true', Bool.not_eq_false, List.contains_iff_mem] at this
        exact hfs (cycSlice_subset _ _ _ this)
      · exact hft hft'
    · obtain ⟨h1, h2⟩ := h.fin f hf hft' hfs d hfd
      exact ⟨fun hm => h1 (mark_todo_sub c st _ hm), fun e => mark_output_mono c st _ (h2 e)⟩

/-- specification of one run of the inner `for` loop -/
theorem scanChildren_spec {ts : List Edge} {nodes : List Node} {start : Node} :
    ∀ (cs : List Node) (st : DfsState), st.stack ≠ [] → CInv ts nodes start st →
      CInv ts nodes start (scanChildren cs st).1 ∧
      ((scanChildren cs st).2 = true →
        2 * (scanChildren cs st).1.todo.length + (scanChildren cs st).1.stack.length
          < 2 * st.todo.length + st.stack.length) ∧
      ((scanChildren cs st).2 = false →
        (scanChildren cs st).1.stack = st.stack ∧
        (scanChildren cs st).1.todo.length ≤ st.todo.length ∧
        ∀ c ∈ cs, c ∉ (scanChildren cs st).1.todo ∧
          (c = start → start ∈ (scanChildren cs st).1.output)) ∧
      (∀ t ∈ (scanChildren cs st).1.todo, t ∈ st.todo) := by
  intro cs
  induction cs with
  | nil =>
    intro st _ hinv
    refine ⟨hinv, fun h => (by cases h), fun _ => ⟨rfl, Nat.le_refl _, ?_⟩, fun t ht => ht⟩
    intro c hc; cases hc
  | cons c cs ih =>
    intro st hne hinv
    have hinv1 : CInv ts nodes start (mark c st) := hinv.mark c
    rw [scanChildren_cons]
    split
    · rename_i hct
      have hct' : c ∈ (mark c st).todo := by simpa using hct
      refine ⟨⟨?_, ?_, ?_⟩, fun _ => ?_, fun h => (by cases h), ?_⟩
      · -- last
        right
        show (c :: (mark c st).stack).getLast? = some start
        rw [mark_stack]
        cases hs : st.stack with
        | nil => exact absurd hs hne
        | cons a r =>
          rw [List.getLast?_cons_cons]
          rcases hinv.last with h | h
          · exact absurd h hne
          · rw [← hs]; exact h
      · show start ∉ (mark c st).todo.filter (· != c)
        intro hm
        exact hinv1.start_todo (List.mem_filter.1 hm).1
      · intro f hf hft hfs d hfd
        have hft : f ∉ (mark c st).todo.filter (· != c) := hft
        have hfs : f ∉ c :: (mark c st).stack := hfs
        have hfc : f ≠ c := fun e => hfs (by simp [e])
        have hfs' : f ∉ (mark c st).stack := fun hm => hfs (List.mem_cons_of_mem _ hm)
        have hft' : f ∉ (mark c st).todo := by
          intro hm
          exact hft (List.mem_filter.2 ⟨hm, by simpa using hfc⟩)
        obtain ⟨h1, h2⟩ := hinv1.fin f hf hft' hfs' d hfd
        refine ⟨?_, h2⟩
        show d ∉ (mark c st).todo.filter (· != c)
        intro hm
        exact h1 (List.mem_filter.1 hm).1
      · show 2 * ((mark c st).todo.filter (· != c)).length + (c :: (mark c st).stack).length
          < 2 * st.todo.length + st.stack.length
        have hlt : ((mark c st).todo.filter (· != c)).length < (mark c st).todo.length :=
          List.length_filter_lt_length_iff_exists.2 ⟨c, hct', by simp⟩
        have hle := mark_todo_len c st
        rw [mark_stack]
        simp only [List.length_cons]
        omega
      · intro t ht
        have ht : t ∈ (mark c st).todo.filter (· != c) := ht
        exact mark_todo_sub c st t (List.mem_filter.1 ht).1
    · rename_i hct
      have hct' : c ∉ (mark c st).todo := by simpa using hct
      have hne1 : (mark c st).stack ≠ [] := by rw [mark_stack]; exact hne
      obtain ⟨i1, i2, i3, i4⟩ := ih (mark c st) hne1 hinv1
      refine ⟨i1, ?_, ?_, ?_⟩
      · intro hp
        have := i2 hp
        have hle := mark_todo_len c st
        rw [mark_stack] at this
        omega
      · intro hp
        obtain ⟨j1, j2, j3⟩ := i3 hp
        refine ⟨by rw [j1, mark_stack], Nat.le_trans j2 (mark_todo_len c st), ?_⟩
        intro d hd
        rcases List.mem_cons.1 hd with rfl | hd
        · refine ⟨fun hm => hct' (i4 _ hm), ?_⟩
          intro e
          have hstart : start ∈ st.stack := by
            rcases hinv.last with h | h
            · exact absurd h hne
            · exact List.mem_of_getLast? h
          have : start ∈ (mark start st).output := mark_output_self start st hstart
          rw [e]
          exact scanChildren_output_mono cs _ _ this
        · exact j3 d hd
      · intro t ht
        exact mark_todo_sub c st t (i4 t ht)

/-- the `while stack` loop ends with an empty stack and keeps the invariant -/
theorem dfsLoop_spec {ts : List Edge} {nodes : List Node} {start : Node} :
    ∀ (fuel : Nat) (st : DfsState), CInv ts nodes start st →
      2 * st.todo.length + st.stack.length ≤ fuel →
      CInv ts nodes start (dfsLoop ts fuel st) ∧ (dfsLoop ts fuel st).stack = [] := by
  intro fuel
  induction fuel with
  | zero =>
    intro st hinv hm
    refine ⟨hinv, ?_⟩
    show st.stack = []
    exact List.eq_nil_of_length_eq_zero (by omega)
  | succ n ih =>
    intro st hinv hm
    simp only [dfsLoop]
    split
    · rename_i hst
      exact ⟨hinv, hst⟩
    · rename_i top rest hst
      have hne : st.stack ≠ [] := by rw [hst]; simp
      have hsp := scanChildren_spec (ts := ts) (nodes := nodes) (start := start)
        (childrenOf ts top) st hne hinv
      generalize scanChildren (childrenOf ts top) st = res at hsp
      obtain ⟨st', pushed⟩ := res
      simp only at hsp ⊢
      obtain ⟨i1, i2, i3, i4⟩ := hsp
      split
      · rename_i hp
        exact ih _ i1 (by have := i2 hp; omega)
      · rename_i hp
        have hp' : pushed = false := by simpa using hp
        obtain ⟨j1, j2, j3⟩ := i3 hp'
        apply ih
        · refine ⟨?_, i1.start_todo, ?_⟩
          · show rest = [] ∨ rest.getLast? = some start
            rcases hinv.last with h | h
            · exact absurd h hne
            · cases rest with
              | nil => exact Or.inl rfl
              | cons a r =>
                right
                rw [hst, List.getLast?_cons_cons] at h
                exact h
          · intro f hf hft hfs d hfd
            have hft : f ∉ st'.todo := hft
            have hfs : f ∉ rest := hfs
            show d ∉ st'.todo ∧ (d = start → start ∈ st'.output)
            by_cases hftop : f = top
            · subst hftop
              exact j3 d (mem_childrenOf.2 hfd)
            · have hfs' : f ∉ st'.stack := by
                rw [j1, hst]
                intro hm
                rcases List.mem_cons.1 hm with h | h
                · exact hftop h
                · exact hfs h
              exact i1.fin f hf hft hfs' d hfd
        · show 2 * st'.todo.length + rest.length ≤ n
          rw [hst] at hm
          simp only [List.length_cons] at hm
          omega

/-- the DFS started from a node on a cycle reports that node -/
theorem findCyclesFrom_complete {ts : List Edge} (nodes : List Node) (start : Node)
    (out : List Node) (hnodes : ∀ p c, (p, c) ∈ ts → p ∈ nodes) (h : OnCycle ts start) :
    start ∈ findCyclesFrom ts nodes start out := by
  show start ∈ (dfsLoop ts (2 * nodes.length + 2)
    { stack := [start], todo := nodes.filter (· != start), output := out }).output
  have hinit : CInv ts nodes start
      { stack := [start], todo := nodes.filter (· != start), output := out } := by
    refine ⟨Or.inr rfl, ?_, ?_⟩
    · intro hm
      have := (List.mem_filter.1 hm).2
      simp at this
    · intro f hf hft hfs
      exfalso
      have hfs : f ∉ [start] := hfs
      have hne : f ≠ start := by simpa using hfs
      exact hft (List.mem_filter.2 ⟨hf, by simpa using hne⟩)
  have hfuel : 2 * (nodes.filter (· != start)).length + [start].length
      ≤ 2 * nodes.length + 2 := by
    have := List.length_filter_le (· != start) nodes
    simp only [List.length_cons, List.length_nil]
    omega
  obtain ⟨hinv, hempty⟩ := dfsLoop_spec (2 * nodes.length + 2) _ hinit hfuel
  generalize dfsLoop ts (2 * nodes.length + 2)
    { stack := [start], todo := nodes.filter (· != start), output := out } = fin at hinv hempty
  -- nothing reachable from `start` is left in `todo`
  have hreach : ∀ b, Reach ts start b → b ∉ fin.todo := by
    intro b hb
    induction hb with
    | refl => exact hinv.start_todo
    | tail _ e ih =>
      exact (hinv.fin _ (hnodes _ _ e) ih (by rw [hempty]; simp) _ e).1
  -- the last edge of the cycle
  obtain ⟨y, hxy, hyx⟩ := h
  have hlast : ∃ z, Reach ts start z ∧ (z, start) ∈ ts := by
    cases hyx with
    | refl => exact ⟨start, .refl _, hxy⟩
    | tail hyz e => exact ⟨_, Reach.trans (.tail (.refl _) hxy) hyz, e⟩
  obtain ⟨z, hz, hzs⟩ := hlast
  exact (hinv.fin z (hnodes _ _ hzs) (hreach z hz) (by rw [hempty]; simp) start hzs).2 rfl

theorem foldl_findCyclesFrom_complete {ts : List Edge} (nodes : List Node)
    (hnodes : ∀ p c, (p, c) ∈ ts → p ∈ nodes) (x : Node) (h : OnCycle ts x) :
    ∀ (l : List Node) (out : List Node), x ∈ l →
      x ∈ l.foldl (fun out n => findCyclesFrom ts nodes n out) out := by
  intro l
  induction l with
  | nil => intro out hx; cases hx
  | cons a l ih =>
    intro out hx
    simp only [List.foldl_cons]
    rcases List.mem_cons.1 hx with rfl | hx
    · exact foldl_findCyclesFrom_mono ts nodes l _ _
        (findCyclesFrom_complete nodes _ out hnodes h)
    · exact ih _ hx

theorem findCycles_complete {ts : List Edge} (x : Node) (h : OnCycle ts x) :
    x ∈ findCycles ts := by
  unfold findCycles
  rw [List.mem_eraseDups]
  have hnodes : ∀ p c, (p, c) ∈ ts → p ∈ parentNodes ts :=
    fun p c e => mem_parentNodes.2 ⟨c, e⟩
  obtain ⟨y, hxy, _⟩ := id h
  exact foldl_findCyclesFrom_complete _ hnodes x h _ _ (hnodes _ _ hxy)

end SaVerif.Topo
