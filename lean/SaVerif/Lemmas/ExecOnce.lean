import SaVerif.Model.ExecOnce
/-! Invariants of the exec_once LTS.  Core Lean only. -/
namespace SaVerif.ExecOnce

theorem sumMap_set (f : Pc → Nat) :
    ∀ (pcs : List Pc) (t : Nat) (old new : Pc), pcs[t]? = some old →
      sumMap f (pcs.set t new) + f old = sumMap f pcs + f new := by
  intro pcs
  induction pcs with
  | nil => intro t old new h; simp at h
  | cons a l ih =>
    intro t old new h
    cases t with
    | zero =>
      simp at h; subst h
      simp [sumMap]; omega
    | succ n =>
      simp at h
      have := ih n old new h
      simp [sumMap] at this ⊢
      omega

theorem sumMap_replicate_zero (f : Pc → Nat) (pc : Pc) (h : f pc = 0) (n : Nat) :
    sumMap f (List.replicate n pc) = 0 := by
  induction n with
  | zero => simp [sumMap]
  | succ n ih => simp [sumMap, List.replicate_succ, h] at ih ⊢

theorem le_sumMap (f : Pc → Nat) (pcs : List Pc) (t : Nat) (pc : Pc) (h : pcs[t]? = some pc) :
    f pc ≤ sumMap f pcs := by
  induction pcs generalizing t with
  | nil => simp at h
  | cons a l ih =>
    cases t with
    | zero => simp at h; subst h; simp [sumMap]
    | succ n =>
      simp at h
      have := ih n h
      simp [sumMap] at this ⊢
      omega

theorem step_eq {a : Bool} {s s' : State} {t : Nat} {l : Label} (hs : step a s t l = some s') :
    ∃ old new sh, s.pcs[t]? = some old ∧ trans a s.toShared old l = some (new, sh) ∧
      s' = { toShared := sh, pcs := s.pcs.set t new } := by
  unfold step at hs
  split at hs
  · rename_i pc hpc
    split at hs
    · rename_i pc' sh htr
      cases hs
      exact ⟨pc, pc', sh, hpc, htr, rfl⟩
    · cases hs
  · cases hs

theorem lt_length_of_getElem? {pcs : List Pc} {t : Nat} {pc : Pc} (h : pcs[t]? = some pc) :
    t < pcs.length := by
  rcases Nat.lt_or_ge t pcs.length with h1 | h1
  · exact h1
  · rw [List.getElem?_eq_none h1] at h; cases h

theorem inRun_le_crit (pc : Pc) : inRun pc ≤ crit pc := by
  cases pc <;> simp [inRun, crit]

theorem sumMap_mono (f g : Pc → Nat) (h : ∀ pc, f pc ≤ g pc) (pcs : List Pc) :
    sumMap f pcs ≤ sumMap g pcs := by
  induction pcs with
  | nil => simp [sumMap]
  | cons a l ih =>
    have := h a
    simp [sumMap] at ih ⊢
    omega

/-- the invariant of the LTS when the lazy creation of the mutex is atomic -/
structure Inv (s : State) : Prop where
  hm : ∀ (t : Nat) (pc : Pc) (m : Nat), s.pcs[t]? = some pc → mutexOf pc = some m → s.mutex = some m
  hheld : ∀ x ∈ s.held, s.mutex = some x
  hnodup : s.held.Nodup
  hcrit : sumMap crit s.pcs = s.held.length
  hruns : s.runs = (if s.flag then 1 else 0) + sumMap inRun s.pcs
  hflag : s.flag = true → sumMap inRun s.pcs = 0

theorem held_le_one {s : State} (h : Inv s) : s.held.length ≤ 1 := by
  match hh : s.held with
  | [] => simp
  | [_] => simp
  | a :: b :: rest =>
    exfalso
    have h1 := h.hheld a (by simp [hh])
    have h2 := h.hheld b (by simp [hh])
    rw [h1] at h2
    cases h2
    have := h.hnodup
    rw [hh] at this
    simp at this

theorem inv_init (n : Nat) : Inv (init n) := by
  refine ⟨?_, ?_, ?_, ?_, ?_, ?_⟩
  · intro t pc m h hm
    simp only [init] at h
    rw [List.getElem?_replicate] at h
    split at h
    · cases h; simp [mutexOf] at hm
    · cases h
  · intro x hx; simp [init] at hx
  · simp [init]
  · simp [init, sumMap_replicate_zero crit Pc.start rfl]
  · simp [init, sumMap_replicate_zero inRun Pc.start rfl]
  · intro _; simp [init, sumMap_replicate_zero inRun Pc.start rfl]

syntax "eo_cases " ident : tactic
macro_rules
  | `(tactic| eo_cases $h:ident) =>
    `(tactic| (unfold trans at $h:ident; split at $h:ident <;> (try split at $h:ident) <;> (try split at $h:ident) <;> (try cases $h:ident)))

theorem hm_step (s s' : State) (t : Nat) (l : Label) (h : Inv s)
    (hs : step true s t l = some s') :
    ∀ (u : Nat) (pc : Pc) (m : Nat), s'.pcs[u]? = some pc → mutexOf pc = some m → s'.mutex = some m := by
  obtain ⟨old, new, sh, hold, htr, rfl⟩ := step_eq hs
  have hlt := lt_length_of_getElem? hold
  have hmo := h.hm t old
  intro u pc m hp hmu
  simp only at hp
  by_cases hu : u = t
  · subst hu
    rw [List.getElem?_set_self hlt] at hp
    cases hp
    eo_cases htr
    all_goals try (simp [mutexOf] at hmu; done)
    all_goals try (simp [mutexOf] at hmu hmo ⊢; subst hmu; simp_all; done)
    all_goals (simp [mutexOf] at hmu hmo ⊢; simp_all)
  · rw [List.getElem?_set_ne (Ne.symm hu)] at hp
    have := h.hm u pc m hp hmu
    eo_cases htr
    all_goals try (exact this)
    all_goals (simp_all)

theorem mem_held_of_crit {s : State} (h : Inv s) {t : Nat} {pc : Pc} {m : Nat}
    (hp : s.pcs[t]? = some pc) (hc : crit pc = 1) (hm : mutexOf pc = some m) : m ∈ s.held := by
  have h1 := le_sumMap crit s.pcs t pc hp
  have h2 := h.hcrit
  have h3 := h.hm t pc m hp hm
  match hh : s.held with
  | [] => rw [hh] at h2; simp at h2; omega
  | a :: rest =>
    have := h.hheld a (by simp [hh])
    rw [h3] at this; cases this; simp

theorem held_step (s s' : State) (t : Nat) (l : Label) (h : Inv s)
    (hs : step true s t l = some s') :
    (∀ x ∈ s'.held, s'.mutex = some x) ∧ s'.held.Nodup ∧ sumMap crit s'.pcs = s'.held.length := by
  obtain ⟨old, new, sh, hold, htr, rfl⟩ := step_eq hs
  have kc := sumMap_set crit s.pcs t old new hold
  have hmo := fun m => h.hm t old m hold
  have hcr := h.hcrit
  have hmem := @mem_held_of_crit s h t old
  eo_cases htr
  all_goals try (refine ⟨h.hheld, h.hnodup, ?_⟩; simp [crit] at kc ⊢; omega)
  · -- init: the mutex is created; nobody holds anything yet
    rename_i hg
    refine ⟨?_, h.hnodup, by simp [crit] at kc ⊢; omega⟩
    intro x hx
    have := h.hheld x hx
    rw [hg.2.1] at this; cases this
  · -- made/asg exists only when the creation is not atomic
    rename_i hc; cases hc
  · -- acq
    rename_i m hnot
    refine ⟨?_, ?_, ?_⟩
    · intro x hx
      simp only [List.mem_cons] at hx
      rcases hx with e | e
      · subst e; exact hmo x (by simp [mutexOf])
      · exact h.hheld x e
    · simp only [List.nodup_cons]; exact ⟨hnot, h.hnodup⟩
    · simp [crit] at kc ⊢; omega
  · -- rel
    rename_i m
    have hm' := hmem (m := m) hold (by simp [crit]) (by simp [mutexOf])
    refine ⟨?_, h.hnodup.erase _, ?_⟩
    · intro x hx; exact h.hheld x (List.mem_of_mem_erase hx)
    · rw [List.length_erase_of_mem hm']
      have := List.length_pos_of_mem hm'
      simp [crit] at kc ⊢; omega

theorem runs_step (s s' : State) (t : Nat) (l : Label) (h : Inv s)
    (hs : step true s t l = some s') :
    s'.runs = (if s'.flag then 1 else 0) + sumMap inRun s'.pcs ∧
    (s'.flag = true → sumMap inRun s'.pcs = 0) := by
  obtain ⟨old, new, sh, hold, htr, rfl⟩ := step_eq hs
  have kr := sumMap_set inRun s.pcs t old new hold
  have kc := sumMap_set crit s.pcs t old new hold
  have hle := held_le_one h
  have hrc := sumMap_mono inRun crit inRun_le_crit s.pcs
  have hcr := h.hcrit
  have hru := h.hruns
  have hfl := h.hflag
  have h1 := le_sumMap inRun s.pcs t old hold
  eo_cases htr
  all_goals try (
    refine ⟨?_, ?_⟩
    · simp [inRun] at kr ⊢; omega
    · intro hf; have := hfl hf; simp [inRun] at kr ⊢; omega)
  · -- rdFlag2: entering the listeners requires the flag to be false
    rename_i m b hb
    have hf : s.flag = false := by rw [← b]; simpa using hb
    refine ⟨?_, ?_⟩
    · simp [inRun, hf] at kr hru ⊢; omega
    · intro hf'; simp [hf] at hf'
  · -- setFlag: the only running thread leaves
    refine ⟨?_, ?_⟩
    · simp [inRun] at kr h1 ⊢
      have : sumMap inRun s.pcs ≤ 1 := by omega
      split at hru <;> simp_all <;> omega
    · intro _
      simp [inRun] at kr h1 ⊢
      omega

theorem inv_step (s s' : State) (t : Nat) (l : Label) (h : Inv s)
    (hs : step true s t l = some s') : Inv s' := by
  have ⟨a, b, c⟩ := held_step s s' t l h hs
  have ⟨d, e⟩ := runs_step s s' t l h hs
  exact ⟨hm_step s s' t l h hs, a, b, c, d, e⟩

end SaVerif.ExecOnce
