import SaVerif.Lemmas.OrderedSet
/-! Per-method invariant and specification lemmas for the OrderedSet model. -/
namespace SaVerif.Coll

/-- the representation invariant of `OrderedSet`: `_list` has no duplicates and
    holds exactly the members of the builtin-set part -/
structure OSet.Inv (s : OSet) : Prop where
  nodup : s.lst.Nodup
  snodup : s.st.Nodup
  same : ∀ x, x ∈ s.st ↔ x ∈ s.lst

namespace OSet

theorem has_iff {s : OSet} (h : s.Inv) {x : Elem} : s.has x = true ↔ x ∈ s.lst := by
  unfold has; rw [List.contains_iff_mem]; exact h.same x

theorem has_eq {s : OSet} (h : s.Inv) (x : Elem) : s.has x = s.lst.contains x := by
  rw [Bool.eq_iff_iff, has_iff h, List.contains_iff_mem]

theorem inv_empty : empty.Inv := ⟨List.nodup_nil, List.nodup_nil, fun _ => Iff.rfl⟩

theorem inv_fromList {l : List Elem} (h : l.Nodup) : (fromList l).Inv :=
  ⟨h, nodup_setUpdate List.nodup_nil, fun x => by simp [fromList, mem_setUpdate]⟩

theorem len_eq {s : OSet} (h : s.Inv) : s.len = s.lst.length := by
  unfold len
  exact (List.Perm.length_eq ((List.perm_ext_iff_of_nodup h.snodup h.nodup).2 h.same))

/-! #### add / update -/

theorem add_lst {s : OSet} (h : s.Inv) (x : Elem) : (s.add x).lst = refAdd s.lst x := by
  unfold add refAdd
  rw [has_eq h]
  split <;> rfl

theorem inv_add {s : OSet} (h : s.Inv) (x : Elem) : (s.add x).Inv := by
  unfold add
  split
  · exact h
  · rename_i hx
    have hx' : x ∉ s.lst := fun hm => hx ((has_iff h).2 hm)
    refine ⟨?_, nodup_setAdd h.snodup, ?_⟩
    · rw [List.nodup_append]
      refine ⟨h.nodup, by simp, ?_⟩
      intro a ha b hb hab
      simp only [List.mem_singleton] at hb
      subst hb; subst hab; exact hx' ha
    · intro y
      simp only [mem_setAdd, List.mem_append, List.mem_singleton, h.same]
      constructor
      · rintro (h1 | h1)
        · exact Or.inr h1
        · exact Or.inl h1
      · rintro (h1 | h1)
        · exact Or.inr h1
        · exact Or.inl h1

theorem inv_foldl_add {s : OSet} (h : s.Inv) (xs : List Elem) : (xs.foldl add s).Inv := by
  induction xs generalizing s with
  | nil => exact h
  | cons a xs ih => exact ih (inv_add h a)

theorem foldl_add_lst {s : OSet} (h : s.Inv) (xs : List Elem) :
    (xs.foldl add s).lst = refUpdate s.lst xs := by
  induction xs generalizing s with
  | nil => rfl
  | cons a xs ih =>
    simp only [List.foldl_cons]
    rw [ih (inv_add h a), add_lst h]
    rfl

theorem inv_update {s : OSet} (h : s.Inv) (args : List (List Elem)) : (s.update args).Inv := by
  unfold update
  induction args generalizing s with
  | nil => exact h
  | cons a args ih => exact ih (inv_foldl_add h a)

theorem update_lst {s : OSet} (h : s.Inv) (args : List (List Elem)) :
    (s.update args).lst = refUpdate s.lst args.flatten := by
  unfold update
  induction args generalizing s with
  | nil => rfl
  | cons a args ih =>
    simp only [List.foldl_cons, List.flatten_cons]
    rw [ih (inv_foldl_add h a), foldl_add_lst h]
    unfold refUpdate
    rw [List.foldl_append]

/-! #### init / copy -/

theorem inv_init_none : (init none).Inv := inv_empty

/-- a `set`/`dict` argument never iterates the same element twice (Python guarantee) -/
def Arg.wf (a : Arg) : Prop := (a.kind = .set ∨ a.kind = .dict) → a.elems.Nodup

theorem init_lst (a : Arg) (h : Arg.wf a) : (init (some a)).lst = firstOcc a.elems := by
  unfold init
  cases hk : a.kind <;> simp only [hk]
  · exact (firstOcc_of_nodup (h (Or.inl hk))).symm
  · exact (firstOcc_of_nodup (h (Or.inr hk))).symm
  · exact uniqueList_eq_firstOcc _
  · exact uniqueList_eq_firstOcc _

theorem inv_init (a : Arg) (h : Arg.wf a) : (init (some a)).Inv := by
  have hl := init_lst a h
  have : init (some a) = fromList (init (some a)).lst := by
    unfold init fromList; rfl
  rw [this]
  apply inv_fromList
  rw [hl]; exact nodup_firstOcc _

theorem inv_copy {s : OSet} (h : s.Inv) : s.copy.Inv := inv_fromList h.nodup

theorem copy_lst (s : OSet) : s.copy.lst = s.lst := rfl

/-! #### remove / discard / pop -/

theorem listRemove_mem {l : List Elem} {x : Elem} (h : x ∈ l) : listRemove l x = some (l.erase x) := by
  unfold listRemove; simp [h]

theorem inv_erase {s : OSet} (h : s.Inv) (x : Elem) : Inv ⟨s.lst.erase x, setRemove s.st x⟩ := by
  refine ⟨h.nodup.erase x, nodup_setRemove h.snodup, ?_⟩
  intro y
  simp only [mem_setRemove, h.nodup.mem_erase_iff, h.same]
  exact And.comm

theorem remove_mem {s : OSet} (h : s.Inv) {x : Elem} (hx : x ∈ s.lst) :
    s.remove x = (⟨s.lst.erase x, setRemove s.st x⟩, none) := by
  unfold remove
  rw [(has_iff h).2 hx, listRemove_mem hx]
  rfl

theorem remove_not_mem {s : OSet} (h : s.Inv) {x : Elem} (hx : x ∉ s.lst) :
    s.remove x = (s, some .keyError) := by
  unfold remove
  have : s.has x = false := by
    rw [Bool.eq_false_iff]; exact fun hh => hx ((has_iff h).1 hh)
  rw [this]; rfl

theorem inv_remove {s : OSet} (h : s.Inv) (x : Elem) : (s.remove x).1.Inv := by
  by_cases hx : x ∈ s.lst
  · rw [remove_mem h hx]; exact inv_erase h x
  · rw [remove_not_mem h hx]; exact h

theorem discard_mem {s : OSet} (h : s.Inv) {x : Elem} (hx : x ∈ s.lst) :
    s.discard x = (⟨s.lst.erase x, setRemove s.st x⟩, none) := by
  unfold discard
  rw [(has_iff h).2 hx, listRemove_mem hx]
  rfl

theorem discard_not_mem {s : OSet} (h : s.Inv) {x : Elem} (hx : x ∉ s.lst) :
    s.discard x = (s, none) := by
  unfold discard
  have : s.has x = false := by
    rw [Bool.eq_false_iff]; exact fun hh => hx ((has_iff h).1 hh)
  rw [this]; rfl

theorem inv_discard {s : OSet} (h : s.Inv) (x : Elem) : (s.discard x).1.Inv := by
  by_cases hx : x ∈ s.lst
  · rw [discard_mem h hx]; exact inv_erase h x
  · rw [discard_not_mem h hx]; exact h

theorem pop_nil {s : OSet} (hl : s.lst = []) : s.pop = (s, .error .keyError) := by
  unfold pop; rw [hl]; rfl

theorem pop_concat {s : OSet} (h : s.Inv) {l : List Elem} {v : Elem} (hl : s.lst = l ++ [v]) :
    s.pop = (⟨l, setRemove s.st v⟩, .ok v) := by
  unfold pop
  have hv : s.st.contains v = true := by
    rw [List.contains_iff_mem, h.same, hl]; simp
  rw [hl]
  simp only [List.getLast?_concat, List.dropLast_concat]
  rw [hv]; rfl

theorem inv_pop {s : OSet} (h : s.Inv) : s.pop.1.Inv := by
  rcases List.eq_nil_or_concat s.lst with hl | ⟨l, v, hl⟩
  · rw [pop_nil hl]; exact h
  · rw [List.concat_eq_append] at hl
    rw [pop_concat h hl]
    have hn := h.nodup
    rw [hl, List.nodup_append] at hn
    refine ⟨hn.1, nodup_setRemove h.snodup, ?_⟩
    intro y
    simp only [mem_setRemove, h.same, hl, List.mem_append, List.mem_singleton]
    constructor
    · rintro ⟨h1 | h1, h2⟩
      · exact h1
      · exact absurd h1 h2
    · intro h1
      refine ⟨Or.inl h1, ?_⟩
      rintro rfl
      exact hn.2.2 y h1 y (by simp) rfl

/-! #### insert / clear -/

theorem inv_insert {s : OSet} (h : s.Inv) (pos : Int) (x : Elem) : (s.insert pos x).Inv := by
  unfold insert
  split
  · exact h
  · rename_i hx
    have hx' : x ∉ s.lst := fun hm => hx ((has_iff h).2 hm)
    have hperm : (listInsert s.lst pos x).Perm (x :: s.lst) := by
      unfold listInsert
      simp only
      have := List.take_append_drop (insertPos s.lst.length pos) s.lst
      exact (List.perm_middle).trans (List.Perm.cons x (by rw [this]))
    refine ⟨hperm.nodup_iff.2 (List.nodup_cons.2 ⟨hx', h.nodup⟩), nodup_setAdd h.snodup, ?_⟩
    intro y
    rw [hperm.mem_iff]
    simp only [mem_setAdd, List.mem_cons, h.same]

theorem inv_clear (s : OSet) : s.clear.Inv := inv_empty

/-! #### intersection / difference (new objects and in place) -/

theorem filter_contains_setInter {s : OSet} (h : s.Inv) (args : List (List Elem)) :
    s.lst.filter (fun a => (setInter s.st args).contains a)
      = s.lst.filter (fun a => args.all (fun o => o.contains a)) := by
  apply List.filter_congr
  intro y hy
  rw [Bool.eq_iff_iff, List.contains_iff_mem, mem_setInter, h.same]
  simp [hy]

theorem filter_contains_setDiff {s : OSet} (h : s.Inv) (args : List (List Elem)) :
    s.lst.filter (fun a => (setDiff s.st args).contains a)
      = s.lst.filter (fun a => args.all (fun o => !o.contains a)) := by
  apply List.filter_congr
  intro y hy
  rw [Bool.eq_iff_iff, List.contains_iff_mem, mem_setDiff, h.same]
  simp [hy]

theorem intersection_lst {s : OSet} (h : s.Inv) (args : List (List Elem)) :
    (s.intersection args).lst = s.lst.filter (fun a => args.all (fun o => o.contains a)) := by
  unfold intersection fromList
  exact filter_contains_setInter h args

theorem inv_intersection {s : OSet} (h : s.Inv) (args : List (List Elem)) :
    (s.intersection args).Inv := inv_fromList (nodup_filter _ h.nodup)

theorem difference_lst {s : OSet} (h : s.Inv) (args : List (List Elem)) :
    (s.difference args).lst = s.lst.filter (fun a => args.all (fun o => !o.contains a)) := by
  unfold difference fromList
  exact filter_contains_setDiff h args

theorem inv_difference {s : OSet} (h : s.Inv) (args : List (List Elem)) :
    (s.difference args).Inv := inv_fromList (nodup_filter _ h.nodup)

theorem interUpdate_lst {s : OSet} (h : s.Inv) (args : List (List Elem)) :
    (s.interUpdate args).lst = s.lst.filter (fun a => args.all (fun o => o.contains a)) := by
  unfold interUpdate
  exact filter_contains_setInter h args

theorem inv_interUpdate {s : OSet} (h : s.Inv) (args : List (List Elem)) :
    (s.interUpdate args).Inv := by
  refine ⟨nodup_filter _ h.nodup, nodup_filter _ h.snodup, ?_⟩
  intro y
  simp only [interUpdate, List.mem_filter, List.contains_iff_mem, mem_setInter, h.same]
  constructor
  · intro hy; exact ⟨hy.1, hy⟩
  · intro hy; exact hy.2

theorem diffUpdate_lst {s : OSet} (h : s.Inv) (args : List (List Elem)) :
    (s.diffUpdate args).lst = s.lst.filter (fun a => args.all (fun o => !o.contains a)) := by
  unfold diffUpdate
  exact filter_contains_setDiff h args

theorem inv_diffUpdate {s : OSet} (h : s.Inv) (args : List (List Elem)) :
    (s.diffUpdate args).Inv := by
  refine ⟨nodup_filter _ h.nodup, nodup_filter _ h.snodup, ?_⟩
  intro y
  simp only [diffUpdate, List.mem_filter, List.contains_iff_mem, mem_setDiff, h.same]
  constructor
  · intro hy; exact ⟨hy.1, hy⟩
  · intro hy; exact hy.2

/-! #### union -/

theorem inv_union {s : OSet} (h : s.Inv) (args : List (List Elem)) : (s.union args).Inv :=
  inv_update (inv_fromList h.nodup) args

theorem union_lst {s : OSet} (h : s.Inv) (args : List (List Elem)) :
    (s.union args).lst = refUpdate s.lst args.flatten := by
  unfold union
  rw [update_lst (inv_fromList h.nodup)]
  rfl

/-! #### symmetric difference -/

theorem firstOcc_filter (p : Elem → Bool) (l : List Elem) :
    firstOcc (l.filter p) = (firstOcc l).filter p := by
  induction l with
  | nil => rfl
  | cons x xs ih =>
    by_cases hp : p x = true
    · simp only [List.filter_cons, hp, if_true, firstOcc, ih, List.filter_filter]
      congr 1
      apply List.filter_congr
      intro y _
      exact Bool.and_comm _ _
    · have hp' : p x = false := by simpa using hp
      simp only [List.filter_cons, hp', Bool.false_eq_true, if_false, firstOcc, ih,
        List.filter_filter]
      apply List.filter_congr
      intro y _
      by_cases hy : y = x
      · subst hy; simp [hp]
      · simp [hy]

theorem symDiff_lst {s : OSet} (h : s.Inv) (c : List Elem) :
    (s.symDiff c).lst
      = s.lst.filter (fun a => !c.contains a) ++ (firstOcc c).filter (fun a => !s.lst.contains a) := by
  unfold symDiff
  have hl1 : s.lst.filter (fun a => !(setUpdate [] c).contains a)
      = s.lst.filter (fun a => !c.contains a) := by
    apply List.filter_congr
    intro y _
    congr 1
    rw [Bool.eq_iff_iff, List.contains_iff_mem, List.contains_iff_mem, mem_setUpdate]
    simp
  have hc : c.filter (fun a => !s.has a) = c.filter (fun a => !s.lst.contains a) := by
    apply List.filter_congr
    intro y _
    rw [has_eq h]
  simp only
  rw [hl1, hc, update_lst (inv_fromList (nodup_filter _ h.nodup))]
  simp only [fromList, List.flatten_cons, List.flatten_nil, List.append_nil]
  rw [refUpdate_eq, firstOcc_filter, List.filter_filter]
  congr 1
  apply List.filter_congr
  intro y _
  by_cases hy : y ∈ s.lst
  · simp [hy]
  · simp [hy]

theorem inv_symDiff {s : OSet} (h : s.Inv) (c : List Elem) : (s.symDiff c).Inv := by
  unfold symDiff
  exact inv_update (inv_fromList (nodup_filter _ h.nodup)) _

theorem symDiffUpdate_lst {s : OSet} (h : s.Inv) (c : List Elem) :
    (s.symDiffUpdate c).lst
      = s.lst.filter (fun a => !c.contains a) ++ (firstOcc c).filter (fun a => !s.lst.contains a) := by
  unfold symDiffUpdate symDiffUpdateGen
  simp only [if_true, uniqueList_eq_firstOcc]
  congr 1
  · apply List.filter_congr
    intro y hy
    rw [Bool.eq_iff_iff, List.contains_iff_mem, mem_setSymDiff, h.same]
    simp [hy]
  · apply List.filter_congr
    intro y hy
    rw [mem_firstOcc] at hy
    rw [Bool.eq_iff_iff, List.contains_iff_mem, mem_setSymDiff, h.same]
    simp [hy]

theorem symDiffUpdate_st (s : OSet) (c : List Elem) :
    (s.symDiffUpdate c).st = setSymDiff s.st c := rfl

theorem inv_symDiffUpdate {s : OSet} (h : s.Inv) (c : List Elem) : (s.symDiffUpdate c).Inv := by
  refine ⟨?_, ?_, ?_⟩
  · rw [symDiffUpdate_lst h, List.nodup_append]
    refine ⟨nodup_filter _ h.nodup, nodup_filter _ (nodup_firstOcc c), ?_⟩
    intro a ha b hb hab
    subst hab
    simp [List.mem_filter] at ha hb
    exact hb.2 ha.1
  · rw [symDiffUpdate_st]; exact nodup_setSymDiff h.snodup
  · intro y
    rw [symDiffUpdate_lst h, symDiffUpdate_st, mem_setSymDiff, h.same]
    simp [List.mem_filter, mem_firstOcc]

end OSet
end SaVerif.Coll
