import SaVerif.Lemmas.Ddl
/-! Lemmas about executing DDL op lists on the strict backend (core Lean only). -/
namespace SaVerif.Ddl

theorem run_nil (db : DB) : run db [] = some db := rfl

theorem run_cons (db : DB) (o : Op) (ops : List Op) :
    run db (o :: ops) = (exec db o).bind (fun d => run d ops) := by
  simp [run, List.foldlM_cons]

theorem run_append (db : DB) (a b : List Op) :
    run db (a ++ b) = (run db a).bind (fun d => run d b) := by
  simp [run, List.foldlM_append]

/-! ### CREATE -/

theorem run_createIndexes (i : Nat) : ∀ (ixs : List Nat) (db : DB), i ∈ db.tables →
    run db (ixs.map (Op.createIndex i)) =
      some ⟨db.tables, db.fks, db.idx ++ ixs.map (fun x => (i, x))⟩ := by
  intro ixs
  induction ixs with
  | nil => intro db _; simp [run_nil]
  | cons x xs ih =>
    intro db hi
    rw [List.map_cons, run_cons]
    have hc : db.tables.contains i = true := by simpa using hi
    simp only [exec, hc, if_true, Option.bind_some]
    rw [ih ⟨db.tables, db.fks, db.idx ++ [(i, x)]⟩ hi]
    simp [List.append_assoc]

theorem run_createTableOps (t : Tbl) (inl : List Fkc) (db : DB) (hnew : t.id ∉ db.tables)
    (href : ∀ f ∈ inl, f.ref = t.id ∨ f.ref ∈ db.tables) :
    run db (Op.createTable t.id inl :: t.indexes.map (Op.createIndex t.id)) =
      some ⟨db.tables ++ [t.id], db.fks ++ inl.map (fun f => (t.id, f)),
            db.idx ++ t.indexes.map (fun x => (t.id, x))⟩ := by
  rw [run_cons]
  have hc : db.tables.contains t.id = false := by simpa using hnew
  have hall : inl.all (fun f => f.ref == t.id || db.tables.contains f.ref) = true := by
    simp only [List.all_eq_true, Bool.or_eq_true, beq_iff_eq, List.contains_eq_mem,
      decide_eq_true_eq]
    exact href
  simp only [exec, hc, hall, if_true, Bool.false_eq_true, if_false, Option.bind_some]
  rw [run_createIndexes]
  simp

/-- backend state after creating the tables `ts` with inline constraints `inl t` -/
def createdDB (inl : Tbl → List Fkc) (db : DB) (ts : List Tbl) : DB :=
  ⟨db.tables ++ ts.map (·.id),
   db.fks ++ ts.flatMap (fun t => (inl t).map (fun f => (t.id, f))),
   db.idx ++ ts.flatMap (fun t => t.indexes.map (fun x => (t.id, x)))⟩

theorem run_creates (inl : Tbl → List Fkc) : ∀ (ts : List Tbl) (db : DB),
    (ts.map (·.id)).Nodup → (∀ t ∈ ts, t.id ∉ db.tables) →
    (∀ t ∈ ts, ∀ f ∈ inl t, f.ref = t.id ∨ f.ref ∈ db.tables ∨
        (ts.map (·.id)).idxOf f.ref < (ts.map (·.id)).idxOf t.id) →
    run db (ts.flatMap
        (fun t => Op.createTable t.id (inl t) :: t.indexes.map (Op.createIndex t.id))) =
      some (createdDB inl db ts) := by
  intro ts
  induction ts with
  | nil => intro db _ _ _; simp [run_nil, createdDB]
  | cons x xs ih =>
    intro db hn hnew href
    rw [List.flatMap_cons, run_append]
    simp only [List.map_cons, List.nodup_cons] at hn
    have hx : ∀ f ∈ inl x, f.ref = x.id ∨ f.ref ∈ db.tables := by
      intro f hf
      rcases href x (List.mem_cons_self) f hf with h | h | h
      · exact Or.inl h
      · exact Or.inr h
      · simp at h
    rw [run_createTableOps x (inl x) db (hnew x List.mem_cons_self) hx]
    simp only [Option.bind_some]
    rw [ih]
    · simp [createdDB, List.append_assoc]
    · exact hn.2
    · intro t ht
      have hne : t.id ≠ x.id := by
        intro he; exact hn.1 (he ▸ List.mem_map.2 ⟨t, ht, rfl⟩)
      simp only [List.mem_append, List.mem_singleton, not_or]
      exact ⟨hnew t (List.mem_cons_of_mem _ ht), hne⟩
    · intro t ht f hf
      have hne : t.id ≠ x.id := by
        intro he; exact hn.1 (he ▸ List.mem_map.2 ⟨t, ht, rfl⟩)
      rcases href t (List.mem_cons_of_mem _ ht) f hf with h | h | h
      · exact Or.inl h
      · exact Or.inr (Or.inl (List.mem_append_left _ h))
      · by_cases hfx : f.ref = x.id
        · right; left; simp [hfx]
        · right; right
          simp only [List.map_cons] at h
          rw [List.idxOf_cons, List.idxOf_cons] at h
          have h1 : (x.id == f.ref) = false := by simpa using fun he => hfx he.symm
          have h2 : (x.id == t.id) = false := by simpa using fun he => hne he.symm
          simp only [h1, h2, cond_false] at h
          omega

theorem run_adds : ∀ (rem : List FkRef) (db : DB), rem.Nodup →
    (∀ r ∈ rem, r.1 ∈ db.tables ∧ r.2.ref ∈ db.tables ∧ r ∉ db.fks) →
    run db (rem.map (fun r => Op.addConstraint r.1 r.2)) =
      some ⟨db.tables, db.fks ++ rem, db.idx⟩ := by
  intro rem
  induction rem with
  | nil => intro db _ _; simp [run_nil]
  | cons r rs ih =>
    intro db hn h
    rw [List.nodup_cons] at hn
    rw [List.map_cons, run_cons]
    have h1 : db.tables.contains r.1 = true := by simpa using (h r List.mem_cons_self).1
    have h2 : db.tables.contains r.2.ref = true := by simpa using (h r List.mem_cons_self).2.1
    have h3 : db.fks.contains (r.1, r.2) = false := by simpa using (h r List.mem_cons_self).2.2
    simp only [exec, h1, h2, h3, Bool.and_self, Bool.not_false, if_true, Option.bind_some]
    rw [ih _ hn.2]
    · simp [List.append_assoc]
    · intro r' hr'
      have := h r' (List.mem_cons_of_mem _ hr')
      refine ⟨this.1, this.2.1, ?_⟩
      simp only [List.mem_append, List.mem_singleton, not_or]
      refine ⟨this.2.2, fun he => hn.1 ?_⟩
      have : r' = r := he
      exact this ▸ hr'

/-! ### DROP -/

theorem run_dropConstraints : ∀ (rem : List FkRef) (db : DB), rem.Nodup →
    (∀ r ∈ rem, r.2.named = true ∧ r ∈ db.fks) →
    run db (rem.map (fun r => Op.dropConstraint r.1 r.2)) =
      some ⟨db.tables, db.fks.filter (fun r => !rem.contains r), db.idx⟩ := by
  intro rem
  induction rem with
  | nil => intro db _ _; cases db; simp [run_nil, List.filter_eq_self.2]
  | cons r rs ih =>
    intro db hn h
    rw [List.map_cons, run_cons]
    have h1 : r.2.named = true := (h r List.mem_cons_self).1
    have h2 : db.fks.contains (r.1, r.2) = true := by simpa using (h r List.mem_cons_self).2
    simp only [exec, h1, h2, Bool.and_self, if_true, Option.bind_some]
    rw [List.nodup_cons] at hn
    rw [ih _ hn.2]
    · simp only [List.filter_filter, Option.some.injEq, DB.mk.injEq, true_and, and_true]
      apply List.filter_congr
      intro a _
      simp only [List.contains_cons, Bool.not_or]
      cases h3 : a == r <;> cases h4 : rs.contains a <;> simp_all
    · intro r' hr'
      refine ⟨(h r' (List.mem_cons_of_mem _ hr')).1, ?_⟩
      refine List.mem_filter.2 ⟨(h r' (List.mem_cons_of_mem _ hr')).2, ?_⟩
      have : r' ≠ r := fun he => hn.1 (he ▸ hr')
      simpa using this

/-- what the backend must satisfy for the tables `l` (in CREATE order) to be droppable
    in reverse order: a constraint owned by one of them points to itself, outside, or
    to a table earlier in the list; nobody outside points into the list -/
def DropOK (l : List Nat) (db : DB) : Prop :=
  ∀ r ∈ db.fks,
    (r.1 ∈ l → r.2.ref = r.1 ∨ r.2.ref ∉ l ∨ l.idxOf r.2.ref < l.idxOf r.1) ∧
    (r.1 ∉ l → r.2.ref ∉ l)

theorem run_dropTables : ∀ (l : List Nat) (db : DB), l.Nodup → (∀ t ∈ l, t ∈ db.tables) →
    DropOK l db →
    run db (l.reverse.map Op.dropTable) =
      some ⟨db.tables.filter (fun t => !l.contains t), db.fks.filter (fun r => !l.contains r.1),
            db.idx.filter (fun r => !l.contains r.1)⟩ := by
  intro l
  induction l with
  | nil => intro db _ _ _; cases db; simp [run_nil, List.filter_eq_self.2]
  | cons x xs ih =>
    intro db hn hpres hok
    rw [List.nodup_cons] at hn
    rw [List.reverse_cons, List.map_append, run_append]
    have hok' : DropOK xs db := by
      intro r hr
      obtain ⟨h1, h2⟩ := hok r hr
      constructor
      · intro hin
        have hne : r.1 ≠ x := fun he => hn.1 (he ▸ hin)
        rcases h1 (List.mem_cons_of_mem _ hin) with h | h | h
        · exact Or.inl h
        · exact Or.inr (Or.inl (fun hc => h (List.mem_cons_of_mem _ hc)))
        · by_cases hrx : r.2.ref = x
          · exact Or.inr (Or.inl (hrx ▸ hn.1))
          · right; right
            rw [List.idxOf_cons, List.idxOf_cons] at h
            have e1 : (x == r.2.ref) = false := by simpa using fun he => hrx he.symm
            have e2 : (x == r.1) = false := by simpa using fun he => hne he.symm
            simp only [e1, e2, cond_false] at h
            omega
      · intro hnin
        by_cases hrx : r.1 = x
        · rcases h1 (hrx ▸ List.mem_cons_self) with h | h | h
          · rw [h, hrx]; exact hn.1
          · exact fun hc => h (List.mem_cons_of_mem _ hc)
          · rw [hrx] at h; simp at h
        · have : r.1 ∉ x :: xs := by
            simp only [List.mem_cons, not_or]; exact ⟨hrx, hnin⟩
          exact fun hc => h2 this (List.mem_cons_of_mem _ hc)
    rw [ih db hn.2 (fun t ht => hpres t (List.mem_cons_of_mem _ ht)) hok']
    simp only [Option.bind_some, List.map_cons, List.map_nil]
    rw [run_cons]
    have hc : (db.tables.filter (fun t => !xs.contains t)).contains x = true := by
      simp only [List.contains_eq_mem, List.mem_filter, Bool.not_eq_true', decide_eq_false_iff_not,
        decide_eq_true_eq]
      exact ⟨hpres x List.mem_cons_self, hn.1⟩
    have hall : (db.fks.filter (fun r => !xs.contains r.1)).all (fun r => r.2.ref != x || r.1 == x)
        = true := by
      simp only [List.all_eq_true, List.mem_filter, Bool.not_eq_true', Bool.or_eq_true,
        bne_iff_ne, ne_eq, beq_iff_eq, and_imp]
      intro r hr hnx
      by_cases hrx : r.1 = x
      · exact Or.inr hrx
      · left
        have hnin : r.1 ∉ x :: xs := by
          simp only [List.mem_cons, not_or]
          exact ⟨hrx, by simpa using hnx⟩
        intro he
        exact (hok r hr).2 hnin (he ▸ List.mem_cons_self)
    simp only [exec, hc, hall, Bool.and_self, if_true, Option.bind_some, run_nil,
      List.filter_filter, Option.some.injEq, DB.mk.injEq]
    refine ⟨?_, ?_, ?_⟩ <;>
    · apply List.filter_congr
      intro a _
      simp only [List.contains_cons, Bool.not_or, bne]


/-! ### `tblsOf` -/

theorem lookup_some_of_mem_ids {tables : List Tbl} {i : Nat} (h : i ∈ ids tables) :
    ∃ t, lookup tables i = some t := by
  cases hl : lookup tables i with
  | some t => exact ⟨t, rfl⟩
  | none =>
    unfold lookup at hl
    rw [List.find?_eq_none] at hl
    obtain ⟨t, ht, hid⟩ := mem_ids.1 h
    exact absurd (by simpa using hid) (hl t ht)

theorem mem_tblsOf_imp {tables : List Tbl} {order : List Nat} {t : Tbl}
    (h : t ∈ tblsOf tables order) : t ∈ tables ∧ t.id ∈ order := by
  unfold tblsOf at h
  obtain ⟨i, hi, hl⟩ := List.mem_filterMap.1 h
  obtain ⟨h1, h2⟩ := lookup_some_imp hl
  exact ⟨h1, h2 ▸ hi⟩

theorem mem_tblsOf_of {tables : List Tbl} (hn : (ids tables).Nodup) {order : List Nat} {t : Tbl}
    (ht : t ∈ tables) (ho : t.id ∈ order) : t ∈ tblsOf tables order := by
  unfold tblsOf
  exact List.mem_filterMap.2 ⟨t.id, ho, lookup_of_mem hn ht⟩

theorem tblsOf_map_id {tables : List Tbl} :
    ∀ {order : List Nat}, (∀ i ∈ order, i ∈ ids tables) →
      (tblsOf tables order).map (·.id) = order := by
  intro order
  induction order with
  | nil => intro _; rfl
  | cons i is ih =>
    intro h
    obtain ⟨t, hl⟩ := lookup_some_of_mem_ids (h i List.mem_cons_self)
    unfold tblsOf at ih ⊢
    rw [List.filterMap_cons, hl]
    simp only [List.map_cons]
    rw [ih (fun j hj => h j (List.mem_cons_of_mem _ hj)), (lookup_some_imp hl).2]

end SaVerif.Ddl
