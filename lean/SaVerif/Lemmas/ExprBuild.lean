import SaVerif.Lemmas.ExprCore
import SaVerif.Model.ExprSem
/-!
The API-call fragment (`NumU` / `BoolU`) and the proof that `build` (the constructors applied
in Python's evaluation order) yields elements of the core fragment that are well grouped —
the hypotheses of `ok_render` / `core_render_read_back`.
-/
namespace SaVerif.Expr
open SaVerif.Expr.Gen SaVerif.Pratt

def arithK (k : BinK) : Bool := k = .add || k = .sub || k = .mul || k = .mod

def divK (k : BinK) : Bool := k = .truediv || k = .floordiv

/-- the arithmetic operators of the fragment -/
def numK (k : BinK) : Bool := arithK k || divK k

def cmpK (k : BinK) : Bool :=
  k = .eq || k = .ne || k = .lt || k = .le || k = .gt || k = .ge || k = .is_ || k = .isnot

mutual
/-- numeric API-call trees: integer / numeric columns, literals and scalar subqueries, `+ - * %`,
    unary minus, `cast(x, Integer / Numeric)`, `func.coalesce(...)`, searched and simple `case` -/
def NumU : U → Bool
  | .col _ ty => ty = .int || ty = .num
  | .li _ => true
  | .ln _ => true
  | .bin k a b => numK k && NumU a && NumU b
  | .neg a => NumU a
  | .subq _ ty => ty = .int || ty = .num
  | .cast ty a => (ty = .int || ty = .num) && NumU a
  | .coalesce cs => !cs.isEmpty && NumUList cs
  | .case_ v ws e =>
    !ws.isEmpty &&
      (if isAbsentU v then SearchedU ws else NumU v && NumUList ws && decide (ws.length % 2 = 0)) &&
      (isAbsentU e || NumU e)
  | _ => false
def NumUList : List U → Bool
  | [] => true
  | u :: us => NumU u && NumUList us
/-- `(condition, result)` pairs of a searched CASE, flattened -/
def SearchedU : List U → Bool
  | [] => true
  | [_] => false
  | c :: r :: rest => BoolU c && NumU r && SearchedU rest
/-- string-valued API-call trees: string columns and literals, `a.concat(b)` / `a + b` whose
    operands are string-valued or numeric trees (`(ia + 1).concat(sa)` is what finding F1 is about) -/
def StrU : U → Bool
  | .col _ ty => ty = .str
  | .ls _ => true
  | .bin k a b => k = .concat && (StrU a || NumU a) && (StrU b || NumU b)
  | _ => false
/-- boolean API-call trees: comparisons and IS / IS NOT of numeric or string-valued trees,
    `== NULL`-style tests, `like` / `not_like` / `ilike` / `not_ilike` (with or without `escape=`) of string-valued trees,
    `x.in_([v₁, …])` / `x.not_in([…])` with a non-empty list of literals,
    `x.between(lo, hi)` over numeric trees,
    `and_` / `or_` of one or more boolean trees, `~` -/
def BoolU : U → Bool
  | .bin k a b =>
    cmpK k && (NumU a || StrU a) &&
      ((NumU b || StrU b) ||
        (match b with | .null => k = .eq || k = .ne || k = .is_ || k = .isnot | _ => false))
  | .like _ _ a b => StrU a && StrU b
  | .inOp _ vals x => !vals.isEmpty && (NumU x || StrU x)
  | .between x lo hi => NumU x && NumU lo && NumU hi
  | .not_ a => BoolU a
  | .and_ cs => !cs.isEmpty && BoolUList cs
  | .or_ cs => !cs.isEmpty && BoolUList cs
  | _ => false
def BoolUList : List U → Bool
  | [] => true
  | u :: us => BoolU u && BoolUList us
end

def numTy (t : Ty) : Bool := t = .int || t = .num

def numShape : SaExpr → Bool
  | .col _ _ => true
  | .bind _ _ => true
  | .binary _ _ _ _ _ _ => true
  | .clist _ _ _ false _ => true
  | .unary _ _ _ => true
  | .subq _ _ => true
  | .func _ _ _ => true
  | .cast _ _ => true
  | .case_ _ _ _ _ => true
  | _ => false

structure NumE (e : SaExpr) : Prop where
  core : Core e = true
  wg : WG e = true
  ty : numTy (SaExpr.tyOf e) = true
  shape : numShape e = true
  /-- the root operator, if any, is arithmetic: its precedence number lies above BETWEEN's -/
  root : rootAbove (precOf .between_op) e = true

/-- a value operand: what comparisons and concatenations need to know about their operands -/
structure OpndE (e : SaExpr) : Prop where
  core : Core e = true
  wg : WG e = true
  shape : numShape e = true

theorem NumE.opnd {e : SaExpr} (h : NumE e) : OpndE e := ⟨h.core, h.wg, h.shape⟩

/-- shapes `build` produces for boolean trees, with what `negate` needs to know -/
def boolShape : SaExpr → Bool
  | .binary op _ _ (some n) esc _ =>
    (coreBin op && coreBin n && esc.isNone) || likePair op n || (inPair op n && esc.isNone) ||
      (btwPair op n && esc.isNone)
  | .clist op _ _ true _ => op = .and_ || op = .or_
  | .unary op _ _ => op = .inv
  | _ => false

structure BoolE (e : SaExpr) : Prop where
  core : Core e = true
  wg : WG e = true
  shape : boolShape e = true


/-! ### table facts used by the constructors (regenerated tables: a source edit re-runs them) -/

theorem assoc_sub : associative .sub = false := by decide
theorem assoc_mod : associative .mod = false := by decide
theorem assoc_cmp : ∀ k : BinK, cmpK k = true → associative k.op = false := by
  intro k h
  cases k <;> simp [cmpK] at h <;> decide

theorem negate_cmp_core : ∀ k : BinK, cmpK k = true → ∀ n, negateOp k.op = some n → coreBin n = true := by
  intro k h n hn
  cases k <;> simp [cmpK] at h <;> (simp [BinK.op, negateOp] at hn; subst hn; rfl)

theorem cmpK_coreBin : ∀ k : BinK, cmpK k = true → coreBin k.op = true := by
  intro k h
  cases k <;> simp [cmpK] at h <;> rfl

theorem arithK_coreBin : ∀ k : BinK, arithK k = true → coreBin k.op = true := by
  intro k h
  cases k <;> simp [arithK] at h <;> rfl

theorem arithK_isArith : ∀ k : BinK, arithK k = true → k.isArith = true := by
  intro k h
  cases k <;> simp [arithK] at h <;> rfl

theorem numK_isArith : ∀ k : BinK, numK k = true → k.isArith = true := by
  intro k h
  cases k <;> simp [numK, arithK, divK] at h <;> rfl

theorem numK_cases {k : BinK} (h : numK k = true) : arithK k = true ∨ divK k = true := by
  simpa [numK] using h

theorem divK_coreDiv : ∀ k : BinK, divK k = true → coreDiv k.op = true := by
  intro k h
  cases k <;> simp [divK] at h <;> rfl

theorem cmpK_not_isArith : ∀ k : BinK, cmpK k = true → k.isArith = false := by
  intro k h
  cases k <;> simp [cmpK] at h <;> rfl

end SaVerif.Expr

namespace SaVerif.Expr
open SaVerif.Expr.Gen SaVerif.Pratt SaExpr

theorem coreList_mem' : ∀ (cs : List SaExpr), CoreList cs = true → ∀ c ∈ cs, Core c = true
  | [], _, c, hc => by simp at hc
  | x :: xs, h, c, hc => by
    simp only [CoreList, Bool.and_eq_true] at h
    simp only [List.mem_cons] at hc
    rcases hc with hc | hc
    · subst hc; exact h.1
    · exact coreList_mem' xs h.2 c hc

theorem wgList_mem : ∀ (op : Op) (cs : List SaExpr), WGList op cs = true →
    ∀ c ∈ cs, WG c = true ∧ wouldGroup (some op) c = false
  | _, [], _, c, hc => by simp at hc
  | op, x :: xs, h, c, hc => by
    simp only [WGList, Bool.and_eq_true, Bool.not_eq_true'] at h
    simp only [List.mem_cons] at hc
    rcases hc with hc | hc
    · subst hc; exact ⟨h.1.2, h.1.1⟩
    · exact wgList_mem op xs h.2 c hc

theorem coreList_of_forall : ∀ (cs : List SaExpr), (∀ c ∈ cs, Core c = true) → CoreList cs = true
  | [], _ => rfl
  | x :: xs, h => by
    simp only [CoreList, Bool.and_eq_true]
    exact ⟨h x (by simp), coreList_of_forall xs (fun c hc => h c (by simp [hc]))⟩

theorem coreList_not_in {op : Op} (h : coreList op = true) : inOp op = false := by
  cases op <;> simp [coreList] at h <;> rfl

/-- the operands a flattened chain takes over from a child (a chain of the same list operator)
    are core and well grouped -/
theorem flattened_core (op : Op) (hop : coreList op = true) : ∀ l : SaExpr, Core l = true → WG l = true →
    (operatorOf l = some op → ∀ c ∈ flattened l, Core c = true ∧ WG c = true) ∧ flattened l ≠ []
  | .binary op' a b n esc ty, hc, hw => by
    simp only [WG, Bool.and_eq_true] at hw
    refine ⟨?_, by simp [flattened]⟩
    intro ho c hcm
    simp only [operatorOf, Option.some.injEq] at ho; subst ho
    obtain ⟨hca, hk⟩ := core_binary hc
    have hcb : Core b = true := by
      rcases hk with ⟨_, _, h⟩ | ⟨hl, _, _, _⟩ | ⟨hi, _, _⟩ | ⟨hb, _, _⟩
      · exact h
      · rw [coreList_not_like hop] at hl; cases hl
      · rw [coreList_not_in hop] at hi; cases hi
      · rw [coreList_not_btw hop] at hb; cases hb
    simp only [flattened, List.mem_cons, List.mem_nil_iff, or_false] at hcm
    rcases hcm with h | h
    · subst h; exact ⟨hca, hw.1.2⟩
    · subst h; exact ⟨hcb, hw.2⟩
  | .clist op' cs gr bl ty, hc, hw => by
    simp only [Core, Bool.and_eq_true, decide_eq_true_eq] at hc
    simp only [WG] at hw
    refine ⟨?_, ?_⟩
    · intro _ c hcm
      simp only [flattened] at hcm
      exact ⟨coreList_mem' cs hc.2 c hcm, (wgList_mem op' cs hw c hcm).1⟩
    · simp only [flattened]
      intro h
      rw [h] at hc
      simp at hc
  | .grouping e, hc, hw => by
    simp only [flattened, operatorOf]
    exact flattened_core op hop e (by simpa [Core] using hc) (by simpa [WG] using hw)
  | .col _ _, hc, hw => ⟨by intro _ c h; simp [flattened] at h; subst h; exact ⟨hc, hw⟩, by simp [flattened]⟩
  | .bind _ _, hc, hw => ⟨by intro _ c h; simp [flattened] at h; subst h; exact ⟨hc, hw⟩, by simp [flattened]⟩
  | .null, hc, hw => ⟨by intro _ c h; simp [flattened] at h; subst h; exact ⟨hc, hw⟩, by simp [flattened]⟩
  | .true_, hc, hw => ⟨by intro _ c h; simp [flattened] at h; subst h; exact ⟨hc, hw⟩, by simp [flattened]⟩
  | .false_, hc, hw => ⟨by intro _ c h; simp [flattened] at h; subst h; exact ⟨hc, hw⟩, by simp [flattened]⟩
  | .unary _ _ _, hc, hw => ⟨by intro _ c h; simp [flattened] at h; subst h; exact ⟨hc, hw⟩, by simp [flattened]⟩
  | .asbool _ _ _, hc, _ => by simp [Core] at hc
  | .case_ _ _ _ _, hc, hw => ⟨by intro _ c h; simp [flattened] at h; subst h; exact ⟨hc, hw⟩, by simp [flattened]⟩
  | .cast _ _, hc, hw => ⟨by intro _ c h; simp [flattened] at h; subst h; exact ⟨hc, hw⟩, by simp [flattened]⟩
  | .func _ _ _, hc, hw => ⟨by intro _ c h; simp [flattened] at h; subst h; exact ⟨hc, hw⟩, by simp [flattened]⟩
  | .subq _ _, hc, hw => ⟨by intro _ c h; simp [flattened] at h; subst h; exact ⟨hc, hw⟩, by simp [flattened]⟩
  | .inlist _ _ _, hc, _ => by simp [Core] at hc
  | .inrows _ _ _, hc, _ => by simp [Core] at hc
  | .tuple_ _, hc, _ => by simp [Core] at hc
  | .litcol _ _, hc, _ => by simp [Core] at hc
  | .ilikeOperand _, hc, _ => by simp [Core] at hc
  | .absent, hc, _ => by simp [Core] at hc

theorem assoc_coreBin_coreList {op : Op} (h : coreBin op = true) (ha : associative op = true) :
    coreList op = true ∧ boolCtx op = false := by
  cases op <;> simp [coreBin] at h <;> first | (exact ⟨rfl, rfl⟩) | (exact absurd ha (by decide))

/-- **constructForOp_core**: `_construct_for_op` (flattening or `BinaryExpression`) over well
    grouped core operands gives a well grouped core element of type `ty` -/
theorem constructForOp_core (l r : SaExpr) (op : Op) (ty : Ty) (n : Option Op)
    (hop : coreBin op = true)
    (hcl : Core l = true) (hwl : WG l = true) (hcr : Core r = true) (hwr : WG r = true) :
    Core (constructForOp l r op ty n none) = true ∧ WG (constructForOp l r op ty n none) = true ∧
      tyOf (constructForOp l r op ty n none) = ty ∧
      ((∃ a b, constructForOp l r op ty n none = .binary op a b n none ty) ∨
       (associative op = true ∧ ∃ cs, constructForOp l r op ty n none = .clist op cs true false ty)) := by
  unfold constructForOp
  by_cases ha : associative op = true
  · simp only [ha, if_true]
    by_cases hf : (operatorOf l = some op ∧ ty = tyOf l) ∨ (operatorOf r = some op ∧ ty = tyOf r)
    · simp only [hf, if_true]
      obtain ⟨hcL, hb⟩ := assoc_coreBin_coreList hop ha
      obtain ⟨fl, fln⟩ := flattened_core op hcL l hcl hwl
      obtain ⟨fr, frn⟩ := flattened_core op hcL r hcr hwr
      have hall : ∀ c ∈ (if operatorOf l = some op ∧ ty = tyOf l then flattened l else [l]) ++
          (if operatorOf r = some op ∧ ty = tyOf r then flattened r else [r]),
          Core c = true ∧ WG c = true := by
        intro c hc
        simp only [List.mem_append] at hc
        rcases hc with hc | hc
        · split at hc
          · rename_i h1; exact fl h1.1 c hc
          · simp at hc; subst hc; exact ⟨hcl, hwl⟩
        · split at hc
          · rename_i h1; exact fr h1.1 c hc
          · simp at hc; subst hc; exact ⟨hcr, hwr⟩
      have hlen : 2 ≤ ((if operatorOf l = some op ∧ ty = tyOf l then flattened l else [l]) ++
          (if operatorOf r = some op ∧ ty = tyOf r then flattened r else [r])).length := by
        have h1 : 1 ≤ (if operatorOf l = some op ∧ ty = tyOf l then flattened l else [l]).length := by
          split
          · cases hh : flattened l with
            | nil => exact absurd hh fln
            | cons a as => simp
          · simp
        have h2 : 1 ≤ (if operatorOf r = some op ∧ ty = tyOf r then flattened r else [r]).length := by
          split
          · cases hh : flattened r with
            | nil => exact absurd hh frn
            | cons a as => simp
          · simp
        simp only [List.length_append]
        omega
      obtain ⟨c1, w1⟩ := constructForList_WG op ty _ hcL hb hlen
        (coreList_of_forall _ (fun c hc => (hall c hc).1)) (fun c hc => (hall c hc).2)
      exact ⟨c1, w1, rfl, Or.inr ⟨trivial, _, rfl⟩⟩
    · simp only [hf, if_false]
      obtain ⟨c1, w1⟩ := mkBinary_WG l r op ty n hop hcl hwl hcr hwr
      exact ⟨c1, w1, rfl, Or.inl ⟨_, _, rfl⟩⟩
  · simp only [ha, Bool.false_eq_true, if_false]
    obtain ⟨c1, w1⟩ := mkBinary_WG l r op ty n hop hcl hwl hcr hwr
    exact ⟨c1, w1, rfl, Or.inl ⟨_, _, rfl⟩⟩

/-- `_construct_for_op` for the two divisions: never flattened -/
theorem constructForOp_div (l r : SaExpr) (op : Op) (ty : Ty) (n : Option Op)
    (hop : coreDiv op = true)
    (hcl : Core l = true) (hwl : WG l = true) (hcr : Core r = true) (hwr : WG r = true) :
    constructForOp l r op ty n none = mkBinary l r op ty n none ∧
    Core (mkBinary l r op ty n none) = true ∧ WG (mkBinary l r op ty n none) = true := by
  have ha : associative op = false := by
    cases op <;> simp [coreDiv] at hop <;> decide
  obtain ⟨c1, w1⟩ := mkBinary_WG' l r op ty n (coreBinD_of_div hop) hcl hwl hcr hwr
  exact ⟨by simp [constructForOp, ha], c1, w1⟩

end SaVerif.Expr

namespace SaVerif.Expr
open SaVerif.Expr.Gen SaVerif.Pratt SaExpr

theorem numTy_cases {t : Ty} (h : numTy t = true) : t = .int ∨ t = .num := by
  cases t <;> simp [numTy] at h <;> simp

theorem adapt_num (op : Op) (lt rt : Ty) (h : numTy lt = true) :
    (adaptExpression op lt rt).1 = op ∧ numTy (adaptExpression op lt rt).2 = true := by
  rcases numTy_cases h with h | h <;> subst h
  · constructor
    · rfl
    · cases op <;> cases rt <;> rfl
  · exact ⟨rfl, rfl⟩

/-- `x <op> y` for an arithmetic operator over numeric elements (`_binary_operate`) -/
theorem binaryOperate_num (x y : SaExpr) (k : BinK) (hk : numK k = true) (hx : NumE x) (hy : NumE y) :
    NumE (binaryOperate x k.op y) := by
  obtain ⟨h1, h2⟩ := adapt_num k.op (tyOf x) (tyOf y) hx.ty
  unfold binaryOperate
  have e : adaptExpression k.op (tyOf x) (tyOf y) =
      (k.op, (adaptExpression k.op (tyOf x) (tyOf y)).2) := Prod.ext h1 rfl
  rw [e]
  simp only
  rcases numK_cases hk with hk | hk
  · obtain ⟨c, w, t, sh⟩ := constructForOp_core x y k.op (adaptExpression k.op (tyOf x) (tyOf y)).2 none
      (arithK_coreBin k hk) hx.core hx.wg hy.core hy.wg
    have hr : decide (precOf .between_op < precOf k.op) = true := by
      cases k <;> simp [arithK] at hk <;> decide
    refine ⟨c, w, by rw [t]; exact h2, ?_, ?_⟩
    · rcases sh with ⟨a, b, he⟩ | ⟨_, cs, he⟩ <;> rw [he] <;> rfl
    · rcases sh with ⟨a, b, he⟩ | ⟨_, cs, he⟩ <;> rw [he] <;> exact hr
  · obtain ⟨he, c, w⟩ := constructForOp_div x y k.op (adaptExpression k.op (tyOf x) (tyOf y)).2 none
      (divK_coreDiv k hk) hx.core hx.wg hy.core hy.wg
    rw [he]
    have hr : decide (precOf .between_op < precOf k.op) = true := by
      cases k <;> simp [divK] at hk <;> decide
    exact ⟨c, w, h2, rfl, hr⟩

theorem adapt_concat : ∀ lt rt : Ty, (adaptExpression .concat_op lt rt).1 = .concat_op := by
  intro lt rt
  cases lt <;> cases rt <;> rfl

/-- `x.concat(y)` over value operands (`_binary_operate` with `concat_op`) -/
theorem binaryOperate_concat (x y : SaExpr) (hx : OpndE x) (hy : OpndE y) :
    OpndE (binaryOperate x .concat_op y) ∧ catOpnd (binaryOperate x .concat_op y) = true := by
  have h1 := adapt_concat (tyOf x) (tyOf y)
  unfold binaryOperate
  have e : adaptExpression .concat_op (tyOf x) (tyOf y) =
      (.concat_op, (adaptExpression .concat_op (tyOf x) (tyOf y)).2) := Prod.ext h1 rfl
  rw [e]
  simp only
  obtain ⟨c, w, _, sh⟩ := constructForOp_core x y .concat_op (adaptExpression .concat_op (tyOf x) (tyOf y)).2 none
    rfl hx.core hx.wg hy.core hy.wg
  rcases sh with ⟨a, b, he⟩ | ⟨_, cs, he⟩
  · exact ⟨⟨c, w, by rw [he]; rfl⟩, by rw [he]; rfl⟩
  · exact ⟨⟨c, w, by rw [he]; rfl⟩, by rw [he]; rfl⟩

theorem negImpl_num (x : SaExpr) (hx : NumE x) : NumE (negImpl x) := by
  obtain ⟨c, w⟩ := unary_WG x .neg (tyOf x) rfl hx.core hx.wg
  exact ⟨c, w, hx.ty, rfl, by show decide (precOf .between_op < precOf .neg) = true; decide⟩

theorem numE_not_const {x : SaExpr} (hx : OpndE x) :
    (match x with | .null => true | .true_ => true | .false_ => true | _ => false) = false := by
  have := hx.shape
  cases x <;> simp [numShape] at this <;> rfl

theorem negate_isSome_cmp : ∀ k : BinK, cmpK k = true → ∃ n, negateOp k.op = some n := by
  intro k h
  cases k <;> simp [cmpK] at h <;> exact ⟨_, rfl⟩

theorem boolE_of_construct (x y : SaExpr) (op : Op) (n : Op) (hop : coreBin op = true)
    (hna : associative op = false) (hn : coreBin n = true)
    (hcx : Core x = true) (hwx : WG x = true) (hcy : Core y = true) (hwy : WG y = true) :
    BoolE (constructForOp x y op .bool (some n) none) := by
  obtain ⟨c, w, _, sh⟩ := constructForOp_core x y op .bool (some n) hop hcx hwx hcy hwy
  refine ⟨c, w, ?_⟩
  rcases sh with ⟨a, b, he⟩ | ⟨ha, _⟩
  · rw [he]; simp [boolShape, hn, hop]
  · rw [hna] at ha; cases ha

/-- comparison of two numeric elements (`_boolean_compare`, non-constant right side) -/
theorem booleanCompare_num (x y : SaExpr) (k : BinK) (hk : cmpK k = true) (hx : OpndE x) (hy : OpndE y) :
    ∃ e, booleanCompare x k.op y (negateOp k.op) none = some e ∧ BoolE e := by
  obtain ⟨n, hn⟩ := negate_isSome_cmp k hk
  have hc := numE_not_const hy
  refine ⟨constructForOp x y k.op .bool (some n) none, ?_, ?_⟩
  · have hs := hy.shape
    rw [hn]
    cases y <;> simp [numShape] at hs <;> rfl
  · exact boolE_of_construct x y k.op n (cmpK_coreBin k hk) (assoc_cmp k hk)
      (negate_cmp_core k hk n hn) hx.core hx.wg hy.core hy.wg

/-- `x == None`, `x != None`, `x.is_(None)`, `x.is_not(None)` -/
theorem booleanCompare_null (x : SaExpr) (k : BinK) (hk : k = .eq ∨ k = .ne ∨ k = .is_ ∨ k = .isnot)
    (hx : OpndE x) :
    ∃ e, booleanCompare x k.op .null (negateOp k.op) none = some e ∧ BoolE e := by
  have hnull : Core SaExpr.null = true ∧ WG SaExpr.null = true := ⟨rfl, rfl⟩
  rcases hk with h | h | h | h <;> subst h
  · exact ⟨_, rfl, boolE_of_construct x .null .is_ .is_not rfl (by decide) rfl hx.core hx.wg hnull.1 hnull.2⟩
  · exact ⟨_, rfl, boolE_of_construct x .null .is_not .is_ rfl (by decide) rfl hx.core hx.wg hnull.1 hnull.2⟩
  · exact ⟨_, rfl, boolE_of_construct x .null .is_ .is_not rfl (by decide) rfl hx.core hx.wg hnull.1 hnull.2⟩
  · exact ⟨_, rfl, boolE_of_construct x .null .is_not .is_ rfl (by decide) rfl hx.core hx.wg hnull.1 hnull.2⟩

end SaVerif.Expr

namespace SaVerif.Expr
open SaVerif.Expr.Gen SaVerif.Pratt SaExpr

/-! ### negation -/

theorem wouldGroup_closed (a : Option Op) (c : SaExpr) (h : closedE c = true) : wouldGroup a c = false := by
  cases c <;> simp [closedE, rootOp] at h <;> rfl

/-- `self_group` leaves an operand without root operator alone (outside boolean contexts) -/
theorem selfGroup_closed (a : Op) (c : SaExpr) (h : closedE c = true) (hb : boolCtx a = false) :
    selfGroup (some a) c = c := by
  have hcol : columnSelfGroup (some a) c = c := by
    simp only [boolCtx, Bool.or_eq_false_iff, decide_eq_false_iff_not] at hb
    simp [columnSelfGroup, hb.1.1, hb.1.2, hb.2]
  unfold selfGroup
  rw [wouldGroup_closed _ c h]
  simp only [Bool.false_eq_true, if_false]
  cases c <;> first | rfl | exact hcol | (simp [closedE, rootOp] at h)

theorem likePair_ops {op n : Op} (h : likePair op n = true) :
    likeOp op = true ∧ likeOp n = true ∧ likePair n op = true := by
  simp only [likePair, Bool.or_eq_true, Bool.and_eq_true, decide_eq_true_eq] at h
  rcases h with ((⟨h1, h2⟩ | ⟨h1, h2⟩) | ⟨h1, h2⟩) | ⟨h1, h2⟩ <;> subst h1 <;> subst h2 <;>
    exact ⟨rfl, rfl, rfl⟩

theorem inPair_ops {op n : Op} (h : inPair op n = true) :
    inOp op = true ∧ inOp n = true ∧ inPair n op = true := by
  simp only [inPair, Bool.or_eq_true, Bool.and_eq_true, decide_eq_true_eq] at h
  rcases h with ⟨h1, h2⟩ | ⟨h1, h2⟩ <;> subst h1 <;> subst h2 <;> exact ⟨rfl, rfl, rfl⟩

theorem btwPair_ops {op n : Op} (h : btwPair op n = true) :
    btwOp op = true ∧ btwOp n = true ∧ btwPair n op = true := by
  simp only [btwPair, Bool.or_eq_true, Bool.and_eq_true, decide_eq_true_eq] at h
  rcases h with ⟨h1, h2⟩ | ⟨h1, h2⟩ <;> subst h1 <;> subst h2 <;> exact ⟨rfl, rfl, rfl⟩

theorem coreBin_not_btw {op : Op} (h : coreBin op = true) : btwOp op = false :=
  coreBinD_not_btw (coreBinD_of_bin h)

theorem coreBinD_not_in {op : Op} (h : coreBinD op = true) : inOp op = false := by
  rcases coreBinD_cases h with h | h
  · cases op <;> simp [coreBin] at h <;> rfl
  · cases op <;> simp [coreDiv] at h <;> rfl

theorem coreBin_not_in {op : Op} (h : coreBin op = true) : inOp op = false :=
  coreBinD_not_in (coreBinD_of_bin h)

theorem negateInBinary_core (r : SaExpr) (n op : Op) (h : Core r = true) : negateInBinary r n op = r := by
  cases r <;> first | rfl | (simp [Core] at h)

theorem unary_inv_boolE (e : SaExpr) (ty : Ty) (hc : Core e = true) (hw : WG e = true) :
    BoolE (.unary .inv (selfGroup (some .inv) (selfGroup (some .inv) e)) ty) := by
  obtain ⟨c1, w1, _⟩ := selfGroup_core .inv e hc hw (Or.inl rfl)
  obtain ⟨c2, w2, g2⟩ := selfGroup_core .inv _ c1 w1 (Or.inl rfl)
  exact ⟨by simp [Core, coreUn, c2], by simp [WG, w2, g2], rfl⟩

/-- **negate_bool**: `~e` of a boolean element of the fragment (`_negate`) stays in the
    fragment and well grouped -/
theorem negate_bool (e : SaExpr) (h : BoolE e) : BoolE (negate e) := by
  obtain ⟨hc, hw, hs⟩ := h
  cases e with
  | binary op l r n esc ty =>
    cases n with
    | none => simp [boolShape] at hs
    | some n =>
      obtain ⟨hcl, hk⟩ := core_binary hc
      simp only [WG, Bool.and_eq_true] at hw
      simp only [boolShape, Bool.or_eq_true, Bool.and_eq_true] at hs
      rcases hs with ((hs | hs) | hs) | hs
      · have hcr : Core r = true := by
          rcases hk with ⟨_, _, h⟩ | ⟨hl, _, _, _⟩ | ⟨hi, _, _⟩ | ⟨hb, _, _⟩
          · exact h
          · rw [coreBinD_not_like (coreBinD_of_bin hs.1.1)] at hl; cases hl
          · rw [coreBin_not_in hs.1.1] at hi; cases hi
          · rw [coreBin_not_btw hs.1.1] at hb; cases hb
        simp only [negate, negateInBinary_core r n op hcr]
        obtain ⟨c, w⟩ := mkBinary_WG l r n ty (some op) hs.1.2 hcl hw.1.2 hcr hw.2
        have he : esc = none := by cases esc <;> simp at hs ⊢
        subst he
        exact ⟨c, w, by simp [mkBinary, boolShape, hs.1.1, hs.1.2]⟩
      · -- the LIKE family: operands are closed, `self_group` leaves them alone
        have hlo : likeOp op = true := (likePair_ops hs).1
        have hln : likeOp n = true ∧ likePair n op = true := (likePair_ops hs).2
        rcases hk with ⟨hbd, _, _⟩ | ⟨_, cl, cr, hcr⟩ | ⟨hi, _, _⟩ | ⟨hb, _, _⟩
        case inr.inr.inr => rw [btwOp_not_like hb] at hlo; cases hlo
        · rw [coreBinD_not_like hbd] at hlo; cases hlo
        · simp only [negate, negateInBinary_core r n op hcr]
          have hbn : boolCtx n = false := by
            cases n <;> simp [likeOp] at hln <;> rfl
          rw [show mkBinary l r n ty (some op) esc = .binary n l r (some op) esc ty from by
            simp only [mkBinary, selfGroup_closed n l cl hbn, selfGroup_closed n r cr hbn]]
          refine ⟨?_, ?_, ?_⟩
          · simp [Core, hln.1, cl, cr, hcl, hcr]
          · have hwl : wouldGroup (some n) l = false := wouldGroup_closed _ l cl
            have hwr : wouldGroup (some n) r = false := wouldGroup_closed _ r cr
            simp [WG, hwl, hwr, hw.1.2, hw.2]
          · simp [boolShape, hln.2]
        · rw [inOp_not_like hi] at hlo; cases hlo
      · -- IN / NOT IN: the expanding parameter switches to the negated operator
        have hio : inOp op = true := (inPair_ops hs.1).1
        have hin : inOp n = true ∧ inPair n op = true := (inPair_ops hs.1).2
        have he : esc = none := by cases esc <;> simp at hs ⊢
        subst he
        rcases hk with ⟨hbd, _, _⟩ | ⟨hl, _, _, _⟩ | ⟨_, _, hir⟩ | ⟨hb, _, _⟩
        case inr.inr.inr => rw [inOp_not_btw hio] at hb; cases hb
        · rw [coreBinD_not_in hbd] at hio; cases hio
        · rw [inOp_not_like hio] at hl; cases hl
        · obtain ⟨vs, lty, hr, hne⟩ := inRight_cases hir
          subst hr
          have hbn : boolCtx n = false := by
            cases n <;> simp [inOp] at hin <;> rfl
          obtain ⟨c1, w1, g1⟩ := selfGroup_core n l hcl hw.1.2 (Or.inl hbn)
          have hve : vs.isEmpty = false := by cases vs <;> simp at hne ⊢
          have hsg : selfGroup (some n) (SaExpr.inlist vs lty n) = .inlist vs lty n := by
            simp [selfGroup, wouldGroup]
          simp only [negate, negateInBinary, if_true, mkBinary, hsg]
          refine ⟨?_, ?_, ?_⟩
          · simp [Core, c1, hin.1, inRight, hve]
          · have g2 : wouldGroup (some n) (SaExpr.inlist vs lty n) = false := rfl
            simp [WG, w1, g1, g2]
          · simp [boolShape, hin.2]
      · -- BETWEEN / NOT BETWEEN: the ungrouped pair of bounds is taken over unchanged
        have hbo : btwOp op = true := (btwPair_ops hs.1).1
        have hbn : btwOp n = true ∧ btwPair n op = true := (btwPair_ops hs.1).2
        have he : esc = none := by cases esc <;> simp at hs ⊢
        subst he
        rcases hk with ⟨hbd, _, _⟩ | ⟨hl, _, _, _⟩ | ⟨hi, _, _⟩ | ⟨_, _, hbr⟩
        · rw [coreBinD_not_btw hbd] at hbo; cases hbo
        · rw [btwOp_not_like hbo] at hl; cases hl
        · rw [inOp_not_btw hi] at hbo; cases hbo
        · obtain ⟨lo, hi, cty, hr, hclo, hchi, alo, ahi⟩ := coreBtw_cases hbr
          subst hr
          have hbc : boolCtx n = false := by
            cases n <;> simp [btwOp] at hbn <;> rfl
          obtain ⟨c1, w1, g1⟩ := selfGroup_core n l hcl hw.1.2 (Or.inl hbc)
          have hsg : selfGroup (some n) (SaExpr.clist .and_ [lo, hi] false false cty) =
              .clist .and_ [lo, hi] false false cty := by
            cases n <;> simp [btwOp] at hbn <;> simp [selfGroup, wouldGroup]
          have g2 : wouldGroup (some n) (SaExpr.clist .and_ [lo, hi] false false cty) = false := by
            cases n <;> simp [btwOp] at hbn <;> simp [wouldGroup]
          simp only [negate, negateInBinary, mkBinary, hsg]
          refine ⟨?_, ?_, ?_⟩
          · simp [Core, c1, hbn.1, CoreBtw, hclo, hchi, alo, ahi]
          · have hw2 : WGList .and_ [lo, hi] = true := by simpa [WG] using hw.2
            simp [WG, w1, g1, g2, hw2]
          · simp [boolShape, hbn.2]
  | clist op cs gr bl ty => exact unary_inv_boolE _ _ hc hw
  | unary op x ty =>
    simp only [negate]
    exact unary_inv_boolE _ _ hc hw
  | col _ _ => simp [boolShape] at hs
  | bind _ _ => simp [boolShape] at hs
  | null => simp [boolShape] at hs
  | true_ => simp [boolShape] at hs
  | false_ => simp [boolShape] at hs
  | asbool _ _ _ => simp [boolShape] at hs
  | grouping _ => simp [boolShape] at hs
  | case_ _ _ _ _ => simp [boolShape] at hs
  | cast _ _ => simp [boolShape] at hs
  | func _ _ _ => simp [boolShape] at hs
  | subq _ _ => simp [boolShape] at hs
  | inlist _ _ _ => simp [boolShape] at hs
  | inrows _ _ _ => simp [boolShape] at hs
  | tuple_ _ => simp [boolShape] at hs
  | litcol _ _ => simp [boolShape] at hs
  | ilikeOperand _ => simp [boolShape] at hs
  | absent => simp [boolShape] at hs

end SaVerif.Expr

namespace SaVerif.Expr
open SaVerif.Expr.Gen SaVerif.Pratt SaExpr

/-! ### `and_` / `or_` -/

theorem boolE_not_const {e : SaExpr} (h : BoolE e) : isTrueConst e = false ∧ isFalseConst e = false := by
  have hs := h.shape
  cases e <;> simp [boolShape] at hs <;> exact ⟨rfl, rfl⟩

theorem pcb_tail (operator : Op) (isC isS : SaExpr → Bool) :
    ∀ (cs : List SaExpr) (hc : Option SaExpr) (conv : List SaExpr),
      (∀ c ∈ cs, isC c = false ∧ isS c = false) →
      pcbLoop operator isC isS cs hc conv operator 2 = (hc, conv ++ cs, operator, 2)
  | [], hc, conv, _ => by simp [pcbLoop]
  | c :: cs, hc, conv, h => by
    obtain ⟨h1, h2⟩ := h c (by simp)
    simp only [pcbLoop, h1, h2, Bool.false_eq_true, if_false]
    rw [pcb_tail operator isC isS cs hc (conv ++ [c]) (fun x hx => h x (by simp [hx]))]
    simp

/-- without TRUE/FALSE constants among the clauses nothing is folded away -/
theorem processClauses_noconst (operator : Op) (cs : List SaExpr)
    (hop : operator = .and_ ∨ operator = .or_)
    (h : ∀ c ∈ cs, isTrueConst c = false ∧ isFalseConst c = false) :
    processClauses operator cs =
      match cs with
      | [] => (0, [])
      | [c] => (1, [selfGroup (some .asbool_) c])
      | c1 :: c2 :: rest => (2, (c1 :: c2 :: rest).map (selfGroup (some operator))) := by
  have hboth : ∀ c ∈ cs,
      (if operator = .and_ then isTrueConst else isFalseConst) c = false ∧
      (if operator = .and_ then isFalseConst else isTrueConst) c = false := by
    intro c hc
    obtain ⟨h1, h2⟩ := h c hc
    rcases hop with ho | ho <;> subst ho <;> simp [h1, h2]
  cases cs with
  | nil => simp [processClauses, pcbLoop]
  | cons c1 cs =>
    obtain ⟨a1, b1⟩ := hboth c1 (by simp)
    cases cs with
    | nil => simp [processClauses, pcbLoop, a1, b1]
    | cons c2 rest =>
      obtain ⟨a2, b2⟩ := hboth c2 (by simp)
      simp only [processClauses, pcbLoop, a1, b1, a2, b2, Bool.false_eq_true, if_false, if_true]
      rw [pcb_tail operator _ _ rest none _ (fun x hx => hboth x (by simp [hx]))]
      simp

theorem precOf_core_gt_asbool : ∀ op, (coreBin op = true ∨ coreList op = true ∨ coreUn op = true) →
    isPrecedent op (some .asbool_) = false := by
  intro op h
  cases op <;> simp [coreBin, coreList, coreUn] at h <;> decide

theorem precOf_like_gt_asbool : ∀ op, likeOp op = true → isPrecedent op (some .asbool_) = false := by
  intro op h
  cases op <;> simp [likeOp] at h <;> decide

theorem precOf_btw_gt_asbool : ∀ op, btwOp op = true → isPrecedent op (some .asbool_) = false := by
  intro op h
  cases op <;> simp [btwOp] at h <;> decide

theorem precOf_in_gt_asbool : ∀ op, inOp op = true → isPrecedent op (some .asbool_) = false := by
  intro op h
  cases op <;> simp [inOp] at h <;> decide

theorem selfGroup_asbool_boolE (c : SaExpr) (h : BoolE c) : selfGroup (some .asbool_) c = c := by
  obtain ⟨hc, _, hs⟩ := h
  cases c with
  | binary op l r n esc ty =>
    have : isPrecedent op (some .asbool_) = false := by
      cases n with
      | none => simp [boolShape] at hs
      | some n =>
        simp only [boolShape, Bool.or_eq_true, Bool.and_eq_true] at hs
        rcases hs with ((hs | hs) | hs) | hs
        · exact precOf_core_gt_asbool op (Or.inl hs.1.1)
        · exact precOf_like_gt_asbool op (likePair_ops hs).1
        · exact precOf_in_gt_asbool op (inPair_ops hs.1).1
        · exact precOf_btw_gt_asbool op (btwPair_ops hs.1).1
    simp [selfGroup, wouldGroup, this]
  | clist op cs gr bl ty =>
    simp only [Core, Bool.and_eq_true] at hc
    have := precOf_core_gt_asbool op (Or.inr (Or.inl hc.1.1.1))
    simp [selfGroup, wouldGroup, this]
  | unary op x ty =>
    simp only [Core, Bool.and_eq_true] at hc
    have := precOf_core_gt_asbool op (Or.inr (Or.inr hc.1))
    simp [selfGroup, wouldGroup, this]
  | col _ _ => simp [boolShape] at hs
  | bind _ _ => simp [boolShape] at hs
  | null => simp [boolShape] at hs
  | true_ => simp [boolShape] at hs
  | false_ => simp [boolShape] at hs
  | asbool _ _ _ => simp [boolShape] at hs
  | grouping _ => simp [boolShape] at hs
  | case_ _ _ _ _ => simp [boolShape] at hs
  | cast _ _ => simp [boolShape] at hs
  | func _ _ _ => simp [boolShape] at hs
  | subq _ _ => simp [boolShape] at hs
  | inlist _ _ _ => simp [boolShape] at hs
  | inrows _ _ _ => simp [boolShape] at hs
  | tuple_ _ => simp [boolShape] at hs
  | litcol _ _ => simp [boolShape] at hs
  | ilikeOperand _ => simp [boolShape] at hs
  | absent => simp [boolShape] at hs

/-- operands taken over from a flattened member are not re-grouped under the list operator -/
theorem flattened_not_grouped (op : Op) (hop : coreList op = true) :
    ∀ y : SaExpr, Core y = true → WG y = true → operatorOf y = some op →
      ∀ c ∈ flattened y, wouldGroup (some op) c = false
  | .binary op' l r n esc ty, _, hw, ho => by
    simp only [operatorOf, Option.some.injEq] at ho; subst ho
    simp only [WG, Bool.and_eq_true, Bool.not_eq_true'] at hw
    intro c hc
    simp only [flattened, List.mem_cons, List.mem_nil_iff, or_false] at hc
    rcases hc with h | h <;> subst h
    · exact hw.1.1.1
    · exact hw.1.1.2
  | .clist op' cs gr bl ty, _, hw, ho => by
    simp only [operatorOf, Option.some.injEq] at ho; subst ho
    simp only [WG] at hw
    intro c hc
    exact (wgList_mem op' cs hw c hc).2
  | .grouping e, hc, hw, ho => by
    simp only [flattened]
    exact flattened_not_grouped op hop e (by simpa [Core] using hc) (by simpa [WG] using hw)
      (by simpa [operatorOf] using ho)
  | .unary op' e ty, hc, _, ho => by
    simp only [operatorOf, Option.some.injEq] at ho; subst ho
    simp only [Core, Bool.and_eq_true] at hc
    have h1 := hc.1
    cases op' <;> simp [coreUn] at h1 <;> simp [coreList] at hop
  | .col _ _, _, _, ho => by simp [operatorOf] at ho
  | .bind _ _, _, _, ho => by simp [operatorOf] at ho
  | .null, _, _, ho => by simp [operatorOf] at ho
  | .true_, _, _, ho => by simp [operatorOf] at ho
  | .false_, _, _, ho => by simp [operatorOf] at ho
  | .asbool _ _ _, hc, _, _ => by simp [Core] at hc
  | .case_ _ _ _ _, _, _, ho => by simp [operatorOf] at ho
  | .cast _ _, _, _, ho => by simp [operatorOf] at ho
  | .func _ _ _, _, _, ho => by simp [operatorOf] at ho
  | .subq _ _, _, _, ho => by simp [operatorOf] at ho
  | .inlist _ _ _, hc, _, _ => by simp [Core] at hc
  | .inrows _ _ _, hc, _, _ => by simp [Core] at hc
  | .tuple_ _, hc, _, _ => by simp [Core] at hc
  | .litcol _ _, hc, _, _ => by simp [Core] at hc
  | .ilikeOperand _, hc, _, _ => by simp [Core] at hc
  | .absent, hc, _, _ => by simp [Core] at hc

theorem wgList_of_forall (op : Op) : ∀ (cs : List SaExpr),
    (∀ c ∈ cs, WG c = true ∧ wouldGroup (some op) c = false) → WGList op cs = true
  | [], _ => rfl
  | x :: xs, h => by
    obtain ⟨h1, h2⟩ := h x (by simp)
    simp [WGList, h1, h2, wgList_of_forall op xs (fun c hc => h c (by simp [hc]))]

/-- **boolConstruct_bool**: `and_(*clauses)` / `or_(*clauses)` over boolean elements of the
    fragment (`_construct`: self-grouping against the operator, flattening of nested lists of
    the same operator, single-element collapse) -/
theorem boolConstruct_bool (operator : Op) (hop : operator = .and_ ∨ operator = .or_)
    (cs : List SaExpr) (hne : cs ≠ []) (h : ∀ c ∈ cs, BoolE c) : BoolE (boolConstruct operator cs) := by
  have hcl : coreList operator = true := by rcases hop with ho | ho <;> subst ho <;> rfl
  have hnc : ∀ c ∈ cs, isTrueConst c = false ∧ isFalseConst c = false :=
    fun c hc => boolE_not_const (h c hc)
  unfold boolConstruct
  rw [processClauses_noconst operator cs hop hnc]
  cases cs with
  | nil => exact absurd rfl hne
  | cons c1 cs =>
    cases cs with
    | nil =>
      simp only [Nat.lt_irrefl, if_false, List.headD_cons]
      rw [selfGroup_asbool_boolE c1 (h c1 (by simp))]
      exact h c1 (by simp)
    | cons c2 rest =>
      simp only [if_true, show (1 : Nat) < 2 from by decide]
      -- every member of the flattened list
      have hb : boolCtx operator = true := by rcases hop with ho | ho <;> subst ho <;> rfl
      have hmem : ∀ x ∈ (c1 :: c2 :: rest), ∀ c ∈
          (if operatorOf (selfGroup (some operator) x) = some operator
            then flattened (selfGroup (some operator) x) else [selfGroup (some operator) x]),
          Core c = true ∧ WG c = true ∧ wouldGroup (some operator) c = false := by
        intro x hx c hc
        have bx := h x hx
        have hna : NonAtom x = true := by
          have hs := bx.shape
          cases x <;> simp [boolShape] at hs <;> rfl
        obtain ⟨cy, wy, gy⟩ := selfGroup_core operator x bx.core bx.wg (Or.inr hna)
        split at hc
        · rename_i ho
          obtain ⟨fc, _⟩ := flattened_core operator hcl _ cy wy
          exact ⟨(fc ho c hc).1, (fc ho c hc).2, flattened_not_grouped operator hcl _ cy wy ho c hc⟩
        · simp only [List.mem_singleton] at hc
          subst hc
          exact ⟨cy, wy, gy⟩
      have hall : ∀ c ∈ ((c1 :: c2 :: rest).map (selfGroup (some operator))).flatMap
          (fun c => if operatorOf c = some operator then flattened c else [c]),
          Core c = true ∧ WG c = true ∧ wouldGroup (some operator) c = false := by
        intro c hc
        simp only [List.mem_flatMap, List.mem_map] at hc
        obtain ⟨y, ⟨x, hx, rfl⟩, hcy⟩ := hc
        exact hmem x hx c hcy
      have hlen : 2 ≤ (((c1 :: c2 :: rest).map (selfGroup (some operator))).flatMap
          (fun c => if operatorOf c = some operator then flattened c else [c])).length := by
        have hpos : ∀ x ∈ (c1 :: c2 :: rest), 1 ≤
            (if operatorOf (selfGroup (some operator) x) = some operator
              then flattened (selfGroup (some operator) x) else [selfGroup (some operator) x]).length := by
          intro x hx
          have bx := h x hx
          have hna : NonAtom x = true := by
            have hs := bx.shape
            cases x <;> simp [boolShape] at hs <;> rfl
          obtain ⟨cy, wy, _⟩ := selfGroup_core operator x bx.core bx.wg (Or.inr hna)
          split
          · obtain ⟨_, fn⟩ := flattened_core operator hcl _ cy wy
            cases hh : flattened (selfGroup (some operator) x) with
            | nil => exact absurd hh fn
            | cons a as => simp
          · simp
        have h1 := hpos c1 (by simp)
        have h2 := hpos c2 (by simp)
        simp only [List.map_cons, List.flatMap_cons, List.length_append]
        omega
      refine ⟨?_, ?_, ?_⟩
      · simp only [Core, hcl, Bool.true_and, Bool.and_eq_true, decide_eq_true_eq]
        exact ⟨hlen, coreList_of_forall _ (fun c hc => (hall c hc).1)⟩
      · simp only [WG]
        exact wgList_of_forall operator _ (fun c hc => ⟨(hall c hc).2.1, (hall c hc).2.2⟩)
      · rcases hop with ho | ho <;> subst ho <;> rfl

end SaVerif.Expr

namespace SaVerif.Expr
open SaVerif.Expr.Gen SaVerif.Pratt SaExpr

/-! ### the LIKE family -/

theorem likeK_facts : ∀ k : LikeK, likeOp k.op = true ∧ associative k.op = false ∧
    ∃ n, negateOp k.op = some n ∧ likePair k.op n = true := by
  intro k
  cases k <;> exact ⟨rfl, by decide, _, rfl, rfl⟩

theorem like_not_boolCtx {op : Op} (h : likeOp op = true) : boolCtx op = false := by
  cases op <;> simp [likeOp] at h <;> rfl

/-- a string-valued operand under LIKE: a concatenation gets its parentheses (same precedence
    number), everything else is an atom or a bracket already -/
theorem like_opnd_closed (op : Op) (hl : likeOp op = true) (x : SaExpr) (hx : OpndE x)
    (hc : catOpnd x = true) : closedE (selfGroup (some op) x) = true := by
  by_cases hg : wouldGroup (some op) x = true
  · simp [selfGroup, hg, closedE, rootOp]
  · have hg' : wouldGroup (some op) x = false := by simpa using hg
    cases hr : rootOp x with
    | none =>
      have hcl : closedE x = true := by simp [closedE, hr]
      rw [selfGroup_closed op x hcl (like_not_boolCtx hl)]; exact hcl
    | some o =>
      simp only [catOpnd, hr, decide_eq_true_eq] at hc
      subst hc
      exfalso
      have hnp := not_precedent_of_not_wouldGroup hx.core hr hg'
      cases op <;> simp [likeOp] at hl <;> revert hnp <;> decide

theorem booleanCompare_opnd_eq (x y : SaExpr) (op : Op) (n : Option Op) (esc : Option String)
    (hy : OpndE y) :
    booleanCompare x op y n esc = some (constructForOp x y op .bool n esc) := by
  have hs := hy.shape
  cases y <;> simp [numShape] at hs <;> rfl

/-- `x.like(y, escape=…)` & co. over string-valued operands -/
theorem mkBinary_like (x y : SaExpr) (op n : Op) (esc : Option String) (hl : likeOp op = true)
    (hp : likePair op n = true) (hx : OpndE x) (hcx : catOpnd x = true)
    (hy : OpndE y) (hcy : catOpnd y = true) :
    BoolE (mkBinary x y op .bool (some n) esc) := by
  obtain ⟨c1, w1, g1⟩ := selfGroup_core op x hx.core hx.wg (Or.inl (like_not_boolCtx hl))
  obtain ⟨c2, w2, g2⟩ := selfGroup_core op y hy.core hy.wg (Or.inl (like_not_boolCtx hl))
  have k1 := like_opnd_closed op hl x hx hcx
  have k2 := like_opnd_closed op hl y hy hcy
  refine ⟨?_, ?_, ?_⟩
  · simp [mkBinary, Core, hl, k1, k2, c1, c2]
  · simp [mkBinary, WG, w1, w2, g1, g2]
  · simp [mkBinary, boolShape, hp]

/-! ### IN / NOT IN -/

theorem in_facts (negated : Bool) :
    let op := if negated then Op.not_in_op else Op.in_op
    inOp op = true ∧ associative op = false ∧ ∃ n, negateOp op = some n ∧ inPair op n = true := by
  cases negated <;> exact ⟨rfl, by decide, _, rfl, rfl⟩

/-- `x.in_([v₁, …])` / `x.not_in([…])` over a value operand and a non-empty list -/
theorem mkBinary_in (x : SaExpr) (op n : Op) (vs : List Lit) (lty : Ty) (hin : inOp op = true)
    (hp : inPair op n = true) (hx : OpndE x) (hne : vs ≠ []) :
    BoolE (mkBinary x (.inlist vs lty op) op .bool (some n) none) := by
  have hbn : boolCtx op = false := by cases op <;> simp [inOp] at hin <;> rfl
  obtain ⟨c1, w1, g1⟩ := selfGroup_core op x hx.core hx.wg (Or.inl hbn)
  have hve : vs.isEmpty = false := by cases vs <;> simp at hne ⊢
  have hsg : selfGroup (some op) (SaExpr.inlist vs lty op) = .inlist vs lty op := by
    simp [selfGroup, wouldGroup]
  have g2 : wouldGroup (some op) (SaExpr.inlist vs lty op) = false := rfl
  simp only [mkBinary, hsg]
  refine ⟨?_, ?_, ?_⟩
  · simp [Core, c1, hin, inRight, hve]
  · simp [WG, w1, g1, g2]
  · simp [boolShape, hp]

/-! ### BETWEEN -/

/-- regenerated table: every operator of the fragment has a precedence number -/
theorem precs_tbl : ∀ o, o ∈ coreInfix ∨ o ∈ corePrefix → (precedence o).isSome = true := by
  intro o h
  cases o <;> first | rfl | (simp [coreInfix, corePrefix] at h)

/-- an element whose root operator (if any) lies above BETWEEN is not wrapped by
    `self_group(against=and_)` -/
theorem wouldGroup_and_of_rootAbove (e : SaExpr) (hc : Core e = true)
    (h : rootAbove (precOf .between_op) e = true) : wouldGroup (some .and_) e = false := by
  cases e with
  | binary op l r n esc ty =>
    have hm := core_binary_mem hc
    simp only [rootAbove, decide_eq_true_eq] at h
    have : isPrecedent op (some .and_) = false := by
      cases op <;> first | (revert h; decide) | (simp [coreInfix] at hm)
    simp [wouldGroup, this]
  | clist op cs gr bl ty =>
    simp only [Core, Bool.and_eq_true] at hc
    have hm := coreList_mem hc.1.1.1
    simp only [rootAbove, decide_eq_true_eq] at h
    have : isPrecedent op (some .and_) = false := by
      cases op <;> first | (revert h; decide) | (simp [coreInfix] at hm)
    simp [wouldGroup, this]
  | unary op x ty =>
    simp only [Core, Bool.and_eq_true] at hc
    have hm := coreUn_mem hc.1
    simp only [rootAbove, decide_eq_true_eq] at h
    have : isPrecedent op (some .and_) = false := by
      cases op <;> first | (revert h; decide) | (simp [corePrefix] at hm)
    simpa [wouldGroup] using this
  | _ => rfl

/-- `x.between(lo, hi)` over an operand and two bounds whose exposed operators lie above BETWEEN -/
theorem betweenImpl_bool (x lo hi : SaExpr) (hx : OpndE x)
    (hclo : Core lo = true) (hwlo : WG lo = true) (rlo : rootAbove (precOf .between_op) lo = true)
    (hchi : Core hi = true) (hwhi : WG hi = true) (rhi : rootAbove (precOf .between_op) hi = true) :
    BoolE (betweenImpl x lo hi) := by
  have alo := above_of_WG precs_tbl lo _ hclo hwlo rlo
  have ahi := above_of_WG precs_tbl hi _ hchi hwhi rhi
  obtain ⟨c1, w1, g1⟩ := selfGroup_core .between_op x hx.core hx.wg (Or.inl rfl)
  have hsg : selfGroup (some .between_op) (SaExpr.clist .and_ [lo, hi] false false .null) =
      .clist .and_ [lo, hi] false false .null := by simp [selfGroup, wouldGroup]
  have g2 : wouldGroup (some .between_op) (SaExpr.clist .and_ [lo, hi] false false .null) = false := by
    simp [wouldGroup]
  have glo := wouldGroup_and_of_rootAbove lo hclo rlo
  have ghi := wouldGroup_and_of_rootAbove hi hchi rhi
  simp only [betweenImpl, mkBinary, hsg]
  refine ⟨?_, ?_, ?_⟩
  · simp [Core, c1, btwOp, CoreBtw, hclo, hchi, alo, ahi]
  · simp [WG, WGList, w1, g1, g2, glo, ghi, hwlo, hwhi]
  · simp [boolShape, btwPair]

/-! ### `build` over the API-call fragment -/

theorem pyReflected_num (x y : SaExpr) (hy : OpndE y) : pyReflected x y = false := by
  have hs := hy.shape
  cases y with
  | clist op cs gr bl ty =>
    cases bl with
    | true => simp [numShape] at hs
    | false => cases x <;> simp [pyReflected]
  | col _ _ => cases x <;> simp [pyReflected]
  | bind _ _ => cases x <;> simp [pyReflected]
  | binary _ _ _ _ _ _ => cases x <;> simp [pyReflected]
  | unary _ _ _ => cases x <;> simp [pyReflected]
  | case_ _ _ _ _ => cases x <;> simp [pyReflected]
  | cast _ _ => cases x <;> simp [pyReflected]
  | func _ _ _ => cases x <;> simp [pyReflected]
  | subq _ _ => cases x <;> simp [pyReflected]
  | null => simp [numShape] at hs
  | true_ => simp [numShape] at hs
  | false_ => simp [numShape] at hs
  | asbool _ _ _ => simp [numShape] at hs
  | grouping _ => simp [numShape] at hs
  | inlist _ _ _ => simp [numShape] at hs
  | inrows _ _ _ => simp [numShape] at hs
  | tuple_ _ => simp [numShape] at hs
  | litcol _ _ => simp [numShape] at hs
  | ilikeOperand _ => simp [numShape] at hs
  | absent => simp [numShape] at hs

theorem isAbsentU_eq {u : U} (h : isAbsentU u = true) : u = .absent := by
  cases u <;> first | rfl | (simp [isAbsentU] at h)

theorem numE_not_absent {x : SaExpr} (h : NumE x) : isAbsent x = false := by
  have := h.shape
  cases x <;> simp [numShape] at this <;> rfl

theorem numU_not_absent {u : U} (h : NumU u = true) : isAbsentU u = false := by
  cases u <;> first | rfl | (simp [NumU] at h)

/-- `x.self_group()` (no `against`) of a well grouped core element -/
theorem selfGroup_none_core (x : SaExpr) (hc : Core x = true) (hw : WG x = true) :
    Core (selfGroup none x) = true ∧ WG (selfGroup none x) = true := by
  unfold selfGroup
  by_cases hg : wouldGroup none x = true
  · simp only [hg, if_true]
    exact ⟨by simpa [Core] using hc, by simpa [WG] using hw⟩
  · have hg' : wouldGroup none x = false := by simpa using hg
    simp only [hg', Bool.false_eq_true, if_false]
    have hcol : columnSelfGroup none x = x := by simp [columnSelfGroup]
    cases x <;> first
      | exact ⟨hc, hw⟩
      | (show Core (columnSelfGroup _ _) = true ∧ WG (columnSelfGroup _ _) = true
         rw [hcol]; exact ⟨hc, hw⟩)

theorem map_selfGroup_all (op : Op) (hb : boolCtx op = false) :
    ∀ cs : List SaExpr, CoreList cs = true → WGAll cs = true →
      CoreList (cs.map (selfGroup (some op))) = true ∧ WGAll (cs.map (selfGroup (some op))) = true
  | [], _, _ => ⟨rfl, rfl⟩
  | c :: cs, hc, hw => by
    simp only [CoreList, WGAll, Bool.and_eq_true] at hc hw
    obtain ⟨c1, w1, _⟩ := selfGroup_core op c hc.1 hw.1 (Or.inl hb)
    obtain ⟨c2, w2⟩ := map_selfGroup_all op hb cs hc.2 hw.2
    simp [List.map_cons, CoreList, WGAll, c1, w1, c2, w2]

theorem coreList_of_numE : ∀ es : List SaExpr, (∀ e ∈ es, NumE e) → CoreList es = true ∧ WGAll es = true
  | [], _ => ⟨rfl, rfl⟩
  | e :: es, h => by
    obtain ⟨a, b⟩ := coreList_of_numE es (fun x hx => h x (by simp [hx]))
    simp [CoreList, WGAll, (h e (by simp)).core, (h e (by simp)).wg, a, b]

/-- `func.<name>(x, …)` of a `ReturnTypeFromArgs` function over numeric elements -/
theorem mkFunc_num (name : String) (x : SaExpr) (xs : List SaExpr) (h : ∀ e ∈ x :: xs, NumE e) :
    NumE (mkFunc name (x :: xs)) := by
  obtain ⟨hc, hw⟩ := coreList_of_numE (x :: xs) h
  obtain ⟨c, w⟩ := map_selfGroup_all .comma_op rfl (x :: xs) hc hw
  have hx := h x (by simp)
  have hne : tyOf x ≠ .null := by
    rcases numTy_cases hx.ty with h' | h' <;> rw [h'] <;> simp
  refine ⟨?_, ?_, ?_, rfl, rfl⟩
  · simp only [mkFunc, Core, Bool.and_eq_true]
    exact ⟨by simp, c⟩
  · simpa [mkFunc, WG] using w
  · simp only [mkFunc, List.find?_cons, hne, ne_eq, not_false_eq_true, decide_true, tyOf]
    exact hx.ty

theorem groupConds_core : ∀ ws : List SaExpr, CoreList ws = true → WGAll ws = true →
    CoreList (groupConds ws) = true ∧ WGAll (groupConds ws) = true ∧
      (groupConds ws).length = ws.length
  | [], _, _ => ⟨rfl, rfl, rfl⟩
  | [c], hc, hw => ⟨hc, hw, rfl⟩
  | c :: r :: rest, hc, hw => by
    simp only [CoreList, WGAll, Bool.and_eq_true] at hc hw
    obtain ⟨c1, w1⟩ := selfGroup_none_core c hc.1 hw.1
    obtain ⟨c2, w2, l2⟩ := groupConds_core rest hc.2.2 hw.2.2
    simp [groupConds, CoreList, WGAll, c1, w1, c2, w2, l2, hc.2.1, hw.2.1]

theorem caseResults_groupConds : ∀ ws : List SaExpr, caseResults (groupConds ws) = caseResults ws
  | [] => rfl
  | [_] => rfl
  | c :: r :: rest => by simp [groupConds, caseResults, caseResults_groupConds rest]

/-- `case(…)` whose results are numeric elements -/
theorem mkCase_num (v : SaExpr) (ws : List SaExpr) (e : SaExpr)
    (hv : isAbsent v = true ∨ NumE v) (hc : CoreList ws = true) (hw : WGAll ws = true)
    (hlen : 2 ≤ ws.length) (heven : ws.length % 2 = 0)
    (hres : ∀ r ∈ caseResults ws, numTy (tyOf r) = true) (hne : caseResults ws ≠ [])
    (he : isAbsent e = true ∨ NumE e) : NumE (mkCase v ws e) := by
  obtain ⟨c, w, l⟩ := groupConds_core ws hc hw
  have hvc : (isAbsent v || Core v) = true ∧ WG v = true := by
    rcases hv with h | h
    · cases v <;> simp [isAbsent] at h
      exact ⟨rfl, rfl⟩
    · simp [h.core, h.wg]
  have hec : (isAbsent e || Core e) = true ∧ WG e = true := by
    rcases he with h | h
    · cases e <;> simp [isAbsent] at h
      exact ⟨rfl, rfl⟩
    · simp [h.core, h.wg]
  refine ⟨?_, ?_, ?_, rfl, rfl⟩
  · simp only [mkCase, Core, Bool.and_eq_true, decide_eq_true_eq]
    rw [l]
    exact ⟨⟨⟨⟨hvc.1, c⟩, hlen⟩, heven⟩, hec.1⟩
  · simp only [mkCase, WG, Bool.and_eq_true]
    exact ⟨⟨hvc.2, w⟩, hec.2⟩
  · simp only [mkCase, tyOf]
    cases hf : (caseResults ws).reverse.find? (fun r => decide (tyOf r ≠ .null)) with
    | some r =>
      have hm := List.mem_of_find?_eq_some hf
      simp only [hf]
      exact hres r (by simpa using hm)
    | none =>
      exfalso
      cases hr : caseResults ws with
      | nil => exact hne hr
      | cons r rs =>
        have hall := List.find?_eq_none.mp hf r (by simp [hr])
        have ht := hres r (by simp [hr])
        rcases numTy_cases ht with h' | h' <;> simp [h'] at hall

theorem buildList_length : ∀ (us : List U) (es : List SaExpr), buildList us = some es →
    es.length = us.length
  | [], es, hb => by
    simp only [buildList, Option.some.injEq] at hb; subst hb; rfl
  | u :: us, es, hb => by
    simp only [buildList] at hb
    cases h1 : build u with
    | none => simp [h1] at hb
    | some x =>
      cases h2 : buildList us with
      | none => simp [h1, h2] at hb
      | some xs =>
        simp only [h1, h2, Option.some.injEq] at hb; subst hb
        simp [buildList_length us xs h2]

theorem cmp_reflected_cmp : ∀ k : BinK, cmpK k = true → ∀ k', k.reflected = some k' → cmpK k' = true := by
  intro k h k' hk
  cases k <;> simp [cmpK] at h <;> (simp [BinK.reflected] at hk; try (subst hk; rfl))

/-- what `build` yields for the flattened `(condition, result)` pairs of a searched CASE -/
structure SearchedE (es : List SaExpr) : Prop where
  core : CoreList es = true
  wg : WGAll es = true
  even : es.length % 2 = 0
  res : ∀ r ∈ caseResults es, numTy (tyOf r) = true

theorem caseResults_of_num : ∀ es : List SaExpr, (∀ e ∈ es, NumE e) →
    ∀ r ∈ caseResults es, numTy (tyOf r) = true
  | [], _ => by intro r hr; simp [caseResults] at hr
  | [_], _ => by intro r hr; simp [caseResults] at hr
  | c :: r :: rest, h => by
    intro r' hr
    simp only [caseResults, List.mem_cons] at hr
    rcases hr with hr | hr
    · subst hr; exact (h r' (by simp)).ty
    · exact caseResults_of_num rest (fun x hx => h x (by simp [hx])) r' hr

theorem caseResults_ne_nil : ∀ es : List SaExpr, 2 ≤ es.length → caseResults es ≠ []
  | [], h => by simp at h
  | [_], h => by simp at h
  | _ :: _ :: _, _ => by simp [caseResults]

mutual
/-- **build_num**: numeric API-call trees build numeric, well grouped core elements -/
theorem build_num : ∀ (u : U) (e : SaExpr), NumU u = true → build u = some e → NumE e
  | .col n ty, e, hu, hb => by
    simp only [build, Option.some.injEq] at hb; subst hb
    refine ⟨rfl, rfl, ?_, rfl, rfl⟩
    have : ty = .int ∨ ty = .num := by simpa [NumU] using hu
    rcases this with h | h <;> subst h <;> rfl
  | .subq n ty, e, hu, hb => by
    simp only [build, Option.some.injEq] at hb; subst hb
    refine ⟨rfl, rfl, ?_, rfl, rfl⟩
    have : ty = .int ∨ ty = .num := by simpa [NumU] using hu
    rcases this with h | h <;> subst h <;> rfl
  | .li i, e, _, hb => by
    simp only [build, Option.some.injEq] at hb; subst hb
    exact ⟨rfl, rfl, rfl, rfl, rfl⟩
  | .ln s, e, _, hb => by
    simp only [build, Option.some.injEq] at hb; subst hb
    exact ⟨rfl, rfl, rfl, rfl, rfl⟩
  | .neg a, e, hu, hb => by
    simp only [build] at hb
    cases ha : build a with
    | none => simp [ha] at hb
    | some x =>
      simp only [ha, Option.map_some, Option.some.injEq] at hb; subst hb
      exact negImpl_num x (build_num a x (by simpa [NumU] using hu) ha)
  | .cast ty a, e, hu, hb => by
    simp only [NumU, Bool.and_eq_true, Bool.or_eq_true, decide_eq_true_eq] at hu
    simp only [build] at hb
    cases ha : build a with
    | none => simp [ha] at hb
    | some x =>
      simp only [ha, Option.map_some, Option.some.injEq] at hb; subst hb
      have nx := build_num a x hu.2 ha
      refine ⟨by simpa [Core] using nx.core, by simpa [WG] using nx.wg, ?_, rfl, rfl⟩
      rcases hu.1 with h | h <;> subst h <;> rfl
  | .coalesce cs, e, hu, hb => by
    simp only [NumU, Bool.and_eq_true, Bool.not_eq_true'] at hu
    simp only [build] at hb
    cases hl : buildList cs with
    | none => simp [hl] at hb
    | some es =>
      simp only [hl, Option.map_some, Option.some.injEq] at hb; subst hb
      have hn := build_numList cs es hu.2 hl
      cases es with
      | nil =>
        have := buildList_length cs [] hl
        cases cs with
        | nil => simp at hu
        | cons _ _ => simp at this
      | cons x xs => exact mkFunc_num _ x xs hn
  | .case_ v ws el, e, hu, hb => by
    simp only [NumU, Bool.and_eq_true, Bool.not_eq_true', Bool.or_eq_true] at hu
    obtain ⟨⟨hne, hvw⟩, hel⟩ := hu
    simp only [build] at hb
    cases hv : build v with
    | none => simp [hv] at hb
    | some v' =>
      cases hl : buildList ws with
      | none => simp [hv, hl] at hb
      | some es =>
        cases he : build el with
        | none => simp [hv, hl, he] at hb
        | some e' =>
          simp only [hv, hl, he, Option.some.injEq] at hb; subst hb
          have hlen := buildList_length ws es hl
          have hE : isAbsent e' = true ∨ NumE e' := by
            rcases hel with h | h
            · have := isAbsentU_eq h; subst this
              simp only [build, Option.some.injEq] at he; subst he
              exact Or.inl rfl
            · exact Or.inr (build_num el e' h he)
          by_cases hav : isAbsentU v = true
          · simp only [hav, if_true] at hvw
            have := isAbsentU_eq hav; subst this
            simp only [build, Option.some.injEq] at hv; subst hv
            have hs := build_searched ws es hvw hl
            have h2 : 2 ≤ es.length := by
              have h0 : es.length ≠ 0 := by
                rw [hlen]; cases ws <;> simp at hne ⊢
              have := hs.even
              omega
            exact mkCase_num _ es e' (Or.inl rfl) hs.core hs.wg h2 hs.even hs.res
              (caseResults_ne_nil es h2) hE
          · have hav' : isAbsentU v = false := by simpa using hav
            simp only [hav', Bool.false_eq_true, if_false, Bool.and_eq_true, decide_eq_true_eq] at hvw
            have nv := build_num v v' hvw.1.1 hv
            have hn := build_numList ws es hvw.1.2 hl
            obtain ⟨hc, hw⟩ := coreList_of_numE es hn
            have h2 : 2 ≤ es.length := by
              have h0 : es.length ≠ 0 := by
                rw [hlen]; cases ws <;> simp at hne ⊢
              have := hvw.2
              omega
            exact mkCase_num v' es e' (Or.inr nv) hc hw h2 (by rw [hlen]; exact hvw.2)
              (caseResults_of_num es hn) (caseResults_ne_nil es h2) hE
  | .bin k a b, e, hu, hb => by
    simp only [NumU, Bool.and_eq_true] at hu
    simp only [build] at hb
    cases ha : build a with
    | none => simp [ha] at hb
    | some x =>
      cases hb' : build b with
      | none => simp [ha, hb'] at hb
      | some y =>
        simp only [ha, hb', numK_isArith k hu.1.1, if_true, Option.some.injEq] at hb
        subst hb
        exact binaryOperate_num x y k hu.1.1 (build_num a x hu.1.2 ha) (build_num b y hu.2 hb')
  | .ls _, _, hu, _ => by simp [NumU] at hu
  | .lb _, _, hu, _ => by simp [NumU] at hu
  | .null, _, hu, _ => by simp [NumU] at hu
  | .true_, _, hu, _ => by simp [NumU] at hu
  | .false_, _, hu, _ => by simp [NumU] at hu
  | .like _ _ _ _, _, hu, _ => by simp [NumU] at hu
  | .not_ _, _, hu, _ => by simp [NumU] at hu
  | .between _ _ _, _, hu, _ => by simp [NumU] at hu
  | .and_ _, _, hu, _ => by simp [NumU] at hu
  | .or_ _, _, hu, _ => by simp [NumU] at hu
  | .inOp _ _ _, _, hu, _ => by simp [NumU] at hu
  | .tupleIn _ _ _, _, hu, _ => by simp [NumU] at hu
  | .pi _, _, hu, _ => by simp [NumU] at hu
  | .ps _, _, hu, _ => by simp [NumU] at hu
  | .strop _ _ _ _, _, hu, _ => by simp [NumU] at hu
  | .absent, _, hu, _ => by simp [NumU] at hu

theorem build_numList : ∀ (us : List U) (es : List SaExpr), NumUList us = true →
    buildList us = some es → ∀ e ∈ es, NumE e
  | [], es, _, hb => by
    simp only [buildList, Option.some.injEq] at hb; subst hb
    intro e he; simp at he
  | u :: us, es, hu, hb => by
    simp only [NumUList, Bool.and_eq_true] at hu
    simp only [buildList] at hb
    cases h1 : build u with
    | none => simp [h1] at hb
    | some x =>
      cases h2 : buildList us with
      | none => simp [h1, h2] at hb
      | some xs =>
        simp only [h1, h2, Option.some.injEq] at hb; subst hb
        intro e he
        simp only [List.mem_cons] at he
        rcases he with he | he
        · subst he; exact build_num u e hu.1 h1
        · exact build_numList us xs hu.2 h2 e he

theorem build_searched : ∀ (us : List U) (es : List SaExpr), SearchedU us = true →
    buildList us = some es → SearchedE es
  | [], es, _, hb => by
    simp only [buildList, Option.some.injEq] at hb; subst hb
    exact ⟨rfl, rfl, rfl, by intro r hr; simp [caseResults] at hr⟩
  | [_], _, hu, _ => by simp [SearchedU] at hu
  | c :: r :: rest, es, hu, hb => by
    simp only [SearchedU, Bool.and_eq_true] at hu
    simp only [buildList] at hb
    cases h1 : build c with
    | none => simp [h1] at hb
    | some c' =>
      cases h2 : build r with
      | none => simp [h1, h2] at hb
      | some r' =>
        cases h3 : buildList rest with
        | none => simp [h1, h2, h3] at hb
        | some rest' =>
          simp only [h1, h2, h3, Option.some.injEq] at hb; subst hb
          have bc := build_bool c c' hu.1.1 h1
          have nr := build_num r r' hu.1.2 h2
          have ih := build_searched rest rest' hu.2 h3
          refine ⟨?_, ?_, ?_, ?_⟩
          · simp [CoreList, bc.core, nr.core, ih.core]
          · simp [WGAll, bc.wg, nr.wg, ih.wg]
          · have := ih.even
            simp only [List.length_cons]
            omega
          · intro x hx
            simp only [caseResults, List.mem_cons] at hx
            rcases hx with hx | hx
            · subst hx; exact nr.ty
            · exact ih.res x hx

/-- **build_str**: string-valued API-call trees build well grouped core elements -/
theorem build_str : ∀ (u : U) (e : SaExpr), StrU u = true → build u = some e →
    OpndE e ∧ catOpnd e = true
  | .col n ty, e, _, hb => by
    simp only [build, Option.some.injEq] at hb; subst hb
    exact ⟨⟨rfl, rfl, rfl⟩, rfl⟩
  | .ls s, e, _, hb => by
    simp only [build, Option.some.injEq] at hb; subst hb
    exact ⟨⟨rfl, rfl, rfl⟩, rfl⟩
  | .bin k a b, e, hu, hb => by
    simp only [StrU, Bool.and_eq_true, Bool.or_eq_true, decide_eq_true_eq] at hu
    obtain ⟨⟨hk, hua⟩, hub⟩ := hu
    subst hk
    simp only [build] at hb
    cases ha : build a with
    | none => simp [ha] at hb
    | some x =>
      cases hb' : build b with
      | none => simp [ha, hb'] at hb
      | some y =>
        simp only [ha, hb', BinK.isArith, if_true, Option.some.injEq] at hb
        subst hb
        have nx : OpndE x := by
          rcases hua with h | h
          · exact (build_str a x h ha).1
          · exact (build_num a x h ha).opnd
        have ny : OpndE y := by
          rcases hub with h | h
          · exact (build_str b y h hb').1
          · exact (build_num b y h hb').opnd
        exact binaryOperate_concat x y nx ny
  | .li _, _, hu, _ => by simp [StrU] at hu
  | .ln _, _, hu, _ => by simp [StrU] at hu
  | .lb _, _, hu, _ => by simp [StrU] at hu
  | .null, _, hu, _ => by simp [StrU] at hu
  | .true_, _, hu, _ => by simp [StrU] at hu
  | .false_, _, hu, _ => by simp [StrU] at hu
  | .like _ _ _ _, _, hu, _ => by simp [StrU] at hu
  | .neg _, _, hu, _ => by simp [StrU] at hu
  | .not_ _, _, hu, _ => by simp [StrU] at hu
  | .between _ _ _, _, hu, _ => by simp [StrU] at hu
  | .and_ _, _, hu, _ => by simp [StrU] at hu
  | .or_ _, _, hu, _ => by simp [StrU] at hu
  | .case_ _ _ _, _, hu, _ => by simp [StrU] at hu
  | .cast _ _, _, hu, _ => by simp [StrU] at hu
  | .coalesce _, _, hu, _ => by simp [StrU] at hu
  | .subq _ _, _, hu, _ => by simp [StrU] at hu
  | .inOp _ _ _, _, hu, _ => by simp [StrU] at hu
  | .tupleIn _ _ _, _, hu, _ => by simp [StrU] at hu
  | .pi _, _, hu, _ => by simp [StrU] at hu
  | .ps _, _, hu, _ => by simp [StrU] at hu
  | .strop _ _ _ _, _, hu, _ => by simp [StrU] at hu
  | .absent, _, hu, _ => by simp [StrU] at hu

/-- **build_bool**: boolean API-call trees build well grouped core elements -/
theorem build_bool : ∀ (u : U) (e : SaExpr), BoolU u = true → build u = some e → BoolE e
  | .bin k a b, e, hu, hb => by
    simp only [BoolU, Bool.and_eq_true, Bool.or_eq_true] at hu
    obtain ⟨⟨hk, hna⟩, hbb⟩ := hu
    simp only [build] at hb
    cases ha : build a with
    | none => simp [ha] at hb
    | some x =>
      have nx : OpndE x := by
        rcases hna with h | h
        · exact (build_num a x h ha).opnd
        · exact (build_str a x h ha).1
      have hpl : isPyLit a = false := by
        cases a <;> first | rfl | (rcases hna with h | h <;> simp [NumU, StrU] at h)
      cases hb' : build b with
      | none => simp [ha, hb'] at hb
      | some y =>
        simp only [ha, hb', cmpK_not_isArith k hk, Bool.false_eq_true, if_false] at hb
        rcases hbb with hnb | hnull
        · have ny : OpndE y := by
            rcases hnb with h | h
            · exact (build_num b y h hb').opnd
            · exact (build_str b y h hb').1
          have hpr := pyReflected_num x y ny
          simp only [hpr, hpl, Bool.or_false, Bool.false_eq_true, if_false] at hb
          obtain ⟨e', he', be'⟩ := booleanCompare_num x y k hk nx ny
          have : booleanCompare x k.op y (negateOp k.op) none = some e := by
            cases hr : k.reflected with
            | none => simpa [hr] using hb
            | some k' => simpa [hr] using hb
          rw [he'] at this
          cases this
          exact be'
        · cases b with
          | null =>
            simp only [build, Option.some.injEq] at hb'
            subst hb'
            have hk4 : k = .eq ∨ k = .ne ∨ k = .is_ ∨ k = .isnot := by
              simpa [Bool.or_eq_true, or_assoc] using hnull
            have hpr : pyReflected x SaExpr.null = false := by cases x <;> simp [pyReflected]
            simp only [hpr, hpl, Bool.or_false, Bool.false_eq_true, if_false] at hb
            obtain ⟨e', he', be'⟩ := booleanCompare_null x k hk4 nx
            have : booleanCompare x k.op .null (negateOp k.op) none = some e := by
              cases hr : k.reflected with
              | none => simpa [hr] using hb
              | some k' => simpa [hr] using hb
            rw [he'] at this
            cases this
            exact be'
          | _ => simp at hnull
  | .not_ a, e, hu, hb => by
    simp only [build] at hb
    cases ha : build a with
    | none => simp [ha] at hb
    | some x =>
      simp only [ha, Option.map_some, Option.some.injEq] at hb; subst hb
      exact negate_bool x (build_bool a x (by simpa [BoolU] using hu) ha)
  | .and_ cs, e, hu, hb => by
    simp only [BoolU, Bool.and_eq_true, Bool.not_eq_true'] at hu
    simp only [build] at hb
    cases hl : buildList cs with
    | none => simp [hl] at hb
    | some es =>
      cases es with
      | nil => simp [hl] at hb
      | cons c cs' =>
        simp only [hl, Option.some.injEq] at hb; subst hb
        exact boolConstruct_bool .and_ (Or.inl rfl) _ (by simp) (build_boolList cs _ hu.2 hl)
  | .or_ cs, e, hu, hb => by
    simp only [BoolU, Bool.and_eq_true, Bool.not_eq_true'] at hu
    simp only [build] at hb
    cases hl : buildList cs with
    | none => simp [hl] at hb
    | some es =>
      cases es with
      | nil => simp [hl] at hb
      | cons c cs' =>
        simp only [hl, Option.some.injEq] at hb; subst hb
        exact boolConstruct_bool .or_ (Or.inr rfl) _ (by simp) (build_boolList cs _ hu.2 hl)
  | .col _ _, _, hu, _ => by simp [BoolU] at hu
  | .li _, _, hu, _ => by simp [BoolU] at hu
  | .ls _, _, hu, _ => by simp [BoolU] at hu
  | .ln _, _, hu, _ => by simp [BoolU] at hu
  | .lb _, _, hu, _ => by simp [BoolU] at hu
  | .null, _, hu, _ => by simp [BoolU] at hu
  | .true_, _, hu, _ => by simp [BoolU] at hu
  | .false_, _, hu, _ => by simp [BoolU] at hu
  | .like k esc a b, e, hu, hb => by
    simp only [BoolU, Bool.and_eq_true] at hu
    simp only [build] at hb
    cases ha : build a with
    | none => simp [ha] at hb
    | some x =>
      cases hb' : build b with
      | none => simp [ha, hb'] at hb
      | some y =>
        simp only [ha, hb'] at hb
        obtain ⟨nx, cx⟩ := build_str a x hu.1 ha
        obtain ⟨ny, cy⟩ := build_str b y hu.2 hb'
        obtain ⟨hl, hna, n, hn, hp⟩ := likeK_facts k
        rw [booleanCompare_opnd_eq x y k.op _ esc ny, hn] at hb
        simp only [Option.some.injEq] at hb
        subst hb
        simp only [constructForOp, hna, Bool.false_eq_true, if_false]
        exact mkBinary_like x y k.op n esc hl hp nx cx ny cy
  | .neg _, _, hu, _ => by simp [BoolU] at hu
  | .between x lo hi, e, hu, hb => by
    simp only [BoolU, Bool.and_eq_true] at hu
    simp only [build] at hb
    cases hx : build x with
    | none => simp [hx] at hb
    | some x' =>
      cases hl : build lo with
      | none => simp [hx, hl] at hb
      | some lo' =>
        cases hh : build hi with
        | none => simp [hx, hl, hh] at hb
        | some hi' =>
          simp only [hx, hl, hh, Option.some.injEq] at hb
          subst hb
          have nx := build_num x x' hu.1.1 hx
          have nl := build_num lo lo' hu.1.2 hl
          have nh := build_num hi hi' hu.2 hh
          exact betweenImpl_bool x' lo' hi' nx.opnd nl.core nl.wg nl.root nh.core nh.wg nh.root
  | .case_ _ _ _, _, hu, _ => by simp [BoolU] at hu
  | .cast _ _, _, hu, _ => by simp [BoolU] at hu
  | .coalesce _, _, hu, _ => by simp [BoolU] at hu
  | .subq _ _, _, hu, _ => by simp [BoolU] at hu
  | .inOp negated vals x, e, hu, hb => by
    simp only [BoolU, Bool.and_eq_true, Bool.or_eq_true, Bool.not_eq_true'] at hu
    simp only [build] at hb
    cases hx : build x with
    | none => simp [hx] at hb
    | some x' =>
      simp only [hx] at hb
      have nx : OpndE x' := by
        rcases hu.2 with h | h
        · exact (build_num x x' h hx).opnd
        · exact (build_str x x' h hx).1
      obtain ⟨hin, hna, n, hn, hp⟩ := in_facts negated
      have hne : vals ≠ [] := by cases vals <;> simp at hu ⊢
      have hbc : booleanCompare x' (if negated then Op.not_in_op else Op.in_op)
          (.inlist vals (inListTy x' vals) (if negated then Op.not_in_op else Op.in_op))
          (negateOp (if negated then Op.not_in_op else Op.in_op)) none =
          some (constructForOp x' (.inlist vals (inListTy x' vals) (if negated then Op.not_in_op else Op.in_op))
            (if negated then Op.not_in_op else Op.in_op) .bool
            (negateOp (if negated then Op.not_in_op else Op.in_op)) none) := rfl
      rw [hbc, hn] at hb
      simp only [Option.some.injEq] at hb
      subst hb
      simp only [constructForOp, hna, Bool.false_eq_true, if_false]
      exact mkBinary_in x' _ n vals _ hin hp nx hne
  | .tupleIn _ _ _, _, hu, _ => by simp [BoolU] at hu
  | .pi _, _, hu, _ => by simp [BoolU] at hu
  | .ps _, _, hu, _ => by simp [BoolU] at hu
  | .strop _ _ _ _, _, hu, _ => by simp [BoolU] at hu
  | .absent, _, hu, _ => by simp [BoolU] at hu

theorem build_boolList : ∀ (us : List U) (es : List SaExpr), BoolUList us = true →
    buildList us = some es → ∀ e ∈ es, BoolE e
  | [], es, _, hb => by
    simp only [buildList, Option.some.injEq] at hb; subst hb
    intro e he; simp at he
  | u :: us, es, hu, hb => by
    simp only [BoolUList, Bool.and_eq_true] at hu
    simp only [buildList] at hb
    cases h1 : build u with
    | none => simp [h1] at hb
    | some x =>
      cases h2 : buildList us with
      | none => simp [h1, h2] at hb
      | some xs =>
        simp only [h1, h2, Option.some.injEq] at hb; subst hb
        intro e he
        simp only [List.mem_cons] at he
        rcases he with he | he
        · subst he; exact build_bool u e hu.1 h1
        · exact build_boolList us xs hu.2 h2 e he
end

end SaVerif.Expr
