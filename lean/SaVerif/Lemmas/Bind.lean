/-
Helper lemmas for M-BIND (Props/C04): the regex scanners consume input, `tokens`
is fuel independent, exactness of the scanners on rendered holes, the generic
round-trip theorem `tokens_render`.  Core Lean only.
-/
import SaVerif.Model.Bind
namespace SaVerif.Bind

theorem stripPrefix_append (p s : Str) : stripPrefix p (p ++ s) = some s := by
  induction p with
  | nil => simp [stripPrefix]
  | cons a p ih => simp [stripPrefix, ih]

theorem stripPrefix_length {p s r : Str} (h : stripPrefix p s = some r) :
    r.length + p.length = s.length := by
  induction p generalizing s with
  | nil => simp [stripPrefix] at h; subst h; simp
  | cons a p ih =>
    cases s with
    | nil => simp [stripPrefix] at h
    | cons c cs =>
      simp only [stripPrefix] at h
      split at h
      · have := ih h; simp; omega
      · cases h

theorem lazyA_length {acc s n r : Str} (h : lazyA acc s = some (n, r)) : r.length < s.length := by
  induction s generalizing acc with
  | nil => simp [lazyA] at h
  | cons c cs ih =>
    simp only [lazyA] at h
    split at h
    · split at h
      · split at h
        · cases h; simp; omega
        · cases h
      · cases h
    · have := ih h; simp; omega

theorem matchA_length {s n r : Str} (h : matchA s = some (n, r)) : r.length < s.length := by
  unfold matchA at h
  split at h
  · split at h
    · have := lazyA_length h; simp; omega
    · cases h
  · cases h

theorem lazyDot_length {acc s g r : Str} (h : lazyDot acc s = some (g, r)) : r.length < s.length := by
  induction s generalizing acc with
  | nil => simp [lazyDot] at h
  | cons c cs ih =>
    simp only [lazyDot] at h
    split at h
    · rename_i rest hs
      cases h
      have := stripPrefix_length hs
      simp at this ⊢; omega
    · split at h
      · cases h
      · have := ih h; simp; omega

theorem tryGroup_length {s g r : Str} (h : tryGroup s = some (g, r)) : r.length < s.length := by
  unfold tryGroup at h
  split at h
  · split at h
    · have := lazyDot_length h; simp; omega
    · cases h
  · cases h

theorem lazyName_length {acc s n g r} (h : lazyName acc s = some (n, g, r)) : r.length < s.length := by
  induction s generalizing acc with
  | nil => simp [lazyName] at h
  | cons c cs ih =>
    simp only [lazyName] at h
    split at h
    · cases h
    · split at h
      · rename_i g' rest hg
        cases h
        have := tryGroup_length hg
        simp; omega
      · split at h
        · split at h
          · cases h; simp only [List.length_cons]; omega
          · have := ih h; simp only [List.length_cons] at this ⊢; omega
        · cases h

theorem matchB_length {s n g r} (h : matchB s = some (n, g, r)) : r.length < s.length := by
  unfold matchB at h
  split at h
  · cases h
  · rename_i r' hs
    have h1 := stripPrefix_length hs
    have h2 := lazyName_length h
    omega

theorem matchAt_length {m s h r} (hm : matchAt m s = some (h, r)) : r.length < s.length := by
  unfold matchAt at hm
  cases hma : matchA s with
  | some p =>
    obtain ⟨n, r'⟩ := p
    have hl := matchA_length hma
    cases hmb : matchB s with
    | some q =>
      obtain ⟨n2, g, r2⟩ := q
      have hl2 := matchB_length hmb
      cases m <;> simp [hma, hmb] at hm <;> obtain ⟨_, rfl⟩ := hm <;> assumption
    | none =>
      cases m <;> simp [hma, hmb] at hm <;> obtain ⟨_, rfl⟩ := hm <;> assumption
  | none =>
    cases hmb : matchB s with
    | some q =>
      obtain ⟨n2, g, r2⟩ := q
      have hl2 := matchB_length hmb
      cases m <;> simp [hma, hmb] at hm <;> obtain ⟨_, rfl⟩ := hm <;> assumption
    | none =>
      cases m <;> simp [hma, hmb] at hm



/-! ## `tokens` does not depend on the fuel -/

theorem tokensAux_fuel (m : Mode) :
    ∀ (f1 f2 : Nat) (s : Str), s.length < f1 → s.length < f2 →
      tokensAux m f1 s = tokensAux m f2 s := by
  intro f1
  induction f1 with
  | zero => intro f2 s h1; omega
  | succ n ih =>
    intro f2 s h1 h2
    cases f2 with
    | zero => omega
    | succ k =>
      cases s with
      | nil => simp [tokensAux]
      | cons c cs =>
        simp only [tokensAux]
        cases hm : matchAt m (c :: cs) with
        | none =>
          simp only [List.length_cons] at h1 h2
          rw [ih k cs (by omega) (by omega)]
        | some p =>
          obtain ⟨h, r⟩ := p
          have hl := matchAt_length hm
          simp only [List.length_cons] at h1 h2 hl
          simp only
          rw [ih k r (by omega) (by omega)]

theorem tokens_nil (m : Mode) : tokens m [] = [] := by
  simp [tokens, tokensAux]

theorem tokens_cons_none {m : Mode} {c : Char} {cs : Str} (h : matchAt m (c :: cs) = none) :
    tokens m (c :: cs) = Tok.lit c :: tokens m cs := by
  unfold tokens
  simp only [List.length_cons, tokensAux, h]

theorem tokens_cons_hit {m : Mode} {c : Char} {cs r : Str} {h : Hit}
    (hm : matchAt m (c :: cs) = some (h, r)) :
    tokens m (c :: cs) = Tok.hit h :: tokens m r := by
  have hl := matchAt_length hm
  simp only [List.length_cons] at hl
  unfold tokens
  simp only [List.length_cons, tokensAux, hm]
  rw [tokensAux_fuel m (cs.length + 1) (r.length + 1) r (by omega) (by omega)]

/-! ## exactness of the scanners on what `bindparam_string` renders -/

theorem lazyA_exact (n R : Str) (hn : ')' ∉ n) :
    ∀ acc, lazyA acc (n ++ ')' :: 's' :: R) = some (acc ++ n, R) := by
  induction n with
  | nil => intro acc; simp [lazyA]
  | cons c n ih =>
    intro acc
    have hc : c ≠ ')' := fun h => hn (by simp [h])
    have hn' : ')' ∉ n := fun h => hn (by simp [h])
    simp only [List.cons_append, lazyA, hc, if_false]
    rw [ih hn' (acc ++ [c])]
    simp

/-- names that pattern A recovers exactly: non-empty, no `)` -/
def goodA (n : Str) : Prop := n ≠ [] ∧ ')' ∉ n

theorem matchA_exact {n : Str} (h : goodA n) (R : Str) :
    matchA (['%', '('] ++ n ++ [')', 's'] ++ R) = some (n, R) := by
  obtain ⟨hne, hp⟩ := h
  cases n with
  | nil => exact absurd rfl hne
  | cons c n =>
    have hc : c ≠ ')' := fun h => hp (by simp [h])
    have hn' : ')' ∉ n := fun h => hp (by simp [h])
    have e : ['%', '('] ++ c :: n ++ [')', 's'] ++ R = '%' :: '(' :: c :: (n ++ ')' :: 's' :: R) := by simp
    rw [e, matchA]
    simp only [hc, ne_eq, not_false_eq_true, and_self, if_true]
    rw [lazyA_exact n R hn' [c]]
    simp

theorem tryGroup_none_of_head {s : Str} (h : s.head? ≠ some '~') : tryGroup s = none := by
  unfold tryGroup
  split
  · rename_i a b c cs
    simp at h
    simp [h]
  · rfl

/-- names that pattern B recovers exactly: non-empty, no whitespace, no `]`, no `~` -/
def goodB (n : Str) : Prop := n ≠ [] ∧ ∀ c ∈ n, isSpace c = false ∧ c ≠ ']' ∧ c ≠ '~'

theorem lazyName_close (acc : Str) (c : Char) (rest : Str) (hs : isSpace c = false) :
    lazyName acc (c :: ']' :: rest) = some (acc ++ [c], none, rest) := by
  rw [lazyName.eq_def]
  simp only [hs, Bool.false_eq_true, if_false]
  rw [tryGroup_none_of_head (by simp)]
  simp

theorem lazyName_next (acc : Str) (c d : Char) (rest : Str) (hs : isSpace c = false)
    (hd1 : d ≠ ']') (hd2 : d ≠ '~') :
    lazyName acc (c :: d :: rest) = lazyName (acc ++ [c]) (d :: rest) := by
  rw [lazyName.eq_def]
  simp only [hs, Bool.false_eq_true, if_false]
  rw [tryGroup_none_of_head (by simp [hd2])]
  simp [hd1]

theorem lazyName_group (acc : Str) (c : Char) (cs g rest : Str) (hs : isSpace c = false)
    (hg : tryGroup cs = some (g, rest)) :
    lazyName acc (c :: cs) = some (acc ++ [c], some g, rest) := by
  rw [lazyName.eq_def]
  simp [hs, hg]

theorem lazyName_exact_plain (R : Str) :
    ∀ (n : Str) (c : Char) (acc : Str), (∀ x ∈ c :: n, isSpace x = false ∧ x ≠ ']' ∧ x ≠ '~') →
      lazyName acc (c :: n ++ ']' :: R) = some (acc ++ c :: n, none, R) := by
  intro n
  induction n with
  | nil =>
    intro c acc h
    have hc := h c (by simp)
    rw [List.cons_append, List.nil_append, lazyName_close _ _ _ hc.1]
  | cons d n ih =>
    intro c acc h
    have hc := h c (by simp)
    have hd := h d (by simp)
    rw [List.cons_append, List.cons_append, lazyName_next _ _ _ _ hc.1 hd.2.1 hd.2.2]
    have := ih d (acc ++ [c]) (fun x hx => h x (by simp at hx ⊢; right; exact hx))
    rw [List.cons_append] at this
    rw [this]
    simp

theorem matchB_exact_plain {n : Str} (h : goodB n) (R : Str) :
    matchB (pcPrefix ++ n ++ [']'] ++ R) = some (n, none, R) := by
  obtain ⟨hne, hp⟩ := h
  cases n with
  | nil => exact absurd rfl hne
  | cons c n =>
    unfold matchB
    rw [List.append_assoc, List.append_assoc, stripPrefix_append]
    have := lazyName_exact_plain R n c [] hp
    simpa using this

/-- `~~]` at the head -/
def closesAt (s : Str) : Bool := (stripPrefix ['~', '~', ']'] s).isSome

/-- content of the optional group after its first character: no newline and no
    premature `~~]` -/
def cleanGrp : Str → Bool
  | [] => true
  | c :: g => !closesAt (c :: g ++ ['~', '~', ']']) && c != '\n' && cleanGrp g

theorem closesAt_append (s R : Str) (h : 3 ≤ s.length) : closesAt (s ++ R) = closesAt s := by
  match s with
  | a :: b :: c :: r =>
    simp only [closesAt, stripPrefix, List.cons_append]
    split
    · split
      · split <;> simp
      · simp
    · simp
  | [] | [_] | [_, _] => simp at h

theorem lazyDot_exact (R : Str) :
    ∀ (g acc : Str), cleanGrp g = true →
      lazyDot acc (g ++ ['~', '~', ']'] ++ R) = some (acc ++ g, R) := by
  intro g
  induction g with
  | nil =>
    intro acc _
    simp [lazyDot, stripPrefix]
  | cons c g ih =>
    intro acc h
    simp only [cleanGrp, Bool.and_eq_true, Bool.not_eq_true', bne_iff_ne, ne_eq] at h
    obtain ⟨⟨h1, h2⟩, h3⟩ := h
    have hcl : stripPrefix ['~', '~', ']'] (c :: (g ++ ['~', '~', ']'] ++ R)) = none := by
      have := closesAt_append (c :: g ++ ['~', '~', ']']) R (by simp)
      rw [h1] at this
      simp only [closesAt, List.cons_append, List.append_assoc] at this
      simpa using this
    rw [List.cons_append, List.cons_append, lazyDot]
    simp only [hcl, h2, if_false]
    rw [ih (acc ++ [c]) h3]
    simp

/-- group content that the scanner recovers exactly -/
def goodGrp : Str → Prop
  | [] => False
  | c :: g => c ≠ '\n' ∧ cleanGrp g = true

theorem tryGroup_exact {g : Str} (h : goodGrp g) (R : Str) :
    tryGroup (['~', '~'] ++ g ++ ['~', '~', ']'] ++ R) = some (g, R) := by
  cases g with
  | nil => exact absurd h (by simp [goodGrp])
  | cons c g =>
    obtain ⟨hc, hg⟩ := h
    have e : ['~', '~'] ++ c :: g ++ ['~', '~', ']'] ++ R = '~' :: '~' :: c :: (g ++ ['~', '~', ']'] ++ R) := by simp
    rw [e, tryGroup]
    simp only [hc, ne_eq, not_false_eq_true, and_self, if_true]
    rw [lazyDot_exact R g [c] hg]
    simp

theorem lazyName_exact_grp (g R : Str) (hg : goodGrp g) :
    ∀ (n : Str) (c : Char) (acc : Str), (∀ x ∈ c :: n, isSpace x = false ∧ x ≠ ']' ∧ x ≠ '~') →
      lazyName acc (c :: n ++ (['~', '~'] ++ g ++ ['~', '~', ']'] ++ R)) =
        some (acc ++ c :: n, some g, R) := by
  intro n
  induction n with
  | nil =>
    intro c acc h
    have hc := h c (by simp)
    rw [List.cons_append, List.nil_append, lazyName_group _ _ _ _ _ hc.1 (tryGroup_exact hg R)]
  | cons d n ih =>
    intro c acc h
    have hc := h c (by simp)
    have hd := h d (by simp)
    rw [List.cons_append, List.cons_append, lazyName_next _ _ _ _ hc.1 hd.2.1 hd.2.2]
    have := ih d (acc ++ [c]) (fun x hx => h x (by simp at hx ⊢; right; exact hx))
    rw [List.cons_append] at this
    rw [this]
    simp

theorem matchB_exact_grp {n g : Str} (h : goodB n) (hg : goodGrp g) (R : Str) :
    matchB (pcPrefix ++ n ++ ['~', '~'] ++ g ++ ['~', '~', ']'] ++ R) = some (n, some g, R) := by
  obtain ⟨hne, hp⟩ := h
  cases n with
  | nil => exact absurd rfl hne
  | cons c n =>
    unfold matchB
    have e : pcPrefix ++ c :: n ++ ['~', '~'] ++ g ++ ['~', '~', ']'] ++ R =
        pcPrefix ++ (c :: n ++ (['~', '~'] ++ g ++ ['~', '~', ']'] ++ R)) := by simp
    rw [e, stripPrefix_append]
    have := lazyName_exact_grp g R hg n c [] hp
    simpa using this

/-! ## statements as pieces; the NoPattern guard; the round-trip theorem -/

inductive Piece
  | lit (t : Str)
  | hole (h : Hit)
  deriving DecidableEq, Repr

def Piece.render : Piece → Str
  | .lit t => t
  | .hole h => h.raw

def renderPieces : List Piece → Str
  | [] => []
  | p :: ps => p.render ++ renderPieces ps

def pieceToks : List Piece → List Tok
  | [] => []
  | .lit t :: ps => t.map Tok.lit ++ pieceToks ps
  | .hole h :: ps => Tok.hit h :: pieceToks ps

/-- the string starts with the trigger of pattern A -/
def startsPct : Str → Bool
  | a :: b :: _ => a == '%' && b == '('
  | _ => false

/-- the string starts with the first three characters of pattern B -/
def startsUU : Str → Bool
  | a :: b :: c :: _ => a == '_' && b == '_' && c == '['
  | _ => false

/-- no pattern of the mode can begin here -/
def okAt (m : Mode) (s : Str) : Bool :=
  (m == .onlyB || !startsPct s) && (m == .onlyA || !startsUU s)

/-- **NoPattern** for a text `t` followed by `R`: at no position inside `t` does a
    trigger of an active pattern begin (the look-ahead may reach into `R`). -/
def quiet (m : Mode) : Str → Str → Bool
  | [], _ => true
  | c :: t, R => okAt m (c :: t ++ R) && quiet m t R

theorem matchA_none_of_not_startsPct {s : Str} (h : startsPct s = false) : matchA s = none := by
  unfold matchA
  split
  · rename_i a b c cs
    simp only [startsPct, Bool.and_eq_false_iff, beq_eq_false_iff_ne, ne_eq] at h
    split
    · rename_i h2
      rcases h with h | h
      · exact absurd h2.1 h
      · exact absurd h2.2.1 h
    · rfl
  · rfl

theorem matchB_none_of_not_startsUU {s : Str} (h : startsUU s = false) : matchB s = none := by
  unfold matchB
  have : stripPrefix pcPrefix s = none := by
    match s with
    | [] => simp [pcPrefix, stripPrefix]
    | [a] => simp only [pcPrefix, stripPrefix]; split <;> rfl
    | [a, b] => simp only [pcPrefix, stripPrefix]; split <;> (try split) <;> rfl
    | a :: b :: c :: r =>
      simp only [startsUU, Bool.and_eq_false_iff, beq_eq_false_iff_ne, ne_eq] at h
      simp only [pcPrefix, stripPrefix]
      split
      · split
        · split
          · rename_i h1 h2 h3
            rcases h with (h | h) | h
            · exact absurd h1.symm h
            · exact absurd h2.symm h
            · exact absurd h3.symm h
          · rfl
        · rfl
      · rfl
  rw [this]

theorem okAt_none {m : Mode} {s : Str} (h : okAt m s = true) : matchAt m s = none := by
  unfold okAt at h
  simp only [Bool.and_eq_true, Bool.or_eq_true, beq_iff_eq, Bool.not_eq_true'] at h
  obtain ⟨ha, hb⟩ := h
  unfold matchAt
  cases m with
  | both =>
    simp only [reduceCtorEq, false_or] at ha hb
    simp [matchA_none_of_not_startsPct ha, matchB_none_of_not_startsUU hb]
  | onlyA =>
    simp only [reduceCtorEq, false_or] at ha
    simp [matchA_none_of_not_startsPct ha]
  | onlyB =>
    simp only [reduceCtorEq, false_or] at hb
    simp [matchB_none_of_not_startsUU hb]

/-- which holes a mode recognises, and when it recovers them exactly -/
def holeOk (m : Mode) : Hit → Prop
  | .a n => m ≠ .onlyB ∧ goodA n
  | .b n none => m ≠ .onlyA ∧ goodB n
  | .b n (some g) => m ≠ .onlyA ∧ goodB n ∧ goodGrp g

theorem matchA_pcPrefix (s : Str) : matchA (pcPrefix ++ s) = none := by
  simp [pcPrefix, matchA]

theorem matchAt_exact {m : Mode} {h : Hit} (hk : holeOk m h) (R : Str) :
    matchAt m (h.raw ++ R) = some (h, R) := by
  unfold matchAt
  match h, hk with
  | .a n, ⟨hm, hg⟩ =>
    have := matchA_exact hg R
    simp only [Hit.raw, hm, if_false, this]
    simp
  | .b n none, ⟨hm, hg⟩ =>
    have e := matchB_exact_plain hg R
    have ea : matchA (pcPrefix ++ n ++ [']'] ++ R) = none := by
      rw [List.append_assoc, List.append_assoc]; exact matchA_pcPrefix _
    simp only [Hit.raw, hm, if_false, e, ea]
    cases m <;> simp at hm ⊢
  | .b n (some g), ⟨hm, hg, hgr⟩ =>
    have e := matchB_exact_grp hg hgr R
    have ea : matchA (pcPrefix ++ n ++ ['~', '~'] ++ g ++ ['~', '~', ']'] ++ R) = none := by
      simp only [List.append_assoc]; exact matchA_pcPrefix _
    simp only [Hit.raw, hm, if_false, e, ea]
    cases m <;> simp at hm ⊢

def SafePieces (m : Mode) : List Piece → Prop
  | [] => True
  | .lit t :: ps => quiet m t (renderPieces ps) = true ∧ SafePieces m ps
  | .hole h :: ps => holeOk m h ∧ SafePieces m ps

theorem tokens_quiet (m : Mode) (R : Str) :
    ∀ t : Str, quiet m t R = true → tokens m (t ++ R) = t.map Tok.lit ++ tokens m R := by
  intro t
  induction t with
  | nil => intro _; simp
  | cons c t ih =>
    intro h
    simp only [quiet, Bool.and_eq_true] at h
    have h1 := okAt_none h.1
    rw [List.cons_append] at h1
    rw [List.cons_append, tokens_cons_none h1, ih h.2]
    simp

theorem Hit.raw_ne_nil (h : Hit) : h.raw ≠ [] := by
  cases h with
  | a n => simp [Hit.raw]
  | b n g => cases g <;> simp [Hit.raw, pcPrefix]

/-- **Round trip**: scanning the rendering of a guarded piece list yields exactly the
    pieces — every hole is found where it was rendered, nothing else is found. -/
theorem tokens_render (m : Mode) :
    ∀ ps : List Piece, SafePieces m ps → tokens m (renderPieces ps) = pieceToks ps := by
  intro ps
  induction ps with
  | nil => intro _; simp [renderPieces, pieceToks, tokens_nil]
  | cons p ps ih =>
    intro h
    cases p with
    | lit t =>
      obtain ⟨hq, hs⟩ := h
      simp only [renderPieces, Piece.render, pieceToks]
      rw [tokens_quiet m _ t hq, ih hs]
    | hole hh =>
      obtain ⟨hk, hs⟩ := h
      simp only [renderPieces, Piece.render, pieceToks]
      have hm := matchAt_exact hk (renderPieces ps)
      cases hr : hh.raw with
      | nil => exact absurd hr (Hit.raw_ne_nil hh)
      | cons c cs =>
        rw [hr, List.cons_append] at hm
        rw [List.cons_append, tokens_cons_hit hm, ih hs]

/-! ## statements as segments (what the compiler's visit methods concatenate) -/

inductive Seg
  | text (t : Str)
  /-- `bindparam_string(name)` under the compilation template: `%(name)s` -/
  | bind (n : Str)
  /-- post-compile token `__[POSTCOMPILE_name]` / `__[POSTCOMPILE_name~~l~~REPL~~r~~]` -/
  | pc (n : Str) (g : Option Str)
  deriving DecidableEq, Repr

/-- how a scan of mode `m` sees a segment: holes of the other pattern are plain text -/
def Seg.toPiece (m : Mode) : Seg → Piece
  | .text t => .lit t
  | .bind n => if m = .onlyB then .lit (Hit.a n).raw else .hole (.a n)
  | .pc n g => if m = .onlyA then .lit (Hit.b n g).raw else .hole (.b n g)

def Seg.render : Seg → Str
  | .text t => t
  | .bind n => (Hit.a n).raw
  | .pc n g => (Hit.b n g).raw

/-- `self.string` as produced by the visit methods -/
def renderSegs : List Seg → Str
  | [] => []
  | s :: r => s.render ++ renderSegs r

theorem renderPieces_toPiece (m : Mode) (segs : List Seg) :
    renderPieces (segs.map (Seg.toPiece m)) = renderSegs segs := by
  induction segs with
  | nil => rfl
  | cons s r ih =>
    cases s with
    | text t => simp [renderPieces, renderSegs, Seg.toPiece, Piece.render, Seg.render, ih]
    | bind n =>
      by_cases h : m = .onlyB
      · subst h; simp [renderPieces, renderSegs, Seg.toPiece, Piece.render, Seg.render, ih]
      · simp [renderPieces, renderSegs, Seg.toPiece, Piece.render, Seg.render, ih, h]
    | pc n g =>
      by_cases h : m = .onlyA
      · subst h; simp [renderPieces, renderSegs, Seg.toPiece, Piece.render, Seg.render, ih]
      · simp [renderPieces, renderSegs, Seg.toPiece, Piece.render, Seg.render, ih, h]

/-- the guard of the alignment theorems, for the scan of mode `m` -/
def SafeSegs (m : Mode) (segs : List Seg) : Prop := SafePieces m (segs.map (Seg.toPiece m))

/-- names of the bind and post-compile segments, in textual order -/
def segNames : List Seg → List Str
  | [] => []
  | .text _ :: r => segNames r
  | .bind n :: r => n :: segNames r
  | .pc n _ :: r => n :: segNames r

/-- the statement with every bind segment replaced by `ph` -/
def posString (ph : Str) : List Seg → Str
  | [] => []
  | .text t :: r => t ++ posString ph r
  | .bind _ :: r => ph ++ posString ph r
  | .pc n g :: r => (Hit.b n g).raw ++ posString ph r

theorem subPositional_append (ph : Str) (a b : List Tok) :
    subPositional ph (a ++ b) = subPositional ph a ++ subPositional ph b := by
  simp [subPositional]

theorem subPositional_lits (ph : Str) (t : Str) : subPositional ph (t.map Tok.lit) = t := by
  induction t with
  | nil => rfl
  | cons c t ih =>
    simp only [subPositional, List.map_cons, List.flatMap_cons] at ih ⊢
    rw [ih]; rfl

theorem hitNames_append (a b : List Tok) : hitNames (a ++ b) = hitNames a ++ hitNames b := by
  simp [hitNames]

theorem hitNames_lits (t : Str) : hitNames (t.map Tok.lit) = [] := by
  induction t with
  | nil => rfl
  | cons c t ih => simp [hitNames]

theorem subPositional_pieceToks (ph : Str) (segs : List Seg) :
    subPositional ph (pieceToks (segs.map (Seg.toPiece .both))) = posString ph segs := by
  induction segs with
  | nil => rfl
  | cons s r ih =>
    cases s with
    | text t =>
      simp only [List.map_cons, Seg.toPiece, pieceToks, subPositional_append, subPositional_lits,
        posString, ih]
    | bind n =>
      simp only [List.map_cons, Seg.toPiece, pieceToks, posString, reduceCtorEq, if_false]
      rw [← ih]; simp [subPositional]
    | pc n g =>
      simp only [List.map_cons, Seg.toPiece, pieceToks, posString, reduceCtorEq, if_false]
      rw [← ih]; simp [subPositional]

theorem hitNames_pieceToks (segs : List Seg) :
    hitNames (pieceToks (segs.map (Seg.toPiece .both))) = segNames segs := by
  induction segs with
  | nil => rfl
  | cons s r ih =>
    cases s with
    | text t =>
      simp only [List.map_cons, Seg.toPiece, pieceToks, hitNames_append, hitNames_lits, segNames,
        ih, List.nil_append]
    | bind n =>
      simp only [List.map_cons, Seg.toPiece, pieceToks, segNames, reduceCtorEq, if_false]
      rw [← ih]; simp [hitNames, Hit.name]
    | pc n g =>
      simp only [List.map_cons, Seg.toPiece, pieceToks, segNames, reduceCtorEq, if_false]
      rw [← ih]; simp [hitNames, Hit.name]

/-! ## association lists -/

theorem alookup_append {β : Type} (k : Str) (a b : List (Str × β)) :
    alookup k (a ++ b) = match alookup k a with | some v => some v | none => alookup k b := by
  induction a with
  | nil => simp [alookup]
  | cons x a ih =>
    obtain ⟨k', v⟩ := x
    by_cases h : k' = k <;> simp [alookup, h, ih]

theorem alookup_none_of_not_mem {β : Type} (k : Str) (d : List (Str × β)) (h : k ∉ akeys d) :
    alookup k d = none := by
  induction d with
  | nil => rfl
  | cons x d ih =>
    obtain ⟨k', v⟩ := x
    simp only [akeys, List.map_cons, List.mem_cons, not_or] at h
    simp only [alookup]
    rw [if_neg (fun e => h.1 e.symm)]
    exact ih (by simpa [akeys] using h.2)

theorem alookup_isSome_iff {β : Type} (k : Str) (d : List (Str × β)) :
    (alookup k d).isSome = true ↔ k ∈ akeys d := by
  induction d with
  | nil => simp [alookup, akeys]
  | cons x d ih =>
    obtain ⟨k', v⟩ := x
    by_cases h : k' = k
    · simp [alookup, akeys, h]
    · simp only [alookup, h, if_false, akeys, List.map_cons, List.mem_cons]
      rw [ih]
      constructor
      · intro hm; right; simpa [akeys] using hm
      · intro hm
        rcases hm with hm | hm
        · exact absurd hm.symm h
        · simpa [akeys] using hm

theorem aset_of_not_mem {β : Type} (k : Str) (v : β) (d : List (Str × β)) (h : k ∉ akeys d) :
    aset k v d = d ++ [(k, v)] := by
  induction d with
  | nil => rfl
  | cons x d ih =>
    obtain ⟨k', v'⟩ := x
    simp only [akeys, List.map_cons, List.mem_cons, not_or] at h
    simp only [aset]
    rw [if_neg (fun e => h.1 e.symm), ih (by simpa [akeys] using h.2)]
    rfl

theorem adict_foldl_nodup {β : Type} (items acc : List (Str × β))
    (h : (akeys (acc ++ items)).Nodup) :
    items.foldl (fun d kv => aset kv.1 kv.2 d) acc = acc ++ items := by
  induction items generalizing acc with
  | nil => simp
  | cons x items ih =>
    obtain ⟨k, v⟩ := x
    have hk : k ∉ akeys acc := by
      simp only [akeys, List.map_append, List.map_cons] at h
      have := (List.nodup_append.mp h).2.2
      intro hm
      exact this k (by simpa [akeys] using hm) k (by simp) rfl
    simp only [List.foldl_cons]
    rw [aset_of_not_mem k v acc hk, ih]
    · simp
    · simpa using h

theorem adict_of_nodup {β : Type} (items : List (Str × β)) (h : (akeys items).Nodup) :
    adict items = items := by
  unfold adict
  rw [adict_foldl_nodup items [] (by simpa using h)]
  simp

/-! ## `_process_numeric` -/

/-- the names that received a number (the non-post-compile names), in order -/
def plainKeys (pp : List (Str × Option Str)) : List Str :=
  pp.filterMap (fun kv => match kv.2 with | some _ => some kv.1 | none => none)

theorem plainKeys_append (a b : List (Str × Option Str)) :
    plainKeys (a ++ b) = plainKeys a ++ plainKeys b := by
  simp [plainKeys]

theorem plainKeys_subset_keys (pp : List (Str × Option Str)) : ∀ n ∈ plainKeys pp, n ∈ akeys pp := by
  intro n hn
  simp only [plainKeys, List.mem_filterMap] at hn
  obtain ⟨kv, hkv, he⟩ := hn
  obtain ⟨k, v⟩ := kv
  cases v with
  | none => simp at he
  | some x =>
    simp at he; subst he
    simp only [akeys, List.mem_map]
    exact ⟨(k, some x), hkv, rfl⟩

/-- invariant of the numbering loop -/
structure NumInv (idc : Char) (pp : List (Str × Option Str)) (num : Nat) : Prop where
  nodup : (akeys pp).Nodup
  count : num = (plainKeys pp).length + 1
  assigned : ∀ (i : Nat) (n : Str), (plainKeys pp)[i]? = some n →
    alookup n pp = some (some (idc :: natStr (i + 1)))

theorem NumInv.init (idc : Char) : NumInv idc [] 1 :=
  ⟨by simp [akeys], by simp [plainKeys], by intro i n h; simp [plainKeys] at h⟩

theorem NumInv.push_none {idc pp num} (h : NumInv idc pp num) (n : Str) (hn : n ∉ akeys pp) :
    NumInv idc (pp ++ [(n, none)]) num := by
  refine ⟨?_, ?_, ?_⟩
  · simp only [akeys, List.map_append, List.map_cons, List.map_nil]
    refine List.nodup_append.mpr ⟨h.nodup, by simp, ?_⟩
    intro a ha b hb
    simp at hb; subst hb
    intro e; subst e; exact hn ha
  · simpa [plainKeys] using h.count
  · intro i m hm
    have : plainKeys (pp ++ [(n, none)]) = plainKeys pp := by simp [plainKeys]
    rw [this] at hm
    rw [alookup_append, h.assigned i m hm]

theorem NumInv.push_some {idc pp num} (h : NumInv idc pp num) (n : Str) (hn : n ∉ akeys pp) :
    NumInv idc (pp ++ [(n, some (idc :: natStr num))]) (num + 1) := by
  have hpk : plainKeys (pp ++ [(n, some (idc :: natStr num))]) = plainKeys pp ++ [n] := by
    simp [plainKeys]
  refine ⟨?_, ?_, ?_⟩
  · simp only [akeys, List.map_append, List.map_cons, List.map_nil]
    refine List.nodup_append.mpr ⟨h.nodup, by simp, ?_⟩
    intro a ha b hb
    simp at hb; subst hb
    intro e; subst e; exact hn ha
  · rw [hpk, h.count]; simp
  · intro i m hm
    rw [hpk] at hm
    by_cases hi : i < (plainKeys pp).length
    · rw [List.getElem?_append_left hi] at hm
      rw [alookup_append, h.assigned i m hm]
    · have hi' : i = (plainKeys pp).length := by
        have hlt := (List.getElem?_eq_some_iff.mp hm).1
        simp at hlt; omega
      subst hi'
      simp at hm; subst hm
      rw [alookup_append, alookup_none_of_not_mem _ _ hn]
      simp only [alookup, if_true]
      rw [h.count]

theorem numberBinds_inv (c : Compiled) (idc : Char) :
    ∀ (order : List Str) (num : Nat) (pp : List (Str × Option Str)), NumInv idc pp num →
      NumInv idc (numberBinds c idc order num pp).2 (numberBinds c idc order num pp).1 ∧
      (∀ n ∈ plainKeys pp, n ∈ plainKeys (numberBinds c idc order num pp).2) ∧
      (∀ n ∈ order, (∃ b, c.kindOf n = some b ∧ b.kind = .plain) → n ∉ akeys pp →
        n ∈ plainKeys (numberBinds c idc order num pp).2) := by
  intro order
  induction order with
  | nil => intro num pp h; simp [numberBinds, h]
  | cons n rest ih =>
    intro num pp h
    simp only [numberBinds]
    by_cases hin : (alookup n pp).isSome = true
    · simp only [hin, if_true]
      obtain ⟨h1, h2, h3⟩ := ih num pp h
      refine ⟨h1, h2, ?_⟩
      intro m hm hk hnot
      simp only [List.mem_cons] at hm
      rcases hm with rfl | hm
      · exact absurd ((alookup_isSome_iff _ _).mp hin) hnot
      · exact h3 m hm hk hnot
    · simp only [hin, if_false, Bool.false_eq_true]
      have hn : n ∉ akeys pp := fun hm => hin ((alookup_isSome_iff _ _).mpr hm)
      cases hk : c.kindOf n with
      | none =>
        simp only []
        obtain ⟨h1, h2, h3⟩ := ih num pp h
        refine ⟨h1, h2, ?_⟩
        intro m hm hkm hnot
        simp only [List.mem_cons] at hm
        rcases hm with rfl | hm
        · obtain ⟨b, hb, _⟩ := hkm; rw [hk] at hb; cases hb
        · exact h3 m hm hkm hnot
      | some b =>
        simp only []
        by_cases hpc : isPostCompile b.kind = true
        · simp only [hpc, if_true]
          obtain ⟨h1, h2, h3⟩ := ih num _ (h.push_none n hn)
          refine ⟨h1, ?_, ?_⟩
          · intro m hm; exact h2 m (by simp [plainKeys_append, hm])
          · intro m hm hkm hnot
            simp only [List.mem_cons] at hm
            rcases hm with rfl | hm
            · obtain ⟨b', hb', hpl⟩ := hkm
              rw [hk] at hb'; cases hb'
              simp [isPostCompile, hpl] at hpc
            · by_cases hmn : m = n
              · subst hmn
                obtain ⟨b', hb', hpl⟩ := hkm
                rw [hk] at hb'; cases hb'
                simp [isPostCompile, hpl] at hpc
              · exact h3 m hm hkm (by
                  simp only [akeys, List.map_append, List.map_cons, List.map_nil, List.mem_append,
                    List.mem_singleton, not_or]
                  exact ⟨by simpa [akeys] using hnot, hmn⟩)
        · simp only [hpc, if_false, Bool.false_eq_true]
          obtain ⟨h1, h2, h3⟩ := ih (num + 1) _ (h.push_some n hn)
          refine ⟨h1, ?_, ?_⟩
          · intro m hm; exact h2 m (by simp [plainKeys_append, hm])
          · intro m hm hkm hnot
            by_cases hmn : m = n
            · subst hmn
              exact h2 m (by simp [plainKeys])
            · simp only [List.mem_cons] at hm
              rcases hm with rfl | hm
              · exact absurd rfl hmn
              · exact h3 m hm hkm (by
                  simp only [akeys, List.map_append, List.map_cons, List.map_nil, List.mem_append,
                    List.mem_singleton, not_or]
                  exact ⟨by simpa [akeys] using hnot, hmn⟩)

/-- names of the bind (not post-compile) segments -/
def bindSegNames : List Seg → List Str
  | [] => []
  | .bind n :: r => n :: bindSegNames r
  | _ :: r => bindSegNames r

/-- the statement with every bind segment replaced by its number: the 1-based
    position of its name in `pk` -/
def numString (idc : Char) (pk : List Str) : List Seg → Str
  | [] => []
  | .text t :: r => t ++ numString idc pk r
  | .bind n :: r => (idc :: natStr (pk.idxOf n + 1)) ++ numString idc pk r
  | .pc n g :: r => (Hit.b n g).raw ++ numString idc pk r

theorem subLookup_lits (pp : List (Str × Option Str)) (t : Str) (rest : List Tok) :
    subLookup pp (t.map Tok.lit ++ rest) = (subLookup pp rest).map (t ++ ·) := by
  induction t with
  | nil => cases h : subLookup pp rest <;> simp [h, Except.map]
  | cons c t ih =>
    simp only [List.map_cons, List.cons_append, subLookup, ih]
    cases h : subLookup pp rest <;> simp [Except.map]

theorem subLookup_pieceToks (idc : Char) (pp : List (Str × Option Str)) (num : Nat)
    (hinv : NumInv idc pp num) :
    ∀ segs : List Seg, (∀ n ∈ bindSegNames segs, n ∈ plainKeys pp) →
      subLookup pp (pieceToks (segs.map (Seg.toPiece .onlyA))) =
        .ok (numString idc (plainKeys pp) segs) := by
  intro segs
  induction segs with
  | nil => intro _; rfl
  | cons s r ih =>
    intro h
    cases s with
    | text t =>
      have := ih (by simpa [bindSegNames] using h)
      simp only [List.map_cons, Seg.toPiece, pieceToks, subLookup_lits, this, numString]
      rfl
    | pc n g =>
      have := ih (by simpa [bindSegNames] using h)
      simp only [List.map_cons, Seg.toPiece, pieceToks, if_true, subLookup_lits, this, numString]
      rfl
    | bind n =>
      have hr := ih (fun m hm => h m (by simp [bindSegNames, hm]))
      have hn : n ∈ plainKeys pp := h n (by simp [bindSegNames])
      have hlt := List.idxOf_lt_length_of_mem hn
      have hget : (plainKeys pp)[(plainKeys pp).idxOf n]? = some n := by
        rw [List.getElem?_eq_getElem hlt]; simp
      have := hinv.assigned _ _ hget
      simp only [List.map_cons, Seg.toPiece, pieceToks, reduceCtorEq, if_false, subLookup, Hit.name,
        this, hr, numString]
      rfl

/-! ## the guards are decidable (used by the non-vacuity examples and the driver) -/

instance (n : Str) : Decidable (goodA n) := by unfold goodA; infer_instance

instance (n : Str) : Decidable (goodB n) := by unfold goodB; infer_instance

instance (g : Str) : Decidable (goodGrp g) := by
  cases g <;> (unfold goodGrp; infer_instance)

instance (m : Mode) (h : Hit) : Decidable (holeOk m h) := by
  cases h with
  | a n => unfold holeOk; infer_instance
  | b n g => cases g <;> (unfold holeOk; infer_instance)

def decSafePieces (m : Mode) : (ps : List Piece) → Decidable (SafePieces m ps)
  | [] => isTrue trivial
  | .lit t :: ps =>
    have := decSafePieces m ps
    by unfold SafePieces; infer_instance
  | .hole h :: ps =>
    have := decSafePieces m ps
    by unfold SafePieces; infer_instance

instance (m : Mode) (ps : List Piece) : Decidable (SafePieces m ps) := decSafePieces m ps

instance (m : Mode) (segs : List Seg) : Decidable (SafeSegs m segs) := by
  unfold SafeSegs; infer_instance

/-! ## association-list algebra for the post-compile loop -/

theorem alookup_aset_self {β : Type} (k : Str) (v : β) (d : List (Str × β)) :
    alookup k (aset k v d) = some v := by
  induction d with
  | nil => simp [aset, alookup]
  | cons x d ih =>
    obtain ⟨k', v'⟩ := x
    by_cases h : k' = k
    · subst h; simp [aset, alookup]
    · simp [aset, alookup, h, ih]

theorem alookup_aset_ne {β : Type} (k k' : Str) (v : β) (d : List (Str × β)) (h : k' ≠ k) :
    alookup k (aset k' v d) = alookup k d := by
  induction d with
  | nil => simp [aset, alookup, h]
  | cons x d ih =>
    obtain ⟨a, b⟩ := x
    by_cases ha : a = k'
    · subst ha; simp [aset, alookup, h]
    · by_cases hk : a = k
      · subst hk; simp [aset, alookup, ha]
      · simp [aset, alookup, ha, hk, ih]

theorem alookup_aremove_ne {β : Type} (k k' : Str) (d : List (Str × β)) (h : k' ≠ k) :
    alookup k (aremove k' d) = alookup k d := by
  induction d with
  | nil => rfl
  | cons x d ih =>
    obtain ⟨a, b⟩ := x
    by_cases ha : a = k'
    · subst ha; simp [aremove, alookup, h]
    · by_cases hk : a = k
      · subst hk; simp [aremove, alookup, ha]
      · simp [aremove, alookup, ha, hk, ih]

theorem alookup_foldl_aset_not_mem (k : Str) (tu : List (Str × Str)) :
    ∀ d : List (Str × PVal), k ∉ tu.map (·.1) →
      alookup k (tu.foldl (fun d kv => aset kv.1 (PVal.one kv.2) d) d) = alookup k d := by
  induction tu with
  | nil => intro d _; rfl
  | cons x tu ih =>
    intro d h
    obtain ⟨a, b⟩ := x
    simp only [List.map_cons, List.mem_cons, not_or] at h
    simp only [List.foldl_cons]
    rw [ih _ h.2, alookup_aset_ne _ _ _ _ (fun e => h.1 e.symm)]

theorem alookup_foldl_aset_mem (tu : List (Str × Str)) (hnd : (tu.map (·.1)).Nodup) :
    ∀ (d : List (Str × PVal)) (i : Nat) (kv : Str × Str), tu[i]? = some kv →
      alookup kv.1 (tu.foldl (fun d kv => aset kv.1 (PVal.one kv.2) d) d) = some (PVal.one kv.2) := by
  induction tu with
  | nil => intro d i kv h; simp at h
  | cons x tu ih =>
    intro d i kv h
    simp only [List.map_cons, List.nodup_cons] at hnd
    simp only [List.foldl_cons]
    cases i with
    | zero =>
      simp at h; subst h
      rw [alookup_foldl_aset_not_mem _ _ _ hnd.1, alookup_aset_self]
    | succ n =>
      simp only [List.getElem?_cons_succ] at h
      exact ih hnd.2 _ n kv h

/-! ## the post-compile loop (positional, non-numeric styles, no escaped names) -/

def contrib (c : Compiled) (st : Style) (params0 : List (Str × PVal)) (n : Str) :
    List (Str × PVal) :=
  match c.kindOf n, alookup n params0 with
  | some b, some (.many vs) =>
    if b.kind = .expanding then (leep st b n vs).1.map (fun kv => (kv.1, PVal.one kv.2)) else []
  | some b, some (.one v) => if b.kind = .plain then [(n, PVal.one v)] else []
  | _, _ => []

def NameOk (c : Compiled) (params0 : List (Str × PVal)) (n : Str) : Prop :=
  (∃ b v, c.kindOf n = some b ∧ b.kind = .plain ∧ alookup n params0 = some (.one v)) ∨
  (∃ b vs, c.kindOf n = some b ∧ b.kind = .expanding ∧ alookup n params0 = some (.many vs))

def isExpanding (c : Compiled) (n : Str) : Bool :=
  match c.kindOf n with
  | some b => b.kind = .expanding
  | none => false

structure LoopInv (c : Compiled) (st : Style) (params0 : List (Str × PVal))
    (done : List Str) (s : PCState) : Prop where
  newPos : s.newPos = (done.flatMap (contrib c st params0)).map (·.1)
  numPos : s.numPos = []
  replKeys : ∀ k, k ∈ akeys s.repl → k ∈ done ∧ isExpanding c k = true
  repl : ∀ n ∈ done, ∀ b vs, c.kindOf n = some b → b.kind = .expanding →
    alookup n params0 = some (.many vs) → alookup n s.repl = some (leep st b n vs).2
  generated : ∀ kv ∈ done.flatMap (contrib c st params0),
    (kv.1 ∉ done ∨ isExpanding c kv.1 = false) → alookup kv.1 s.params = some kv.2
  untouched : ∀ k, k ∉ (done.flatMap (contrib c st params0)).map (·.1) →
    (k ∉ done ∨ isExpanding c k = false) → alookup k s.params = alookup k params0

/-- the global freshness assumptions (finding `expanded-name-clashes-with-bind-name`
    is what happens without them) -/
structure NoClash (c : Compiled) (st : Style) (params0 : List (Str × PVal))
    (names : List Str) : Prop where
  names_nodup : names.Nodup
  keys_nodup : ((names.flatMap (contrib c st params0)).map (·.1)).Nodup
  fresh : ∀ n ∈ names, isExpanding c n = true → ∀ kv ∈ contrib c st params0 n, kv.1 ∉ names

theorem akeys_aset {β : Type} (k : Str) (v : β) (d : List (Str × β)) :
    ∀ x, x ∈ akeys (aset k v d) → x ∈ akeys d ∨ x = k := by
  induction d with
  | nil => intro x h; simp [aset, akeys] at h; right; exact h
  | cons y d ih =>
    obtain ⟨a, b⟩ := y
    intro x h
    by_cases ha : a = k
    · subst ha
      simp only [aset, if_true, akeys, List.map_cons, List.mem_cons] at h ⊢
      rcases h with h | h
      · left; left; exact h
      · left; right; exact h
    · simp only [aset, ha, if_false, akeys, List.map_cons, List.mem_cons] at h ⊢
      rcases h with h | h
      · left; left; exact h
      · rcases ih x (by simpa [akeys] using h) with h2 | h2
        · left; right; simpa [akeys] using h2
        · right; exact h2

theorem contrib_plain {c : Compiled} {st : Style} {params0 : List (Str × PVal)} {n : Str}
    {b : BindInfo} {v : Str} (hk : c.kindOf n = some b) (hp : b.kind = .plain)
    (hv : alookup n params0 = some (.one v)) : contrib c st params0 n = [(n, .one v)] := by
  simp [contrib, hk, hv, hp]

theorem contrib_expanding {c : Compiled} {st : Style} {params0 : List (Str × PVal)} {n : Str}
    {b : BindInfo} {vs : List Str} (hk : c.kindOf n = some b) (hp : b.kind = .expanding)
    (hv : alookup n params0 = some (.many vs)) :
    contrib c st params0 n = (leep st b n vs).1.map (fun kv => (kv.1, PVal.one kv.2)) := by
  simp [contrib, hk, hv, hp]

theorem pcStep_plain (c : Compiled) (st : Style) (s : PCState) (n : Str) (b : BindInfo)
    (hk : c.kindOf n = some b) (hp : b.kind = .plain)
    (hpos : st.positional = true) :
    pcStep c st s n = .ok { s with newPos := s.newPos ++ [n] } := by
  unfold pcStep
  simp [hk, hp, hpos]

theorem pcStep_expanding (c : Compiled) (st : Style) (s : PCState) (n : Str) (b : BindInfo)
    (vs : List Str)
    (hesc : c.escaped = []) (hk : c.kindOf n = some b) (hp : b.kind = .expanding)
    (hr : alookup n s.repl = none) (hv : alookup n s.params = some (.many vs))
    (hpos : st.positional = true) (hnum : st.isNumeric = false) :
    pcStep c st s n =
      .ok { s with
            params := (leep st b n vs).1.foldl (fun d kv => aset kv.1 (PVal.one kv.2) d)
                        (aremove n s.params),
            toUpd := aset n (leep st b n vs).1 s.toUpd,
            repl := aset n (leep st b n vs).2 s.repl,
            newPos := s.newPos ++ (leep st b n vs).1.map (·.1) } := by
  unfold pcStep
  simp [hesc, hk, hp, hr, hv, hpos, hnum]


theorem isExpanding_of {c : Compiled} {n : Str} {b : BindInfo} (hk : c.kindOf n = some b) :
    isExpanding c n = decide (b.kind = .expanding) := by
  simp [isExpanding, hk]

theorem step_plain (c : Compiled) (st : Style) (params0 : List (Str × PVal)) (done : List Str)
    (s : PCState) (n : Str) (b : BindInfo) (v : Str)
    (hnd : n ∉ done)
    (hdk : ((done ++ [n]).flatMap (contrib c st params0)).map (·.1) |>.Nodup)
    (hinv : LoopInv c st params0 done s)
    (hk : c.kindOf n = some b) (hp : b.kind = .plain) (hv : alookup n params0 = some (.one v)) :
    LoopInv c st params0 (done ++ [n]) { s with newPos := s.newPos ++ [n] } := by
  have hc := contrib_plain (st := st) hk hp hv
  have hne : isExpanding c n = false := by rw [isExpanding_of hk]; simp [hp]
  have hfm : (done ++ [n]).flatMap (contrib c st params0) =
      done.flatMap (contrib c st params0) ++ [(n, PVal.one v)] := by
    simp [List.flatMap_append, hc]
  have hnk : n ∉ (done.flatMap (contrib c st params0)).map (·.1) := by
    rw [hfm] at hdk
    simp only [List.map_append, List.map_cons, List.map_nil] at hdk
    have := (List.nodup_append.mp hdk).2.2
    intro hm
    exact this n hm n (by simp) rfl
  refine ⟨?_, hinv.numPos, ?_, ?_, ?_, ?_⟩
  · simp only [hfm, List.map_append, List.map_cons, List.map_nil, hinv.newPos]
  · intro k hkk
    obtain ⟨h1, h2⟩ := hinv.replKeys k hkk
    exact ⟨by simp [h1], h2⟩
  · intro m hm b' vs hk' hp' hv'
    simp only [List.mem_append, List.mem_singleton] at hm
    rcases hm with hm | hm
    · exact hinv.repl m hm b' vs hk' hp' hv'
    · subst hm
      rw [hk] at hk'; cases hk'
      rw [hp] at hp'; cases hp'
  · intro kv hkv hcond
    rw [hfm] at hkv
    simp only [List.mem_append, List.mem_singleton] at hkv
    rcases hkv with hkv | hkv
    · apply hinv.generated kv hkv
      rcases hcond with h | h
      · left; intro hd; exact h (by simp [hd])
      · right; exact h
    · subst hkv
      simp only
      rw [hinv.untouched n hnk (Or.inl hnd), hv]
  · intro k hk1 hk2
    apply hinv.untouched k
    · intro hm; apply hk1; rw [hfm]; simp [hm]
    · rcases hk2 with h | h
      · left; intro hd; exact h (by simp [hd])
      · right; exact h


theorem step_expanding (c : Compiled) (st : Style) (params0 : List (Str × PVal))
    (done : List Str) (s : PCState) (n : Str) (b : BindInfo) (vs : List Str)
    (hnd : n ∉ done)
    (hdk : ((done ++ [n]).flatMap (contrib c st params0)).map (·.1) |>.Nodup)
    (hnk : n ∉ (done.flatMap (contrib c st params0)).map (·.1))
    (hfresh : ∀ kv ∈ contrib c st params0 n, kv.1 ≠ n)
    (hinv : LoopInv c st params0 done s)
    (hk : c.kindOf n = some b) (hp : b.kind = .expanding)
    (hv : alookup n params0 = some (.many vs)) :
    alookup n s.repl = none ∧ alookup n s.params = some (.many vs) ∧
    LoopInv c st params0 (done ++ [n])
      { s with
        params := (leep st b n vs).1.foldl (fun d kv => aset kv.1 (PVal.one kv.2) d)
                    (aremove n s.params),
        toUpd := aset n (leep st b n vs).1 s.toUpd,
        repl := aset n (leep st b n vs).2 s.repl,
        newPos := s.newPos ++ (leep st b n vs).1.map (·.1) } := by
  have hc := contrib_expanding (st := st) hk hp hv
  have hex : isExpanding c n = true := by rw [isExpanding_of hk]; simp [hp]
  have hfm : (done ++ [n]).flatMap (contrib c st params0) =
      done.flatMap (contrib c st params0) ++ contrib c st params0 n := by
    simp [List.flatMap_append]
  have hkeys : (contrib c st params0 n).map (·.1) = (leep st b n vs).1.map (·.1) := by
    rw [hc]; simp [Function.comp_def]
  have hdk' := hdk
  rw [hfm] at hdk'
  simp only [List.map_append] at hdk'
  have hdisj : ∀ k, k ∈ (done.flatMap (contrib c st params0)).map (·.1) →
      k ∉ (leep st b n vs).1.map (·.1) := by
    intro k h1 h2
    rw [← hkeys] at h2
    exact (List.nodup_append.mp hdk').2.2 k h1 k h2 rfl
  have htund : ((leep st b n vs).1.map (·.1)).Nodup := by
    rw [← hkeys]; exact (List.nodup_append.mp hdk').2.1
  have hnt : n ∉ (leep st b n vs).1.map (·.1) := by
    intro hm
    rw [← hkeys] at hm
    obtain ⟨kv, hkv, he⟩ := List.mem_map.mp hm
    exact hfresh kv hkv he
  have hrn : alookup n s.repl = none := by
    apply alookup_none_of_not_mem
    intro hm
    exact hnd (hinv.replKeys n hm).1
  have hpn : alookup n s.params = some (.many vs) := by
    rw [hinv.untouched n hnk (Or.inl hnd), hv]
  refine ⟨hrn, hpn, ?_, hinv.numPos, ?_, ?_, ?_, ?_⟩
  · simp only [hfm, List.map_append, hinv.newPos, hkeys]
  · intro k hkk
    rcases akeys_aset _ _ _ k hkk with h | h
    · obtain ⟨h1, h2⟩ := hinv.replKeys k h
      exact ⟨by simp [h1], h2⟩
    · subst h; exact ⟨by simp, hex⟩
  · intro m hm b' vs' hk' hp' hv'
    simp only [List.mem_append, List.mem_singleton] at hm
    by_cases hmn : m = n
    · subst hmn
      rw [hk] at hk'; cases hk'
      rw [hv] at hv'; cases hv'
      exact alookup_aset_self _ _ _
    · rcases hm with hm | hm
      · simp only []
        rw [alookup_aset_ne _ _ _ _ (fun e => hmn e.symm)]
        exact hinv.repl m hm b' vs' hk' hp' hv'
      · exact absurd hm hmn
  · intro kv hkv hcond
    rw [hfm] at hkv
    simp only [List.mem_append] at hkv
    simp only []
    rcases hkv with hkv | hkv
    · -- an earlier key: untouched by this step
      have hk1 : kv.1 ∈ (done.flatMap (contrib c st params0)).map (·.1) :=
        List.mem_map.mpr ⟨kv, hkv, rfl⟩
      have hne : kv.1 ≠ n := fun e => hnk (e ▸ hk1)
      rw [alookup_foldl_aset_not_mem _ _ _ (hdisj _ hk1), alookup_aremove_ne _ _ _ (fun e => hne e.symm)]
      apply hinv.generated kv hkv
      rcases hcond with h | h
      · left; intro hd; exact h (by simp [hd])
      · right; exact h
    · rw [hc] at hkv
      obtain ⟨x, hx, rfl⟩ := List.mem_map.mp hkv
      obtain ⟨i, hi⟩ := List.getElem?_of_mem hx
      exact alookup_foldl_aset_mem _ htund _ i x hi
  · intro k hk1 hk2
    simp only []
    have hkn : k ≠ n := by
      intro e; subst e
      rcases hk2 with h | h
      · exact h (by simp)
      · rw [hex] at h; cases h
    have hk1' : k ∉ (done.flatMap (contrib c st params0)).map (·.1) ∧
        k ∉ (leep st b n vs).1.map (·.1) := by
      rw [hfm] at hk1
      simp only [List.map_append, List.mem_append, not_or] at hk1
      exact ⟨hk1.1, by rw [← hkeys]; exact hk1.2⟩
    rw [alookup_foldl_aset_not_mem _ _ _ hk1'.2, alookup_aremove_ne _ _ _ (fun e => hkn e.symm)]
    apply hinv.untouched k hk1'.1
    rcases hk2 with h | h
    · left; intro hd; exact h (by simp [hd])
    · right; exact h


theorem contrib_keys_of_plain {c : Compiled} {st : Style} {params0 : List (Str × PVal)} {m : Str}
    (h : ∃ b v, c.kindOf m = some b ∧ b.kind = .plain ∧ alookup m params0 = some (.one v)) :
    ∀ kv ∈ contrib c st params0 m, kv.1 = m := by
  obtain ⟨b, v, hk, hp, hv⟩ := h
  intro kv hkv
  rw [contrib_plain hk hp hv] at hkv
  simp at hkv; rw [hkv]

theorem pcLoop_inv (c : Compiled) (st : Style) (params0 : List (Str × PVal)) (names : List Str)
    (hesc : c.escaped = []) (hpos : st.positional = true) (hnum : st.isNumeric = false)
    (hnc : NoClash c st params0 names) (hok : ∀ n ∈ names, NameOk c params0 n) :
    ∀ (rest done : List Str) (s : PCState), done ++ rest = names →
      LoopInv c st params0 done s →
      ∃ s', pcLoop c st rest s = .ok s' ∧ LoopInv c st params0 names s' := by
  intro rest
  induction rest with
  | nil =>
    intro done s he hinv
    simp at he; subst he
    exact ⟨s, rfl, hinv⟩
  | cons n rest ih =>
    intro done s he hinv
    have hn : n ∈ names := by rw [← he]; simp
    have hsub : ∀ x ∈ done, x ∈ names := by intro x hx; rw [← he]; simp [hx]
    have hnd : n ∉ done := by
      have := hnc.names_nodup
      rw [← he] at this
      have h2 := (List.nodup_append.mp this).2.2
      intro hd
      exact h2 n hd n (by simp) rfl
    have he' : (done ++ [n]) ++ rest = names := by rw [← he]; simp
    have hdk : (((done ++ [n]).flatMap (contrib c st params0)).map (·.1)).Nodup := by
      have := hnc.keys_nodup
      rw [← he', List.flatMap_append, List.map_append] at this
      exact (List.nodup_append.mp this).1
    rcases hok n hn with ⟨b, v, hk, hp, hv⟩ | ⟨b, vs, hk, hp, hv⟩
    · have hstep := pcStep_plain c st s n b hk hp hpos
      have hinv' := step_plain c st params0 done s n b v hnd hdk hinv hk hp hv
      obtain ⟨s', hs', hi'⟩ := ih (done ++ [n]) _ he' hinv'
      exact ⟨s', by simp only [pcLoop, hstep]; exact hs', hi'⟩
    · have hex : isExpanding c n = true := by rw [isExpanding_of hk]; simp [hp]
      have hfresh : ∀ kv ∈ contrib c st params0 n, kv.1 ≠ n := by
        intro kv hkv e
        exact hnc.fresh n hn hex kv hkv (e ▸ hn)
      have hnk : n ∉ (done.flatMap (contrib c st params0)).map (·.1) := by
        intro hm
        obtain ⟨kv, hkv, hkn⟩ := List.mem_map.mp hm
        obtain ⟨m, hmd, hkm⟩ := List.mem_flatMap.mp hkv
        rcases hok m (hsub m hmd) with hpl | ⟨b', vs', hk', hp', hv'⟩
        · have := contrib_keys_of_plain (st := st) hpl kv hkm
          rw [hkn] at this
          exact hnd (this ▸ hmd)
        · have hexm : isExpanding c m = true := by rw [isExpanding_of hk']; simp [hp']
          exact hnc.fresh m (hsub m hmd) hexm kv hkm (hkn ▸ hn)
      obtain ⟨hrn, hpn, hinv'⟩ := step_expanding c st params0 done s n b vs hnd hdk hnk hfresh hinv hk hp hv
      have hstep := pcStep_expanding c st s n b vs hesc hk hp hrn hpn hpos hnum
      obtain ⟨s', hs', hi'⟩ := ih (done ++ [n]) _ he' hinv'
      exact ⟨s', by simp only [pcLoop, hstep]; exact hs', hi'⟩

theorem LoopInv.init (c : Compiled) (st : Style) (params0 : List (Str × PVal)) :
    LoopInv c st params0 []
      { params := params0, repl := [], toUpd := [], newPos := [], numPos := [] } :=
  ⟨rfl, rfl, by intro k h; simp [akeys] at h, by intro n h; simp at h,
   by intro kv h; simp at h, by intro k _ _; rfl⟩

theorem collectPos_pairs (params : List (Str × PVal)) :
    ∀ l : List (Str × PVal), (∀ kv ∈ l, alookup kv.1 params = some kv.2) →
      collectPos params (l.map (·.1)) = .ok (l.map (·.2)) := by
  intro l
  induction l with
  | nil => intro _; rfl
  | cons x l ih =>
    intro h
    simp only [List.map_cons, collectPos, h x (by simp), ih (fun kv hkv => h kv (by simp [hkv]))]
    rfl

/-- the stage-1 statement as segments: bind segments have become placeholder text -/
def posSegs (ph : Str) : List Seg → List Seg
  | [] => []
  | .bind _ :: r => .text ph :: posSegs ph r
  | .text t :: r => .text t :: posSegs ph r
  | .pc n g :: r => .pc n g :: posSegs ph r

theorem posString_eq (ph : Str) (segs : List Seg) :
    posString ph segs = renderSegs (posSegs ph segs) := by
  induction segs with
  | nil => rfl
  | cons s r ih => cases s <;> simp [posString, posSegs, renderSegs, Seg.render, ih]

/-- the statement after expansion: every post-compile token replaced by `R name` -/
def expString (ph : Str) (R : Str → Str) : List Seg → Str
  | [] => []
  | .text t :: r => t ++ expString ph R r
  | .bind _ :: r => ph ++ expString ph R r
  | .pc n _ :: r => R n ++ expString ph R r

theorem subExpanding_lits (repl : List (Str × Str)) (t : Str) (rest : List Tok) :
    subExpanding repl (t.map Tok.lit ++ rest) = (subExpanding repl rest).map (t ++ ·) := by
  induction t with
  | nil => cases h : subExpanding repl rest <;> simp [h, Except.map]
  | cons c t ih =>
    simp only [List.map_cons, List.cons_append, subExpanding, ih]
    cases h : subExpanding repl rest <;> simp [Except.map]

theorem subExpanding_posSegs (ph : Str) (repl : List (Str × Str)) (R : Str → Str) :
    ∀ segs : List Seg,
      (∀ n g, Seg.pc n g ∈ segs → g = none ∧ alookup n repl = some (R n)) →
      subExpanding repl (pieceToks ((posSegs ph segs).map (Seg.toPiece .onlyB))) =
        .ok (expString ph R segs) := by
  intro segs
  induction segs with
  | nil => intro _; rfl
  | cons s r ih =>
    intro h
    have hr := ih (fun n g hm => h n g (by simp [hm]))
    cases s with
    | text t =>
      simp only [posSegs, List.map_cons, Seg.toPiece, pieceToks, subExpanding_lits, hr, expString]
      rfl
    | bind n =>
      simp only [posSegs, List.map_cons, Seg.toPiece, pieceToks, subExpanding_lits, hr, expString]
      rfl
    | pc n g =>
      obtain ⟨hg, hl⟩ := h n g (by simp)
      subst hg
      simp only [posSegs, List.map_cons, Seg.toPiece, reduceCtorEq, if_false, pieceToks,
        subExpanding, Hit.name, hl, hr, expString]
      rfl

end SaVerif.Bind
