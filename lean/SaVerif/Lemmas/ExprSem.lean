import SaVerif.Lemmas.ExprBuild
import SaVerif.Model.ExprSem
/-!
Semantics of the core fragment: the emitted token tree evaluates (standard interpretation) to
the value of the constructed element (`evalG_render`), the constructors preserve values
(`selfGroup`, `mkBinary`, flattening, `negate`, `and_`/`or_`), hence the emitted tree evaluates
to the meaning of the API-call tree (`build_num_eval`, `build_bool_eval`).
-/
set_option linter.unusedSectionVars false

namespace SaVerif.Expr
open SaVerif.Expr.Gen SaVerif.Pratt SaExpr

variable [Abs]

theorem truth_ofTV (t : TV) : truth (ofTV t) = t := by
  cases t with
  | none => rfl
  | some b => cases b <;> rfl

theorem fnVal_concat (vs : List Val) : fnVal "concat" vs = concatAllVal vs := by
  simp [fnVal]

/-- operators whose value is not given by `binVal`: the divisions and the LIKE family -/
def specialOp (op : Op) : Bool := coreDiv op || likeOp op || inOp op || btwOp op

theorem coreBin_not_div {op : Op} (h : coreBin op = true) : specialOp op = false := by
  cases op <;> simp [coreBin] at h <;> rfl

theorem coreList_not_div {op : Op} (h : coreList op = true) : specialOp op = false := by
  cases op <;> simp [coreList] at h <;> rfl

theorem evalCore_binary (env : String → Val) (d : Dialect) (op : Op) (l r : SaExpr) (n : Option Op)
    (esc : Option String) (ty : Ty) (h : specialOp op = false) :
    evalCore env d (.binary op l r n esc ty) = binVal op (evalCore env d l) (evalCore env d r) := by
  cases op <;> simp [specialOp, coreDiv, likeOp, inOp, btwOp] at h <;> rfl

theorem evalCore_like (env : String → Val) (d : Dialect) (op : Op) (l r : SaExpr) (n : Option Op)
    (esc : Option String) (ty : Ty) (h : likeOp op = true) :
    evalCore env d (.binary op l r n esc ty) =
      likeVal d op esc (evalCore env d l) (evalCore env d r) := by
  cases op <;> simp [likeOp] at h <;> rfl

theorem evalCore_in (env : String → Val) (d : Dialect) (op : Op) (l : SaExpr) (vs : List Lit)
    (lty : Ty) (eo : Op) (n : Option Op) (esc : Option String) (ty : Ty) (h : inOp op = true) :
    evalCore env d (.binary op l (.inlist vs lty eo) n esc ty) =
      ofTV (if op = .in_op then evalIn (evalCore env d l) (vs.map litVal)
            else evalNotIn (evalCore env d l) (vs.map litVal)) := by
  cases op <;> simp [inOp] at h <;> rfl

theorem evalCore_btw (env : String → Val) (d : Dialect) (op : Op) (l lo hi : SaExpr) (cty : Ty)
    (n : Option Op) (esc : Option String) (ty : Ty) (h : btwOp op = true) :
    evalCore env d (.binary op l (.clist .and_ [lo, hi] false false cty) n esc ty) =
      btwVal (decide (op = .not_between_op)) (evalCore env d l) [evalCore env d lo, evalCore env d hi] := by
  cases op <;> simp [btwOp] at h <;> rfl

theorem not3_not3 (t : TV) : not3 (not3 t) = t := by
  cases t with
  | none => rfl
  | some b => cases b <;> rfl

/-- the recorded negation of a LIKE-family operator is its three-valued negation -/
theorem likeVal_neg (d : Dialect) (op n : Op) (esc : Option String) (a b : Val)
    (h : likePair op n = true) :
    truth (likeVal d n esc a b) = not3 (truth (likeVal d op esc a b)) := by
  cases op <;> cases n <;> simp [likePair] at h <;>
    simp [likeVal, truth_ofTV, not3_not3]

theorem evalG_likeG (env : String → Val) (d : Dialect) (op : Op) (t : String) (L R : G) (a b : Val)
    (esc : Option String) (h : likeOp op = true)
    (hL : evalG (stdI env) L = .s a) (hR : evalG (stdI env) R = .s b) :
    evalG (stdI env) (likeG d (likeSym d op) t (likeWrap d op L) (likeWrap d op R) esc) =
      .s (likeVal d op esc a b) := by
  have plain : ∀ (s : Sym), ∀ esc : Option String,
      evalG (stdI env) (likeG d s t L R esc) =
        (match esc with
         | none => (stdI env).inf s (.s a) (.s b)
         | some c => (stdI env).tern s .escape (.s a) (.s b) (.s (.str c))) := by
    intro s esc
    cases esc <;> simp only [likeG, evalG, hL, hR] <;> rfl
  have low : ∀ (s : Sym), ∀ esc : Option String,
      evalG (stdI env) (likeG d s t (lowerG L) (lowerG R) esc) =
        (match esc with
         | none => (stdI env).inf s (.s (fnVal "lower" [a])) (.s (fnVal "lower" [b]))
         | some c => (stdI env).tern s .escape (.s (fnVal "lower" [a])) (.s (fnVal "lower" [b]))
             (.s (.str c))) := by
    intro s esc
    cases esc <;> simp only [likeG, lowerG, evalG, hL, hR] <;> rfl
  cases op <;> simp [likeOp] at h
  · have hw : ∀ x, likeWrap d .like_op x = x := fun x => by simp [likeWrap]
    rw [hw, hw, show likeSym d .like_op = .like from rfl, plain]
    cases esc <;> rfl
  · have hw : ∀ x, likeWrap d .not_like_op x = x := fun x => by simp [likeWrap]
    rw [hw, hw, show likeSym d .not_like_op = .notLike from rfl, plain]
    cases esc <;> rfl
  · by_cases hd : d = .postgresql
    · have hw : ∀ x, likeWrap d .ilike_op x = x := fun x => by simp [likeWrap, hd]
      rw [hw, hw, show likeSym d .ilike_op = .ilike from by simp [likeSym, hd], plain]
      cases esc <;> simp [likeVal, ilikeTV, hd] <;> rfl
    · have hw : ∀ x, likeWrap d .ilike_op x = lowerG x := fun x => by simp [likeWrap, hd]
      rw [hw, hw, show likeSym d .ilike_op = .like from by simp [likeSym, hd], low]
      cases esc <;> simp [likeVal, ilikeTV, hd] <;> rfl
  · by_cases hd : d = .postgresql
    · have hw : ∀ x, likeWrap d .not_ilike_op x = x := fun x => by simp [likeWrap, hd]
      rw [hw, hw, show likeSym d .not_ilike_op = .notIlike from by simp [likeSym, hd], plain]
      cases esc <;> simp [likeVal, ilikeTV, hd] <;> rfl
    · have hw : ∀ x, likeWrap d .not_ilike_op x = lowerG x := fun x => by simp [likeWrap, hd]
      rw [hw, hw, show likeSym d .not_ilike_op = .notLike from by simp [likeSym, hd], low]
      cases esc <;> simp [likeVal, ilikeTV, hd] <;> rfl

theorem evalCore_div (env : String → Val) (d : Dialect) (op : Op) (l r : SaExpr) (n : Option Op)
    (esc : Option String) (ty : Ty) (h : coreDiv op = true) :
    evalCore env d (.binary op l r n esc ty) =
      divVal d op (SaExpr.tyOf l) (SaExpr.tyOf r) (evalCore env d l) (evalCore env d r) := by
  cases op <;> simp [coreDiv] at h <;> rfl

theorem evalG_truedivG (env : String → Val) (d : Dialect) (lt rt : Ty) (L R : G) (a b : Val)
    (hL : evalG (stdI env) L = .s a) (hR : evalG (stdI env) R = .s b) :
    evalG (stdI env) (truedivG d L R) = .s (divVal d .truediv lt rt a b) := by
  unfold truedivG divVal
  split
  · simp only [evalG, hL, hR]; rfl
  · split
    · simp only [evalG, hL, hR]; rfl
    · simp only [evalG, hL, hR]; rfl

theorem evalG_floordivG (env : String → Val) (d : Dialect) (lt rt : Ty) (L R : G) (a b : Val)
    (hL : evalG (stdI env) L = .s a) (hR : evalG (stdI env) R = .s b) :
    evalG (stdI env) (floordivG d lt rt L R) = .s (divVal d .floordiv lt rt a b) := by
  unfold floordivG divVal
  split
  · simp only [evalG, hL, hR]; rfl
  · simp only [evalG, hL, hR]; rfl

theorem stdInf_core (op : Op) (h : coreBin op = true ∨ coreList op = true) (a b : Val) :
    stdInf (symOf op) (.s a) (.s b) = .s (binVal op a b) := by
  rcases h with h | h
  · cases op <;> simp [coreBin] at h <;> rfl
  · cases op <;> simp [coreList] at h <;> rfl

theorem evalG_chainFrom (env : String → Val) (s : Sym) (t : String) :
    ∀ (gs : List G) (acc : G),
      evalG (stdI env) (chainFrom s t acc gs)
        = gs.foldl (fun v g => stdInf s v (evalG (stdI env) g)) (evalG (stdI env) acc)
  | [], acc => rfl
  | g :: gs, acc => by
    simp only [chainFrom, List.foldl_cons]
    rw [evalG_chainFrom env s t gs]
    rfl

theorem foldl_stdInf (op : Op) (h : coreBin op = true ∨ coreList op = true) :
    ∀ (vs : List Val) (a : Val),
      (vs.map SV.s).foldl (fun v x => stdInf (symOf op) v x) (.s a) = .s (vs.foldl (binVal op) a)
  | [], a => rfl
  | v :: vs, a => by
    simp only [List.map_cons, List.foldl_cons, stdInf_core op h]
    exact foldl_stdInf op h vs _

theorem atom_lit (env : String → Val) (d : Dialect) (v : Lit) :
    atomVal env (renderLit d true v) = .s (litVal v) := by
  cases v with
  | int i => rfl
  | str s => rfl
  | num s => rfl
  | null => rfl
  | bool b => cases b <;> rfl

theorem items_chainFrom_comma (env : String → Val) : ∀ (gs : List G) (acc : G),
    (evalG (stdI env) (chainFrom .comma ", " acc gs)).items
      = (evalG (stdI env) acc).items ++ (gs.map (fun g => (evalG (stdI env) g).items)).flatten
  | [], acc => by simp [chainFrom]
  | g :: gs, acc => by
    simp only [chainFrom, items_chainFrom_comma env gs, evalG, List.map_cons, List.flatten_cons]
    simp [stdI, stdInf, SV.items, List.append_assoc]

theorem items_map_s (vs : List Val) : ((vs.map SV.s).map SV.items).flatten = vs := by
  induction vs with
  | nil => rfl
  | cons v vs ih =>
    show [v] ++ ((vs.map SV.s).map SV.items).flatten = v :: vs
    rw [ih]; rfl

/-- the argument list `a, b, c` denotes the list of the argument values -/
theorem items_chain_comma (env : String → Val) (gs : List G) (vs : List Val) (hne : gs ≠ [])
    (h : gs.map (evalG (stdI env)) = vs.map SV.s) :
    (evalG (stdI env) (chain .comma ", " gs)).items = vs := by
  cases gs with
  | nil => exact absurd rfl hne
  | cons g gs =>
    simp only [chain, items_chainFrom_comma]
    have : (g :: gs).map (fun x => (evalG (stdI env) x).items) = (vs.map SV.s).map SV.items := by
      rw [← h, List.map_map]; rfl
    simp only [List.map_cons] at this
    rw [← List.flatten_cons, this, items_map_s]

/-- the rendered literal list `v₁, …, vₙ` denotes the list of its values -/
theorem items_litListG (env : String → Val) (d : Dialect) (vs : List Lit) (h : vs ≠ []) :
    (evalG (stdI env) (litListG d true vs)).items = vs.map litVal := by
  unfold litListG
  apply items_chain_comma env _ _ (by cases vs <;> simp at h ⊢)
  rw [List.map_map, List.map_map]
  apply List.map_congr_left
  intro v _
  exact atom_lit env d v

theorem items_whenChain (env : String → Val) : ∀ (n : Nat) (gs : List G) (acc : G), gs.length = 2 * n →
    (evalG (stdI env) (whenChain acc gs)).items
      = (evalG (stdI env) acc).items ++ (gs.map (fun g => (evalG (stdI env) g).items)).flatten
  | 0, gs, acc, h => by
    have : gs = [] := List.eq_nil_of_length_eq_zero (by omega)
    subst this; simp [whenChain]
  | n + 1, [], acc, h => by simp at h
  | n + 1, [c], acc, h => by simp at h; omega
  | n + 1, c :: r :: rest, acc, h => by
    simp only [whenChain]
    rw [items_whenChain env n rest _ (by simp at h; omega)]
    simp only [evalG, List.map_cons, List.flatten_cons]
    simp [stdI, stdInf, SV.items, List.append_assoc]

theorem optG_of_absent {e : SaExpr} (g : G) (h : isAbsent e = true) : optG e g = none := by
  cases e <;> simp [isAbsent] at h; rfl

theorem optG_of_present {e : SaExpr} (g : G) (h : isAbsent e = false) : optG e g = some g := by
  cases e <;> simp [isAbsent] at h <;> rfl

theorem renderList_length (d : Dialect) (lb : Bool) : ∀ cs : List SaExpr,
    (renderList d lb cs).length = cs.length
  | [] => rfl
  | c :: cs => by simp [renderList_cons, renderList_length d lb cs]

/-- value of the rendered CASE from the values of its rendered parts -/
theorem evalG_caseG (env : String → Val) (d : Dialect) (v : SaExpr) (ws : List SaExpr) (e : SaExpr)
    (Rv : G) (Rws : List G) (Re : G) (n : Nat)
    (hv : isAbsent v = false → evalG (stdI env) Rv = .s (evalCore env d v))
    (he : isAbsent e = false → evalG (stdI env) Re = .s (evalCore env d e))
    (hitems : (Rws.map (fun g => (evalG (stdI env) g).items)).flatten = evalCoreList env d ws)
    (hlen : Rws.length = 2 * n) (h2 : 2 ≤ Rws.length) :
    evalG (stdI env) (caseG (optG v Rv) Rws (optG e Re))
      = .s (caseVal (isAbsent v) (evalCore env d v) (evalCoreList env d ws) (isAbsent e)
          (evalCore env d e)) := by
  cases hav : isAbsent v with
  | true =>
    rw [optG_of_absent Rv hav]
    cases Rws with
    | nil => simp at h2
    | cons c Rws =>
      cases Rws with
      | nil => simp at h2
      | cons r rest =>
        have hrest : rest.length = 2 * (n - 1) := by simp at hlen; omega
        have hb : (evalG (stdI env) (whenChain (G.inf .then_ " THEN " c r) rest)).items
            = evalCoreList env d ws := by
          rw [items_whenChain env (n - 1) rest _ hrest, ← hitems]
          simp only [evalG, List.map_cons, List.flatten_cons]
          simp [stdI, stdInf, SV.items, List.append_assoc]
        simp only [caseG, caseBody, caseVal, if_true]
        cases hae : isAbsent e with
        | true =>
          rw [optG_of_absent Re hae]
          simp only [caseEnd, if_true, List.append_nil]
          show SV.s (caseSearchedVal (evalG (stdI env) _).items) = _
          rw [hb]
        | false =>
          rw [optG_of_present Re hae]
          simp only [caseEnd, Bool.false_eq_true, if_false]
          show SV.s (caseSearchedVal (stdInf .else_ (evalG (stdI env) _) (evalG (stdI env) Re)).items) = _
          rw [he hae]
          simp only [stdInf]
          show SV.s (caseSearchedVal ((evalG (stdI env) _).items ++ [evalCore env d e])) = _
          rw [hb]
  | false =>
    rw [optG_of_present Rv hav]
    have hb : (evalG (stdI env) (whenChain Rv Rws)).items = evalCore env d v :: evalCoreList env d ws := by
      rw [items_whenChain env n Rws _ hlen, hitems, hv hav]
      rfl
    simp only [caseG, caseBody, caseVal, Bool.false_eq_true, if_false]
    cases hae : isAbsent e with
    | true =>
      rw [optG_of_absent Re hae]
      simp only [caseEnd, if_true, List.append_nil]
      show (match (evalG (stdI env) _).items with | x :: rest => SV.s (caseSimpleVal x rest) | [] => SV.s Val.null) = _
      rw [hb]
    | false =>
      rw [optG_of_present Re hae]
      simp only [caseEnd, Bool.false_eq_true, if_false]
      show (match (stdInf .else_ (evalG (stdI env) _) (evalG (stdI env) Re)).items with
        | x :: rest => SV.s (caseSimpleVal x rest) | [] => SV.s Val.null) = _
      rw [he hae]
      simp only [stdInf]
      show (match (evalG (stdI env) _).items ++ [evalCore env d e] with
        | x :: rest => SV.s (caseSimpleVal x rest) | [] => SV.s Val.null) = _
      rw [hb]
      rfl

mutual
/-- the emitted token tree of a core element evaluates to the element's value -/
theorem evalG_render (env : String → Val) (d : Dialect) :
    ∀ e : SaExpr, Core e = true → evalG (stdI env) (render d true e) = .s (evalCore env d e)
  | .col n ty, _ => rfl
  | .bind v ty, _ => atom_lit env d v
  | .null, _ => rfl
  | .true_, _ => rfl
  | .false_, _ => rfl
  | .grouping e, hc => by
    rw [render_grouping]
    show evalG (stdI env) (render d true e) = _
    rw [evalG_render env d e (by simpa [Core] using hc)]
    rfl
  | .binary op l r n esc ty, hc => by
    obtain ⟨hcl, hk⟩ := core_binary hc
    rcases hk with ⟨hbd, _, hcr⟩ | ⟨hlk, _, _, hcr⟩ | ⟨hin, _, hir⟩ | ⟨hbo, _, hbr⟩
    case inr.inr.inr =>
      obtain ⟨lo, hi, cty, he, hclo, hchi, _, _⟩ := coreBtw_cases hbr
      subst he
      obtain ⟨t, heq⟩ := render_btw d true op l lo hi cty n esc ty hbo
      rw [heq, evalCore_btw env d op l lo hi cty n esc ty hbo]
      have hl := evalG_render env d l hcl
      have h1 := evalG_render env d lo hclo
      have h2 := evalG_render env d hi hchi
      cases op <;> simp [btwOp] at hbo
      · simp only [evalG, hl, h1, h2]; rfl
      · simp only [evalG, hl, h1, h2]; rfl
    case inr.inr.inl =>
      obtain ⟨vs, lty, he, hne⟩ := inRight_cases hir
      subst he
      rw [render_inNode d true op l vs lty n esc ty hin hne, evalCore_in env d op l vs lty op n esc ty hin]
      have hl := evalG_render env d l hcl
      have hi := items_litListG env d vs hne
      cases op <;> simp [inOp] at hin
      · show stdInf .in_ (evalG (stdI env) (render d true l)) (evalG (stdI env) (litListG d true vs)) = _
        rw [hl]
        simp only [stdInf, SV.scalar, hi, if_true]
      · show stdInf .notIn (evalG (stdI env) (render d true l)) (evalG (stdI env) (litListG d true vs)) = _
        rw [hl]
        simp [stdInf, SV.scalar, hi]
    case inr.inl =>
      obtain ⟨t, heq⟩ := render_like d true op l r n esc ty hlk
      rw [heq, evalCore_like env d op l r n esc ty hlk]
      exact evalG_likeG env d op t _ _ _ _ esc hlk (evalG_render env d l hcl) (evalG_render env d r hcr)
    rcases coreBinD_cases hbd with hop | hdiv
    · by_cases hcf : catFn d op = true
      · rw [render_catFn_bin d true op l r n esc ty hcf]
        obtain ⟨ho, _⟩ := catFn_true hcf
        subst ho
        show SV.s (fnVal "concat" ((evalG (stdI env) (render d true l)).items ++
          (evalG (stdI env) (render d true r)).items)) = _
        rw [evalG_render env d l hcl, evalG_render env d r hcr, fnVal_concat,
          evalCore_binary env d .concat_op l r n esc ty rfl]
        rfl
      obtain ⟨txt, heq⟩ := render_coreBin d true op l r n esc ty hop (by simpa using hcf)
      rw [heq]
      show stdInf (symOf op) (evalG (stdI env) (render d true l)) (evalG (stdI env) (render d true r)) = _
      rw [evalG_render env d l hcl, evalG_render env d r hcr, stdInf_core op (Or.inl hop),
        evalCore_binary env d op l r n esc ty (coreBin_not_div hop)]
    · rw [evalCore_div env d op l r n esc ty hdiv]
      cases op <;> simp [coreDiv] at hdiv
      · exact evalG_truedivG env d _ _ _ _ _ _ (evalG_render env d l hcl) (evalG_render env d r hcr)
      · exact evalG_floordivG env d _ _ _ _ _ _ (evalG_render env d l hcl) (evalG_render env d r hcr)
  | .unary op e ty, hc => by
    simp only [Core, Bool.and_eq_true] at hc
    rw [render_unary]
    show (stdI env).pre (symOf op) (evalG (stdI env) (render d true e)) = _
    rw [evalG_render env d e hc.2]
    have h1 := hc.1
    cases op <;> simp [coreUn] at h1
    · simp only [symOf, stdI, SV.scalar, evalCore, unVal]
      cases evalCore env d e <;> rfl
    · rfl
  | .clist op cs gr bl ty, hc => by
    simp only [Core, Bool.and_eq_true, decide_eq_true_eq] at hc
    obtain ⟨⟨⟨hop, _⟩, hlen⟩, hcs⟩ := hc
    have hl := evalG_renderList env d cs hcs
    by_cases hcf : catFn d op = true
    · rw [render_catFn_list d true op cs gr bl ty hcf]
      obtain ⟨ho, _⟩ := catFn_true hcf
      subst ho
      have hne : renderList d true cs ≠ [] := by
        cases cs with
        | nil => simp at hlen
        | cons a as => simp [renderList_cons]
      show SV.s (fnVal "concat" (evalG (stdI env) (chain .comma ", " (renderList d true cs))).items) = _
      rw [items_chain_comma env _ _ hne hl, fnVal_concat]
      cases cs with
      | nil => simp at hlen
      | cons c cs' => rfl
    rw [render_clist d true op cs gr bl ty (by simpa using hcf)]
    cases cs with
    | nil => simp at hlen
    | cons c cs =>
      simp only [renderList_cons, chain, evalG_chainFrom]
      simp only [renderList_cons, List.map_cons, evalCoreList, List.cons.injEq] at hl
      rw [hl.1]
      have : (renderList d true cs).foldl (fun v g => stdInf (symOf op) v (evalG (stdI env) g)) (SV.s (evalCore env d c))
          = ((renderList d true cs).map (evalG (stdI env))).foldl (fun v x => stdInf (symOf op) v x) (SV.s (evalCore env d c)) := by
        rw [List.foldl_map]
      rw [this, hl.2, foldl_stdInf op (Or.inr hop)]
      rfl
  | .asbool _ _ _, hc => by simp [Core] at hc
  | .subq _ _, _ => rfl
  | .func n args ty, hc => by
    simp only [Core, Bool.and_eq_true, Bool.not_eq_true'] at hc
    rw [render_func]
    have hl := evalG_renderList env d args hc.2
    have hne : renderList d true args ≠ [] := by
      cases args with
      | nil => simp at hc
      | cons a as => simp [renderList_cons]
    show SV.s (fnVal n (evalG (stdI env) (chain .comma ", " (renderList d true args))).items) = _
    rw [items_chain_comma env _ _ hne hl]
    rfl
  | .cast e ty, hc => by
    have hce : Core e = true := by simpa [Core] using hc
    have ih := evalG_render env d e hce
    rw [render_cast]
    simp only [evalCore, castVal]
    cases castName d ty with
    | some n =>
      show (stdI env).br .cast (stdInf .as_ (evalG (stdI env) (render d true e)) (atomVal env ⟨n, .other⟩)) = _
      rw [ih]; rfl
    | none =>
      by_cases hg : wouldGroup none e = true
      · simp only [castG, hg, if_true]
        show evalG (stdI env) (render d true e) = _
        rw [ih]
      · have hg' : wouldGroup none e = false := by simpa using hg
        simp only [castG, hg', Bool.false_eq_true, if_false]
        rw [ih]
  | .case_ v ws e ty, hc => by
    simp only [Core, Bool.and_eq_true, Bool.or_eq_true, decide_eq_true_eq] at hc
    obtain ⟨⟨⟨⟨hcv, hcw⟩, hlen⟩, heven⟩, hce⟩ := hc
    have hl := evalG_renderList env d ws hcw
    rw [render_case]
    -- values of the optional parts
    have hv : isAbsent v = false → evalG (stdI env) (render d true v) = .s (evalCore env d v) := by
      intro hna
      rcases hcv with h | h
      · rw [hna] at h; cases h
      · exact evalG_render env d v h
    have he : isAbsent e = false → evalG (stdI env) (render d true e) = .s (evalCore env d e) := by
      intro hna
      rcases hce with h | h
      · rw [hna] at h; cases h
      · exact evalG_render env d e h
    have hitems : ((renderList d true ws).map (fun g => (evalG (stdI env) g).items)).flatten
        = evalCoreList env d ws := by
      have : (renderList d true ws).map (fun x => (evalG (stdI env) x).items)
          = ((evalCoreList env d ws).map SV.s).map SV.items := by
        rw [← hl, List.map_map]; rfl
      rw [this, items_map_s]
    have hrl : (renderList d true ws).length = ws.length := renderList_length d true ws
    obtain ⟨n, hn⟩ : ∃ n, ws.length = 2 * n := ⟨ws.length / 2, by omega⟩
    exact evalG_caseG env d v ws e _ _ _ n hv he hitems (by rw [hrl]; exact hn) (by rw [hrl]; exact hlen)
  | .inlist _ _ _, hc => by simp [Core] at hc
  | .inrows _ _ _, hc => by simp [Core] at hc
  | .tuple_ _, hc => by simp [Core] at hc
  | .litcol _ _, hc => by simp [Core] at hc
  | .ilikeOperand _, hc => by simp [Core] at hc
  | .absent, hc => by simp [Core] at hc

theorem evalG_renderList (env : String → Val) (d : Dialect) :
    ∀ cs : List SaExpr, CoreList cs = true →
      (renderList d true cs).map (evalG (stdI env)) = (evalCoreList env d cs).map SV.s
  | [], _ => rfl
  | c :: cs, hc => by
    simp only [CoreList, Bool.and_eq_true] at hc
    simp only [renderList_cons, List.map_cons, evalCoreList]
    rw [evalG_render env d c hc.1, evalG_renderList env d cs hc.2]
end

end SaVerif.Expr

namespace SaVerif.Expr
open SaVerif.Expr.Gen SaVerif.Pratt SaExpr

variable [Abs]

/-! ### the constructors preserve values -/

theorem selfGroup_eval (env : String → Val) (d : Dialect) (a : Op) (x : SaExpr) (hc : Core x = true)
    (h : boolCtx a = false ∨ NonAtom x = true) :
    evalCore env d (selfGroup (some a) x) = evalCore env d x := by
  unfold selfGroup
  by_cases hg : wouldGroup (some a) x = true
  · simp only [hg, if_true]; rfl
  · have hg' : wouldGroup (some a) x = false := by simpa using hg
    simp only [hg', Bool.false_eq_true, if_false]
    have hcol : columnSelfGroup (some a) x = x ∨ NonAtom x = true := by
      rcases h with h | h
      · left
        simp only [boolCtx, Bool.or_eq_false_iff, decide_eq_false_iff_not] at h
        simp [columnSelfGroup, h.1.1, h.1.2, h.2]
      · exact Or.inr h
    cases x <;> first | rfl | (rcases hcol with h' | h' <;> simp_all [NonAtom]) | (simp [Core] at hc)

theorem tyOf_selfGroup (a : Op) (x : SaExpr) (hb : boolCtx a = false) :
    tyOf (selfGroup (some a) x) = tyOf x := by
  unfold selfGroup
  by_cases hg : wouldGroup (some a) x = true
  · simp only [hg, if_true]; rfl
  · have hg' : wouldGroup (some a) x = false := by simpa using hg
    simp only [hg', Bool.false_eq_true, if_false]
    have hcol : columnSelfGroup (some a) x = x := by
      simp only [boolCtx, Bool.or_eq_false_iff, decide_eq_false_iff_not] at hb
      simp [columnSelfGroup, hb.1.1, hb.1.2, hb.2]
    cases x <;> first | rfl | (show tyOf (columnSelfGroup _ _) = _; rw [hcol])

theorem mkBinary_eval (env : String → Val) (d : Dialect) (l r : SaExpr) (op : Op) (ty : Ty) (n : Option Op)
    (hop : coreBin op = true) (hcl : Core l = true) (hcr : Core r = true) :
    evalCore env d (mkBinary l r op ty n none) = binVal op (evalCore env d l) (evalCore env d r) := by
  simp only [mkBinary]
  rw [evalCore_binary env d op _ _ n none ty (coreBin_not_div hop),
    selfGroup_eval env d op l hcl (Or.inl (coreBin_not_boolCtx hop)),
    selfGroup_eval env d op r hcr (Or.inl (coreBin_not_boolCtx hop))]

theorem evalCoreList_map_selfGroup (env : String → Val) (d : Dialect) (op : Op) (hb : boolCtx op = false ∨ True) :
    ∀ cs : List SaExpr, (∀ c ∈ cs, Core c = true ∧ (boolCtx op = false ∨ NonAtom c = true)) →
      evalCoreList env d (cs.map (selfGroup (some op))) = evalCoreList env d cs
  | [], _ => rfl
  | c :: cs, h => by
    simp only [List.map_cons, evalCoreList]
    rw [selfGroup_eval env d op c (h c (by simp)).1 (h c (by simp)).2,
      evalCoreList_map_selfGroup env d op hb cs (fun x hx => h x (by simp [hx]))]

theorem evalCoreList_append (env : String → Val) (d : Dialect) : ∀ (as bs : List SaExpr),
    evalCoreList env d (as ++ bs) = evalCoreList env d as ++ evalCoreList env d bs
  | [], bs => rfl
  | a :: as, bs => by simp [evalCoreList, evalCoreList_append env d as bs]

theorem binVal_assoc (op : Op) (h : coreList op = true) (a b c : Val) :
    binVal op (binVal op a b) c = binVal op a (binVal op b c) := by
  cases op <;> simp [coreList] at h
  · cases a <;> cases b <;> cases c <;> simp [binVal, evalArith, Int.add_assoc]
  · cases a <;> cases b <;> cases c <;> simp [binVal, evalArith, Int.mul_assoc]
  · cases a <;> cases b <;> cases c <;> simp [binVal, evalArith, String.append_assoc]
  · simp only [binVal, evalArith, truth_ofTV]
    congr 1
    cases truth a with
    | none => cases truth b with
      | none => cases truth c with
        | none => rfl
        | some z => cases z <;> rfl
      | some y => cases y <;> (cases truth c with
        | none => rfl
        | some z => cases z <;> rfl)
    | some x => cases x <;> (cases truth b with
      | none => cases truth c with
        | none => rfl
        | some z => cases z <;> rfl
      | some y => cases y <;> (cases truth c with
        | none => rfl
        | some z => cases z <;> rfl))
  · simp only [binVal, evalArith, truth_ofTV]
    congr 1
    cases truth a with
    | none => cases truth b with
      | none => cases truth c with
        | none => rfl
        | some z => cases z <;> rfl
      | some y => cases y <;> (cases truth c with
        | none => rfl
        | some z => cases z <;> rfl)
    | some x => cases x <;> (cases truth b with
      | none => cases truth c with
        | none => rfl
        | some z => cases z <;> rfl
      | some y => cases y <;> (cases truth c with
        | none => rfl
        | some z => cases z <;> rfl))

theorem foldl_binVal_assoc (op : Op) (h : coreList op = true) (a : Val) :
    ∀ (vs : List Val) (b : Val), binVal op a (vs.foldl (binVal op) b) = vs.foldl (binVal op) (binVal op a b)
  | [], _ => rfl
  | v :: vs, b => by
    simp only [List.foldl_cons]
    rw [foldl_binVal_assoc op h a vs, binVal_assoc op h]

/-- folding a concatenation of two non-empty operand lists = combining the two folds -/
theorem foldVals_append (op : Op) (h : coreList op = true) (as bs : List Val)
    (ha : as ≠ []) (hb : bs ≠ []) :
    foldVals op (as ++ bs) = binVal op (foldVals op as) (foldVals op bs) := by
  cases as with
  | nil => exact absurd rfl ha
  | cons a as =>
    cases bs with
    | nil => exact absurd rfl hb
    | cons b bs =>
      simp only [foldVals, List.cons_append, List.foldl_append, List.foldl_cons]
      rw [foldl_binVal_assoc op h]

/-- the operands taken over from a child that is itself a chain of `op` fold to its value -/
theorem flattened_eval (env : String → Val) (d : Dialect) (op : Op) (hnd : specialOp op = false) :
    ∀ l : SaExpr, operatorOf l = some op →
    Core l = true → foldVals op (evalCoreList env d (flattened l)) = evalCore env d l
  | .binary op' a b n esc ty, ho, _ => by
    simp only [operatorOf, Option.some.injEq] at ho; subst ho
    rw [evalCore_binary env d op' a b n esc ty hnd]
    rfl
  | .clist op' cs gr bl ty, ho, _ => by
    simp only [operatorOf, Option.some.injEq] at ho; subst ho
    rfl
  | .grouping e, ho, hc => by
    simp only [flattened]
    exact flattened_eval env d op hnd e (by simpa [operatorOf] using ho) (by simpa [Core] using hc)
  | .unary op' e ty, ho, hc => by
    simp only [operatorOf, Option.some.injEq] at ho; subst ho
    simp only [flattened, evalCoreList, foldVals, List.foldl_nil]
  | .col _ _, ho, _ => by simp [operatorOf] at ho
  | .bind _ _, ho, _ => by simp [operatorOf] at ho
  | .null, ho, _ => by simp [operatorOf] at ho
  | .true_, ho, _ => by simp [operatorOf] at ho
  | .false_, ho, _ => by simp [operatorOf] at ho
  | .asbool _ _ _, _, hc => by simp [Core] at hc
  | .case_ _ _ _ _, ho, _ => by simp [operatorOf] at ho
  | .cast _ _, ho, _ => by simp [operatorOf] at ho
  | .func _ _ _, ho, _ => by simp [operatorOf] at ho
  | .subq _ _, ho, _ => by simp [operatorOf] at ho
  | .inlist _ _ _, _, hc => by simp [Core] at hc
  | .inrows _ _ _, _, hc => by simp [Core] at hc
  | .tuple_ _, _, hc => by simp [Core] at hc
  | .litcol _ _, _, hc => by simp [Core] at hc
  | .ilikeOperand _, _, hc => by simp [Core] at hc
  | .absent, _, hc => by simp [Core] at hc

theorem evalCoreList_ne_nil (env : String → Val) (d : Dialect) : ∀ cs : List SaExpr, cs ≠ [] → evalCoreList env d cs ≠ []
  | [], h => absurd rfl h
  | c :: cs, _ => by simp [evalCoreList]

/-- **constructForOp_eval**: flattening (or not) does not change the value -/
theorem constructForOp_eval (env : String → Val) (d : Dialect) (l r : SaExpr) (op : Op) (ty : Ty) (n : Option Op)
    (hop : coreBin op = true)
    (hcl : Core l = true) (hwl : WG l = true) (hcr : Core r = true) (hwr : WG r = true) :
    evalCore env d (constructForOp l r op ty n none) = binVal op (evalCore env d l) (evalCore env d r) := by
  unfold constructForOp
  by_cases ha : associative op = true
  · simp only [ha, if_true]
    by_cases hf : (operatorOf l = some op ∧ ty = tyOf l) ∨ (operatorOf r = some op ∧ ty = tyOf r)
    · simp only [hf, if_true]
      obtain ⟨hcL, hb⟩ := assoc_coreBin_coreList hop ha
      obtain ⟨fl, fln⟩ := flattened_core op hcL l hcl hwl
      obtain ⟨fr, frn⟩ := flattened_core op hcL r hcr hwr
      simp only [constructForList, evalCore]
      rw [evalCoreList_map_selfGroup env d op (Or.inr trivial)]
      · rw [evalCoreList_append, foldVals_append op hcL]
        · congr 1
          · split
            · rename_i h1; exact flattened_eval env d op (coreBin_not_div hop) l h1.1 hcl
            · rfl
          · split
            · rename_i h1; exact flattened_eval env d op (coreBin_not_div hop) r h1.1 hcr
            · rfl
        · apply evalCoreList_ne_nil
          split
          · exact fln
          · simp
        · apply evalCoreList_ne_nil
          split
          · exact frn
          · simp
      · intro c hc
        simp only [List.mem_append] at hc
        refine ⟨?_, Or.inl hb⟩
        rcases hc with hc | hc
        · split at hc
          · rename_i h1; exact (fl h1.1 c hc).1
          · simp at hc; subst hc; exact hcl
        · split at hc
          · rename_i h1; exact (fr h1.1 c hc).1
          · simp at hc; subst hc; exact hcr
    · simp only [hf, if_false]
      exact mkBinary_eval env d l r op ty n hop hcl hcr
  · simp only [ha, Bool.false_eq_true, if_false]
    exact mkBinary_eval env d l r op ty n hop hcl hcr

end SaVerif.Expr

namespace SaVerif.Expr
open SaVerif.Expr.Gen SaVerif.Pratt SaExpr

variable [Abs]

/-! ### negation -/

/-- `n` is the three-valued negation of comparison `op` (values of `binVal`) -/
def soundPair (op n : Op) : Prop :=
  ∀ a b : Val, truth (binVal n a b) = not3 (truth (binVal op a b))

/-- the negate operator recorded on a top-level binary is its true negation -/
def negSound : SaExpr → Prop
  | .binary op _ _ (some n) _ _ =>
    if likeOp op then likePair op n = true
    else if inOp op then inPair op n = true
    else if btwOp op then btwPair op n = true
    else (soundPair op n ∧ soundPair n op)
  | _ => True

theorem inOp_btw_false {op : Op} (h : btwOp op = true) : inOp op = false := by
  cases op <;> simp [btwOp] at h <;> rfl

theorem coreBin_not_like {op : Op} (h : coreBin op = true) : likeOp op = false := by
  cases op <;> simp [coreBin] at h <;> rfl

theorem tvOf_not' (o : Option Ordering) (f g : Ordering → Bool) (h : ∀ x, g x = !f x) :
    tvOf o g = not3 (tvOf o f) := by
  cases o with
  | none => rfl
  | some x => simp [tvOf, not3, h]

theorem sp_eq_ne : soundPair .eq .ne := by
  intro a b; simp only [binVal, truth_ofTV, evalCmp]; exact tvOf_not' _ _ _ (by intro x; cases x <;> rfl)
theorem sp_ne_eq : soundPair .ne .eq := by
  intro a b; simp only [binVal, truth_ofTV, evalCmp]; exact tvOf_not' _ _ _ (by intro x; cases x <;> rfl)
theorem sp_lt_ge : soundPair .lt .ge := by
  intro a b; simp only [binVal, truth_ofTV, evalCmp]; exact tvOf_not' _ _ _ (by intro x; cases x <;> rfl)
theorem sp_ge_lt : soundPair .ge .lt := by
  intro a b; simp only [binVal, truth_ofTV, evalCmp]; exact tvOf_not' _ _ _ (by intro x; cases x <;> rfl)
theorem sp_le_gt : soundPair .le .gt := by
  intro a b; simp only [binVal, truth_ofTV, evalCmp]; exact tvOf_not' _ _ _ (by intro x; cases x <;> rfl)
theorem sp_gt_le : soundPair .gt .le := by
  intro a b; simp only [binVal, truth_ofTV, evalCmp]; exact tvOf_not' _ _ _ (by intro x; cases x <;> rfl)

/-- the regenerated negation table, on the six comparisons, consists of true negations -/
theorem soundPair_table : ∀ k : BinK,
    (k = .eq ∨ k = .ne ∨ k = .lt ∨ k = .le ∨ k = .gt ∨ k = .ge) →
    ∀ n, negateOp k.op = some n → soundPair k.op n ∧ soundPair n k.op := by
  intro k hk n hn
  rcases hk with h | h | h | h | h | h <;> subst h <;>
    (simp only [BinK.op, negateOp, Option.some.injEq] at hn; subst hn; simp only [BinK.op])
  · exact ⟨sp_eq_ne, sp_ne_eq⟩
  · exact ⟨sp_ne_eq, sp_eq_ne⟩
  · exact ⟨sp_lt_ge, sp_ge_lt⟩
  · exact ⟨sp_le_gt, sp_gt_le⟩
  · exact ⟨sp_gt_le, sp_le_gt⟩
  · exact ⟨sp_ge_lt, sp_lt_ge⟩

theorem soundPair_is : soundPair .is_ .is_not ∧ soundPair .is_not .is_ := by
  constructor <;> intro a b <;> simp [binVal, truth_ofTV, evalCmp, not3]

theorem unVal_inv_truth (v : Val) : truth (unVal .inv v) = not3 (truth v) := by
  simp [unVal, truth_ofTV]

/-- **negate_eval**: `~e` evaluates to the three-valued NOT of `e` -/
theorem negate_eval (env : String → Val) (d : Dialect) (e : SaExpr) (h : BoolE e) (hs : negSound e) :
    truth (evalCore env d (negate e)) = not3 (truth (evalCore env d e)) ∧ negSound (negate e) := by
  obtain ⟨hc, hw, hsh⟩ := h
  cases e with
  | binary op l r n esc ty =>
    cases n with
    | none => simp [boolShape] at hsh
    | some n =>
      obtain ⟨hcl, hk⟩ := core_binary hc
      simp only [boolShape, Bool.or_eq_true, Bool.and_eq_true] at hsh
      rcases hsh with ((hsh | hsh) | hsh) | hsh
      · have he : esc = none := by cases esc <;> simp at hsh ⊢
        subst he
        have hlf := coreBin_not_like hsh.1.1
        have hlf' := coreBin_not_like hsh.1.2
        have hif := coreBin_not_in hsh.1.1
        have hif' := coreBin_not_in hsh.1.2
        have hbf := coreBin_not_btw hsh.1.1
        have hbf' := coreBin_not_btw hsh.1.2
        have hcr : Core r = true := by
          rcases hk with ⟨_, _, h⟩ | ⟨hl, _, _, _⟩ | ⟨hi, _, _⟩ | ⟨hb, _, _⟩
          · exact h
          · rw [hlf] at hl; cases hl
          · rw [hif] at hi; cases hi
          · rw [hbf] at hb; cases hb
        simp only [negate, negateInBinary_core r n op hcr]
        simp only [negSound, hlf, hif, hbf, Bool.false_eq_true, if_false] at hs
        refine ⟨?_, ?_⟩
        · rw [mkBinary_eval env d l r n ty (some op) hsh.1.2 hcl hcr,
            evalCore_binary env d op l r (some n) none ty (coreBin_not_div hsh.1.1)]
          exact hs.1 _ _
        · simp only [mkBinary, negSound, hlf', hif', hbf', Bool.false_eq_true, if_false]
          exact ⟨hs.2, hs.1⟩
      · have hlo : likeOp op = true := (likePair_ops hsh).1
        have hln : likeOp n = true ∧ likePair n op = true := (likePair_ops hsh).2
        rcases hk with ⟨hbd, _, _⟩ | ⟨_, cl, cr, hcr⟩ | ⟨hi, _, _⟩ | ⟨hb, _, _⟩
        case inr.inr.inr => rw [btwOp_not_like hb] at hlo; cases hlo
        · rw [coreBinD_not_like hbd] at hlo; cases hlo
        · simp only [negate, negateInBinary_core r n op hcr]
          have hbn : boolCtx n = false := like_not_boolCtx hln.1
          rw [show mkBinary l r n ty (some op) esc = .binary n l r (some op) esc ty from by
            simp only [mkBinary, selfGroup_closed n l cl hbn, selfGroup_closed n r cr hbn]]
          refine ⟨?_, ?_⟩
          · rw [evalCore_like env d n l r (some op) esc ty hln.1,
              evalCore_like env d op l r (some n) esc ty hlo]
            exact likeVal_neg d op n esc _ _ hsh
          · simp only [negSound, hln.1, if_true]
            exact hln.2
        · rw [inOp_not_like hi] at hlo; cases hlo
      · have hio : inOp op = true := (inPair_ops hsh.1).1
        have hin : inOp n = true ∧ inPair n op = true := (inPair_ops hsh.1).2
        rcases hk with ⟨hbd, _, _⟩ | ⟨hl, _, _, _⟩ | ⟨_, _, hir⟩ | ⟨hb, _, _⟩
        case inr.inr.inr => rw [inOp_not_btw hio] at hb; cases hb
        · rw [coreBinD_not_in hbd] at hio; cases hio
        · rw [inOp_not_like hio] at hl; cases hl
        · obtain ⟨vs, lty, hr, hne⟩ := inRight_cases hir
          subst hr
          have hbn : boolCtx n = false := by
            cases n <;> simp [inOp] at hin <;> rfl
          have hsg : selfGroup (some n) (SaExpr.inlist vs lty n) = .inlist vs lty n := by
            simp [selfGroup, wouldGroup]
          simp only [negate, negateInBinary, if_true, mkBinary, hsg]
          refine ⟨?_, ?_⟩
          · rw [evalCore_in env d n _ vs lty n (some op) esc ty hin.1,
              evalCore_in env d op l vs lty op (some n) esc ty hio,
              selfGroup_eval env d n l hcl (Or.inl hbn)]
            have hp := hsh.1
            simp only [inPair, Bool.or_eq_true, Bool.and_eq_true, decide_eq_true_eq] at hp
            rcases hp with ⟨h1, h2⟩ | ⟨h1, h2⟩ <;> subst h1 <;> subst h2 <;>
              simp [truth_ofTV, evalNotIn, not3_not3]
          · simp only [negSound, inOp_not_like hin.1, hin.1, Bool.false_eq_true, if_false, if_true]
            exact hin.2
      · have hbo : btwOp op = true := (btwPair_ops hsh.1).1
        have hbn : btwOp n = true ∧ btwPair n op = true := (btwPair_ops hsh.1).2
        rcases hk with ⟨hbd, _, _⟩ | ⟨hl, _, _, _⟩ | ⟨hi, _, _⟩ | ⟨_, _, hbr⟩
        · rw [coreBinD_not_btw hbd] at hbo; cases hbo
        · rw [btwOp_not_like hbo] at hl; cases hl
        · rw [inOp_not_btw hi] at hbo; cases hbo
        · obtain ⟨lo, hi, cty, hr, hclo, hchi, _, _⟩ := coreBtw_cases hbr
          subst hr
          have hbc : boolCtx n = false := by
            cases n <;> simp [btwOp] at hbn <;> rfl
          have hsg : selfGroup (some n) (SaExpr.clist .and_ [lo, hi] false false cty) =
              .clist .and_ [lo, hi] false false cty := by
            cases n <;> simp [btwOp] at hbn <;> simp [selfGroup, wouldGroup]
          simp only [negate, negateInBinary, mkBinary, hsg]
          refine ⟨?_, ?_⟩
          · rw [evalCore_btw env d n _ lo hi cty (some op) esc ty hbn.1,
              evalCore_btw env d op l lo hi cty (some n) esc ty hbo,
              selfGroup_eval env d n l hcl (Or.inl hbc)]
            have hp := hsh.1
            simp only [btwPair, Bool.or_eq_true, Bool.and_eq_true, decide_eq_true_eq] at hp
            rcases hp with ⟨h1, h2⟩ | ⟨h1, h2⟩ <;> subst h1 <;> subst h2 <;>
              simp [btwVal, truth_ofTV, not3_not3]
          · simp only [negSound, btwOp_not_like hbn.1, inOp_btw_false hbn.1, hbn.1, Bool.false_eq_true,
              if_false, if_true]
            exact hbn.2
  | clist op cs gr bl ty =>
    simp only [negate]
    refine ⟨?_, trivial⟩
    simp only [evalCore]
    have hna : NonAtom (SaExpr.clist op cs gr bl ty) = true := rfl
    obtain ⟨c1, _, _⟩ := selfGroup_core .inv _ hc hw (Or.inl rfl)
    rw [selfGroup_eval env d .inv _ c1 (Or.inl rfl), selfGroup_eval env d .inv _ hc (Or.inl rfl)]
    exact unVal_inv_truth _
  | unary op x ty =>
    simp only [negate]
    refine ⟨?_, trivial⟩
    simp only [evalCore]
    obtain ⟨c1, _, _⟩ := selfGroup_core .inv _ hc hw (Or.inl rfl)
    rw [selfGroup_eval env d .inv _ c1 (Or.inl rfl), selfGroup_eval env d .inv _ hc (Or.inl rfl)]
    exact unVal_inv_truth _
  | col _ _ => simp [boolShape] at hsh
  | bind _ _ => simp [boolShape] at hsh
  | null => simp [boolShape] at hsh
  | true_ => simp [boolShape] at hsh
  | false_ => simp [boolShape] at hsh
  | asbool _ _ _ => simp [boolShape] at hsh
  | grouping _ => simp [boolShape] at hsh
  | case_ _ _ _ _ => simp [boolShape] at hsh
  | cast _ _ => simp [boolShape] at hsh
  | func _ _ _ => simp [boolShape] at hsh
  | subq _ _ => simp [boolShape] at hsh
  | inlist _ _ _ => simp [boolShape] at hsh
  | inrows _ _ _ => simp [boolShape] at hsh
  | tuple_ _ => simp [boolShape] at hsh
  | litcol _ _ => simp [boolShape] at hsh
  | ilikeOperand _ => simp [boolShape] at hsh
  | absent => simp [boolShape] at hsh

end SaVerif.Expr

namespace SaVerif.Expr
open SaVerif.Expr.Gen SaVerif.Pratt SaExpr

variable [Abs]

/-! ### `and_` / `or_` -/

theorem foldVals_cons (op : Op) (h : coreList op = true) (v : Val) (vs : List Val) (hne : vs ≠ []) :
    foldVals op (v :: vs) = binVal op v (foldVals op vs) := by
  cases vs with
  | nil => exact absurd rfl hne
  | cons w ws =>
    simp only [foldVals, List.foldl_cons]
    rw [foldl_binVal_assoc op h]

theorem foldVals_flatten (op : Op) (h : coreList op = true) :
    ∀ chunks : List (List Val), chunks ≠ [] → (∀ c ∈ chunks, c ≠ []) →
      foldVals op chunks.flatten = foldVals op (chunks.map (foldVals op))
  | [], hne, _ => absurd rfl hne
  | [c], _, _ => by
    simp only [List.flatten_cons, List.flatten_nil, List.append_nil, List.map_cons, List.map_nil]
    rfl
  | c :: c2 :: rest, _, hc => by
    have hfl : (c2 :: rest).flatten ≠ [] := by
      have := hc c2 (by simp)
      cases c2 with
      | nil => exact absurd rfl this
      | cons x xs => simp
    simp only [List.flatten_cons] at hfl ⊢
    rw [foldVals_append op h c _ (hc c (by simp)) hfl]
    have ih := foldVals_flatten op h (c2 :: rest) (by simp) (fun x hx => hc x (by simp [hx]))
    simp only [List.flatten_cons] at ih
    rw [ih]
    show _ = foldVals op (foldVals op c :: (c2 :: rest).map (foldVals op))
    rw [foldVals_cons op h _ _ (by simp)]

theorem and3_true_right (t : TV) : and3 t (some true) = t := by
  cases t with
  | none => rfl
  | some b => cases b <;> rfl

theorem or3_false_right (t : TV) : or3 t (some false) = t := by
  cases t with
  | none => rfl
  | some b => cases b <;> rfl

theorem truth_foldVals_and : ∀ vs : List Val, vs ≠ [] →
    truth (foldVals .and_ vs) = andAll (vs.map truth)
  | [], h => absurd rfl h
  | [v], _ => by simp [foldVals, andAll, and3_true_right]
  | v :: w :: ws, _ => by
    rw [foldVals_cons .and_ rfl v (w :: ws) (by simp)]
    simp only [binVal, evalArith, truth_ofTV, List.map_cons, andAll]
    rw [truth_foldVals_and (w :: ws) (by simp)]
    simp [andAll]

theorem truth_foldVals_or : ∀ vs : List Val, vs ≠ [] →
    truth (foldVals .or_ vs) = orAll (vs.map truth)
  | [], h => absurd rfl h
  | [v], _ => by simp [foldVals, orAll, or3_false_right]
  | v :: w :: ws, _ => by
    rw [foldVals_cons .or_ rfl v (w :: ws) (by simp)]
    simp only [binVal, evalArith, truth_ofTV, List.map_cons, orAll]
    rw [truth_foldVals_or (w :: ws) (by simp)]
    simp [orAll]

theorem evalCoreList_flatMap (env : String → Val) (d : Dialect) (f : SaExpr → List SaExpr) :
    ∀ ys : List SaExpr, evalCoreList env d (ys.flatMap f) = (ys.map (fun y => evalCoreList env d (f y))).flatten
  | [] => rfl
  | y :: ys => by
    simp only [List.flatMap_cons, evalCoreList_append, List.map_cons, List.flatten_cons]
    rw [evalCoreList_flatMap env d f ys]

theorem evalCoreList_eq_map (env : String → Val) (d : Dialect) : ∀ cs : List SaExpr,
    evalCoreList env d cs = cs.map (evalCore env d)
  | [] => rfl
  | c :: cs => by simp [evalCoreList, evalCoreList_eq_map env d cs]

/-- value of the list `and_` / `or_` builds from two or more boolean clauses -/
theorem boolConstruct_multi_eval (env : String → Val) (d : Dialect) (operator : Op)
    (hop : operator = .and_ ∨ operator = .or_) (cs : List SaExpr) (hne : cs ≠ [])
    (h : ∀ c ∈ cs, BoolE c) :
    foldVals operator (evalCoreList env d ((cs.map (selfGroup (some operator))).flatMap
        (fun c => if operatorOf c = some operator then flattened c else [c])))
      = foldVals operator (cs.map (evalCore env d)) := by
  have hcl : coreList operator = true := by rcases hop with ho | ho <;> subst ho <;> rfl
  rw [evalCoreList_flatMap]
  have hna : ∀ x ∈ cs, NonAtom x = true := by
    intro x hx
    have hs := (h x hx).shape
    cases x <;> simp [boolShape] at hs <;> rfl
  rw [foldVals_flatten operator hcl]
  · congr 1
    simp only [List.map_map]
    apply List.map_congr_left
    intro x hx
    have bx := h x hx
    obtain ⟨cy, wy, _⟩ := selfGroup_core operator x bx.core bx.wg (Or.inr (hna x hx))
    simp only [Function.comp]
    split
    · rename_i ho
      rw [flattened_eval env d operator (coreList_not_div hcl) _ ho cy, selfGroup_eval env d operator x bx.core (Or.inr (hna x hx))]
    · simp only [evalCoreList, foldVals, List.foldl_nil]
      exact selfGroup_eval env d operator x bx.core (Or.inr (hna x hx))
  · cases cs with
    | nil => exact absurd rfl hne
    | cons c cs => simp
  · intro ch hch
    simp only [List.mem_map] at hch
    obtain ⟨y, ⟨x, hx, rfl⟩, rfl⟩ := hch
    have bx := h x hx
    obtain ⟨cy, wy, _⟩ := selfGroup_core operator x bx.core bx.wg (Or.inr (hna x hx))
    apply evalCoreList_ne_nil
    split
    · exact (flattened_core operator hcl _ cy wy).2
    · simp

/-- **boolConstruct_eval**: `and_(*clauses)` evaluates to the n-ary AND of the clauses
    (`or_` to the n-ary OR), whatever the nesting and flattening -/
theorem boolConstruct_eval (env : String → Val) (d : Dialect) (operator : Op)
    (hop : operator = .and_ ∨ operator = .or_) (cs : List SaExpr) (hne : cs ≠ [])
    (h : ∀ c ∈ cs, BoolE c) :
    truth (evalCore env d (boolConstruct operator cs)) =
      (if operator = .and_ then andAll else orAll) (cs.map (fun c => truth (evalCore env d c))) := by
  have hnc : ∀ c ∈ cs, isTrueConst c = false ∧ isFalseConst c = false :=
    fun c hc => boolE_not_const (h c hc)
  unfold boolConstruct
  rw [processClauses_noconst operator cs hop hnc]
  cases cs with
  | nil => exact absurd rfl hne
  | cons c1 cs =>
    cases cs with
    | nil =>
      simp only [Nat.lt_irrefl, if_false, List.headD_cons]
      rw [selfGroup_asbool_boolE c1 (h c1 (by simp))]
      rcases hop with ho | ho <;> subst ho <;> simp [andAll, orAll, and3_true_right, or3_false_right]
    | cons c2 rest =>
      simp only [if_true, show (1 : Nat) < 2 from by decide, evalCore]
      rw [boolConstruct_multi_eval env d operator hop (c1 :: c2 :: rest) (by simp) h]
      rcases hop with ho | ho <;> subst ho
      · simp only [if_true]
        rw [truth_foldVals_and _ (by simp)]
        simp [List.map_map, Function.comp_def]
      · simp only [show (Op.or_ = Op.and_) = False from by simp, if_false]
        rw [truth_foldVals_or _ (by simp)]
        simp [List.map_map, Function.comp_def]

end SaVerif.Expr

namespace SaVerif.Expr
open SaVerif.Expr.Gen SaVerif.Pratt SaExpr

variable [Abs]

/-! ### `build` preserves meaning -/

mutual
/-- no `is_` / `is_not` between two general operands anywhere in the tree (finding
    `negate-is-general-operand`: their recorded negate operator is not their negation) -/
def noIsGen : U → Bool
  | .bin k a b =>
    !((k = .is_ || k = .isnot) && (match b with | .null => false | _ => true)) &&
      noIsGen a && noIsGen b
  | .like _ _ a b => noIsGen a && noIsGen b
  | .inOp _ _ x => noIsGen x
  | .between x lo hi => noIsGen x && noIsGen lo && noIsGen hi
  | .not_ a => noIsGen a
  | .neg a => noIsGen a
  | .cast _ a => noIsGen a
  | .and_ cs => noIsGenList cs
  | .or_ cs => noIsGenList cs
  | .coalesce cs => noIsGenList cs
  | .case_ v ws e => noIsGen v && noIsGenList ws && noIsGen e
  | _ => true
def noIsGenList : List U → Bool
  | [] => true
  | u :: us => noIsGen u && noIsGenList us
end

theorem selfGroup_none_eval (env : String → Val) (d : Dialect) (x : SaExpr) :
    evalCore env d (selfGroup none x) = evalCore env d x := by
  unfold selfGroup
  by_cases hg : wouldGroup none x = true
  · simp only [hg, if_true]; rfl
  · have hg' : wouldGroup none x = false := by simpa using hg
    simp only [hg', Bool.false_eq_true, if_false]
    have hcol : columnSelfGroup none x = x := by simp [columnSelfGroup]
    cases x <;> first | rfl | (show evalCore env d (columnSelfGroup _ _) = _; rw [hcol])

theorem groupConds_eval (env : String → Val) (d : Dialect) : ∀ ws : List SaExpr,
    evalCoreList env d (groupConds ws) = evalCoreList env d ws
  | [] => rfl
  | [_] => rfl
  | c :: r :: rest => by
    simp only [groupConds, evalCoreList, selfGroup_none_eval, groupConds_eval env d rest]

theorem mkCase_eval (env : String → Val) (d : Dialect) (v : SaExpr) (ws : List SaExpr) (e : SaExpr) :
    evalCore env d (mkCase v ws e) =
      caseVal (isAbsent v) (evalCore env d v) (evalCoreList env d ws) (isAbsent e) (evalCore env d e) := by
  simp only [mkCase, evalCore, groupConds_eval]

theorem fnVal_coalesce (vs : List Val) : fnVal "coalesce" vs = coalesceVal vs := by
  simp [fnVal]

theorem mkFunc_coalesce_eval (env : String → Val) (d : Dialect) (es : List SaExpr)
    (h : ∀ e ∈ es, Core e = true) :
    evalCore env d (mkFunc "coalesce" es) = coalesceVal (evalCoreList env d es) := by
  simp only [mkFunc, evalCore, fnVal_coalesce]
  rw [evalCoreList_map_selfGroup env d .comma_op (Or.inr trivial) es
    (fun c hc => ⟨h c hc, Or.inl rfl⟩)]

theorem caseSimple_eval (env : String → Val) (d : Dialect) (v : Val) :
    ∀ (n : Nat) (ws : List U), ws.length = 2 * n → ∀ tail : List Val,
      caseSimpleVal v (evalNumUList env d ws ++ tail) = evalSimple env d v ws (caseSimpleVal v tail)
  | 0, ws, h, tail => by
    have : ws = [] := List.eq_nil_of_length_eq_zero (by omega)
    subst this
    simp [evalNumUList, evalSimple]
  | n + 1, ws, h, tail => by
    match ws, h with
    | c :: r :: rest, h =>
      have hl : rest.length = 2 * n := by simp only [List.length_cons] at h; omega
      simp only [evalNumUList, List.cons_append, caseSimpleVal, evalSimple,
        caseSimple_eval env d v n rest hl tail]
    | [], h => simp at h
    | [_], h => simp at h; omega

theorem booleanCompare_num_eq (x y : SaExpr) (k : BinK) (hk : cmpK k = true) (hy : OpndE y) :
    booleanCompare x k.op y (negateOp k.op) none =
      some (constructForOp x y k.op .bool (negateOp k.op) none) := by
  have hs := hy.shape
  cases y <;> simp [numShape] at hs <;> rfl

theorem truth_binVal_cmp (k : BinK) (hk : cmpK k = true) (a b : Val) :
    truth (binVal k.op a b) = evalCmp k.op a b := by
  cases k <;> simp [cmpK] at hk <;> simp [BinK.op, binVal, truth_ofTV]

theorem negSound_construct (x y : SaExpr) (op n : Op) (hop : coreBin op = true)
    (hna : associative op = false) (hsp : soundPair op n ∧ soundPair n op) :
    negSound (constructForOp x y op .bool (some n) none) := by
  unfold constructForOp
  simp only [hna, Bool.false_eq_true, if_false, mkBinary, negSound, coreBin_not_like hop,
    coreBin_not_in hop, coreBin_not_btw hop]
  exact hsp

end SaVerif.Expr

namespace SaVerif.Expr
open SaVerif.Expr.Gen SaVerif.Pratt SaExpr

variable [Abs]

theorem negSound_boolConstruct (operator : Op) (hop : operator = .and_ ∨ operator = .or_)
    (cs : List SaExpr) (hne : cs ≠ []) (h : ∀ c ∈ cs, BoolE c) (hs : ∀ c ∈ cs, negSound c) :
    negSound (boolConstruct operator cs) := by
  have hnc : ∀ c ∈ cs, isTrueConst c = false ∧ isFalseConst c = false :=
    fun c hc => boolE_not_const (h c hc)
  unfold boolConstruct
  rw [processClauses_noconst operator cs hop hnc]
  cases cs with
  | nil => exact absurd rfl hne
  | cons c1 cs =>
    cases cs with
    | nil =>
      simp only [Nat.lt_irrefl, if_false, List.headD_cons]
      rw [selfGroup_asbool_boolE c1 (h c1 (by simp))]
      exact hs c1 (by simp)
    | cons c2 rest =>
      simp only [if_true, show (1 : Nat) < 2 from by decide]
      trivial

theorem sixCmp_of (k : BinK) (hk : cmpK k = true) (h : (k = .is_ || k = .isnot) = false) :
    k = .eq ∨ k = .ne ∨ k = .lt ∨ k = .le ∨ k = .gt ∨ k = .ge := by
  cases k <;> simp [cmpK] at hk <;> simp at h <;> simp

theorem null_of_match (b : U) (k : BinK)
    (h : (match b with | .null => k = .eq || k = .ne || k = .is_ || k = .isnot | _ => false) = true) :
    b = .null := by
  cases b <;> first | rfl | (simp at h)

mutual
/-- **build_num_eval**: the element built for a numeric API-call tree has the tree's value -/
theorem build_num_eval (env : String → Val) (d : Dialect) : ∀ (u : U) (e : SaExpr), NumU u = true →
    noIsGen u = true → build u = some e → evalCore env d e = evalNumU env d u
  | .col n ty, e, _, _, hb => by
    simp only [build, Option.some.injEq] at hb; subst hb; simp only [evalCore, evalNumU]
  | .subq n ty, e, _, _, hb => by
    simp only [build, Option.some.injEq] at hb; subst hb; simp only [evalCore, evalNumU]
  | .li i, e, _, _, hb => by
    simp only [build, Option.some.injEq] at hb; subst hb; simp only [evalCore, evalNumU, litVal]
  | .ln s, e, _, _, hb => by
    simp only [build, Option.some.injEq] at hb; subst hb; simp only [evalCore, evalNumU, litVal]
  | .neg a, e, hu, hn, hb => by
    simp only [build] at hb
    cases ha : build a with
    | none => simp [ha] at hb
    | some x =>
      simp only [ha, Option.map_some, Option.some.injEq] at hb; subst hb
      have nx := build_num a x (by simpa [NumU] using hu) ha
      simp only [negImpl, evalCore, evalNumU]
      rw [selfGroup_eval env d .neg x nx.core (Or.inl rfl),
        build_num_eval env d a x (by simpa [NumU] using hu) (by simpa [noIsGen] using hn) ha]
  | .cast ty a, e, hu, hn, hb => by
    simp only [NumU, Bool.and_eq_true] at hu
    simp only [build] at hb
    cases ha : build a with
    | none => simp [ha] at hb
    | some x =>
      simp only [ha, Option.map_some, Option.some.injEq] at hb; subst hb
      simp only [evalCore, evalNumU]
      rw [build_num_eval env d a x hu.2 (by simpa [noIsGen] using hn) ha]
  | .coalesce cs, e, hu, hn, hb => by
    simp only [NumU, Bool.and_eq_true, Bool.not_eq_true'] at hu
    simp only [build] at hb
    cases hl : buildList cs with
    | none => simp [hl] at hb
    | some es =>
      simp only [hl, Option.map_some, Option.some.injEq] at hb; subst hb
      have hne := build_numList cs es hu.2 hl
      rw [mkFunc_coalesce_eval env d es (fun c hc => (hne c hc).core),
        build_numList_eval env d cs es hu.2 (by simpa [noIsGen] using hn) hl]
      simp only [evalNumU]
  | .case_ v ws el, e, hu, hn, hb => by
    simp only [NumU, Bool.and_eq_true, Bool.not_eq_true', Bool.or_eq_true] at hu
    obtain ⟨⟨hne, hvw⟩, hel⟩ := hu
    simp only [noIsGen, Bool.and_eq_true] at hn
    simp only [build] at hb
    cases hv : build v with
    | none => simp [hv] at hb
    | some v' =>
      cases hl : buildList ws with
      | none => simp [hv, hl] at hb
      | some es =>
        cases he : build el with
        | none => simp [hv, hl, he] at hb
        | some e' =>
          simp only [hv, hl, he, Option.some.injEq] at hb; subst hb
          rw [mkCase_eval]
          -- the ELSE part
          have hE : ∀ f : List Val → Val, f [] = Val.null → (∀ x, f [x] = x) →
              f (if isAbsent e' = true then [] else [evalCore env d e']) = evalNumU env d el := by
            intro f f0 f1
            rcases hel with h | h
            · have := isAbsentU_eq h; subst this
              simp only [build, Option.some.injEq] at he; subst he
              simp only [isAbsent, if_true, f0, evalNumU]
            · have ne' := build_num el e' h he
              rw [numE_not_absent ne']
              simp only [Bool.false_eq_true, if_false, f1]
              exact build_num_eval env d el e' h hn.2 he
          by_cases hav : isAbsentU v = true
          · simp only [hav, if_true] at hvw
            have := isAbsentU_eq hav; subst this
            simp only [build, Option.some.injEq] at hv; subst hv
            have hA : isAbsent SaExpr.absent = true := rfl
            have hA' : isAbsentU U.absent = true := rfl
            simp only [caseVal, hA, hA', if_true, evalNumU]
            rw [build_searched_eval env d ws es hvw hn.1.2 hl,
              hE caseSearchedVal rfl (fun _ => rfl)]
          · have hav' : isAbsentU v = false := by simpa using hav
            simp only [hav', Bool.false_eq_true, if_false, Bool.and_eq_true, decide_eq_true_eq] at hvw
            have nv := build_num v v' hvw.1.1 hv
            simp only [caseVal, numE_not_absent nv, Bool.false_eq_true, if_false, evalNumU, hav']
            rw [build_numList_eval env d ws es hvw.1.2 hn.1.2 hl,
              build_num_eval env d v v' hvw.1.1 hn.1.1 hv,
              caseSimple_eval env d _ (ws.length / 2) ws (by omega),
              hE (caseSimpleVal _) rfl (fun _ => rfl)]
  | .bin k a b, e, hu, hn, hb => by
    simp only [NumU, Bool.and_eq_true] at hu
    simp only [noIsGen, Bool.and_eq_true] at hn
    simp only [build] at hb
    cases ha : build a with
    | none => simp [ha] at hb
    | some x =>
      cases hb' : build b with
      | none => simp [ha, hb'] at hb
      | some y =>
        simp only [ha, hb', numK_isArith k hu.1.1, if_true, Option.some.injEq] at hb
        subst hb
        have nx := build_num a x hu.1.2 ha
        have ny := build_num b y hu.2 hb'
        have ihx := build_num_eval env d a x hu.1.2 hn.1.2 ha
        have ihy := build_num_eval env d b y hu.2 hn.2 hb'
        obtain ⟨h1, _⟩ := adapt_num k.op (tyOf x) (tyOf y) nx.ty
        unfold binaryOperate
        have e : adaptExpression k.op (tyOf x) (tyOf y) =
            (k.op, (adaptExpression k.op (tyOf x) (tyOf y)).2) := Prod.ext h1 rfl
        rw [e]
        simp only
        rcases numK_cases hu.1.1 with hk | hk
        · rw [constructForOp_eval env d x y k.op _ none (arithK_coreBin k hk) nx.core nx.wg ny.core ny.wg,
            ihx, ihy]
          cases k <;> simp [arithK] at hk <;> simp only [evalNumU]
        · have hcd := divK_coreDiv k hk
          have hbc := coreBinD_not_boolCtx (coreBinD_of_div hcd)
          obtain ⟨he, _, _⟩ := constructForOp_div x y k.op (adaptExpression k.op (tyOf x) (tyOf y)).2 none
            hcd nx.core nx.wg ny.core ny.wg
          rw [he]
          simp only [mkBinary]
          rw [evalCore_div env d k.op _ _ none none _ hcd,
            selfGroup_eval env d k.op x nx.core (Or.inl hbc),
            selfGroup_eval env d k.op y ny.core (Or.inl hbc),
            tyOf_selfGroup k.op x hbc, tyOf_selfGroup k.op y hbc, ihx, ihy]
          have tx : tyU a = tyOf x := by simp [tyU, ha]
          have ty' : tyU b = tyOf y := by simp [tyU, hb']
          cases k <;> simp [divK] at hk <;> simp only [evalNumU, tx, ty', BinK.op]
  | .ls _, _, hu, _, _ => by simp [NumU] at hu
  | .lb _, _, hu, _, _ => by simp [NumU] at hu
  | .null, _, hu, _, _ => by simp [NumU] at hu
  | .true_, _, hu, _, _ => by simp [NumU] at hu
  | .false_, _, hu, _, _ => by simp [NumU] at hu
  | .like _ _ _ _, _, hu, _, _ => by simp [NumU] at hu
  | .not_ _, _, hu, _, _ => by simp [NumU] at hu
  | .between _ _ _, _, hu, _, _ => by simp [NumU] at hu
  | .and_ _, _, hu, _, _ => by simp [NumU] at hu
  | .or_ _, _, hu, _, _ => by simp [NumU] at hu
  | .inOp _ _ _, _, hu, _, _ => by simp [NumU] at hu
  | .tupleIn _ _ _, _, hu, _, _ => by simp [NumU] at hu
  | .pi _, _, hu, _, _ => by simp [NumU] at hu
  | .ps _, _, hu, _, _ => by simp [NumU] at hu
  | .strop _ _ _ _, _, hu, _, _ => by simp [NumU] at hu
  | .absent, _, hu, _, _ => by simp [NumU] at hu

theorem build_numList_eval (env : String → Val) (d : Dialect) : ∀ (us : List U) (es : List SaExpr),
    NumUList us = true → noIsGenList us = true → buildList us = some es →
    evalCoreList env d es = evalNumUList env d us
  | [], es, _, _, hb => by
    simp only [buildList, Option.some.injEq] at hb; subst hb
    simp only [evalCoreList, evalNumUList]
  | u :: us, es, hu, hn, hb => by
    simp only [NumUList, Bool.and_eq_true] at hu
    simp only [noIsGenList, Bool.and_eq_true] at hn
    simp only [buildList] at hb
    cases h1 : build u with
    | none => simp [h1] at hb
    | some x =>
      cases h2 : buildList us with
      | none => simp [h1, h2] at hb
      | some xs =>
        simp only [h1, h2, Option.some.injEq] at hb; subst hb
        simp only [evalCoreList, evalNumUList, build_num_eval env d u x hu.1 hn.1 h1,
          build_numList_eval env d us xs hu.2 hn.2 h2]

theorem build_searched_eval (env : String → Val) (d : Dialect) : ∀ (us : List U) (es : List SaExpr),
    SearchedU us = true → noIsGenList us = true → buildList us = some es → ∀ tail : List Val,
    caseSearchedVal (evalCoreList env d es ++ tail) = evalSearched env d us (caseSearchedVal tail)
  | [], es, _, _, hb => by
    simp only [buildList, Option.some.injEq] at hb; subst hb
    intro tail
    simp only [evalCoreList, List.nil_append, evalSearched]
  | [_], _, hu, _, _ => by simp [SearchedU] at hu
  | c :: r :: rest, es, hu, hn, hb => by
    simp only [SearchedU, Bool.and_eq_true] at hu
    simp only [noIsGenList, Bool.and_eq_true] at hn
    simp only [buildList] at hb
    cases h1 : build c with
    | none => simp [h1] at hb
    | some c' =>
      cases h2 : build r with
      | none => simp [h1, h2] at hb
      | some r' =>
        cases h3 : buildList rest with
        | none => simp [h1, h2, h3] at hb
        | some rest' =>
          simp only [h1, h2, h3, Option.some.injEq] at hb; subst hb
          intro tail
          obtain ⟨bc, _⟩ := build_bool_eval env d c c' hu.1.1 hn.1 h1
          have nr := build_num_eval env d r r' hu.1.2 hn.2.1 h2
          have ih := build_searched_eval env d rest rest' hu.2 hn.2.2 h3 tail
          simp only [evalCoreList, List.cons_append, caseSearchedVal, evalSearched, bc, nr, ih]

/-- **build_str_eval**: the element built for a string-valued tree has the tree's value -/
theorem build_str_eval (env : String → Val) (d : Dialect) : ∀ (u : U) (e : SaExpr), StrU u = true →
    noIsGen u = true → build u = some e → evalCore env d e = evalNumU env d u
  | .col n ty, e, _, _, hb => by
    simp only [build, Option.some.injEq] at hb; subst hb; simp only [evalCore, evalNumU]
  | .ls s, e, _, _, hb => by
    simp only [build, Option.some.injEq] at hb; subst hb; simp only [evalCore, evalNumU, litVal]
  | .bin k a b, e, hu, hn, hb => by
    simp only [StrU, Bool.and_eq_true, Bool.or_eq_true, decide_eq_true_eq] at hu
    obtain ⟨⟨hk, hua⟩, hub⟩ := hu
    subst hk
    simp only [noIsGen, Bool.and_eq_true] at hn
    simp only [build] at hb
    cases ha : build a with
    | none => simp [ha] at hb
    | some x =>
      cases hb' : build b with
      | none => simp [ha, hb'] at hb
      | some y =>
        simp only [ha, hb', BinK.isArith, if_true, Option.some.injEq] at hb
        subst hb
        have nx : OpndE x := by
          rcases hua with h | h
          · exact (build_str a x h ha).1
          · exact (build_num a x h ha).opnd
        have ny : OpndE y := by
          rcases hub with h | h
          · exact (build_str b y h hb').1
          · exact (build_num b y h hb').opnd
        have ex : evalCore env d x = evalNumU env d a := by
          rcases hua with h | h
          · exact build_str_eval env d a x h hn.1.2 ha
          · exact build_num_eval env d a x h hn.1.2 ha
        have ey : evalCore env d y = evalNumU env d b := by
          rcases hub with h | h
          · exact build_str_eval env d b y h hn.2 hb'
          · exact build_num_eval env d b y h hn.2 hb'
        have h1 := adapt_concat (tyOf x) (tyOf y)
        show evalCore env d (binaryOperate x .concat_op y) = _
        unfold binaryOperate
        have e : adaptExpression .concat_op (tyOf x) (tyOf y) =
            (.concat_op, (adaptExpression .concat_op (tyOf x) (tyOf y)).2) := Prod.ext h1 rfl
        rw [e]
        simp only
        rw [constructForOp_eval env d x y .concat_op _ none rfl nx.core nx.wg ny.core ny.wg, ex, ey]
        simp only [evalNumU, BinK.op]
  | .li _, _, hu, _, _ => by simp [StrU] at hu
  | .ln _, _, hu, _, _ => by simp [StrU] at hu
  | .lb _, _, hu, _, _ => by simp [StrU] at hu
  | .null, _, hu, _, _ => by simp [StrU] at hu
  | .true_, _, hu, _, _ => by simp [StrU] at hu
  | .false_, _, hu, _, _ => by simp [StrU] at hu
  | .like _ _ _ _, _, hu, _, _ => by simp [StrU] at hu
  | .neg _, _, hu, _, _ => by simp [StrU] at hu
  | .not_ _, _, hu, _, _ => by simp [StrU] at hu
  | .between _ _ _, _, hu, _, _ => by simp [StrU] at hu
  | .and_ _, _, hu, _, _ => by simp [StrU] at hu
  | .or_ _, _, hu, _, _ => by simp [StrU] at hu
  | .case_ _ _ _, _, hu, _, _ => by simp [StrU] at hu
  | .cast _ _, _, hu, _, _ => by simp [StrU] at hu
  | .coalesce _, _, hu, _, _ => by simp [StrU] at hu
  | .subq _ _, _, hu, _, _ => by simp [StrU] at hu
  | .inOp _ _ _, _, hu, _, _ => by simp [StrU] at hu
  | .tupleIn _ _ _, _, hu, _, _ => by simp [StrU] at hu
  | .pi _, _, hu, _, _ => by simp [StrU] at hu
  | .ps _, _, hu, _, _ => by simp [StrU] at hu
  | .strop _ _ _ _, _, hu, _, _ => by simp [StrU] at hu
  | .absent, _, hu, _, _ => by simp [StrU] at hu

/-- **build_bool_eval**: the element built for a boolean API-call tree evaluates to the tree's
    three-valued meaning (and records sound negations), for every row -/
theorem build_bool_eval (env : String → Val) (d : Dialect) : ∀ (u : U) (e : SaExpr), BoolU u = true →
    noIsGen u = true → build u = some e →
    truth (evalCore env d e) = evalBoolU env d u ∧ negSound e
  | .bin k a b, e, hu, hn, hb => by
    simp only [BoolU, Bool.and_eq_true, Bool.or_eq_true] at hu
    obtain ⟨⟨hk, hna⟩, hbb⟩ := hu
    have hn3 : noIsGen a = true ∧ noIsGen b = true := by
      have h' := hn
      simp only [noIsGen, Bool.and_eq_true] at h'
      exact ⟨h'.1.2, h'.2⟩
    simp only [build] at hb
    cases ha : build a with
    | none => simp [ha] at hb
    | some x =>
      have nx : OpndE x := by
        rcases hna with h | h
        · exact (build_num a x h ha).opnd
        · exact (build_str a x h ha).1
      have hpl : isPyLit a = false := by
        cases a <;> first | rfl | (rcases hna with h | h <;> simp [NumU, StrU] at h)
      have ex : evalCore env d x = evalNumU env d a := by
        rcases hna with h | h
        · exact build_num_eval env d a x h hn3.1 ha
        · exact build_str_eval env d a x h hn3.1 ha
      cases hb' : build b with
      | none => simp [ha, hb'] at hb
      | some y =>
        simp only [ha, hb', cmpK_not_isArith k hk, Bool.false_eq_true, if_false] at hb
        by_cases hbn : b = .null
        · subst hbn
          simp only [build, Option.some.injEq] at hb'
          subst hb'
          have hpr : pyReflected x SaExpr.null = false := by cases x <;> simp [pyReflected]
          simp only [hpr, hpl, Bool.or_false, Bool.false_eq_true, if_false] at hb
          have hb2 : booleanCompare x k.op .null (negateOp k.op) none = some e := by
            cases hr : k.reflected with
            | none => simpa [hr] using hb
            | some k' => simpa [hr] using hb
          have hk4 : k = .eq ∨ k = .ne ∨ k = .is_ ∨ k = .isnot := by
            rcases hbb with h | h
            · rcases h with h | h <;> simp [NumU, StrU] at h
            · simpa [Bool.or_eq_true, or_assoc] using h
          have hnull : Core SaExpr.null = true ∧ WG SaExpr.null = true := ⟨rfl, rfl⟩
          have key : ∀ (op' n' : Op), coreBin op' = true → associative op' = false →
              (soundPair op' n' ∧ soundPair n' op') →
              booleanCompare x k.op .null (negateOp k.op) none =
                some (constructForOp x .null op' .bool (some n') none) →
              truth (binVal op' (evalNumU env d a) .null) = evalBoolU env d (.bin k a .null) →
              truth (evalCore env d e) = evalBoolU env d (.bin k a .null) ∧ negSound e := by
            intro op' n' hop' hna' hsp heq hval
            rw [heq] at hb2
            simp only [Option.some.injEq] at hb2
            subst hb2
            refine ⟨?_, negSound_construct x .null op' n' hop' hna' hsp⟩
            rw [constructForOp_eval env d x .null op' .bool _ hop' nx.core nx.wg hnull.1 hnull.2, ex]
            exact hval
          rcases hk4 with h | h | h | h <;> subst h
          · exact key .is_ .is_not rfl (by decide) soundPair_is rfl
              (by simp [binVal, truth_ofTV, evalBoolU])
          · exact key .is_not .is_ rfl (by decide) ⟨soundPair_is.2, soundPair_is.1⟩ rfl
              (by simp [binVal, truth_ofTV, evalBoolU])
          · exact key .is_ .is_not rfl (by decide) soundPair_is rfl
              (by simp [binVal, truth_ofTV, evalBoolU])
          · exact key .is_not .is_ rfl (by decide) ⟨soundPair_is.2, soundPair_is.1⟩ rfl
              (by simp [binVal, truth_ofTV, evalBoolU])
        ·
          have hnb : NumU b = true ∨ StrU b = true := by
            rcases hbb with h | h
            · exact h
            · exact absurd (null_of_match b k h) hbn
          have ny : OpndE y := by
            rcases hnb with h | h
            · exact (build_num b y h hb').opnd
            · exact (build_str b y h hb').1
          have ey : evalCore env d y = evalNumU env d b := by
            rcases hnb with h | h
            · exact build_num_eval env d b y h hn3.2 hb'
            · exact build_str_eval env d b y h hn3.2 hb'
          have hpr := pyReflected_num x y ny
          simp only [hpr, hpl, Bool.or_false, Bool.false_eq_true, if_false] at hb
          have hb2 : booleanCompare x k.op y (negateOp k.op) none = some e := by
            cases hr : k.reflected with
            | none => simpa [hr] using hb
            | some k' => simpa [hr] using hb
          rw [booleanCompare_num_eq x y k hk ny] at hb2
          simp only [Option.some.injEq] at hb2
          subst hb2
          have h6 : k = .eq ∨ k = .ne ∨ k = .lt ∨ k = .le ∨ k = .gt ∨ k = .ge := by
            apply sixCmp_of k hk
            have h' := hn
            simp only [noIsGen, Bool.and_eq_true] at h'
            simpa using h'.1.1
          obtain ⟨n, hneg⟩ := negate_isSome_cmp k hk
          rw [hneg]
          refine ⟨?_, negSound_construct x y k.op n (cmpK_coreBin k hk) (assoc_cmp k hk)
            (soundPair_table k h6 n hneg)⟩
          rw [constructForOp_eval env d x y k.op .bool _ (cmpK_coreBin k hk) nx.core nx.wg ny.core ny.wg,
            ex, ey, truth_binVal_cmp k hk]
          simp [evalBoolU]
  | .not_ a, e, hu, hn, hb => by
    simp only [build] at hb
    cases ha : build a with
    | none => simp [ha] at hb
    | some x =>
      simp only [ha, Option.map_some, Option.some.injEq] at hb; subst hb
      have hua : BoolU a = true := by simpa [BoolU] using hu
      have hna : noIsGen a = true := by simpa [noIsGen] using hn
      obtain ⟨ih, hs⟩ := build_bool_eval env d a x hua hna ha
      obtain ⟨h1, h2⟩ := negate_eval env d x (build_bool a x hua ha) hs
      exact ⟨by rw [h1, ih]; simp [evalBoolU], h2⟩
  | .and_ cs, e, hu, hn, hb => by
    simp only [BoolU, Bool.and_eq_true, Bool.not_eq_true'] at hu
    simp only [build] at hb
    cases hl : buildList cs with
    | none => simp [hl] at hb
    | some es =>
      cases es with
      | nil => simp [hl] at hb
      | cons c cs' =>
        simp only [hl, Option.some.injEq] at hb; subst hb
        have hbe := build_boolList cs _ hu.2 hl
        obtain ⟨hv, hsn⟩ := build_boolList_eval env d cs _ hu.2 (by simpa [noIsGen] using hn) hl
        refine ⟨?_, negSound_boolConstruct .and_ (Or.inl rfl) _ (by simp) hbe hsn⟩
        rw [boolConstruct_eval env d .and_ (Or.inl rfl) _ (by simp) hbe]
        simp only [if_true, evalBoolU]
        rw [hv]
  | .or_ cs, e, hu, hn, hb => by
    simp only [BoolU, Bool.and_eq_true, Bool.not_eq_true'] at hu
    simp only [build] at hb
    cases hl : buildList cs with
    | none => simp [hl] at hb
    | some es =>
      cases es with
      | nil => simp [hl] at hb
      | cons c cs' =>
        simp only [hl, Option.some.injEq] at hb; subst hb
        have hbe := build_boolList cs _ hu.2 hl
        obtain ⟨hv, hsn⟩ := build_boolList_eval env d cs _ hu.2 (by simpa [noIsGen] using hn) hl
        refine ⟨?_, negSound_boolConstruct .or_ (Or.inr rfl) _ (by simp) hbe hsn⟩
        rw [boolConstruct_eval env d .or_ (Or.inr rfl) _ (by simp) hbe]
        simp only [show (Op.or_ = Op.and_) = False from by simp, if_false, evalBoolU]
        rw [hv]
  | .col _ _, _, hu, _, _ => by simp [BoolU] at hu
  | .li _, _, hu, _, _ => by simp [BoolU] at hu
  | .ls _, _, hu, _, _ => by simp [BoolU] at hu
  | .ln _, _, hu, _, _ => by simp [BoolU] at hu
  | .lb _, _, hu, _, _ => by simp [BoolU] at hu
  | .null, _, hu, _, _ => by simp [BoolU] at hu
  | .true_, _, hu, _, _ => by simp [BoolU] at hu
  | .false_, _, hu, _, _ => by simp [BoolU] at hu
  | .like k esc a b, e, hu, hn, hb => by
    simp only [BoolU, Bool.and_eq_true] at hu
    simp only [noIsGen, Bool.and_eq_true] at hn
    simp only [build] at hb
    cases ha : build a with
    | none => simp [ha] at hb
    | some x =>
      cases hb' : build b with
      | none => simp [ha, hb'] at hb
      | some y =>
        simp only [ha, hb'] at hb
        obtain ⟨nx, cx⟩ := build_str a x hu.1 ha
        obtain ⟨ny, cy⟩ := build_str b y hu.2 hb'
        obtain ⟨hl, hna, n, hneg, hp⟩ := likeK_facts k
        rw [booleanCompare_opnd_eq x y k.op _ esc ny, hneg] at hb
        simp only [Option.some.injEq] at hb
        subst hb
        have hbc := like_not_boolCtx hl
        simp only [constructForOp, hna, Bool.false_eq_true, if_false, mkBinary]
        refine ⟨?_, ?_⟩
        · rw [evalCore_like env d k.op _ _ (some n) esc .bool hl,
            selfGroup_eval env d k.op x nx.core (Or.inl hbc),
            selfGroup_eval env d k.op y ny.core (Or.inl hbc),
            build_str_eval env d a x hu.1 hn.1 ha,
            build_str_eval env d b y hu.2 hn.2 hb']
          simp only [evalBoolU]
        · simp only [negSound, hl, if_true]
          exact hp
  | .neg _, _, hu, _, _ => by simp [BoolU] at hu
  | .between x lo hi, e, hu, hn, hb => by
    simp only [BoolU, Bool.and_eq_true] at hu
    simp only [noIsGen, Bool.and_eq_true] at hn
    simp only [build] at hb
    cases hx : build x with
    | none => simp [hx] at hb
    | some x' =>
      cases hl : build lo with
      | none => simp [hx, hl] at hb
      | some lo' =>
        cases hh : build hi with
        | none => simp [hx, hl, hh] at hb
        | some hi' =>
          simp only [hx, hl, hh, Option.some.injEq] at hb
          subst hb
          have nx := build_num x x' hu.1.1 hx
          have ex := build_num_eval env d x x' hu.1.1 hn.1.1 hx
          have el := build_num_eval env d lo lo' hu.1.2 hn.1.2 hl
          have eh := build_num_eval env d hi hi' hu.2 hn.2 hh
          have hsg : selfGroup (some .between_op) (SaExpr.clist .and_ [lo', hi'] false false .null) =
              .clist .and_ [lo', hi'] false false .null := by simp [selfGroup, wouldGroup]
          simp only [betweenImpl, mkBinary, hsg]
          refine ⟨?_, ?_⟩
          · rw [evalCore_btw env d .between_op _ lo' hi' .null (some .not_between_op) none .null rfl,
              selfGroup_eval env d .between_op x' nx.core (Or.inl rfl), ex, el, eh]
            simp [btwVal, truth_ofTV, evalBoolU]
          · simp [negSound, likeOp, inOp, btwOp, btwPair]
  | .case_ _ _ _, _, hu, _, _ => by simp [BoolU] at hu
  | .cast _ _, _, hu, _, _ => by simp [BoolU] at hu
  | .coalesce _, _, hu, _, _ => by simp [BoolU] at hu
  | .subq _ _, _, hu, _, _ => by simp [BoolU] at hu
  | .inOp negated vals x, e, hu, hn, hb => by
    simp only [BoolU, Bool.and_eq_true, Bool.or_eq_true, Bool.not_eq_true'] at hu
    simp only [noIsGen] at hn
    simp only [build] at hb
    cases hx : build x with
    | none => simp [hx] at hb
    | some x' =>
      simp only [hx] at hb
      have nx : OpndE x' := by
        rcases hu.2 with h | h
        · exact (build_num x x' h hx).opnd
        · exact (build_str x x' h hx).1
      have ex : evalCore env d x' = evalNumU env d x := by
        rcases hu.2 with h | h
        · exact build_num_eval env d x x' h hn hx
        · exact build_str_eval env d x x' h hn hx
      obtain ⟨hin, hna, n, hneg, hp⟩ := in_facts negated
      have hbc : booleanCompare x' (if negated then Op.not_in_op else Op.in_op)
          (.inlist vals (inListTy x' vals) (if negated then Op.not_in_op else Op.in_op))
          (negateOp (if negated then Op.not_in_op else Op.in_op)) none =
          some (constructForOp x' (.inlist vals (inListTy x' vals) (if negated then Op.not_in_op else Op.in_op))
            (if negated then Op.not_in_op else Op.in_op) .bool
            (negateOp (if negated then Op.not_in_op else Op.in_op)) none) := rfl
      rw [hbc, hneg] at hb
      simp only [Option.some.injEq] at hb
      subst hb
      have hbn : boolCtx (if negated then Op.not_in_op else Op.in_op) = false := by
        cases negated <;> rfl
      have hsg : ∀ op, selfGroup (some op) (SaExpr.inlist vals (inListTy x' vals) op) =
          .inlist vals (inListTy x' vals) op := by
        intro op; simp [selfGroup, wouldGroup]
      simp only [constructForOp, hna, Bool.false_eq_true, if_false, mkBinary, hsg]
      refine ⟨?_, ?_⟩
      · rw [evalCore_in env d _ _ vals _ _ (some n) none .bool hin,
          selfGroup_eval env d _ x' nx.core (Or.inl hbn), ex]
        cases negated <;> simp [evalBoolU, truth_ofTV]
      · simp only [negSound, inOp_not_like hin, hin, Bool.false_eq_true, if_false, if_true]
        exact hp
  | .tupleIn _ _ _, _, hu, _, _ => by simp [BoolU] at hu
  | .pi _, _, hu, _, _ => by simp [BoolU] at hu
  | .ps _, _, hu, _, _ => by simp [BoolU] at hu
  | .strop _ _ _ _, _, hu, _, _ => by simp [BoolU] at hu
  | .absent, _, hu, _, _ => by simp [BoolU] at hu

theorem build_boolList_eval (env : String → Val) (d : Dialect) : ∀ (us : List U) (es : List SaExpr),
    BoolUList us = true → noIsGenList us = true → buildList us = some es →
    es.map (fun c => truth (evalCore env d c)) = evalBoolUList env d us ∧ ∀ c ∈ es, negSound c
  | [], es, _, _, hb => by
    simp only [buildList, Option.some.injEq] at hb; subst hb
    exact ⟨rfl, by intro c hc; simp at hc⟩
  | u :: us, es, hu, hn, hb => by
    simp only [BoolUList, Bool.and_eq_true] at hu
    simp only [noIsGenList, Bool.and_eq_true] at hn
    simp only [buildList] at hb
    cases h1 : build u with
    | none => simp [h1] at hb
    | some x =>
      cases h2 : buildList us with
      | none => simp [h1, h2] at hb
      | some xs =>
        simp only [h1, h2, Option.some.injEq] at hb; subst hb
        obtain ⟨a1, a2⟩ := build_bool_eval env d u x hu.1 hn.1 h1
        obtain ⟨b1, b2⟩ := build_boolList_eval env d us xs hu.2 hn.2 h2
        refine ⟨by simp [evalBoolUList, a1, b1], ?_⟩
        intro c hc
        simp only [List.mem_cons] at hc
        rcases hc with hc | hc
        · subst hc; exact a2
        · exact b2 c hc
end

end SaVerif.Expr
