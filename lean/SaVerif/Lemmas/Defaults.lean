import SaVerif.Model.Defaults
/-! Helper lemmas about the default-firing model (core Lean only). -/
namespace SaVerif.Defaults

instance {ε α : Type} [DecidableEq ε] [DecidableEq α] : DecidableEq (Except ε α)
  | .ok a, .ok b => if h : a = b then isTrue (h ▸ rfl) else isFalse (fun e => by cases e; exact h rfl)
  | .error a, .error b =>
    if h : a = b then isTrue (h ▸ rfl) else isFalse (fun e => by cases e; exact h rfl)
  | .ok _, .error _ => isFalse (fun e => by cases e)
  | .error _, .ok _ => isFalse (fun e => by cases e)

/-- what the property expects in a cell: the supplied value if the column is one of the
    statement's keys, otherwise the default (`n` earlier invocations, context read `x`) -/
def expectCell (k : Kind) (key : Bool) (pv : Option Val) (n : Nat) (x : Int) : Val :=
  if key then pv.getD none else defaultValue k n x

/-- how many times the column's Python callable must run for one row -/
def expectInc (k : Kind) (key : Bool) : Nat :=
  if key then 0 else
  match k with
  | .callable _ | .context _ _ => 1
  | _ => 0

/-- UPDATE (and INSERT seen as an update of the virtual row of server defaults): a column
    the statement leaves out keeps the database's own value `o` -/
def expectCellU (k : Kind) (key : Bool) (pv : Option Val) (n : Nat) (x : Int) (o : Val) : Val :=
  if key then pv.getD none else
  match k with
  | .none | .server _ => o
  | _ => defaultValue k n x

/-- one row, all columns at once: `construct` succeeds when every key of the statement
    is present, and every cell / every invocation counter is as expected.  `(UPDATE of a row whose old values are `old`; INSERT is the instance where `old` holds the
    server defaults) -/
theorem row_update_pos :
    ∀ (kinds : List Kind) (keys : List Bool) (p : Params) (counts : List Nat)
      (done : List (Option Val)) (old : List Val),
      keys.length = kinds.length → p.length = kinds.length → counts.length = kinds.length → old.length = kinds.length →
      (∀ (c : Nat), keys[c]? = some true → ∃ v : Val, p[c]? = some (some v)) →
      ∃ cur, construct (disps kinds keys) p = .ok cur ∧
        (fireFrom (kinds.zip (disps kinds keys)) done cur counts).2.length = kinds.length ∧
        (fireFrom (kinds.zip (disps kinds keys)) done cur counts).1.length = kinds.length ∧
        ∀ c (hc : c < kinds.length), ∃ x,
          (storeUpdate (kinds.zip (disps kinds keys))
              (fireFrom (kinds.zip (disps kinds keys)) done cur counts).1 old)[c]? =
            some (expectCellU (kinds[c]) (keys.getD c false) ((p.getD c none)) (counts.getD c 0) x (old.getD c none)) ∧
          (fireFrom (kinds.zip (disps kinds keys)) done cur counts).2[c]? =
            some (counts.getD c 0 + expectInc (kinds[c]) (keys.getD c false)) := by
  intro kinds
  induction kinds with
  | nil =>
    intro keys p counts done old hk hp hc _ _
    have : keys = [] := List.eq_nil_of_length_eq_zero hk
    subst this
    exact ⟨[], rfl, by simp [fireFrom, disps, hc], by
      have : p = [] := List.eq_nil_of_length_eq_zero hp
      subst this; simp [fireFrom, disps], fun c hc => by simp at hc⟩
  | cons k ks ih =>
    intro keys p counts done old hk hp hc ho hpres
    cases keys with
    | nil => simp at hk
    | cons key keys' =>
    cases p with
    | nil => simp at hp
    | cons pv p' =>
    cases counts with
    | nil => simp at hc
    | cons n counts' =>
    cases old with
    | nil => simp at ho
    | cons o old' =>
    have ho' : old'.length = ks.length := by simpa using ho
    have hk' : keys'.length = ks.length := by simpa using hk
    have hp' : p'.length = ks.length := by simpa using hp
    have hc' : counts'.length = ks.length := by simpa using hc
    have hpres' : ∀ (c : Nat), keys'[c]? = some true → ∃ v : Val, p'[c]? = some (some v) := by
      intro c h
      have := hpres (c + 1) (by simpa using h)
      simpa using this
    -- value of the head cell of the live dict and the state after firing it
    have hhead : key = true → ∃ v, pv = some v := by
      intro h
      have := hpres 0 (by simp [h])
      simpa using this
    -- run the induction hypothesis with the `done` the model will use
    cases key with
    | true =>
      obtain ⟨v, rfl⟩ := hhead rfl
      obtain ⟨cur', hcons, hl2, hl1, hall⟩ :=
        ih keys' p' counts' (done ++ [some v]) old' hk' hp' hc' ho' hpres'
      refine ⟨some v :: cur', ?_, ?_, ?_, ?_⟩
      · simp only [disps, List.zipWith_cons_cons, dispOf, ↓reduceIte, construct, List.headD_cons,
          List.tail_cons]
        simp only [disps] at hcons
        rw [hcons]
      · simp only [disps, List.zipWith_cons_cons, dispOf, ↓reduceIte, List.zip_cons_cons, fireFrom,
          List.headD_cons, List.tail_cons, List.length_cons]
        simp only [disps] at hl2
        simpa using hl2
      · simp only [disps, List.zipWith_cons_cons, dispOf, ↓reduceIte, List.zip_cons_cons, fireFrom,
          List.headD_cons, List.tail_cons, List.length_cons]
        simp only [disps] at hl1
        simpa using hl1
      · intro c hc
        cases c with
        | zero =>
          refine ⟨0, ?_, ?_⟩
          · simp [disps, dispOf, fireFrom, storeUpdate, expectCellU]
          · simp [disps, dispOf, fireFrom, expectInc]
        | succ j =>
          obtain ⟨x, h1, h2⟩ := hall j (by simpa using hc)
          refine ⟨x, ?_, ?_⟩
          · simp only [disps, List.zipWith_cons_cons, dispOf, ↓reduceIte, List.zip_cons_cons,
              fireFrom, List.headD_cons, List.tail_cons, storeUpdate, List.getElem?_cons_succ,
              List.getElem_cons_succ, List.getD_cons_succ]
            simp only [disps] at h1
            simpa using h1
          · simp only [disps, List.zipWith_cons_cons, dispOf, ↓reduceIte, List.zip_cons_cons,
              fireFrom, List.headD_cons, List.tail_cons, List.getElem?_cons_succ,
              List.getElem_cons_succ, List.getD_cons_succ]
            simp only [disps] at h2
            simpa using h2
    | false =>
      -- the column is not a key of the statement: its disposition depends on the kind only
      cases k with
      | none =>
        obtain ⟨cur', hcons, hl2, hl1, hall⟩ :=
          ih keys' p' counts' (done ++ [none]) old' hk' hp' hc' ho' hpres'
        refine ⟨none :: cur', ?_, ?_, ?_, ?_⟩
        · simp only [disps] at hcons
          simp [disps, dispOf, construct, hcons]
        · simp only [disps] at hl2
          simpa [disps, dispOf, fireFrom] using hl2
        · simp only [disps] at hl1
          simpa [disps, dispOf, fireFrom] using hl1
        · intro c hc
          cases c with
          | zero => exact ⟨0, by simp [disps, dispOf, fireFrom, storeUpdate, expectCellU, defaultValue],
              by simp [disps, dispOf, fireFrom, expectInc]⟩
          | succ j =>
            obtain ⟨x, h1, h2⟩ := hall j (by simpa using hc)
            simp only [disps] at h1 h2
            exact ⟨x, by simpa [disps, dispOf, fireFrom, storeUpdate] using h1,
              by simpa [disps, dispOf, fireFrom] using h2⟩
      | server v =>
        obtain ⟨cur', hcons, hl2, hl1, hall⟩ :=
          ih keys' p' counts' (done ++ [none]) old' hk' hp' hc' ho' hpres'
        refine ⟨none :: cur', ?_, ?_, ?_, ?_⟩
        · simp only [disps] at hcons
          simp [disps, dispOf, construct, hcons]
        · simp only [disps] at hl2
          simpa [disps, dispOf, fireFrom] using hl2
        · simp only [disps] at hl1
          simpa [disps, dispOf, fireFrom] using hl1
        · intro c hc
          cases c with
          | zero => exact ⟨0, by simp [disps, dispOf, fireFrom, storeUpdate, expectCellU, defaultValue],
              by simp [disps, dispOf, fireFrom, expectInc]⟩
          | succ j =>
            obtain ⟨x, h1, h2⟩ := hall j (by simpa using hc)
            simp only [disps] at h1 h2
            exact ⟨x, by simpa [disps, dispOf, fireFrom, storeUpdate] using h1,
              by simpa [disps, dispOf, fireFrom] using h2⟩
      | sqlexpr v =>
        obtain ⟨cur', hcons, hl2, hl1, hall⟩ :=
          ih keys' p' counts' (done ++ [none]) old' hk' hp' hc' ho' hpres'
        refine ⟨none :: cur', ?_, ?_, ?_, ?_⟩
        · simp only [disps] at hcons
          simp [disps, dispOf, construct, hcons]
        · simp only [disps] at hl2
          simpa [disps, dispOf, fireFrom] using hl2
        · simp only [disps] at hl1
          simpa [disps, dispOf, fireFrom] using hl1
        · intro c hc
          cases c with
          | zero => exact ⟨0, by simp [disps, dispOf, fireFrom, storeUpdate, expectCellU, defaultValue],
              by simp [disps, dispOf, fireFrom, expectInc]⟩
          | succ j =>
            obtain ⟨x, h1, h2⟩ := hall j (by simpa using hc)
            simp only [disps] at h1 h2
            exact ⟨x, by simpa [disps, dispOf, fireFrom, storeUpdate] using h1,
              by simpa [disps, dispOf, fireFrom] using h2⟩
      | scalar v =>
        obtain ⟨cur', hcons, hl2, hl1, hall⟩ :=
          ih keys' p' counts' (done ++ [some (some v)]) old' hk' hp' hc' ho' hpres'
        refine ⟨prefetchSlot pv :: cur', ?_, ?_, ?_, ?_⟩
        · simp only [disps] at hcons
          simp [disps, dispOf, construct, hcons]
        · simp only [disps] at hl2
          simpa [disps, dispOf, fireFrom, fireOne] using hl2
        · simp only [disps] at hl1
          simpa [disps, dispOf, fireFrom, fireOne] using hl1
        · intro c hc
          cases c with
          | zero => exact ⟨0, by simp [disps, dispOf, fireFrom, fireOne, storeUpdate, expectCellU, defaultValue],
              by simp [disps, dispOf, fireFrom, fireOne, expectInc]⟩
          | succ j =>
            obtain ⟨x, h1, h2⟩ := hall j (by simpa using hc)
            simp only [disps] at h1 h2
            exact ⟨x, by simpa [disps, dispOf, fireFrom, fireOne, storeUpdate] using h1,
              by simpa [disps, dispOf, fireFrom, fireOne] using h2⟩
      | callable b =>
        obtain ⟨cur', hcons, hl2, hl1, hall⟩ :=
          ih keys' p' counts' (done ++ [some (some (b + (n : Nat)))]) old' hk' hp' hc' ho' hpres'
        refine ⟨prefetchSlot pv :: cur', ?_, ?_, ?_, ?_⟩
        · simp only [disps] at hcons
          simp [disps, dispOf, construct, hcons]
        · simp only [disps] at hl2
          simpa [disps, dispOf, fireFrom, fireOne] using hl2
        · simp only [disps] at hl1
          simpa [disps, dispOf, fireFrom, fireOne] using hl1
        · intro c hc
          cases c with
          | zero => exact ⟨0, by simp [disps, dispOf, fireFrom, fireOne, storeUpdate, expectCellU, defaultValue],
              by simp [disps, dispOf, fireFrom, fireOne, expectInc]⟩
          | succ j =>
            obtain ⟨x, h1, h2⟩ := hall j (by simpa using hc)
            simp only [disps] at h1 h2
            exact ⟨x, by simpa [disps, dispOf, fireFrom, fireOne, storeUpdate] using h1,
              by simpa [disps, dispOf, fireFrom, fireOne] using h2⟩
      | context src add =>
        obtain ⟨cur0, hcons0, _, _, _⟩ := ih keys' p' counts' [] old' hk' hp' hc' ho' hpres'
        obtain ⟨cur', hcons, hl2, hl1, hall⟩ :=
          ih keys' p' counts' (done ++ [some (some (readCur (done ++ prefetchSlot pv :: cur0) src + add))]) old' hk' hp' hc' ho' hpres'
        have hsame : cur' = cur0 := by
          rw [hcons0] at hcons
          cases hcons; rfl
        subst hsame
        refine ⟨prefetchSlot pv :: cur', ?_, ?_, ?_, ?_⟩
        · simp only [disps] at hcons
          simp [disps, dispOf, construct, hcons]
        · simp only [disps] at hl2
          simpa [disps, dispOf, fireFrom, fireOne] using hl2
        · simp only [disps] at hl1
          simpa [disps, dispOf, fireFrom, fireOne] using hl1
        · intro c hc
          cases c with
          | zero =>
            exact ⟨readCur (done ++ prefetchSlot pv :: cur') src,
              by simp [disps, dispOf, fireFrom, fireOne, storeUpdate, expectCellU, defaultValue],
              by simp [disps, dispOf, fireFrom, fireOne, expectInc]⟩
          | succ j =>
            obtain ⟨x, h1, h2⟩ := hall j (by simpa using hc)
            simp only [disps] at h1 h2
            exact ⟨x, by simpa [disps, dispOf, fireFrom, fireOne, storeUpdate] using h1,
              by simpa [disps, dispOf, fireFrom, fireOne] using h2⟩


/-- one row, all columns at once: `construct` succeeds when every key of the statement
    is present, and every cell / every invocation counter is as expected.  `upd = none`
    is INSERT; `upd = some old` is UPDATE of a row with old values `old`. -/
theorem row_insert_pos :
    ∀ (kinds : List Kind) (keys : List Bool) (p : Params) (counts : List Nat)
      (done : List (Option Val)),
      keys.length = kinds.length → p.length = kinds.length → counts.length = kinds.length →
      (∀ (c : Nat), keys[c]? = some true → ∃ v : Val, p[c]? = some (some v)) →
      ∃ cur, construct (disps kinds keys) p = .ok cur ∧
        (fireFrom (kinds.zip (disps kinds keys)) done cur counts).2.length = kinds.length ∧
        (fireFrom (kinds.zip (disps kinds keys)) done cur counts).1.length = kinds.length ∧
        ∀ c (hc : c < kinds.length), ∃ x,
          (storeInsert (kinds.zip (disps kinds keys))
              (fireFrom (kinds.zip (disps kinds keys)) done cur counts).1)[c]? =
            some (expectCell (kinds[c]) (keys.getD c false) ((p.getD c none)) (counts.getD c 0) x) ∧
          (fireFrom (kinds.zip (disps kinds keys)) done cur counts).2[c]? =
            some (counts.getD c 0 + expectInc (kinds[c]) (keys.getD c false)) := by
  intro kinds
  induction kinds with
  | nil =>
    intro keys p counts done hk hp hc _
    have : keys = [] := List.eq_nil_of_length_eq_zero hk
    subst this
    exact ⟨[], rfl, by simp [fireFrom, disps, hc], by
      have : p = [] := List.eq_nil_of_length_eq_zero hp
      subst this; simp [fireFrom, disps], fun c hc => by simp at hc⟩
  | cons k ks ih =>
    intro keys p counts done hk hp hc hpres
    cases keys with
    | nil => simp at hk
    | cons key keys' =>
    cases p with
    | nil => simp at hp
    | cons pv p' =>
    cases counts with
    | nil => simp at hc
    | cons n counts' =>
    have hk' : keys'.length = ks.length := by simpa using hk
    have hp' : p'.length = ks.length := by simpa using hp
    have hc' : counts'.length = ks.length := by simpa using hc
    have hpres' : ∀ (c : Nat), keys'[c]? = some true → ∃ v : Val, p'[c]? = some (some v) := by
      intro c h
      have := hpres (c + 1) (by simpa using h)
      simpa using this
    -- value of the head cell of the live dict and the state after firing it
    have hhead : key = true → ∃ v, pv = some v := by
      intro h
      have := hpres 0 (by simp [h])
      simpa using this
    -- run the induction hypothesis with the `done` the model will use
    cases key with
    | true =>
      obtain ⟨v, rfl⟩ := hhead rfl
      obtain ⟨cur', hcons, hl2, hl1, hall⟩ :=
        ih keys' p' counts' (done ++ [some v]) hk' hp' hc' hpres'
      refine ⟨some v :: cur', ?_, ?_, ?_, ?_⟩
      · simp only [disps, List.zipWith_cons_cons, dispOf, ↓reduceIte, construct, List.headD_cons,
          List.tail_cons]
        simp only [disps] at hcons
        rw [hcons]
      · simp only [disps, List.zipWith_cons_cons, dispOf, ↓reduceIte, List.zip_cons_cons, fireFrom,
          List.headD_cons, List.tail_cons, List.length_cons]
        simp only [disps] at hl2
        simpa using hl2
      · simp only [disps, List.zipWith_cons_cons, dispOf, ↓reduceIte, List.zip_cons_cons, fireFrom,
          List.headD_cons, List.tail_cons, List.length_cons]
        simp only [disps] at hl1
        simpa using hl1
      · intro c hc
        cases c with
        | zero =>
          refine ⟨0, ?_, ?_⟩
          · simp [disps, dispOf, fireFrom, storeInsert, expectCell]
          · simp [disps, dispOf, fireFrom, expectInc]
        | succ j =>
          obtain ⟨x, h1, h2⟩ := hall j (by simpa using hc)
          refine ⟨x, ?_, ?_⟩
          · simp only [disps, List.zipWith_cons_cons, dispOf, ↓reduceIte, List.zip_cons_cons,
              fireFrom, List.headD_cons, List.tail_cons, storeInsert, List.getElem?_cons_succ,
              List.getElem_cons_succ, List.getD_cons_succ]
            simp only [disps] at h1
            simpa using h1
          · simp only [disps, List.zipWith_cons_cons, dispOf, ↓reduceIte, List.zip_cons_cons,
              fireFrom, List.headD_cons, List.tail_cons, List.getElem?_cons_succ,
              List.getElem_cons_succ, List.getD_cons_succ]
            simp only [disps] at h2
            simpa using h2
    | false =>
      -- the column is not a key of the statement: its disposition depends on the kind only
      cases k with
      | none =>
        obtain ⟨cur', hcons, hl2, hl1, hall⟩ :=
          ih keys' p' counts' (done ++ [none]) hk' hp' hc' hpres'
        refine ⟨none :: cur', ?_, ?_, ?_, ?_⟩
        · simp only [disps] at hcons
          simp [disps, dispOf, construct, hcons]
        · simp only [disps] at hl2
          simpa [disps, dispOf, fireFrom] using hl2
        · simp only [disps] at hl1
          simpa [disps, dispOf, fireFrom] using hl1
        · intro c hc
          cases c with
          | zero => exact ⟨0, by simp [disps, dispOf, fireFrom, storeInsert, expectCell, defaultValue],
              by simp [disps, dispOf, fireFrom, expectInc]⟩
          | succ j =>
            obtain ⟨x, h1, h2⟩ := hall j (by simpa using hc)
            simp only [disps] at h1 h2
            exact ⟨x, by simpa [disps, dispOf, fireFrom, storeInsert] using h1,
              by simpa [disps, dispOf, fireFrom] using h2⟩
      | server v =>
        obtain ⟨cur', hcons, hl2, hl1, hall⟩ :=
          ih keys' p' counts' (done ++ [none]) hk' hp' hc' hpres'
        refine ⟨none :: cur', ?_, ?_, ?_, ?_⟩
        · simp only [disps] at hcons
          simp [disps, dispOf, construct, hcons]
        · simp only [disps] at hl2
          simpa [disps, dispOf, fireFrom] using hl2
        · simp only [disps] at hl1
          simpa [disps, dispOf, fireFrom] using hl1
        · intro c hc
          cases c with
          | zero => exact ⟨0, by simp [disps, dispOf, fireFrom, storeInsert, expectCell, defaultValue],
              by simp [disps, dispOf, fireFrom, expectInc]⟩
          | succ j =>
            obtain ⟨x, h1, h2⟩ := hall j (by simpa using hc)
            simp only [disps] at h1 h2
            exact ⟨x, by simpa [disps, dispOf, fireFrom, storeInsert] using h1,
              by simpa [disps, dispOf, fireFrom] using h2⟩
      | sqlexpr v =>
        obtain ⟨cur', hcons, hl2, hl1, hall⟩ :=
          ih keys' p' counts' (done ++ [none]) hk' hp' hc' hpres'
        refine ⟨none :: cur', ?_, ?_, ?_, ?_⟩
        · simp only [disps] at hcons
          simp [disps, dispOf, construct, hcons]
        · simp only [disps] at hl2
          simpa [disps, dispOf, fireFrom] using hl2
        · simp only [disps] at hl1
          simpa [disps, dispOf, fireFrom] using hl1
        · intro c hc
          cases c with
          | zero => exact ⟨0, by simp [disps, dispOf, fireFrom, storeInsert, expectCell, defaultValue],
              by simp [disps, dispOf, fireFrom, expectInc]⟩
          | succ j =>
            obtain ⟨x, h1, h2⟩ := hall j (by simpa using hc)
            simp only [disps] at h1 h2
            exact ⟨x, by simpa [disps, dispOf, fireFrom, storeInsert] using h1,
              by simpa [disps, dispOf, fireFrom] using h2⟩
      | scalar v =>
        obtain ⟨cur', hcons, hl2, hl1, hall⟩ :=
          ih keys' p' counts' (done ++ [some (some v)]) hk' hp' hc' hpres'
        refine ⟨prefetchSlot pv :: cur', ?_, ?_, ?_, ?_⟩
        · simp only [disps] at hcons
          simp [disps, dispOf, construct, hcons]
        · simp only [disps] at hl2
          simpa [disps, dispOf, fireFrom, fireOne] using hl2
        · simp only [disps] at hl1
          simpa [disps, dispOf, fireFrom, fireOne] using hl1
        · intro c hc
          cases c with
          | zero => exact ⟨0, by simp [disps, dispOf, fireFrom, fireOne, storeInsert, expectCell, defaultValue],
              by simp [disps, dispOf, fireFrom, fireOne, expectInc]⟩
          | succ j =>
            obtain ⟨x, h1, h2⟩ := hall j (by simpa using hc)
            simp only [disps] at h1 h2
            exact ⟨x, by simpa [disps, dispOf, fireFrom, fireOne, storeInsert] using h1,
              by simpa [disps, dispOf, fireFrom, fireOne] using h2⟩
      | callable b =>
        obtain ⟨cur', hcons, hl2, hl1, hall⟩ :=
          ih keys' p' counts' (done ++ [some (some (b + (n : Nat)))]) hk' hp' hc' hpres'
        refine ⟨prefetchSlot pv :: cur', ?_, ?_, ?_, ?_⟩
        · simp only [disps] at hcons
          simp [disps, dispOf, construct, hcons]
        · simp only [disps] at hl2
          simpa [disps, dispOf, fireFrom, fireOne] using hl2
        · simp only [disps] at hl1
          simpa [disps, dispOf, fireFrom, fireOne] using hl1
        · intro c hc
          cases c with
          | zero => exact ⟨0, by simp [disps, dispOf, fireFrom, fireOne, storeInsert, expectCell, defaultValue],
              by simp [disps, dispOf, fireFrom, fireOne, expectInc]⟩
          | succ j =>
            obtain ⟨x, h1, h2⟩ := hall j (by simpa using hc)
            simp only [disps] at h1 h2
            exact ⟨x, by simpa [disps, dispOf, fireFrom, fireOne, storeInsert] using h1,
              by simpa [disps, dispOf, fireFrom, fireOne] using h2⟩
      | context src add =>
        obtain ⟨cur0, hcons0, _, _, _⟩ := ih keys' p' counts' [] hk' hp' hc' hpres'
        obtain ⟨cur', hcons, hl2, hl1, hall⟩ :=
          ih keys' p' counts'
            (done ++ [some (some (readCur (done ++ prefetchSlot pv :: cur0) src + add))]) hk' hp' hc' hpres'
        have hsame : cur' = cur0 := by
          rw [hcons0] at hcons
          cases hcons; rfl
        subst hsame
        refine ⟨prefetchSlot pv :: cur', ?_, ?_, ?_, ?_⟩
        · simp only [disps] at hcons
          simp [disps, dispOf, construct, hcons]
        · simp only [disps] at hl2
          simpa [disps, dispOf, fireFrom, fireOne] using hl2
        · simp only [disps] at hl1
          simpa [disps, dispOf, fireFrom, fireOne] using hl1
        · intro c hc
          cases c with
          | zero =>
            exact ⟨readCur (done ++ prefetchSlot pv :: cur') src,
              by simp [disps, dispOf, fireFrom, fireOne, storeInsert, expectCell, defaultValue],
              by simp [disps, dispOf, fireFrom, fireOne, expectInc]⟩
          | succ j =>
            obtain ⟨x, h1, h2⟩ := hall j (by simpa using hc)
            simp only [disps] at h1 h2
            exact ⟨x, by simpa [disps, dispOf, fireFrom, fireOne, storeInsert] using h1,
              by simpa [disps, dispOf, fireFrom, fireOne] using h2⟩


end SaVerif.Defaults
