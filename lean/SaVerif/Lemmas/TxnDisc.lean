import SaVerif.Lemmas.TxnEvo
/-! Pool-generation invariants and blocked-state lemmas for C27. -/
namespace SaVerif.Txn

/-! ### clock discipline of the pool -/

/-- every pooled connection was born at a clock value that is not the invalidation time, and
    the held connection (if any) belongs to the current generation -/
structure PoolTime (db : DB) (h : Bool) : Prop where
  idle : ∀ r, some r ∈ db.idle → r.born ≤ db.clock ∧ r.born ≠ db.invalTime ∧ r.rid < db.nextRid
  inval : db.invalTime ≤ db.clock
  held : h = true → db.raw.born ≤ db.clock ∧ db.invalTime < db.raw.born ∧ db.raw.rid < db.nextRid

/-- no DBAPI connection numbered below `N` can be handed out any more -/
structure StaleBelow (N : Nat) (db : DB) (h : Bool) : Prop where
  next : N ≤ db.nextRid
  idle : ∀ r, some r ∈ db.idle → r.rid < N → r.born < db.invalTime
  held : h = true → N ≤ db.raw.rid

def Gen (N : Nat) (db : DB) (h : Bool) : Prop := PoolTime db h ∧ StaleBelow N db h

theorem newRaw_gen {N : Nat} {db : DB} {h : Bool} (hg : Gen N db h) : Gen N (db.newRaw) true := by
  obtain ⟨pt, sb⟩ := hg
  refine ⟨⟨?_, ?_, ?_⟩, ⟨?_, ?_, ?_⟩⟩
  · intro r hr
    have := pt.idle r hr
    simp only [DB.newRaw, DB.tick] at hr ⊢
    exact ⟨by omega, this.2.1, by omega⟩
  · have := pt.inval
    simp only [DB.newRaw, DB.tick]; omega
  · intro _
    have := pt.inval
    simp only [DB.newRaw, DB.tick]; omega
  · have := sb.next
    simp only [DB.newRaw, DB.tick]; omega
  · intro r hr hlt
    exact sb.idle r hr hlt
  · intro _
    have := sb.next
    simp only [DB.newRaw, DB.tick]; exact this

theorem gen_dropIdle {N : Nat} {db : DB} {h : Bool} {x : Option Raw} {rest : List (Option Raw)}
    (hg : Gen N db h) (he : db.idle = x :: rest) : Gen N { db with idle := rest } false := by
  obtain ⟨pt, sb⟩ := hg
  have hsub : ∀ r, some r ∈ rest → some r ∈ db.idle := fun r hr => by
    rw [he]; exact List.mem_cons_of_mem _ hr
  exact ⟨⟨fun r hr => pt.idle r (hsub r hr), pt.inval, fun e => by cases e⟩,
         ⟨sb.next, fun r hr => sb.idle r (hsub r hr), fun e => by cases e⟩⟩

theorem preSpec_gen {N : Nat} {db db1 : DB} {o : Option Raw} (hp : PreSpec db db1 o)
    (hg : Gen N db false) : Gen N db1 false := by
  obtain ⟨pt, sb⟩ := hg
  refine ⟨⟨?_, ?_, fun e => by cases e⟩, ⟨?_, ?_, fun e => by cases e⟩⟩
  · intro r hr
    have := pt.idle r (hp.idle r hr)
    have := hp.clock
    rw [hp.invalTime, hp.nextRid]
    exact ⟨by omega, by omega, by omega⟩
  · have := pt.inval; have := hp.clock; rw [hp.invalTime]; omega
  · rw [hp.nextRid]; exact sb.next
  · intro r hr hlt
    rw [hp.invalTime]
    exact sb.idle r (hp.idle r hr) hlt

theorem tick_gen {N : Nat} {db : DB} {h : Bool} (hg : Gen N db h) : Gen N db.tick.1 h := by
  obtain ⟨pt, sb⟩ := hg
  refine ⟨⟨?_, ?_, ?_⟩, ⟨sb.next, sb.idle, sb.held⟩⟩
  · intro r hr
    have := pt.idle r hr
    simp only [DB.tick] at hr ⊢
    exact ⟨by omega, this.2.1, this.2.2⟩
  · have := pt.inval
    simp only [DB.tick]; omega
  · intro e
    have := pt.held e
    simp only [DB.tick]
    exact ⟨by omega, this.2.1, this.2.2⟩

theorem checkout_gen {N : Nat} {db : DB} (hg : Gen N db false) : Gen N (db.checkout) true := by
  apply checkout_cases db (fun d => Gen N d true)
  · intro db1 r hp
    have hd := preSpec_gen hp hg
    obtain ⟨hin, hns⟩ := hp.out r rfl
    obtain ⟨hb, hne, hrid⟩ := hg.1.idle r hin
    have hgt : db.invalTime < r.born := by
      simp only [gt_iff_lt, Nat.not_lt] at hns
      omega
    have hN : N ≤ r.rid := by
      rcases Nat.lt_or_ge r.rid N with hlt | hge
      · have := hg.2.idle r hin hlt
        omega
      · exact hge
    obtain ⟨pt, sb⟩ := hd
    obtain ⟨f1, f2, f3, f4, f5, f6, f7, f8, f9, f10, f11, f12⟩ := handOut_frame db1 r
    have hc := hp.clock
    refine ⟨⟨?_, ?_, ?_⟩, ⟨?_, ?_, ?_⟩⟩
    · intro x hx
      rw [f10] at hx
      rw [f9, f8, f7]
      exact pt.idle x hx
    · rw [f8, f9]; exact pt.inval
    · intro _
      rw [f9, f8, f7, f11, f12, hp.invalTime, hp.nextRid]
      exact ⟨by omega, hgt, hrid⟩
    · rw [f7]; exact sb.next
    · intro x hx
      rw [f10] at hx
      rw [f8]
      exact sb.idle x hx
    · intro _
      rw [f11]; exact hN
  · intro db1 hp
    exact newRaw_gen (preSpec_gen hp hg)
  · intro d h
    exact tick_gen h
  · intro d h
    exact newRaw_gen h

theorem addNone_gen {N : Nat} {db : DB} (hg : Gen N db false) :
    Gen N { db with idle := db.idle ++ [none] } false := by
  obtain ⟨pt, sb⟩ := hg
  have hsub : ∀ r, some r ∈ db.idle ++ [none] → some r ∈ db.idle := fun r hr => by
    rcases List.mem_append.1 hr with h | h
    · exact h
    · simp at h
  exact ⟨⟨fun r hr => pt.idle r (hsub r hr), pt.inval, fun e => by cases e⟩,
         ⟨sb.next, fun r hr => sb.idle r (hsub r hr), fun e => by cases e⟩⟩

theorem kill_gen {N : Nat} {db : DB} {h : Bool} (hg : Gen N db h) : Gen N (db.kill) false := by
  obtain ⟨pt, sb⟩ := hg
  have hsub : ∀ r, some r ∈ db.kill.idle → some r ∈ db.idle := (kill_shrinks db).idle
  exact ⟨⟨fun r hr => pt.idle r (hsub r hr), pt.inval, fun e => by cases e⟩,
         ⟨sb.next, fun r hr => sb.idle r (hsub r hr), fun e => by cases e⟩⟩

theorem poolInvalidate_gen {N : Nat} {db : DB} {h : Bool} (hg : Gen N db h) :
    Gen N (db.poolInvalidate) false := by
  obtain ⟨pt, sb⟩ := hg
  unfold DB.poolInvalidate
  split
  · simp only [DB.tick]
    refine ⟨⟨?_, ?_, fun e => by cases e⟩, ⟨sb.next, ?_, fun e => by cases e⟩⟩
    · intro r hr
      have := pt.idle r hr
      exact ⟨by simp only []; omega, by simp only []; omega, this.2.2⟩
    · simp only []; omega
    · intro r hr hlt
      have := sb.idle r hr hlt
      have := pt.inval
      simp only []; omega
  · exact ⟨⟨pt.idle, pt.inval, fun e => by cases e⟩, ⟨sb.next, sb.idle, fun e => by cases e⟩⟩

theorem data_gen {N : Nat} {db db' : DB} {h : Bool} (hd : DataOnly db db') (hg : Gen N db h) :
    Gen N db' h := by
  obtain ⟨pt, sb⟩ := hg
  refine ⟨⟨?_, ?_, ?_⟩, ⟨?_, ?_, ?_⟩⟩
  · intro r hr
    simp only [hd.idle] at hr
    simp only [hd.clock, hd.invalTime, hd.nextRid]
    exact pt.idle r hr
  · simp only [hd.clock, hd.invalTime]; exact pt.inval
  · intro e
    simp only [hd.clock, hd.invalTime, hd.nextRid, hd.born, hd.rid]
    exact pt.held e
  · simp only [hd.nextRid]; exact sb.next
  · intro r hr
    simp only [hd.idle] at hr
    simp only [hd.invalTime]
    exact sb.idle r hr
  · intro e
    simp only [hd.rid]
    exact sb.held e

/-- a failed `Pool.connect()` keeps the generation invariant -/
theorem checkoutFail_gen {N : Nat} {db db' : DB} {k : FKind} (h : db.checkoutF = (db', some k))
    (hg : Gen N db false) : Gen N db' false := by
  obtain ⟨db1, hasRec, db2, hx, hf, he⟩ := checkoutF_some h
  have hp := checkoutPre_spec db
  rw [hx] at hp
  have h1 := preSpec_gen hp hg
  have h2 : Gen N db2 false := by
    have := takeFault_dataOnly db1 .connect
    rw [hf] at this
    exact data_gen this h1
  have h3 := tick_gen h2
  rw [he]
  cases hasRec with
  | false => exact h3
  | true => exact addNone_gen h3

theorem evo_gen {N : Nat} {s s' : St} (he : Evo s s') : Gen N s.1 s.2 → Gen N s'.1 s'.2 := by
  induction he with
  | refl s => exact id
  | data hd => exact data_gen hd
  | checkout => exact checkout_gen
  | checkoutFail h => exact checkoutFail_gen h
  | disc => intro hg; exact kill_gen (poolInvalidate_gen hg)
  | kill => exact kill_gen
  | trans _ _ ih1 ih2 => exact fun hg => ih2 (ih1 hg)


/-! ### returning the connection, new checkouts -/

theorem return_gen {N : Nat} {db : DB} (hg : Gen N db true) (r : Raw)
    (h1 : r.rid = db.raw.rid) (h2 : r.born = db.raw.born) :
    Gen N { db with raw := r, idle := db.idle ++ [some r] } false := by
  obtain ⟨pt, sb⟩ := hg
  obtain ⟨a, b, d⟩ := pt.held rfl
  have hN := sb.held rfl
  refine ⟨⟨?_, pt.inval, fun e => by cases e⟩, ⟨sb.next, ?_, fun e => by cases e⟩⟩
  · intro x hx
    have hx' : some x ∈ db.idle ++ [some r] := hx
    rcases List.mem_append.1 hx' with hx' | hx'
    · exact pt.idle x hx'
    · simp only [List.mem_singleton, Option.some.injEq] at hx'
      subst hx'
      show x.born ≤ db.clock ∧ x.born ≠ db.invalTime ∧ x.rid < db.nextRid
      rw [h1, h2]
      exact ⟨a, by omega, d⟩
  · intro x hx hlt
    have hx' : some x ∈ db.idle ++ [some r] := hx
    rcases List.mem_append.1 hx' with hx' | hx'
    · exact sb.idle x hx' hlt
    · simp only [List.mem_singleton, Option.some.injEq] at hx'
      subst hx'
      rw [h1] at hlt
      omega

theorem checkin_gen {N : Nat} {db : DB} (b : Bool) (hg : Gen N db true) : Gen N (db.checkin b) false := by
  unfold DB.checkin
  cases hr : db.reset with
  | none =>
    simp only [Bool.false_eq_true, if_false]
    exact return_gen hg _ rfl rfl
  | rollback =>
    simp only []
    generalize (b || db.skipsRollback) = bb
    cases bb with
    | true =>
      simp only [if_true, Bool.false_eq_true, if_false]
      exact return_gen hg _ rfl rfl
    | false =>
      simp only [Bool.false_eq_true, if_false]
      cases hf : db.takeFault .rollback with
      | mk o db1 =>
        have hs : DataOnly db db1 := by
          have := takeFault_dataOnly db .rollback; rw [hf] at this; exact this
        cases o with
        | some k =>
          simp only [if_true]
          exact kill_gen (data_gen hs hg)
        | none =>
          simp only [Bool.false_eq_true, if_false]
          exact return_gen (data_gen (hs.trans (rollback_dataOnly db1)) hg) _ rfl rfl
  | commit =>
    simp only []
    cases hf : db.takeFault .commit with
    | mk o db1 =>
      have hs : DataOnly db db1 := by
        have := takeFault_dataOnly db .commit; rw [hf] at this; exact this
      cases o with
      | some k =>
        simp only [if_true]
        exact kill_gen (data_gen hs hg)
      | none =>
        simp only [Bool.false_eq_true, if_false]
        exact return_gen (data_gen (hs.trans (commit_dataOnly db1)) hg) _ rfl rfl

theorem gen_unheld {N : Nat} {db : DB} {h : Bool} (hg : Gen N db h) : Gen N db false :=
  ⟨⟨hg.1.idle, hg.1.inval, fun e => by cases e⟩, ⟨hg.2.next, hg.2.idle, fun e => by cases e⟩⟩

/-- the invariant as a predicate on Connection states -/
def GenC (N : Nat) (c : Conn) : Prop := Gen N c.db c.hasDbapi

theorem E.gen {N : Nat} {c c' : Conn} (he : E c c') (hg : GenC N c) : GenC N c' := evo_gen he hg

theorem release_gen {N : Nat} {c : Conn} (b : Bool) (hg : GenC N c) : GenC N (c.release b) := by
  unfold Conn.release GenC
  cases hh : c.hasDbapi with
  | false =>
    simp only [Bool.false_eq_true, if_false]
    unfold GenC at hg; exact hg
  | true =>
    simp only [if_true]
    unfold GenC at hg; rw [hh] at hg
    exact checkin_gen b hg

/-- the record put back (or killed) by `checkin` is the held one: identity and clocks as before -/
theorem checkin_gen_held {N : Nat} {db : DB} (b : Bool) (hg : Gen N db true) : Gen N (db.checkin b) true := by
  have h0 := checkin_gen b hg
  have hid : (db.checkin b).raw.rid = db.raw.rid ∧ (db.checkin b).raw.born = db.raw.born ∧
      (db.checkin b).clock = db.clock ∧ (db.checkin b).invalTime = db.invalTime ∧
      (db.checkin b).nextRid = db.nextRid := by
    unfold DB.checkin
    cases hr : db.reset with
    | none => simp
    | rollback =>
      simp only []
      generalize (b || db.skipsRollback) = bb
      cases bb with
      | true => simp
      | false =>
        simp only [Bool.false_eq_true, if_false]
        cases hf : db.takeFault .rollback with
        | mk o db1 =>
          have hs : DataOnly db db1 := by
            have := takeFault_dataOnly db .rollback; rw [hf] at this; exact this
          cases o <;> simp [DB.kill, DB.rollback, hs.rid, hs.born, hs.clock, hs.invalTime, hs.nextRid]
    | commit =>
      simp only []
      cases hf : db.takeFault .commit with
      | mk o db1 =>
        have hs : DataOnly db db1 := by
          have := takeFault_dataOnly db .commit; rw [hf] at this; exact this
        cases o <;> simp [DB.kill, DB.commit, hs.rid, hs.born, hs.clock, hs.invalTime, hs.nextRid]
  obtain ⟨a, b', d⟩ := hg.1.held rfl
  have hN := hg.2.held rfl
  refine ⟨⟨h0.1.idle, h0.1.inval, fun _ => ?_⟩, ⟨h0.2.next, h0.2.idle, fun _ => ?_⟩⟩
  · rw [hid.1, hid.2.1, hid.2.2.1, hid.2.2.2.1, hid.2.2.2.2]; exact ⟨a, b', d⟩
  · rw [hid.1]; exact hN

theorem releaseOrInterrupt_gen {N : Nat} {c : Conn} (b : Bool) (hg : GenC N c) :
    GenC N (c.releaseOrInterrupt b).1 := by
  unfold Conn.releaseOrInterrupt
  split
  · rename_i hcond
    simp only [Bool.and_eq_true] at hcond
    unfold GenC at hg ⊢
    rw [hcond.1] at hg
    show Gen N (c.db.checkin b) c.hasDbapi
    rw [hcond.1]
    exact checkin_gen_held b hg
  · exact release_gen b hg

theorem close_gen {N : Nat} {c : Conn} (hg : GenC N c) : GenC N c.close.1 := by
  unfold Conn.close
  cases ht : c.transaction with
  | none => exact releaseOrInterrupt_gen false hg
  | some t =>
    simp only []
    cases hr : (c.tClose t).2 with
    | ok =>
      have e : c.tClose t = ((c.tClose t).1, .ok) := by rw [← hr]
      rw [e, andThen_ok]
      exact releaseOrInterrupt_gen _ ((tClose_E c t).gen hg)
    | _ =>
      rw [andThen_not_ok (by rw [hr]; simp)]
      exact (tClose_E c t).gen hg

theorem gc_gen {N : Nat} {c : Conn} (hg : GenC N c) : GenC N c.gc := by
  unfold Conn.gc GenC
  cases hz : c.zombie with
  | true =>
    simp only [if_true]
    exact gen_unheld hg
  | false =>
    simp only [Bool.false_eq_true, if_false]
    cases hh : c.hasDbapi with
    | false =>
      simp only [Bool.false_eq_true, if_false]
      unfold GenC at hg; rw [hh] at hg; exact hg
    | true =>
      simp only [if_true]
      unfold GenC at hg; rw [hh] at hg
      exact checkin_gen false hg

theorem connect_gen {N : Nat} {db : DB} (hg : Gen N db false) : GenC N (Conn.connect db) := by
  have key : ∀ (l : List Bool) (d : DB), Gen N d true → Gen N (l.foldl DB.applyChar d) true := by
    intro l
    induction l with
    | nil => intro d h; exact h
    | cons b bs ih => intro d h; exact ih _ (data_gen (applyChar_dataOnly d b) h)
  show Gen N db.connectRaw true
  unfold DB.connectRaw
  exact key _ _ (checkout_gen hg)

/-! ### extra connections opened and returned while ours is held (`warm`) -/

/-- the facts `Gen` records about a held connection, for an arbitrary raw connection -/
def HeldFacts (N : Nat) (db : DB) (r : Raw) : Prop :=
  r.born ≤ db.clock ∧ db.invalTime < r.born ∧ r.rid < db.nextRid ∧ N ≤ r.rid

/-- clocks only advance, the invalidation time stays -/
def Mono (db db' : DB) : Prop :=
  db.clock ≤ db'.clock ∧ db'.invalTime = db.invalTime ∧ db.nextRid ≤ db'.nextRid

theorem HeldFacts.mono {N : Nat} {db db' : DB} {r : Raw} (h : HeldFacts N db r) (hm : Mono db db') :
    HeldFacts N db' r := by
  obtain ⟨a, b, c, d⟩ := h
  obtain ⟨m1, m2, m3⟩ := hm
  exact ⟨by omega, by rw [m2]; exact b, by omega, d⟩

theorem gen_heldFacts {N : Nat} {db : DB} (hg : Gen N db true) : HeldFacts N db db.raw := by
  obtain ⟨a, b, c⟩ := hg.1.held rfl
  exact ⟨a, b, c, hg.2.held rfl⟩

theorem gen_of_heldFacts {N : Nat} {db : DB} {h : Bool} (hg : Gen N db h) (r : Raw)
    (hf : HeldFacts N db r) : Gen N { db with raw := r } true :=
  ⟨⟨hg.1.idle, hg.1.inval, fun _ => ⟨hf.1, hf.2.1, hf.2.2.1⟩⟩, ⟨hg.2.next, hg.2.idle, fun _ => hf.2.2.2⟩⟩

theorem newRaw_mono (db : DB) : Mono db db.newRaw := by
  simp [Mono, DB.newRaw, DB.tick]

theorem checkout_mono (db : DB) : Mono db db.checkout := by
  apply checkout_cases db (fun d => Mono db d)
  · intro db1 r hp
    obtain ⟨f1, f2, f3, f4, f5, f6, f7, f8, f9, f10, f11, f12⟩ := handOut_frame db1 r
    exact ⟨by rw [f9]; exact hp.clock, by rw [f8]; exact hp.invalTime, by rw [f7, hp.nextRid]; exact Nat.le_refl _⟩
  · intro db1 hp
    have := newRaw_mono db1
    exact ⟨Nat.le_trans hp.clock this.1, this.2.1.trans hp.invalTime, by rw [← hp.nextRid]; exact this.2.2⟩
  · intro d h
    exact ⟨Nat.le_trans h.1 (Nat.le_succ _), h.2.1, h.2.2⟩
  · intro d h
    have := newRaw_mono d
    exact ⟨Nat.le_trans h.1 this.1, this.2.1.trans h.2.1, Nat.le_trans h.2.2 this.2.2⟩

theorem applyChar_mono (db : DB) (b : Bool) : Mono db (db.applyChar b) := by
  unfold DB.applyChar
  cases b <;> exact ⟨Nat.le_refl _, rfl, Nat.le_refl _⟩

theorem Mono.trans {a b c : DB} (h1 : Mono a b) (h2 : Mono b c) : Mono a c :=
  ⟨Nat.le_trans h1.1 h2.1, h2.2.1.trans h1.2.1, Nat.le_trans h1.2.2 h2.2.2⟩

theorem connectRaw_mono (db : DB) : Mono db db.connectRaw := by
  unfold DB.connectRaw
  have key : ∀ (l : List Bool) (d : DB), Mono d (l.foldl DB.applyChar d) := by
    intro l
    induction l with
    | nil => intro d; exact ⟨Nat.le_refl _, rfl, Nat.le_refl _⟩
    | cons b bs ih => intro d; exact (applyChar_mono d b).trans (ih _)
  exact (checkout_mono db).trans (key _ _)

theorem connectRaw_gen {N : Nat} {db : DB} (hg : Gen N db false) : Gen N db.connectRaw true := by
  have := connect_gen hg
  exact this

theorem checkin_mono (db : DB) (b : Bool) : Mono db (db.checkin b) := by
  unfold DB.checkin
  cases hr : db.reset with
  | none => simp [Mono]
  | rollback =>
    simp only []
    generalize (b || db.skipsRollback) = bb
    cases bb with
    | true => simp [Mono]
    | false =>
      simp only [Bool.false_eq_true, if_false]
      cases hf : db.takeFault .rollback with
      | mk o db1 =>
        have hs : DataOnly db db1 := by
          have := takeFault_dataOnly db .rollback; rw [hf] at this; exact this
        cases o <;> simp [Mono, DB.kill, DB.rollback, hs.clock, hs.invalTime, hs.nextRid]
  | commit =>
    simp only []
    cases hf : db.takeFault .commit with
    | mk o db1 =>
      have hs : DataOnly db db1 := by
        have := takeFault_dataOnly db .commit; rw [hf] at this; exact this
      cases o <;> simp [Mono, DB.kill, DB.commit, hs.clock, hs.invalTime, hs.nextRid]

theorem warmTake_gen {N : Nat} : ∀ (n : Nat) (db : DB) (acc : List Raw), Gen N db false →
    (∀ r ∈ acc, HeldFacts N db r) →
    Gen N (DB.warmTake n db acc).1 false ∧ Mono db (DB.warmTake n db acc).1 ∧
    (∀ r ∈ (DB.warmTake n db acc).2, HeldFacts N (DB.warmTake n db acc).1 r) := by
  intro n
  induction n with
  | zero => intro db acc hg ha; exact ⟨hg, ⟨Nat.le_refl _, rfl, Nat.le_refl _⟩, ha⟩
  | succ n ih =>
    intro db acc hg ha
    simp only [DB.warmTake]
    have hc := connectRaw_gen hg
    have hm := connectRaw_mono db
    have hacc : ∀ r ∈ acc ++ [db.connectRaw.raw], HeldFacts N db.connectRaw r := by
      intro r hr
      rcases List.mem_append.1 hr with hr | hr
      · exact (ha r hr).mono hm
      · simp only [List.mem_singleton] at hr
        subst hr
        exact gen_heldFacts hc
    obtain ⟨i1, i2, i3⟩ := ih db.connectRaw _ (gen_unheld hc) hacc
    exact ⟨i1, hm.trans i2, i3⟩

theorem warmReturn_gen {N : Nat} : ∀ (l : List Raw) (db : DB), Gen N db false →
    (∀ r ∈ l, HeldFacts N db r) →
    Gen N (DB.warmReturn l db) false ∧ Mono db (DB.warmReturn l db) := by
  intro l
  induction l with
  | nil => intro db hg _; exact ⟨hg, ⟨Nat.le_refl _, rfl, Nat.le_refl _⟩⟩
  | cons r rs ih =>
    intro db hg hl
    simp only [DB.warmReturn]
    have h1 := gen_of_heldFacts hg r (hl r List.mem_cons_self)
    have h2 := checkin_gen false h1
    have hm : Mono db (({ db with raw := r } : DB).checkin false) := by
      have := checkin_mono ({ db with raw := r } : DB) false
      exact this
    obtain ⟨i1, i2⟩ := ih _ h2 (fun x hx => (hl x (List.mem_cons_of_mem _ hx)).mono hm)
    exact ⟨i1, hm.trans i2⟩

theorem warm_gen {N : Nat} (n : Nat) {db : DB} (hg : Gen N db true) : Gen N (DB.warm n db) true := by
  unfold DB.warm
  simp only []
  have hheld := gen_heldFacts hg
  obtain ⟨a1, a2, a3⟩ := warmTake_gen n db [] (gen_unheld hg) (fun _ h => by cases h)
  obtain ⟨b1, b2⟩ := warmReturn_gen (DB.warmTake n db []).2 (DB.warmTake n db []).1 a1 a3
  exact gen_of_heldFacts b1 db.raw (hheld.mono (a2.trans b2))

/-- API calls and lifecycle events after which the invariant is re-established: all of them
    (`warm` needs a held connection, as in the harness) -/
def Op.tracked : Op → Bool
  | _ => true

theorem step_gen {N : Nat} {c : Conn} (hg : GenC N c) (op : Op) (ho : op.tracked = true) :
    GenC N (c.step op).1 := by
  by_cases hp : op.plain = true
  · exact (step_E c op hp).gen hg
  · cases op with
    | close => exact close_gen hg
    | gc => exact gc_gen hg
    | connect =>
      have := gc_gen hg
      exact connect_gen (gen_unheld this)
    | warm n =>
      show GenC N ({ c with db := DB.warm n c.db } : Conn)
      unfold GenC at hg ⊢
      cases hh : c.hasDbapi with
      | true => rw [hh] at hg; exact warm_gen n hg
      | false =>
        -- without a held connection the extra checkouts see the same pool; the `raw` slot is
        -- restored afterwards and is not looked at while nothing is held
        rw [hh] at hg
        have hheld : Gen N (DB.warm n c.db) false := by
          unfold DB.warm
          simp only []
          obtain ⟨a1, a2, a3⟩ := warmTake_gen n c.db [] hg (fun _ h => by cases h)
          obtain ⟨b1, _⟩ := warmReturn_gen (DB.warmTake n c.db []).2 (DB.warmTake n c.db []).1 a1 a3
          exact ⟨⟨b1.1.idle, b1.1.inval, fun e => by cases e⟩, ⟨b1.2.next, b1.2.idle, fun e => by cases e⟩⟩
        exact hheld
    | _ => simp [Op.plain] at hp

theorem run_gen {N : Nat} : ∀ (ops : List Op) (c : Conn), GenC N c → (∀ op ∈ ops, op.tracked = true) →
    GenC N (c.run ops) := by
  intro ops
  induction ops with
  | nil => intro c h _; exact h
  | cons op ops ih =>
    intro c h ho
    exact ih _ (step_gen h op (ho op List.mem_cons_self)) (fun o hm => ho o (List.mem_cons_of_mem _ hm))


/-! ### what the handling of a disconnect does -/

theorem discError_spec (c : Conn) (hd : c.hasDbapi = true) :
    c.discError =
      ({ c with hasDbapi := false,
                db := if c.db.listener == .noPoolInval then c.db.kill else c.db.poolInvalidate.kill },
       .disconnect) := by
  have hni : c.invalidated = false := by simp [Conn.invalidated, hd]
  unfold Conn.discError
  split
  · rename_i h; simp [hni, h]
  · rename_i h; simp [Conn.onDisconnect, hni, h]

theorem dbapiError_disc (c : Conn) (k : FKind)
    (hk : k = .disc ∨ (c.db.listener = .forceDisc ∧ k = .err)) :
    c.dbapiError k = c.discError := by
  unfold Conn.dbapiError
  rcases hk with rfl | ⟨hl, rfl⟩
  · simp
  · simp [hl]


/-! ### the blocked state: invalidated with a transaction attached -/

def Blocked (c : Conn) : Prop :=
  c.hasDbapi = false ∧ c.canReconnect = true ∧ c.transaction.isSome = true

/-- functions that change neither database, connection flags nor the transaction pointer -/
structure Keep (c c' : Conn) : Prop where
  db : c'.db = c.db
  hasDbapi : c'.hasDbapi = c.hasDbapi
  canReconnect : c'.canReconnect = c.canReconnect
  transaction : c'.transaction = c.transaction

theorem Keep.refl (c : Conn) : Keep c c := ⟨rfl, rfl, rfl, rfl⟩
theorem Keep.trans {a b c : Conn} (h1 : Keep a b) (h2 : Keep b c) : Keep a c :=
  ⟨h2.db.trans h1.db, h2.hasDbapi.trans h1.hasDbapi, h2.canReconnect.trans h1.canReconnect,
   h2.transaction.trans h1.transaction⟩

theorem Keep.blocked {c c' : Conn} (h : Keep c c') (hb : Blocked c) : Blocked c' := by
  unfold Blocked; rw [h.hasDbapi, h.canReconnect, h.transaction]; exact hb

theorem keep_deactivate (c : Conn) (h : Nat) : Keep c (c.deactivate h) := ⟨rfl, rfl, rfl, rfl⟩

theorem keep_nestedDeactivate (c : Conn) (h : Nat) (w : Bool) : Keep c (c.nestedDeactivate h w) := by
  unfold Conn.nestedDeactivate
  split
  · exact ⟨rfl, rfl, rfl, rfl⟩
  · split <;> exact ⟨rfl, rfl, rfl, rfl⟩

theorem keep_cancel : ∀ (fuel : Nat) (c : Conn) (h : Nat), Keep c (Conn.cancel fuel c h) := by
  intro fuel
  induction fuel with
  | zero => intro c h; exact Keep.refl c
  | succ f ih =>
    intro c h
    simp only [Conn.cancel]
    have h1 : Keep c ((c.deactivate h).nestedDeactivate h true) :=
      (keep_deactivate c h).trans (keep_nestedDeactivate _ h true)
    split
    · exact h1.trans (ih _ _)
    · exact h1

theorem keep_cancelNested (c : Conn) : Keep c c.cancelNested := by
  unfold Conn.cancelNested
  split
  · exact keep_cancel _ _ _
  · exact Keep.refl c

theorem keep_rootDeactivate (c : Conn) (h : Nat) : Keep c (c.rootDeactivate h) := by
  unfold Conn.rootDeactivate
  split
  · exact ⟨rfl, rfl, rfl, rfl⟩
  · split <;> exact ⟨rfl, rfl, rfl, rfl⟩

theorem blocked_connProp {c : Conn} (hb : Blocked c) : c.connProp = (c, .pendingRollback) := by
  obtain ⟨h1, h2, h3⟩ := hb
  simp [Conn.connProp, Conn.revalidate, h1, h2, h3]

theorem blocked_execute {c : Conn} (hb : Blocked c) (q : Sql) : c.execute q = (c, .pendingRollback) := by
  simp [Conn.execute, blocked_connProp hb, andThen]

theorem blocked_commitImpl {c : Conn} (hb : Blocked c) : c.commitImpl = (c, .pendingRollback) := by
  simp [Conn.commitImpl, blocked_connProp hb, andThen]

/-- the result is an error and the state stays blocked with the same database -/
def StaysBlocked (c : Conn) (x : Conn × Res) : Prop :=
  x.2 ≠ .ok ∧ Blocked x.1 ∧ x.1.db = c.db

theorem blocked_tCommit {c : Conn} (hb : Blocked c) (h : Nat) : StaysBlocked c (c.tCommit h) := by
  unfold Conn.tCommit
  split
  · unfold Conn.rootCommit
    split
    · rw [blocked_commitImpl hb]
      simp only [andFinally_mk]
      have hk : Keep c (c.cancelNested.rootDeactivate h) :=
        (keep_cancelNested c).trans (keep_rootDeactivate _ h)
      rw [andThen_err _ _ _ (by simp)]
      exact ⟨by simp, hk.blocked hb, hk.db⟩
    · split
      · exact ⟨by simp, hb, rfl⟩
      · exact ⟨by simp, hb, rfl⟩
  · unfold Conn.nestedCommit
    split
    · rw [blocked_execute hb]
      simp only [andFinally_mk]
      rw [andThen_err _ _ _ (by simp)]
      exact ⟨by simp, (keep_deactivate c h).blocked hb, rfl⟩
    · split
      · exact ⟨by simp, hb, rfl⟩
      · exact ⟨by simp, hb, rfl⟩

/-- the calls that "go on using" the connection -/
def Op.uses : Op → Bool
  | .exec _ | .begin | .beginNested | .commit | .tCommit _ => true
  | _ => false

theorem blocked_step {c : Conn} (hb : Blocked c) (op : Op) (hu : op.uses = true) :
    StaysBlocked c (c.step op) := by
  cases op with
  | exec s =>
    simp only [Conn.step]; rw [blocked_execute hb]
    exact ⟨by simp, hb, rfl⟩
  | begin =>
    have : c.begin = (c, .invalidRequest) := by
      have := hb.2.2
      cases ht : c.transaction with
      | none => rw [ht] at this; cases this
      | some t => simp [Conn.begin, ht]
    simp only [Conn.step, this]
    exact ⟨by simp, hb, rfl⟩
  | beginNested =>
    have hab : c.autobegin = (c, .ok) := by
      have := hb.2.2
      cases ht : c.transaction with
      | none => rw [ht] at this; cases this
      | some t => simp [Conn.autobegin, ht]
    simp only [Conn.step, Conn.beginNested, hab, andThen_ok]
    split
    · exact ⟨by simp, hb, rfl⟩
    · have hb2 : Blocked ({ c with spSeq := c.spSeq + 1 } : Conn) := hb
      rw [blocked_execute hb2, andThen_err _ _ _ (by simp)]
      exact ⟨by simp, hb2, rfl⟩
  | commit =>
    simp only [Conn.step, Conn.commit]
    have := hb.2.2
    cases ht : c.transaction with
    | none => rw [ht] at this; cases this
    | some t => exact blocked_tCommit hb t
  | tCommit h => exact blocked_tCommit hb h
  | _ => simp [Op.uses] at hu


/-! ### rollback() in the blocked state, then the transparent reconnect -/

theorem deactivate_prev (c : Conn) (h x : Nat) : ((c.deactivate h).txn x).prev = (c.txn x).prev := by
  by_cases e : h = x
  · subst e
    by_cases hh : h < c.txns.length
    · rw [deactivate_txn_eq _ _ hh]
    · have : c.txns[h]? = none := by simp; omega
      simp [Conn.deactivate, Conn.setTxn, Conn.txn, List.getD_eq_getElem?_getD, this]
  · rw [deactivate_txn_ne _ _ _ e]

theorem cancel_reaches_none : ∀ (fuel : Nat) (c : Conn) (n : Nat),
    c.nested = some n → n < fuel → (∀ h p, (c.txn h).prev = some p → p < h) →
    (Conn.cancel fuel c n).nested = none := by
  intro fuel
  induction fuel with
  | zero => intro c n _ h; omega
  | succ f ih =>
    intro c n hn hlt hwf
    simp only [Conn.cancel]
    have hd_n : (c.deactivate n).nested = some n := by simp [Conn.deactivate, Conn.setTxn, hn]
    have hprev : ((c.deactivate n).txn n).prev = (c.txn n).prev := deactivate_prev c n n
    have hc1 : (c.deactivate n).nestedDeactivate n true
        = { c.deactivate n with nested := (c.txn n).prev } := by
      simp [Conn.nestedDeactivate, hd_n, hprev]
    rw [hc1]
    have htx : ∀ x, (({ c.deactivate n with nested := (c.txn n).prev } : Conn).txn x).prev
        = (c.txn x).prev := fun x => deactivate_prev c n x
    rw [htx n]
    cases hp : (c.txn n).prev with
    | none => simp
    | some p =>
      simp only []
      have hpl := hwf n p hp
      exact ih _ p (by simp) (by omega) (fun h q hq => hwf h q (by rw [← htx h]; exact hq))

theorem cancelNested_none {c : Conn} (hwf : PrevWF c) : c.cancelNested.nested = none := by
  unfold Conn.cancelNested
  cases hn : c.nested with
  | none => simpa using hn
  | some n => exact cancel_reaches_none _ c n hn (hwf.nested n hn) hwf.prev

/-- **rollback() on an invalidated Connection** makes no DBAPI call at all, detaches the
    transaction, cancels every savepoint object and leaves database and pool untouched -/
theorem blocked_rollback {c : Conn} (hb : Blocked c) (hroot : RootPtr c) (hwf : PrevWF c) :
    c.rollback.2 = .ok ∧ c.rollback.1.db = c.db ∧ c.rollback.1.transaction = none ∧
    c.rollback.1.nested = none ∧ c.rollback.1.hasDbapi = false ∧ c.rollback.1.canReconnect = true ∧
    c.rollback.1.ctxMgr = c.ctxMgr := by
  obtain ⟨h1, h2, h3⟩ := hb
  cases ht : c.transaction with
  | none => rw [ht] at h3; cases h3
  | some t =>
    have hr : (c.txn t).isRoot = true := hroot t ht
    have hri : c.rollbackImpl = (c, .ok) := by simp [Conn.rollbackImpl, h1]
    have hk := keep_cancelNested c
    have hnone := cancelNested_none hwf
    simp only [Conn.rollback, ht, Conn.tRollback, hr, if_true, Conn.rootCloseImpl]
    have hx : (andThen (if c.act t = true then c.rollbackImpl else (c, Res.ok))
        fun c => (c.cancelNested, Res.ok)) = (c.cancelNested, .ok) := by
      split <;> simp [hri]
    rw [hx]
    simp only [andFinally_mk, Conn.rootCloseFinally, Bool.or_true, if_true]
    have hk2 := keep_rootDeactivate c.cancelNested t
    have htr : (c.cancelNested.rootDeactivate t).transaction = some t := by
      rw [hk2.transaction, hk.transaction, ht]
    have hnest : (c.cancelNested.rootDeactivate t).nested = none := by
      unfold Conn.rootDeactivate
      split
      · simpa [Conn.deactivate, Conn.setTxn] using hnone
      · split
        · simpa [Conn.warn] using hnone
        · exact hnone
    have hctx : (c.cancelNested.rootDeactivate t).ctxMgr = c.ctxMgr := by
      have e1 : c.cancelNested.ctxMgr = c.ctxMgr := by
        unfold Conn.cancelNested
        split
        · rename_i n _
          have : ∀ (fuel : Nat) (c : Conn) (h : Nat), (Conn.cancel fuel c h).ctxMgr = c.ctxMgr := by
            intro fuel
            induction fuel with
            | zero => intro c h; rfl
            | succ f ih =>
              intro c h
              simp only [Conn.cancel]
              have : ((c.deactivate h).nestedDeactivate h true).ctxMgr = c.ctxMgr := by
                unfold Conn.nestedDeactivate
                split
                · rfl
                · rfl
              split
              · rw [ih, this]
              · exact this
          exact this _ _ _
        · rfl
      unfold Conn.rootDeactivate
      split
      · exact e1
      · split
        · exact e1
        · exact e1
    simp only [htr, beq_self_eq_true, if_true]
    refine ⟨by trivial, ?_, by trivial, hnest, ?_, ?_, hctx⟩
    · show (c.cancelNested.rootDeactivate t).db = c.db
      rw [hk2.db, hk.db]
    · show (c.cancelNested.rootDeactivate t).hasDbapi = false
      rw [hk2.hasDbapi, hk.hasDbapi]; exact h1
    · show (c.cancelNested.rootDeactivate t).canReconnect = true
      rw [hk2.canReconnect, hk.canReconnect]; exact h2

/-- an invalidated Connection without transaction reconnects transparently: the statement
    runs on a freshly checked-out DBAPI connection inside an autobegun transaction -/
theorem reconnect_execute {c : Conn} (h1 : c.hasDbapi = false) (h2 : c.canReconnect = true)
    (h3 : c.transaction = none) (h4 : c.nested = none) (h5 : c.ctxMgr = none)
    (hf : c.db.faults = []) (hl : c.db.listener ≠ .forceDisc) (s : Stmt) :
    ((c.execute (.stmt s)).2 = .ok ∨ (c.execute (.stmt s)).2 = .integrity) ∧
    (c.execute (.stmt s)).1.hasDbapi = true ∧ (c.execute (.stmt s)).1.inTransaction = true ∧
    (c.execute (.stmt s)).1.db.raw.rid = c.db.checkout.raw.rid := by
  -- the state after the checkout and the autobegin
  let c1 : Conn := { c with hasDbapi := true, db := c.db.checkout }
  have hcp : c.connProp = (c1, .ok) := by
    simp [Conn.connProp, Conn.revalidate, h1, h2, h3, c1, checkoutF_nofault hf]
  have hf1 : c1.db.faults = [] := by
    show c.db.checkout.faults = []
    rw [checkout_faults]; exact hf
  have hcur : c1.dbapiCall .cursor id = (c1, .ok) := by
    rw [dbapiCall_nofault _ _ _ hf1]; rfl
  have hstale : c1.stale = false := by simp [Conn.stale, c1, h3, h4]
  have hctx : c1.ctxRaises = false := by simp [Conn.ctxRaises, c1, h5]
  have hab : c1.autobegin = (c1.pushRoot, .ok) := by
    unfold Conn.autobegin Conn.begin Conn.beginRoot
    simp only [show c1.transaction = none from h3, Option.isNone_none, if_true, hctx,
      Bool.false_eq_true, if_false, Conn.connProp, show c1.hasDbapi = true from rfl, andThen_ok]
  have hin : c1.pushRoot.inTransaction = true := by
    simp [Conn.inTransaction, Conn.pushRoot, Conn.act, Conn.txn, List.getD_eq_getElem?_getD]
  have hdb : c1.pushRoot.db = c.db.checkout := rfl
  have hex : c.execute (.stmt s) = c1.pushRoot.runSql (.stmt s) := by
    simp only [Conn.execute, hcp, andThen_ok, hcur, Conn.execChecked, hstale, hctx,
      Bool.false_eq_true, if_false, hab]
  rw [hex]
  unfold Conn.runSql
  rw [takeFault_nil _ _ (by rw [hdb]; exact hf1)]
  simp only []
  cases hq : c1.pushRoot.db.apply (.stmt s) with
  | mk o r =>
    cases o with
    | some db2 =>
      have hd := apply_dataOnly _ _ _ _ hq
      have hr : r = .ok := by
        cases s <;> simp [DB.apply] at hq
        · split at hq <;> simp at hq; exact hq.2.symm
        · exact hq.2.symm
        · exact hq.2.symm
      subst hr
      refine ⟨Or.inl rfl, rfl, ?_, ?_⟩
      · exact hin
      · show db2.raw.rid = _
        rw [hd.rid]; rfl
    | none =>
      have hr : r = .integrity := by
        cases s <;> simp [DB.apply] at hq
        split at hq <;> simp at hq; exact hq.symm
      subst hr
      have hl1 : c1.pushRoot.db.listener = c.db.listener := by
        show c.db.checkout.listener = c.db.listener
        exact checkout_listener _
      have hpe : c1.pushRoot.dbapiError .err = (c1.pushRoot, .operational) := by
        have : (c1.pushRoot.db.listener == Listener.forceDisc) = false := by
          rw [hl1]; simpa using hl
        simp [Conn.dbapiError, this, Conn.plainError, hin]
      simp only [hpe]
      exact ⟨Or.inr rfl, rfl, hin, rfl⟩


/-! ### errors that are not disconnects leave connection and pool alone -/

structure PoolSame (c c' : Conn) : Prop where
  idle : c'.db.idle = c.db.idle
  invalTime : c'.db.invalTime = c.db.invalTime
  hasDbapi : c'.hasDbapi = c.hasDbapi
  rid : c'.db.raw.rid = c.db.raw.rid
  listener : c'.db.listener = c.db.listener
  faults : ∀ f, f ∈ c'.db.faults → f ∈ c.db.faults     -- no fault gets armed

theorem PoolSame.refl (c : Conn) : PoolSame c c := ⟨rfl, rfl, rfl, rfl, rfl, fun _ h => h⟩
theorem PoolSame.trans {a b c : Conn} (h1 : PoolSame a b) (h2 : PoolSame b c) : PoolSame a c :=
  ⟨h2.idle.trans h1.idle, h2.invalTime.trans h1.invalTime, h2.hasDbapi.trans h1.hasDbapi,
   h2.rid.trans h1.rid, h2.listener.trans h1.listener, fun f h => h1.faults f (h2.faults f h)⟩

theorem poolSame_data (c : Conn) (db' : DB) (h : DataOnly c.db db') (hl : db'.listener = c.db.listener)
    (hf : ∀ f, f ∈ db'.faults → f ∈ c.db.faults) :
    PoolSame c { c with db := db' } := ⟨h.idle, h.invalTime, rfl, h.rid, hl, hf⟩

theorem takeFault_faults (db : DB) (p : FPoint) : ∀ f, f ∈ (db.takeFault p).2.faults → f ∈ db.faults := by
  unfold DB.takeFault
  split
  · exact fun _ h => h
  · exact fun f h => List.mem_of_mem_erase h

theorem takeFault_some_mem {db db1 : DB} {p : FPoint} {k : FKind} (h : db.takeFault p = (some k, db1)) :
    (p, k) ∈ db.faults := by
  unfold DB.takeFault at h
  split at h
  · simp at h
  · rename_i f hf
    simp only [Prod.mk.injEq, Option.some.injEq] at h
    have hm := List.mem_of_find?_eq_some hf
    have hp := List.find?_some hf
    have e : f = (p, k) := by
      obtain ⟨a, b⟩ := f
      simp only [beq_iff_eq] at hp
      simp only at h
      rw [hp, h.1]
    rw [← e]; exact hm

theorem apply_faults (db : DB) (q : Sql) (db' : DB) (r : Res) (h : db.apply q = (some db', r)) :
    db'.faults = db.faults := by
  unfold DB.apply at h
  split at h
  · split at h
    · simp only [Prod.mk.injEq, Option.some.injEq] at h; rw [← h.1]; unfold DB.write; split <;> rfl
    · simp at h
  · simp only [Prod.mk.injEq, Option.some.injEq] at h; rw [← h.1]; unfold DB.write; split <;> rfl
  · simp only [Prod.mk.injEq, Option.some.injEq] at h; rw [← h.1]
  · simp only [Prod.mk.injEq, Option.some.injEq] at h; rw [← h.1]
  · split at h
    · simp only [Prod.mk.injEq, Option.some.injEq] at h; rw [← h.1]
    · simp at h
  · split at h
    · simp only [Prod.mk.injEq, Option.some.injEq] at h; rw [← h.1]; split <;> rfl
    · simp at h

/-- an armed ROLLBACK failure that is a disconnect / an interrupt: met by the error handler's
    own autorollback it invalidates connection and pool although the error raised is the
    ordinary one -/
def RbBad (c : Conn) : Prop := ∃ f, f ∈ c.db.faults ∧ f.1 = .rollback ∧ f.2 ≠ .err

theorem takeFault_listener (db : DB) (p : FPoint) : (db.takeFault p).2.listener = db.listener := by
  unfold DB.takeFault; split <;> rfl

theorem apply_listener (db : DB) (q : Sql) (db' : DB) (r : Res) (h : db.apply q = (some db', r)) :
    db'.listener = db.listener := by
  unfold DB.apply at h
  split at h
  · split at h
    · simp only [Prod.mk.injEq, Option.some.injEq] at h; rw [← h.1]; unfold DB.write; split <;> rfl
    · simp at h
  · simp only [Prod.mk.injEq, Option.some.injEq] at h; rw [← h.1]; unfold DB.write; split <;> rfl
  · simp only [Prod.mk.injEq, Option.some.injEq] at h; rw [← h.1]
  · simp only [Prod.mk.injEq, Option.some.injEq] at h; rw [← h.1]
  · split at h
    · simp only [Prod.mk.injEq, Option.some.injEq] at h; rw [← h.1]
    · simp at h
  · split at h
    · simp only [Prod.mk.injEq, Option.some.injEq] at h; rw [← h.1]; split <;> rfl
    · simp at h

theorem plainError_poolSame (c : Conn) : PoolSame c c.plainError.1 ∨ RbBad c := by
  unfold Conn.plainError
  split
  · exact Or.inl (PoolSame.refl c)
  · split
    · split
      · exact Or.inl (PoolSame.refl c)
      · cases hf : c.db.takeFault .rollback with
        | mk o db1 =>
          have hs : DataOnly c.db db1 := by
            have := takeFault_dataOnly c.db .rollback; rw [hf] at this; exact this
          have hl : db1.listener = c.db.listener := by
            have := takeFault_listener c.db .rollback; rw [hf] at this; exact this
          have hfs : ∀ f, f ∈ db1.faults → f ∈ c.db.faults := by
            have := takeFault_faults c.db .rollback; rw [hf] at this; exact this
          cases o with
          | some k =>
            cases k with
            | err => exact Or.inl (poolSame_data c db1 hs hl hfs)
            | disc => exact Or.inr ⟨_, takeFault_some_mem hf, rfl, by simp⟩
            | kbi => exact Or.inr ⟨_, takeFault_some_mem hf, rfl, by simp⟩
          | none => exact Or.inl (poolSame_data c _ (hs.trans (rollback_dataOnly db1)) hl hfs)
    · exact Or.inl (PoolSame.refl c)

/-- either nothing happened to connection and pool, or the call reports a disconnect (or an
    interrupt) -/
def PSorDisc (c : Conn) (x : Conn × Res) : Prop :=
  PoolSame c x.1 ∨ x.2 = .disconnect ∨ x.2 = .interrupted ∨ RbBad c

theorem RbBad.of_poolSame {c c1 : Conn} (h : PoolSame c c1) (hb : RbBad c1) : RbBad c := by
  obtain ⟨f, hm, h1, h2⟩ := hb
  exact ⟨f, h.faults f hm, h1, h2⟩

theorem dbapiError_ps (c : Conn) (k : FKind) (hl : c.db.listener ≠ .forceDisc) :
    PSorDisc c (c.dbapiError k) := by
  have hl' : (c.db.listener == .forceDisc) = false := by simpa using hl
  unfold Conn.dbapiError
  cases k with
  | disc =>
    simp only [hl', Bool.false_eq_true, if_false]
    right; left
    show c.discError.2 = .disconnect
    unfold Conn.discError; split <;> rfl
  | err =>
    simp only [hl', Bool.false_eq_true, if_false]
    rcases plainError_poolSame c with h | h
    · exact Or.inl h
    · exact Or.inr (Or.inr (Or.inr h))
  | kbi =>
    right; right; left
    simp [Conn.kbiError]

theorem andThen_ps {c : Conn} {x : Conn × Res} {f : Conn → Conn × Res} (h1 : PSorDisc c x)
    (h2 : ∀ c1, PoolSame c c1 → PSorDisc c1 (f c1)) : PSorDisc c (andThen x f) := by
  obtain ⟨c1, r⟩ := x
  rcases h1 with h1 | h1
  · cases r <;> first
      | (rcases h2 c1 h1 with h | h | h | h
         · exact Or.inl (h1.trans h)
         · exact Or.inr (Or.inl h)
         · exact Or.inr (Or.inr (Or.inl h))
         · exact Or.inr (Or.inr (Or.inr (RbBad.of_poolSame h1 h))))
      | exact Or.inl h1
  · rcases h1 with h1 | h1 | h1
    · simp only at h1; subst h1; exact Or.inr (Or.inl rfl)
    · simp only at h1; subst h1; exact Or.inr (Or.inr (Or.inl rfl))
    · exact Or.inr (Or.inr (Or.inr h1))

theorem dbapiCall_ps (c : Conn) (p : FPoint) (f : DB → DB) (hf : ∀ db, DataOnly db (f db))
    (hfl : ∀ db, (f db).listener = db.listener) (hl : c.db.listener ≠ .forceDisc)
    (hff : ∀ db x, x ∈ (f db).faults → x ∈ db.faults) :
    PSorDisc c (c.dbapiCall p f) := by
  unfold Conn.dbapiCall
  cases hf' : c.db.takeFault p with
  | mk o db1 =>
    have hfs : ∀ f, f ∈ db1.faults → f ∈ c.db.faults := by
      have := takeFault_faults c.db p; rw [hf'] at this; exact this
    have hs : DataOnly c.db db1 := by
      have := takeFault_dataOnly c.db p; rw [hf'] at this; exact this
    have hl1 : db1.listener = c.db.listener := by
      have := takeFault_listener c.db p; rw [hf'] at this; exact this
    cases o with
    | some k =>
      simp only []
      have h0 := poolSame_data c db1 hs hl1 hfs
      rcases dbapiError_ps ({ c with db := db1 } : Conn) k (by show db1.listener ≠ _; rw [hl1]; exact hl)
        with h | h | h | h
      · exact Or.inl (h0.trans h)
      · exact Or.inr (Or.inl h)
      · exact Or.inr (Or.inr (Or.inl h))
      · exact Or.inr (Or.inr (Or.inr (RbBad.of_poolSame h0 h)))
    | none => exact Or.inl (poolSame_data c _ (hs.trans (hf db1)) ((hfl db1).trans hl1)
        (fun x hx => hfs x (hff db1 x hx)))

theorem runSql_ps (c : Conn) (q : Sql) (hl : c.db.listener ≠ .forceDisc) : PSorDisc c (c.runSql q) := by
  unfold Conn.runSql
  cases hf' : c.db.takeFault .execute with
  | mk o db1 =>
    have hfs : ∀ f, f ∈ db1.faults → f ∈ c.db.faults := by
      have := takeFault_faults c.db .execute; rw [hf'] at this; exact this
    have hs : DataOnly c.db db1 := by
      have := takeFault_dataOnly c.db .execute; rw [hf'] at this; exact this
    have hl1 : db1.listener = c.db.listener := by
      have := takeFault_listener c.db .execute; rw [hf'] at this; exact this
    cases o with
    | some k =>
      simp only []
      have h0 := poolSame_data c db1 hs hl1 hfs
      rcases dbapiError_ps ({ c with db := db1 } : Conn) k (by show db1.listener ≠ _; rw [hl1]; exact hl)
        with h | h | h | h
      · exact Or.inl (h0.trans h)
      · exact Or.inr (Or.inl h)
      · exact Or.inr (Or.inr (Or.inl h))
      · exact Or.inr (Or.inr (Or.inr (RbBad.of_poolSame h0 h)))
    | none =>
      simp only []
      cases ha : c.db.apply q with
      | mk o2 r =>
        cases o2 with
        | some db2 =>
          exact Or.inl (poolSame_data c db2 (apply_dataOnly _ _ _ _ ha) (apply_listener _ _ _ _ ha)
            (fun x hx => by rw [apply_faults _ _ _ _ ha] at hx; exact hx))
        | none =>
          have hl' : (c.db.listener == .forceDisc) = false := by simpa using hl
          have e : c.dbapiError .err = c.plainError := by simp [Conn.dbapiError, hl']
          simp only [e]
          rcases plainError_poolSame c with h | h
          · exact Or.inl h
          · exact Or.inr (Or.inr (Or.inr h))

theorem execute_ps (c : Conn) (q : Sql) (hd : c.hasDbapi = true) (hl : c.db.listener ≠ .forceDisc) :
    PSorDisc c (c.execute q) := by
  have hcp : c.connProp = (c, .ok) := by simp [Conn.connProp, hd]
  unfold Conn.execute
  rw [hcp, andThen_ok]
  refine andThen_ps (dbapiCall_ps c .cursor id (fun db => DataOnly.refl db) (fun _ => rfl) hl (fun _ _ h => h)) ?_
  intro c1 h1
  have hd1 : c1.hasDbapi = true := by rw [h1.hasDbapi]; exact hd
  have hl1 : c1.db.listener ≠ .forceDisc := by rw [h1.listener]; exact hl
  unfold Conn.execChecked
  split
  · exact Or.inl (PoolSame.refl _)
  · split
    · exact Or.inl (PoolSame.refl _)
    · have hbr : PSorDisc c1 c1.beginRoot := by
        unfold Conn.beginRoot
        split
        · exact Or.inl (PoolSame.refl _)
        · have : c1.connProp = (c1, .ok) := by simp [Conn.connProp, hd1]
          rw [this, andThen_ok]
          exact Or.inl ⟨rfl, rfl, rfl, rfl, rfl, fun _ h => h⟩
      have hab : PSorDisc c1 c1.autobegin := by
        cases ht : c1.transaction with
        | none => simpa [Conn.autobegin, Conn.begin, ht] using hbr
        | some t =>
          have : c1.autobegin = (c1, .ok) := by simp [Conn.autobegin, ht]
          rw [this]; exact Or.inl (PoolSame.refl _)
      refine andThen_ps hab ?_
      intro c2 h2
      exact runSql_ps c2 q (by rw [h2.listener]; exact hl1)

end SaVerif.Txn
