import SaVerif.Lemmas.Sess
/-! Identity-map key uniqueness is preserved by every function of M-ORM/Sess. -/
set_option linter.unusedSimpArgs false
namespace SaVerif.Sess

/-- no identity key occurs twice in `identity_map._dict` -/
def KN (σ : Sess) : Prop := (σ.imap.map Prod.fst).Nodup

theorem KN_of_imap_eq {σ τ : Sess} (h : τ.imap = σ.imap) (hk : KN σ) : KN τ := by
  unfold KN at *; rw [h]; exact hk

@[simp] theorem setO_imap (σ : Sess) (o : Oid) (f : Obj → Obj) : (setO σ o f).imap = σ.imap := rfl
@[simp] theorem emit_imap (σ : Sess) (e : Ev) (o : Oid) : (emit σ e o).imap = σ.imap := rfl
@[simp] theorem updTxn_imap (σ : Sess) (f : Txn → Txn) : (updTxn σ f).imap = σ.imap := by
  unfold updTxn; split <;> rfl
@[simp] theorem autobegin_imap (σ : Sess) : (autobegin σ).imap = σ.imap := by
  unfold autobegin; split <;> rfl
@[simp] theorem popTxnDeleted_imap (σ : Sess) (o : Oid) : (popTxnDeleted σ o).imap = σ.imap := by
  unfold popTxnDeleted; split <;> rfl

theorem lookup_none_not_mem {l : List (Nat × Oid)} {k : Nat} (h : l.lookup k = none) :
    k ∉ l.map Prod.fst := by
  induction l with
  | nil => simp
  | cons a t ih =>
    obtain ⟨a1, a2⟩ := a
    simp only [List.lookup] at h
    split at h
    · cases h
    · rename_i hne
      simp only [List.map_cons, List.mem_cons, not_or]
      constructor
      · intro he; subst he; simp at hne
      · exact ih h

theorem nodup_filter_append {l : List (Nat × Oid)} (k : Nat) (o : Oid)
    (h : (l.map Prod.fst).Nodup) :
    (((l.filter (fun e => e.1 != k)) ++ [(k, o)]).map Prod.fst).Nodup := by
  rw [List.map_append, List.nodup_append]
  refine ⟨?_, by simp, ?_⟩
  · exact (List.filter_sublist.map Prod.fst).nodup h
  · intro a ha b hb
    simp only [List.map_cons, List.map_nil, List.mem_singleton] at hb
    subst hb
    simp only [List.mem_map, List.mem_filter] at ha
    obtain ⟨e, ⟨_, he2⟩, he3⟩ := ha
    intro heq; subst heq; subst he3
    simp at he2

theorem KN_imSafeDiscard (σ : Sess) (o : Oid) (h : KN σ) : KN (imSafeDiscard σ o) := by
  unfold imSafeDiscard
  split
  · exact h
  · split
    · unfold KN; exact (List.filter_sublist.map Prod.fst).nodup h
    · exact h

theorem KN_imReplace (σ : Sess) (o : Oid) (h : KN σ) : KN (imReplace σ o) := by
  unfold imReplace
  split
  · exact h
  · split
    · exact h
    · exact nodup_filter_append _ _ h

theorem KN_imAdd (σ : Sess) (o : Oid) (h : KN σ) : KN (imAdd σ o).1 := by
  unfold imAdd
  split
  · exact h
  · split
    · split <;> exact h
    · rename_i k hl
      unfold KN
      simp only [ok, List.map_append, List.map_cons, List.map_nil]
      rw [List.nodup_append]
      refine ⟨h, by simp, ?_⟩
      intro a ha b hb
      simp only [List.mem_singleton] at hb
      subst hb
      intro heq; subst heq
      exact lookup_none_not_mem hl ha

theorem KN_loadNew (σ : Sess) (k : Nat) (hl : imLookup σ k = none) (h : KN σ) : KN (loadNew σ k).1 := by
  unfold loadNew KN
  simp only [emit, List.map_append, List.map_cons, List.map_nil]
  rw [List.nodup_append]
  refine ⟨h, by simp, ?_⟩
  intro a ha b hb
  simp only [List.mem_singleton] at hb
  subst hb
  intro heq; subst heq
  exact lookup_none_not_mem hl ha


theorem KN_bind {r : R} {f : Sess → R} (h : KN r.1) (hf : ∀ σ, KN σ → KN (f σ).1) : KN (r.bind f).1 := by
  unfold R.bind
  split
  · exact h
  · exact hf _ h

theorem KN_foldl {α : Type} (g : Sess → α → Sess) (hg : ∀ σ a, KN σ → KN (g σ a)) :
    ∀ (l : List α) (σ : Sess), KN σ → KN (l.foldl g σ) := by
  intro l
  induction l with
  | nil => intro σ h; exact h
  | cons a t ih => intro σ h; exact ih _ (hg _ _ h)

@[simp] theorem detachOne_imap (t : Bool) (σ : Sess) (o : Oid) : (detachOne t σ o).imap = σ.imap := by
  unfold detachOne
  simp only
  repeat' split
  all_goals rfl

theorem KN_detachStates (σ : Sess) (os : List Oid) (t : Bool) (h : KN σ) : KN (detachStates σ os t) := by
  unfold detachStates
  exact KN_foldl _ (fun σ a h => KN_of_imap_eq (detachOne_imap t σ a) h) _ _ h

@[simp] theorem beforeAttach_imap (σ : Sess) (o : Oid) : (beforeAttach σ o).1.imap = σ.imap := by
  unfold beforeAttach
  simp only
  split <;> simp

@[simp] theorem afterAttach_imap (σ : Sess) (o : Oid) : (afterAttach σ o).imap = σ.imap := by
  unfold afterAttach
  simp only
  split <;> rfl

theorem KN_setO (σ : Sess) (o : Oid) (f : Obj → Obj) (h : KN σ) : KN (setO σ o f) := h
theorem KN_emit (σ : Sess) (e : Ev) (o : Oid) (h : KN σ) : KN (emit σ e o) := h
theorem KN_updTxn (σ : Sess) (f : Txn → Txn) (h : KN σ) : KN (updTxn σ f) := KN_of_imap_eq (updTxn_imap σ f) h
theorem KN_autobegin (σ : Sess) (h : KN σ) : KN (autobegin σ) := KN_of_imap_eq (autobegin_imap σ) h
theorem KN_beforeAttach (σ : Sess) (o : Oid) (h : KN σ) : KN (beforeAttach σ o).1 :=
  KN_of_imap_eq (beforeAttach_imap σ o) h
theorem KN_afterAttach (σ : Sess) (o : Oid) (h : KN σ) : KN (afterAttach σ o) :=
  KN_of_imap_eq (afterAttach_imap σ o) h
theorem KN_deleted_upd (σ : Sess) (l : List Oid) (h : KN σ) : KN { σ with deleted := l } := h
theorem KN_new_upd (σ : Sess) (l : List Oid) (h : KN σ) : KN { σ with new := l } := h

@[simp] theorem registerNew_imap (σ : Sess) (o : Oid) : (registerNew σ o).imap = σ.imap := by
  unfold registerNew; split <;> rfl

theorem KN_saveImpl (σ : Sess) (o : Oid) (h : KN σ) : KN (saveImpl σ o).1 := by
  unfold saveImpl
  split
  · exact h
  · simp only [ok]
    apply KN_of_imap_eq _ h
    repeat' split
    all_goals simp

theorem KN_updateImpl (σ : Sess) (o : Oid) (r : Bool) (h : KN σ) : KN (updateImpl σ o r).1 := by
  unfold updateImpl
  simp only
  split
  · exact h
  · split
    · exact h
    · split
      · exact h
      · apply KN_bind
        · split
          · apply KN_imReplace
            apply KN_of_imap_eq _ h
            split <;> first | rfl | simp
          · apply KN_imAdd
            apply KN_of_imap_eq _ h
            split <;> first | rfl | simp
        · intro τ hτ
          repeat' split
          all_goals first | exact hτ | exact KN_afterAttach _ _ hτ | exact KN_emit _ _ _ hτ

theorem KN_add (σ : Sess) (o : Oid) (h : KN σ) : KN (add σ o).1 := by
  unfold add
  split
  · exact KN_saveImpl _ _ h
  · exact KN_updateImpl _ _ _ h

theorem KN_delete (σ : Sess) (o : Oid) (h : KN σ) : KN (delete σ o).1 := by
  unfold delete
  split
  · exact h
  · simp only
    split
    · exact KN_beforeAttach _ _ h
    · apply KN_bind
      · exact KN_imAdd _ _ (KN_beforeAttach _ _ h)
      · intro τ hτ
        simp only [ok]
        apply KN_of_imap_eq _ hτ
        split <;> first | rfl | simp

theorem KN_expungeOne (σ : Sess) (o : Oid) (h : KN σ) : KN (expungeOne σ o) := by
  unfold expungeOne
  split
  · exact h
  · split
    · exact KN_imSafeDiscard _ _ h
    · exact KN_of_imap_eq (by first | rfl | simp) h

theorem KN_expungeStates (σ : Sess) (os : List Oid) (t : Bool) (h : KN σ) : KN (expungeStates σ os t) := by
  unfold expungeStates
  exact KN_detachStates _ _ _ (KN_foldl _ KN_expungeOne _ _ h)

theorem KN_expunge (σ : Sess) (o : Oid) (h : KN σ) : KN (expunge σ o).1 := by
  unfold expunge
  split
  · exact h
  · exact KN_expungeStates _ _ _ h

theorem KN_expungeAll (σ : Sess) : KN (expungeAll σ) := by
  unfold expungeAll
  apply KN_detachStates
  simp [KN]

theorem KN_removeNewlyDeletedOne (σ : Sess) (o : Oid) (h : KN σ) : KN (removeNewlyDeletedOne σ o) := by
  unfold removeNewlyDeletedOne
  exact KN_of_imap_eq (σ := imSafeDiscard (updTxn σ _) o) rfl
    (KN_imSafeDiscard _ _ (KN_of_imap_eq (updTxn_imap _ _) h))

theorem KN_removeNewlyDeleted (σ : Sess) (os : List Oid) (h : KN σ) : KN (removeNewlyDeleted σ os) := by
  unfold removeNewlyDeleted
  exact KN_foldl _ KN_removeNewlyDeletedOne _ _ h


/-! flush bookkeeping -/

theorem KN_registerKeyOne (σ : Sess) (o : Oid) (h : KN σ) : KN (registerKeyOne σ o).1 := by
  unfold registerKeyOne
  simp only
  split
  · exact h
  · rename_i ik _
    have h2 : ∀ τ : Sess, KN τ → KN (match (match imLookup τ ik with
          | some o' => if (o' == o) = true then (none : Option Oid) else some o'
          | none => none) with
        | none => ok (imReplace τ o)
        | some o' =>
          if ((getO (imReplace τ o) o').pk.isNone && (getO (imReplace τ o) o').expA) = true then
            if (!(getO (imReplace τ o) o').att) = true then fail (imReplace τ o) Err.detachedInst
            else
              if ({ (imReplace τ o) with sql := (imReplace τ o).sql + 1 } : Sess).db.contains ik = true then
                ok (setO { (imReplace τ o) with sql := (imReplace τ o).sql + 1 } o' fun ob => loadedObj ob ik)
              else fail { (imReplace τ o) with sql := (imReplace τ o).sql + 1 } Err.objectDeleted
          else ok (imReplace τ o)).1 := by
      intro τ hτ
      have hr := KN_imReplace τ o hτ
      repeat' split
      all_goals exact hr
    apply h2
    split
    · exact KN_setO _ _ _ h
    · split
      · exact h
      · apply KN_setO
        apply KN_updTxn
        exact KN_imSafeDiscard _ _ h

theorem KN_registerKeys : ∀ (os : List Oid) (σ : Sess), KN σ → KN (registerKeys σ os).1
  | [], σ, h => h
  | o :: os, σ, h => by
    unfold registerKeys
    exact KN_bind (KN_registerKeyOne _ _ h) (fun τ hτ => KN_registerKeys os τ hτ)

theorem KN_registerAlteredOne (σ : Sess) (o : Oid) (h : KN σ) : KN (registerAlteredOne σ o) := by
  unfold registerAlteredOne
  split <;> exact KN_updTxn _ _ h

theorem KN_markNondetIf (c : Bool) (σ : Sess) (h : KN σ) : KN (markNondetIf c σ) := by
  unfold markNondetIf; split <;> exact h

theorem KN_failNondet (c : Bool) (r : R) (h : KN r.1) : KN (failNondet c r).1 := by
  unfold failNondet
  split
  · exact KN_markNondetIf _ _ h
  · exact h

theorem KN_registerFinish (σ : Sess) (os : List Oid) (h : KN σ) : KN (registerFinish σ os) := by
  unfold registerFinish
  simp only
  apply KN_new_upd
  apply KN_foldl _ (fun σ a h => KN_emit _ _ _ h)
  apply KN_foldl _ KN_registerAlteredOne
  exact KN_foldl _ (fun σ a h => KN_setO _ _ _ h) _ _ h

theorem KN_registerPersistent (σ : Sess) (os : List Oid) (h : KN σ) : KN (registerPersistent σ os).1 := by
  unfold registerPersistent
  simp only
  apply KN_bind
  · exact KN_failNondet _ _ (KN_registerKeys _ _ (KN_markNondetIf _ _ h))
  · intro τ hτ
    exact KN_registerFinish τ os hτ

/-! snapshots -/

theorem KN_restoreKeySwitch (te : List Oid) (σ : Sess) (e : Oid × Nat × Nat) (h : KN σ) :
    KN (restoreKeySwitch te σ e) := by
  unfold restoreKeySwitch
  simp only
  split
  · exact KN_setO _ _ _ (KN_imSafeDiscard _ _ h)
  · exact KN_imReplace _ _ (KN_setO _ _ _ (KN_imSafeDiscard _ _ h))

theorem KN_revertDeletions : ∀ (os : List Oid) (σ : Sess), KN σ → KN (revertDeletions σ os).1
  | [], σ, h => h
  | o :: os, σ, h => by
    unfold revertDeletions
    exact KN_bind (KN_updateImpl _ _ _ h) (fun τ hτ => KN_revertDeletions os τ hτ)

theorem KN_restoreSnapshot (σ : Sess) (d : Bool) (h : KN σ) : KN (restoreSnapshot σ d).1 := by
  unfold restoreSnapshot
  split
  · exact h
  · simp only
    apply KN_bind
    · apply KN_failNondet
      apply KN_revertDeletions
      apply KN_markNondetIf
      apply KN_foldl
      · exact fun σ a h => KN_restoreKeySwitch _ σ a h
      · exact KN_expungeStates _ _ _ h
    · intro τ hτ
      simp only [ok]
      apply KN_foldl _ _ _ _ hτ
      intro σ a h
      split
      · exact KN_setO _ _ _ h
      · exact h

/-! flush -/

theorem KN_sql (σ : Sess) (n : Nat) (h : KN σ) : KN { σ with sql := n } := h
theorem KN_db (σ : Sess) (l : List Nat) (h : KN σ) : KN { σ with db := l } := h
theorem KN_sql_db (σ : Sess) (n : Nat) (l : List Nat) (h : KN σ) : KN { σ with sql := n, db := l } := h
theorem KN_txns (σ : Sess) (l : List Txn) (h : KN σ) : KN { σ with txns := l } := h
theorem KN_db_txns (σ : Sess) (d : List Nat) (l : List Txn) (h : KN σ) : KN { σ with db := d, txns := l } := h
theorem KN_committed (σ : Sess) (l : List Nat) (h : KN σ) : KN { σ with committed := l } := h
theorem KN_txns_db (σ : Sess) (d : List Nat) (l : List Txn) (h : KN σ) : KN { σ with txns := l, db := d } := h

theorem KN_requireActive (σ : Sess) (h : KN σ) : KN (requireActive σ).1 := by
  unfold requireActive
  simp only
  repeat' split
  all_goals exact KN_autobegin _ h

theorem KN_wasAlreadyDeleted (σ : Sess) (ex : Oid) (h : KN σ) : KN (wasAlreadyDeleted σ ex).1 := by
  unfold wasAlreadyDeleted
  simp only
  repeat' split
  all_goals first
    | exact h
    | exact KN_setO _ _ _ (KN_sql _ _ h)
    | exact KN_removeNewlyDeleted _ _ (KN_sql _ _ h)

theorem KN_organizeOne (st st' : OrgState) (o : Oid) (h : KN st.σ) (he : organizeOne st o = .ok st') :
    KN st'.σ := by
  unfold organizeOne at he
  simp only at he
  have hw : ∀ ex, KN (wasAlreadyDeleted st.σ ex).1 := fun ex => KN_wasAlreadyDeleted _ _ h
  repeat' split at he
  all_goals first
    | (cases he; done)
    | (injection he with he; subst he; first | exact h | exact hw _)

theorem KN_organize : ∀ (os : List Oid) (st : OrgState), KN st.σ → KN (organize st os).1.σ
  | [], st, h => h
  | o :: os, st, h => by
    unfold organize
    split
    · exact h
    · rename_i st' he
      exact KN_organize os st' (KN_organizeOne _ _ _ h he)

theorem KN_deleteParam (σ : Sess) (o : Oid) (h : KN σ) : KN (deleteParam σ o).1 := by
  unfold deleteParam
  simp only
  repeat' split
  all_goals first
    | exact h
    | exact KN_setO _ _ _ (KN_sql _ _ h)
    | exact KN_sql _ _ h

theorem KN_deleteParams : ∀ (os : List Oid) (σ : Sess) (acc : List Nat), KN σ → KN (deleteParams σ os acc).1
  | [], σ, acc, h => h
  | o :: os, σ, acc, h => by
    unfold deleteParams
    have := KN_deleteParam σ o h
    split
    · rename_i heq; rw [heq] at this; exact this
    · rename_i heq; rw [heq] at this; exact KN_deleteParams os _ _ this

theorem flushDml_imap (σ : Sess) (u i : List Oid) : (flushDml σ u i).1.imap = σ.imap := by
  unfold flushDml
  simp only
  repeat' split
  all_goals rfl

theorem KN_flushDeletes (σ : Sess) (ds : List Oid) (h : KN σ) : KN (flushDeletes σ ds).1 := by
  unfold flushDeletes
  have := KN_deleteParams ds σ [] h
  split
  · rename_i heq; rw [heq] at this; exact this
  · rename_i heq; rw [heq] at this
    simp only [ok]
    split
    · exact this
    · exact this

theorem KN_flushExecute (σ : Sess) (proc dels : List Oid) (h : KN σ) : KN (flushExecute σ proc dels).1 := by
  unfold flushExecute
  simp only
  have ho := KN_organize (sortBy (fun o => (getO σ o).ins) (proc.filter (fun o => (getO σ o).key.isNone)) ++
      sortBy (fun o => (getO σ o).key.getD 0) (proc.filter (fun o => (getO σ o).key.isSome)))
      { σ := σ, isdel := dels, listonly := [], upd := [], ins := [] } h
  split
  · rename_i heq; rw [heq] at ho; exact ho
  · rename_i heq; rw [heq] at ho
    apply KN_bind
    · exact KN_of_imap_eq (flushDml_imap _ _ _) (KN_markNondetIf _ _ ho)
    · intro τ hτ
      apply KN_bind
      · exact KN_flushDeletes _ _ hτ
      · intro τ2 hτ2
        exact KN_registerPersistent _ _ (KN_removeNewlyDeleted _ _ hτ2)

theorem KN_flushFailed (σ : Sess) (h : KN σ) : KN (flushFailed σ) := by
  unfold flushFailed
  split
  · exact h
  · simp only
    rename_i t ts _
    have h1 := KN_restoreSnapshot { σ with db := if t.nested = true then t.snap else σ.committed,
                                           txns := { t with active := false } :: ts } t.nested h
    split
    · rename_i heq; rw [heq] at h1; exact KN_markNondetIf _ _ h1
    · rename_i τ heq
      rw [heq] at h1
      have h2 : KN (if isClean τ = true then ok τ else restoreSnapshot τ t.nested).1 := by
        split
        · exact h1
        · exact KN_restoreSnapshot _ _ h1
      split
      · rename_i heq2; rw [heq2] at h2; exact KN_markNondetIf _ _ h2
      · rename_i heq2; rw [heq2] at h2; exact KN_updTxn _ _ h2

theorem KN_match_fail (r : R) (g : Sess → Sess) (h : KN r.1) (hg : ∀ σ, KN σ → KN (g σ)) :
    KN (match r with
        | (σ, none) => ok σ
        | (σ, some e) => fail (g σ) e).1 := by
  split
  · exact h
  · exact hg _ h

theorem KN_flush (σ : Sess) (h : KN σ) : KN (flush σ).1 := by
  unfold flush
  split
  · exact h
  · simp only
    split
    · exact h
    · split
      · exact h
      · apply KN_bind (KN_requireActive _ h)
        intro τ hτ
        unfold flushCore
        exact KN_match_fail _ _ (KN_flushExecute τ _ _ hτ) KN_flushFailed

theorem KN_autoflush (σ : Sess) (h : KN σ) : KN (autoflush σ).1 := KN_flush σ h

/-! transactions -/

theorem KN_removeSnapshot (σ : Sess) (h : KN σ) : KN (removeSnapshot σ) := by
  unfold removeSnapshot
  split
  · exact h
  · split
    · simp only
      apply KN_txns
      apply KN_detachStates
      exact KN_foldl _ (fun σ a h => KN_setO _ _ _ h) _ _ h
    · split
      · split
        · exact h
        · exact h
      · exact h

theorem KN_flushUntilClean : ∀ (n : Nat) (σ : Sess), KN σ → KN (flushUntilClean n σ).1
  | 0, σ, h => by unfold flushUntilClean; split <;> exact h
  | n + 1, σ, h => by
    unfold flushUntilClean
    split
    · exact h
    · exact KN_bind (KN_flush _ h) (fun τ hτ => KN_flushUntilClean n τ hτ)

theorem KN_txnCommit : ∀ (n : Nat) (σ : Sess) (b : Bool), KN σ → KN (txnCommit n σ b).1
  | 0, σ, b, h => h
  | n + 1, σ, b, h => by
    unfold txnCommit
    split
    · exact h
    · split
      · exact h
      · apply KN_bind (KN_flushUntilClean _ _ h)
        intro τ hτ
        simp only
        have h1 : KN (removeSnapshot (match τ.txns with
            | t :: _ => if t.nested = true then τ else { τ with committed := τ.db }
            | [] => τ)) := by
          apply KN_removeSnapshot
          split
          · split
            · exact hτ
            · exact hτ
          · exact hτ
        split
        · exact KN_txnCommit n _ _ (KN_txns _ _ h1)
        · exact KN_txns _ _ h1

theorem KN_txnRollback : ∀ (n : Nat) (σ : Sess) (b : Bool), KN σ → KN (txnRollback n σ b).1
  | 0, σ, b, h => h
  | n + 1, σ, b, h => by
    unfold txnRollback
    split
    · exact h
    · simp only
      apply KN_bind
      · split
        · exact KN_restoreSnapshot _ _ h
        · exact h
      · intro τ hτ
        apply KN_bind
        · split
          · exact hτ
          · exact KN_restoreSnapshot _ _ hτ
        · intro τ2 hτ2
          split
          · exact KN_txnRollback n _ _ (KN_txns _ _ hτ2)
          · exact KN_txns _ _ hτ2

theorem KN_commit (σ : Sess) (h : KN σ) : KN (commit σ).1 := by
  unfold commit
  exact KN_txnCommit _ _ _ (KN_autobegin _ h)

theorem KN_rollback (σ : Sess) (h : KN σ) : KN (rollback σ).1 := KN_txnRollback _ _ _ h

theorem KN_beginNested (σ : Sess) (h : KN σ) : KN (beginNested σ).1 := by
  unfold beginNested
  simp only
  split
  · exact KN_autobegin _ h
  · split
    · exact KN_autobegin _ h
    · apply KN_bind (KN_flush _ (KN_autobegin _ h))
      intro τ hτ
      exact KN_txns _ _ hτ

theorem KN_nestedCommit (σ : Sess) (h : KN σ) : KN (nestedCommit σ).1 := by
  unfold nestedCommit
  split
  · exact h
  · exact KN_txnCommit _ _ _ h

theorem KN_nestedRollback (σ : Sess) (h : KN σ) : KN (nestedRollback σ).1 := by
  unfold nestedRollback
  split
  · exact h
  · exact KN_txnRollback _ _ _ h

theorem KN_close (σ : Sess) : KN (close σ) := by
  unfold close
  simp only
  split
  · exact KN_expungeAll σ
  · exact KN_txns_db _ _ _ (KN_expungeAll σ)

/-! loads, attribute set, merge, queries -/

theorem KN_sqlPrelude (σ : Sess) (af : Bool) (h : KN σ) : KN (sqlPrelude σ af).1 := by
  unfold sqlPrelude
  apply KN_bind (KN_requireActive _ h)
  intro τ hτ
  apply KN_bind
  · split
    · exact KN_autoflush _ hτ
    · exact hτ
  · intro τ2 hτ2
    exact KN_sql _ _ hτ2

theorem KN_loadRow (σ : Sess) (k : Nat) (h : KN σ) : KN (loadRow σ k).1 := by
  unfold loadRow
  split
  · split
    · simp only
      split
      · exact KN_setO _ _ _ h
      · exact h
    · rename_i hl
      exact KN_loadNew _ _ hl h
  · exact h

theorem KN_loadByPk (σ : Sess) (k : Nat) (af : Bool) (h : KN σ) : KN (loadByPk σ k af).1.1 := by
  unfold loadByPk
  have := KN_sqlPrelude σ af h
  split
  · rename_i heq; rw [heq] at this; exact this
  · rename_i heq; rw [heq] at this
    exact KN_loadRow _ _ this

theorem KN_loadExpired (σ : Sess) (o : Oid) (h : KN σ) : KN (loadExpired σ o).1.1 := by
  unfold loadExpired
  simp only
  split
  · exact h
  · have := KN_sqlPrelude σ true h
    split
    · rename_i heq; rw [heq] at this; exact this
    · rename_i heq; rw [heq] at this
      split
      · exact this
      · split
        · exact KN_setO _ _ _ this
        · exact this

theorem KN_loadOld (σ : Sess) (o : Oid) (af : Bool) (h : KN σ) : KN (loadOld σ o af).1.1 := by
  unfold loadOld
  simp only
  split
  · exact h
  · split
    · split
      · exact h
      · split
        · exact h
        · have := KN_sqlPrelude σ af h
          split
          · rename_i heq; rw [heq] at this; exact this
          · rename_i heq; rw [heq] at this
            split
            · exact this
            · split
              · exact KN_setO _ _ _ this
              · exact this
    · exact h

theorem KN_applySet (σ : Sess) (o : Oid) (v : Nat) (old : Old) (h : KN σ) : KN (applySet σ o v old) := by
  unfold applySet
  simp only
  apply KN_setO
  split
  · split
    · exact KN_autobegin _ (KN_setO _ _ _ (KN_setO _ _ _ h))
    · exact KN_setO _ _ _ (KN_setO _ _ _ h)
  · exact KN_setO _ _ _ h

theorem KN_setPk (σ : Sess) (o : Oid) (v : Nat) (af : Bool) (h : KN σ) : KN (setPk σ o v af).1 := by
  unfold setPk
  have := KN_loadOld σ o af h
  split
  · rename_i heq; rw [heq] at this; exact this
  · rename_i heq; rw [heq] at this; exact KN_applySet _ _ _ _ this

theorem KN_expire (σ : Sess) (o : Oid) (h : KN σ) : KN (expire σ o).1 := by
  unfold expire
  split
  · exact h
  · exact KN_setO _ _ _ h

theorem KN_get (σ : Sess) (k : Nat) (h : KN σ) : KN (get σ k).1.1 := by
  unfold get
  split
  · split
    · rename_i o _ _
      have := KN_loadExpired σ o h
      split
      · rename_i heq; rw [heq] at this; exact KN_loadByPk _ _ _ (KN_removeNewlyDeleted _ _ this)
      · rename_i heq; rw [heq] at this; exact this
      · rename_i heq; rw [heq] at this; exact this
      · rename_i heq; rw [heq] at this; exact KN_loadByPk _ _ _ (KN_removeNewlyDeleted _ _ this)
    · exact h
  · exact KN_loadByPk _ _ _ h

theorem KN_mergeFind (σ : Sess) (k : Nat) (h : KN σ) : KN (mergeFind σ k).1.1 := by
  unfold mergeFind
  split
  · exact h
  · exact KN_loadByPk _ _ _ h

theorem KN_objs (σ : Sess) (l : List Obj) (h : KN σ) : KN { σ with objs := l } := h

theorem KN_mergeTarget (σ : Sess) (mo : Option Oid) (h : KN σ) : KN (mergeTarget σ mo).1.1 := by
  unfold mergeTarget
  split
  · exact h
  · exact KN_saveImpl _ _ (KN_objs _ _ h)

theorem KN_mergeCopy (σ : Sess) (src m k : Nat) (h : KN σ) : KN (mergeCopy σ src m k).1 := by
  unfold mergeCopy
  simp only
  apply KN_bind
  · split
    · exact KN_setPk _ _ _ _ h
    · split
      · exact KN_setO _ _ _ h
      · exact h
  · intro τ hτ
    split
    · exact KN_setPk _ _ _ _ hτ
    · exact hτ

theorem KN_merge (σ : Sess) (src : Oid) (h : KN σ) : KN (merge σ src).1.1 := by
  unfold merge
  have h1 := KN_autoflush σ h
  split
  · rename_i heq; rw [heq] at h1; exact h1
  · rename_i τ heq; rw [heq] at h1
    simp only
    split
    · exact h1
    · rename_i k _
      have h2 := KN_mergeFind τ k h1
      split
      · rename_i heq2; rw [heq2] at h2; exact h2
      · rename_i τ2 mo heq2; rw [heq2] at h2
        have h3 := KN_mergeTarget τ2 mo h2
        split
        · rename_i heq3; rw [heq3] at h3; exact h3
        · rename_i τ3 m heq3; rw [heq3] at h3
          split
          · exact h3
          · have h4 := KN_mergeCopy τ3 src m k h3
            split
            · rename_i heq4; rw [heq4] at h4; exact h4
            · rename_i heq4; rw [heq4] at h4; exact h4

theorem KN_makeTransient (σ : Sess) (o : Oid) (k : Nat) (h : KN σ) : KN (makeTransient σ o k) := by
  unfold makeTransient
  simp only
  apply KN_setPk
  apply KN_setO
  split
  · exact KN_expungeStates _ _ _ h
  · exact h

theorem KN_makeTransientToDetached (σ : Sess) (o : Oid) (h : KN σ) : KN (makeTransientToDetached σ o).1 := by
  unfold makeTransientToDetached
  simp only
  split
  · exact h
  · split
    · exact h
    · exact KN_setO _ _ _ h

theorem KN_instanceForRow (pe : Bool) (acc : Sess × List Oid) (k : Nat) (h : KN acc.1) :
    KN (instanceForRow pe acc k).1 := by
  unfold instanceForRow
  obtain ⟨σ, out⟩ := acc
  simp only
  split
  · simp only
    split
    · exact KN_setO _ _ _ h
    · split
      · exact KN_setO _ _ _ h
      · exact h
  · rename_i hl
    exact KN_loadNew _ _ hl h

theorem KN_foldl_pair {α β : Type} (g : Sess × β → α → Sess × β) (hg : ∀ acc a, KN acc.1 → KN (g acc a).1) :
    ∀ (l : List α) (acc : Sess × β), KN acc.1 → KN (l.foldl g acc).1 := by
  intro l
  induction l with
  | nil => intro acc h; exact h
  | cons a t ih => intro acc h; exact ih _ (hg _ _ h)

theorem KN_queryAll (σ : Sess) (pe : Bool) (h : KN σ) : KN (queryAll σ pe).1.1 := by
  unfold queryAll
  have := KN_sqlPrelude σ true h
  split
  · rename_i heq; rw [heq] at this; exact this
  · rename_i heq; rw [heq] at this
    simp only
    exact KN_foldl_pair _ (KN_instanceForRow pe) _ _ this

theorem KN_refresh (σ : Sess) (o : Oid) (h : KN σ) : KN (refresh σ o).1 := by
  unfold refresh
  split
  · exact h
  · simp only
    apply KN_bind (KN_autoflush _ (KN_setO _ _ _ h))
    intro τ hτ
    apply KN_bind (KN_requireActive _ hτ)
    intro τ2 hτ2
    split
    · exact KN_sql _ _ hτ2
    · split
      · exact KN_setO _ _ _ (KN_sql _ _ hτ2)
      · exact KN_sql _ _ hτ2

theorem KN_newObj (σ : Sess) (k : Nat) (h : KN σ) : KN (newObj σ k) := h

/-- every harness operation preserves identity-key uniqueness -/
theorem KN_step (σ : Sess) (op : Op) (h : KN σ) : KN (step σ op).1.1 := by
  cases op <;> simp only [step, ok]
  · exact KN_newObj _ _ h
  · exact KN_add _ _ h
  · exact KN_delete _ _ h
  · exact KN_expunge _ _ h
  · exact KN_expire _ _ h
  · exact KN_makeTransient _ _ _ h
  · exact KN_makeTransientToDetached _ _ h
  · exact KN_setPk _ _ _ _ h
  · exact KN_merge _ _ h
  · exact KN_get _ _ h
  · exact KN_flush _ h
  · exact KN_commit _ h
  · exact KN_rollback _ h
  · exact KN_beginNested _ h
  · exact KN_nestedCommit _ h
  · exact KN_nestedRollback _ h
  · exact KN_close _
  · exact KN_expungeAll _
  · exact KN_queryAll _ _ h
  · exact KN_refresh _ _ h

end SaVerif.Sess
