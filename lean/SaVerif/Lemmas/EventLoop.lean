import SaVerif.Lemmas.Event
/-! The two `for cls in walk_subclasses(target)` loops of `_ClsLevelDispatch`
(`_do_insert_or_append`, `remove`) against the spec.  Core Lean only. -/
namespace SaVerif.Event

/-- the class-level part of the invariant -/
structure Base (st : St) : Prop where
  wf : WFTree st
  len : st.clslevel.length = st.parent.length
  deq : ∀ k d, dequeOf st k = some d → d = specDeque st k
  tp : TargetsPresent st

/-- only `clslevel` entries changed -/
structure SameBut (st st' : St) : Prop where
  parent : st'.parent = st.parent
  reg : st'.reg = st.reg
  lsn : st'.lsn = st.lsn
  insts : st'.insts = st.insts
  len : st'.clslevel.length = st.clslevel.length

theorem SameBut.refl (st : St) : SameBut st st := ⟨rfl, rfl, rfl, rfl, rfl⟩

theorem SameBut.trans {a b c : St} (h1 : SameBut a b) (h2 : SameBut b c) : SameBut a c :=
  ⟨h2.parent.trans h1.parent, h2.reg.trans h1.reg, h2.lsn.trans h1.lsn, h2.insts.trans h1.insts,
   h2.len.trans h1.len⟩

theorem setDeque_same (st : St) (k : Cls) (d : List Lsn) : SameBut st (setDeque st k d) :=
  ⟨rfl, rfl, rfl, rfl, by simp [setDeque]⟩

theorem updateSubclass_same (st : St) (k : Cls) : SameBut st (updateSubclass st k) := by
  rw [updateSubclass_eq]; exact setDeque_same _ _ _

theorem insertInto_same (c : Cls) (l : Lsn) (ins : Bool) (st : St) (k : Cls) :
    SameBut st (insertInto c l ins st k) := by
  unfold insertInto
  split
  · exact updateSubclass_same st k
  · simp only
    split
    · exact (updateSubclass_same st k).trans (setDeque_same _ _ _)
    · exact setDeque_same _ _ _

theorem insertInto_other (c : Cls) (l : Lsn) (ins : Bool) (st : St) (k j : Cls) (h : k ≠ j) :
    dequeOf (insertInto c l ins st k) j = dequeOf st j := by
  unfold insertInto
  split
  · rw [updateSubclass_eq, dequeOf_setDeque]; simp [h]
  · simp only
    split
    · rw [dequeOf_setDeque, updateSubclass_eq, dequeOf_setDeque]; simp [h]
      rw [dequeOf_setDeque]; simp [h]
    · rw [dequeOf_setDeque]; simp [h]

/-- what `insertInto` leaves at index `k` -/
theorem insertInto_at (c : Cls) (l : Lsn) (ins : Bool) (st : St) (k : Cls)
    (hk : k < st.clslevel.length) :
    dequeOf (insertInto c l ins st k) k =
      match dequeOf st k with
      | some d => some (if ins then l :: d else d ++ [l])
      | none =>
        if k ≠ c then some (pull st [] (ancestorsOf st k))
        else some (if ins then l :: pull st [] (ancestorsOf st k)
                   else pull st [] (ancestorsOf st k) ++ [l]) := by
  unfold insertInto
  cases hd : dequeOf st k with
  | some d =>
    simp only [Option.isNone_some, Bool.false_eq_true, and_false, if_false]
    rw [dequeOf_setDeque]
    simp [hk, hd]
  | none =>
    simp only [Option.isNone_none, and_true, if_true]
    by_cases hc : k ≠ c
    · rw [if_pos hc, if_pos hc, updateSubclass_eq, dequeOf_setDeque]
      simp [hk, hd]
    · rw [if_neg hc, if_neg hc]
      rw [dequeOf_setDeque]
      have hlen : k < (updateSubclass st k).clslevel.length := by
        rw [(updateSubclass_same st k).len]; exact hk
      have hq : dequeOf (updateSubclass st k) k = some (pull st [] (ancestorsOf st k)) := by
        rw [updateSubclass_eq, dequeOf_setDeque]; simp [hk, hd]
      simp [hlen, hq]


/-- the loop of `_do_insert_or_append` over the first `m` classes -/
def insLoop (st : St) (c : Cls) (l : Lsn) (ins : Bool) (m : Nat) : St :=
  ((List.range m).filter (fun k => descOrSelf st c k)).foldl (insertInto c l ins) st

theorem insLoop_succ (st : St) (c : Cls) (l : Lsn) (ins : Bool) (m : Nat) :
    insLoop st c l ins (m + 1) =
      if descOrSelf st c m then insertInto c l ins (insLoop st c l ins m) m
      else insLoop st c l ins m := by
  unfold insLoop
  rw [List.range_succ, List.filter_append, List.foldl_append]
  by_cases h : descOrSelf st c m = true
  · simp [h]
  · simp [h]

theorem rel_self (st : St) (c : Cls) : Rel st c c := Or.inl rfl

/-- a strict descendant has a parent that is still a descendant-or-self -/
theorem rel_strict (st : St) (hw : WFTree st) {c m : Cls} (h : Rel st c m) (hne : m ≠ c) :
    ∃ p, parentOf st m = some p ∧ Rel st c p := by
  cases hp : parentOf st m with
  | none => exact absurd ((rel_root st hw hp).1 h) hne
  | some p =>
    rcases (rel_parent st hw hp).1 h with h1 | h1
    · exact absurd h1 hne
    · exact ⟨p, rfl, h1⟩

theorem insLoop_spec (st : St) (hb : Base st) (c : Cls) (e : RegEntry)
    (hc : e.target = Target.cls c) :
    ∀ m, m ≤ st.clslevel.length →
      SameBut st (insLoop st c e.lsn e.ins m) ∧
      (∀ k, k < m → Rel st c k →
        dequeOf (insLoop st c e.lsn e.ins m) k = some (specDeque (addReg st e) k)) ∧
      (∀ k, (m ≤ k ∨ ¬ Rel st c k) → dequeOf (insLoop st c e.lsn e.ins m) k = dequeOf st k) := by
  have hw' : WFTree (addReg st e) := WFTree_congr (st := st) (st' := addReg st e) rfl hb.wf
  have relEq : ∀ a b, Rel (addReg st e) a b ↔ Rel st a b := by
    intro a b
    rw [← descOrSelf_iff, ← descOrSelf_iff, descOrSelf_congr (st := st) (st' := addReg st e) rfl]
  intro m
  induction m with
  | zero =>
    intro _
    refine ⟨SameBut.refl st, fun k hk _ => absurd hk (Nat.not_lt_zero k), fun _ _ => rfl⟩
  | succ m ih =>
    intro hm
    obtain ⟨hsame, hdone, hkeep⟩ := ih (Nat.le_of_succ_le hm)
    rw [insLoop_succ]
    by_cases hrel : descOrSelf st c m = true
    · rw [if_pos hrel]
      have hrm : Rel st c m := (descOrSelf_iff st c m).1 hrel
      generalize hF : insLoop st c e.lsn e.ins m = F at *
      have hmlen : m < F.clslevel.length := by rw [hsame.len]; exact hm
      have hFm : dequeOf F m = dequeOf st m := hkeep m (Or.inl (Nat.le_refl m))
      have hanc : ∀ k, ancestorsOf F k = ancestorsOf st k := fun k => ancestorsOf_congr hsame.parent k
      -- the value left at index m is the new spec
      have hat : dequeOf (insertInto c e.lsn e.ins F m) m = some (specDeque (addReg st e) m) := by
        rw [insertInto_at c e.lsn e.ins F m hmlen, hFm]
        cases hd : dequeOf st m with
        | some d =>
          simp only
          rw [hb.deq m d hd, specDeque_addReg st e c hc m, if_pos hrm]
        | none =>
          simp only
          by_cases hmc : m = c
          · -- the target itself had no deque yet: nothing has been touched so far
            subst hmc
            rw [if_neg (by simp)]
            have hall : ∀ a, dequeOf F a = dequeOf st a := by
              intro a
              apply hkeep a
              by_cases ha : m ≤ a
              · exact Or.inl ha
              · refine Or.inr (fun hr => ha (rel_le st hb.wf hr))
            have hp : pull F [] (ancestorsOf F m) = specDeque st m := by
              rw [hanc, pull_congr (st := st) (st' := F) _ (fun a _ => hall a)]
              exact pull_absent st hb.wf (specDeque st) hb.deq
                (fun g a h => specDeque_mono st hb.wf h)
                (fun k hk => specDeque_absent st hb.wf hb.tp hk) m hd
            rw [hp, specDeque_addReg st e m hc m, if_pos (rel_self st m)]
          · rw [if_pos hmc]
            obtain ⟨p, hp, hrp⟩ := rel_strict st hb.wf hrm hmc
            have hpm : (p : Nat) < (m : Nat) := hb.wf m p hp
            have hFp : dequeOf F p = some (specDeque (addReg st e) p) := hdone p hpm hrp
            have hancm : ancestorsOf F m = p :: ancestorsOf st p := by
              rw [hanc, ancestorsOf_eq st hb.wf m, hp]
            rw [hancm]
            simp only [pull, List.foldl_cons, hFp]
            have hfil : (specDeque (addReg st e) p).filter (fun x => !([] : List Lsn).contains x)
                = specDeque (addReg st e) p := by
              rw [List.filter_eq_self]; intro x _; simp
            rw [hfil, List.nil_append]
            have habs := pull_absorb F (ancestorsOf st p) (specDeque (addReg st e) p) (by
              intro g hg dg hdg x hx
              have hgp : Rel (addReg st e) g p := (relEq g p).2 (Or.inr hg)
              by_cases hrg : Rel st c g
              · have hgm : (g : Nat) < (m : Nat) :=
                  Nat.lt_trans (ancestors_lt st hb.wf p g hg) hpm
                rw [hdone g hgm hrg] at hdg
                cases hdg
                exact specDeque_mono (addReg st e) hw' hgp x hx
              · rw [hkeep g (Or.inr hrg)] at hdg
                rw [hb.deq g dg hdg] at hx
                exact specDeque_mono (addReg st e) hw' hgp x (specDeque_sub_addReg st e c hc g x hx))
            unfold pull at habs
            rw [habs]
            -- no registration targets m, so its list is its parent's
            have hnt : NoTarget (addReg st e) m := by
              intro e' he' ht
              simp only [addReg, List.mem_append, List.mem_singleton] at he'
              rcases he' with he' | he'
              · exact noTarget_of_absent hb.tp hd e' he' ht
              · subst he'; rw [hc] at ht; cases ht; exact hmc rfl
            have := specDeque_noTarget (addReg st e) hw' hnt
            have hp' : parentOf (addReg st e) m = some p := hp
            rw [hp'] at this
            rw [this]
      refine ⟨hsame.trans (insertInto_same c e.lsn e.ins F m), ?_, ?_⟩
      · intro k hk hrk
        by_cases hkm : k = m
        · subst hkm; exact hat
        · rw [insertInto_other c e.lsn e.ins F m k (Ne.symm hkm)]
          exact hdone k (Nat.lt_of_le_of_ne (Nat.le_of_lt_succ hk) hkm) hrk
      · intro k hk
        have hkm : m ≠ k := by
          rcases hk with hk | hk
          · exact Nat.ne_of_lt (Nat.lt_of_succ_le hk)
          · intro e'; subst e'; exact hk hrm
        rw [insertInto_other c e.lsn e.ins F m k hkm]
        apply hkeep k
        rcases hk with hk | hk
        · exact Or.inl (Nat.le_of_succ_le hk)
        · exact Or.inr hk
    · rw [if_neg hrel]
      have hnr : ¬ Rel st c m := fun h => hrel ((descOrSelf_iff st c m).2 h)
      refine ⟨hsame, ?_, ?_⟩
      · intro k hk hrk
        have hkm : k ≠ m := by intro e'; subst e'; exact hnr hrk
        exact hdone k (Nat.lt_of_le_of_ne (Nat.le_of_lt_succ hk) hkm) hrk
      · intro k hk
        apply hkeep k
        rcases hk with hk | hk
        · exact Or.inl (Nat.le_of_succ_le hk)
        · exact Or.inr hk


/-! ### the loop of `_ClsLevelDispatch.remove` -/

def remStep (l : Lsn) (acc : St × Bool) (k : Cls) : St × Bool :=
  match dequeOf acc.1 k with
  | some d => if d.contains l then (setDeque acc.1 k (d.erase l), acc.2) else (acc.1, true)
  | none => acc

def remLoop (st : St) (c : Cls) (l : Lsn) (m : Nat) : St × Bool :=
  ((List.range m).filter (fun k => descOrSelf st c k)).foldl (remStep l) (st, false)

theorem removeCls_eq (st : St) (c : Cls) (l : Lsn) : removeCls st c l = remLoop st c l (nClasses st) := rfl

theorem remLoop_succ (st : St) (c : Cls) (l : Lsn) (m : Nat) :
    remLoop st c l (m + 1) =
      if descOrSelf st c m then remStep l (remLoop st c l m) m else remLoop st c l m := by
  unfold remLoop
  rw [List.range_succ, List.filter_append, List.foldl_append]
  by_cases h : descOrSelf st c m = true
  · simp [h]
  · simp [h]

theorem remLoop_spec (st : St) (c : Cls) (l : Lsn)
    (hmem : ∀ k d, Rel st c k → dequeOf st k = some d → l ∈ d) :
    ∀ m, m ≤ st.clslevel.length →
      SameBut st (remLoop st c l m).1 ∧ (remLoop st c l m).2 = false ∧
      (∀ k, k < m → Rel st c k →
        dequeOf (remLoop st c l m).1 k = (dequeOf st k).map (fun d => d.erase l)) ∧
      (∀ k, (m ≤ k ∨ ¬ Rel st c k) → dequeOf (remLoop st c l m).1 k = dequeOf st k) := by
  intro m
  induction m with
  | zero =>
    intro _
    exact ⟨SameBut.refl st, rfl, fun k hk _ => absurd hk (Nat.not_lt_zero k), fun _ _ => rfl⟩
  | succ m ih =>
    intro hm
    obtain ⟨hsame, hflag, hdone, hkeep⟩ := ih (Nat.le_of_succ_le hm)
    rw [remLoop_succ]
    by_cases hrel : descOrSelf st c m = true
    · rw [if_pos hrel]
      have hrm : Rel st c m := (descOrSelf_iff st c m).1 hrel
      generalize remLoop st c l m = F at *
      have hmlen : m < F.1.clslevel.length := by rw [hsame.len]; exact hm
      have hFm : dequeOf F.1 m = dequeOf st m := hkeep m (Or.inl (Nat.le_refl m))
      unfold remStep
      rw [hFm]
      cases hd : dequeOf st m with
      | none =>
        simp only
        refine ⟨hsame, hflag, ?_, ?_⟩
        · intro k hk hrk
          by_cases hkm : k = m
          · subst hkm; rw [hFm, hd]; rfl
          · exact hdone k (Nat.lt_of_le_of_ne (Nat.le_of_lt_succ hk) hkm) hrk
        · intro k hk
          apply hkeep k
          rcases hk with hk | hk
          · exact Or.inl (Nat.le_of_succ_le hk)
          · exact Or.inr hk
      | some d =>
        have hl : l ∈ d := hmem m d hrm hd
        have hcont : d.contains l = true := by simpa using hl
        simp only [hcont, if_true]
        refine ⟨hsame.trans (setDeque_same _ _ _), hflag, ?_, ?_⟩
        · intro k hk hrk
          rw [dequeOf_setDeque]
          by_cases hkm : k = m
          · subst hkm; simp [hmlen, hd]
          · rw [if_neg (by intro h; exact hkm h.1.symm)]
            exact hdone k (Nat.lt_of_le_of_ne (Nat.le_of_lt_succ hk) hkm) hrk
        · intro k hk
          rw [dequeOf_setDeque]
          have hkm : m ≠ k := by
            rcases hk with hk | hk
            · exact Nat.ne_of_lt (Nat.lt_of_succ_le hk)
            · intro e'; subst e'; exact hk hrm
          rw [if_neg (by intro h; exact hkm h.1)]
          apply hkeep k
          rcases hk with hk | hk
          · exact Or.inl (Nat.le_of_succ_le hk)
          · exact Or.inr hk
    · rw [if_neg hrel]
      have hnr : ¬ Rel st c m := fun h => hrel ((descOrSelf_iff st c m).2 h)
      refine ⟨hsame, hflag, ?_, ?_⟩
      · intro k hk hrk
        have hkm : k ≠ m := by intro e'; subst e'; exact hnr hrk
        exact hdone k (Nat.lt_of_le_of_ne (Nat.le_of_lt_succ hk) hkm) hrk
      · intro k hk
        apply hkeep k
        rcases hk with hk | hk
        · exact Or.inl (Nat.le_of_succ_le hk)
        · exact Or.inr hk

end SaVerif.Event
