import SaVerif.Model.Event
/-!
Lemmas about M-EVENT for `dispatch_eq_spec` (C28).  Core Lean only.

The declarative spec reads the registry of live keys `st.reg` (chronological) and the
class tree: for a class `k` the class-level listeners are the live registrations on `k`
and its ancestors, inserted ones first (newest first), then the appended ones in
registration order (`specDeque`); for an instance its own registrations, same rule
(`specColl`).
-/
namespace SaVerif.Event

/-! ### the class tree -/

/-- a parent is created before its subclasses -/
def WFTree (st : St) : Prop := ∀ (k p : Nat), parentOf st k = some p → p < k

theorem ancestors_fuel (st : St) (hw : WFTree st) :
    ∀ (k f : Nat), k < f → ancestors st f k = ancestors st (k + 1) k := by
  intro k
  induction k using Nat.strongRecOn with
  | _ k ih =>
    intro f hf
    cases f with
    | zero => omega
    | succ f =>
      simp only [ancestors]
      cases hp : parentOf st k with
      | none => rfl
      | some p =>
        have hpk : (p : Nat) < (k : Nat) := hw k p hp
        simp only
        rw [ih p hpk f (Nat.lt_of_lt_of_le hpk (Nat.le_of_lt_succ hf)), ih p hpk k hpk]

theorem ancestorsOf_eq (st : St) (hw : WFTree st) (k : Cls) :
    ancestorsOf st k = match parentOf st k with
      | some p => p :: ancestorsOf st p
      | none => [] := by
  unfold ancestorsOf
  cases hp : parentOf st k with
  | none => simp [ancestors, hp]
  | some p =>
    have h1 : ancestors st (k + 1) k = p :: ancestors st k p := by simp [ancestors, hp]
    rw [h1, ancestors_fuel st hw p k (hw k p hp)]

/-- `c` is `k` or an ancestor of `k` -/
def Rel (st : St) (c k : Cls) : Prop := k = c ∨ c ∈ ancestorsOf st k

theorem descOrSelf_iff (st : St) (c k : Cls) : descOrSelf st c k = true ↔ Rel st c k := by
  unfold descOrSelf Rel
  simp

instance (st : St) (c k : Cls) : Decidable (Rel st c k) := by unfold Rel; exact inferInstance

theorem rel_parent (st : St) (hw : WFTree st) {c k p : Cls} (hp : parentOf st k = some p) :
    Rel st c k ↔ (k = c ∨ Rel st c p) := by
  unfold Rel
  rw [ancestorsOf_eq st hw k, hp]
  simp only [List.mem_cons]
  constructor
  · rintro (h | h | h)
    · exact Or.inl h
    · exact Or.inr (Or.inl h.symm)
    · exact Or.inr (Or.inr h)
  · rintro (h | h | h)
    · exact Or.inl h
    · exact Or.inr (Or.inl h.symm)
    · exact Or.inr (Or.inr h)

theorem rel_root (st : St) (hw : WFTree st) {c k : Cls} (hp : parentOf st k = none) :
    Rel st c k ↔ k = c := by
  unfold Rel
  rw [ancestorsOf_eq st hw k, hp]
  simp

theorem ancestors_lt (st : St) (hw : WFTree st) : ∀ (k a : Nat), a ∈ ancestorsOf st k → a < k := by
  intro k
  induction k using Nat.strongRecOn with
  | _ k ih =>
    intro a ha
    rw [ancestorsOf_eq st hw k] at ha
    cases hp : parentOf st k with
    | none => rw [hp] at ha; simp at ha
    | some p =>
      rw [hp] at ha
      have hpk : (p : Nat) < (k : Nat) := hw k p hp
      simp only [List.mem_cons] at ha
      rcases ha with rfl | ha
      · exact hpk
      · exact Nat.lt_trans (ih p hpk a ha) hpk

theorem rel_le (st : St) (hw : WFTree st) {c k : Cls} (h : Rel st c k) : c ≤ k := by
  rcases h with rfl | h
  · exact Nat.le_refl _
  · exact Nat.le_of_lt (ancestors_lt st hw k c h)

/-- ancestor-or-self is transitive -/
theorem rel_trans (st : St) (hw : WFTree st) : ∀ (k : Nat) {a c : Cls}, Rel st a k → Rel st c a → Rel st c k := by
  intro k
  induction k using Nat.strongRecOn with
  | _ k ih =>
    intro a c hak hca
    cases hp : parentOf st k with
    | none =>
      have := (rel_root st hw hp).1 hak
      subst this; exact hca
    | some p =>
      rcases (rel_parent st hw hp).1 hak with rfl | h
      · exact hca
      · exact (rel_parent st hw hp).2 (Or.inr (ih p (hw k p hp) h hca))


/-! ### the declarative order -/

/-- inserted registrations first (newest first), then the appended ones in order -/
def orderOf (es : List RegEntry) : List Lsn :=
  ((es.filter (fun e => e.ins)).reverse.map (fun e => e.lsn)) ++
    ((es.filter (fun e => !e.ins)).map (fun e => e.lsn))

theorem orderOf_append_single (es : List RegEntry) (e : RegEntry) :
    orderOf (es ++ [e]) = if e.ins then e.lsn :: orderOf es else orderOf es ++ [e.lsn] := by
  unfold orderOf
  cases h : e.ins <;> simp [List.filter_append, h]

theorem orderOf_perm (es : List RegEntry) : (orderOf es).Perm (es.map (fun e => e.lsn)) := by
  unfold orderOf
  have h1 : ((es.filter (fun e => e.ins)).reverse.map (fun e => e.lsn)).Perm
      ((es.filter (fun e => e.ins)).map (fun e => e.lsn)) :=
    (List.reverse_perm _).map _
  have h2 := (List.filter_append_perm (fun e : RegEntry => e.ins) es).map (fun e => e.lsn)
  rw [List.map_append] at h2
  exact (List.Perm.append_right _ h1).trans h2

theorem orderOf_nodup {es : List RegEntry} (h : (es.map (fun e => e.lsn)).Nodup) : (orderOf es).Nodup :=
  (orderOf_perm es).nodup_iff.2 h

theorem mem_orderOf {es : List RegEntry} {l : Lsn} : l ∈ orderOf es ↔ ∃ e ∈ es, e.lsn = l := by
  rw [(orderOf_perm es).mem_iff]
  simp

/-- removing the entries rejected by `p`, when `p` rejects exactly the entries whose
    listener is `a` -/
theorem orderOf_filter (es : List RegEntry) (p : RegEntry → Bool) (a : Lsn)
    (hp : ∀ x ∈ es, p x = (x.lsn != a)) :
    orderOf (es.filter p) = (orderOf es).filter (fun l => l != a) := by
  have key : ∀ (q : RegEntry → Bool), ((es.filter p).filter q).map (fun e => e.lsn) =
      ((es.filter q).map (fun e => e.lsn)).filter (fun l => l != a) := by
    intro q
    rw [List.filter_map]
    congr 1
    rw [List.filter_filter, List.filter_filter]
    apply List.filter_congr
    intro x hx
    rw [hp x hx]
    simp [Function.comp, Bool.and_comm]
  unfold orderOf
  rw [List.filter_append, ← key (fun e => !e.ins)]
  congr 1
  rw [List.map_reverse, List.map_reverse, key, List.filter_reverse]

theorem erase_eq_filter_of_nodup {l : List Lsn} (h : l.Nodup) (a : Lsn) :
    l.erase a = l.filter (fun x => x != a) := by
  induction l with
  | nil => rfl
  | cons b t ih =>
    rw [List.nodup_cons] at h
    by_cases hb : b = a
    · subst hb
      simp only [List.erase_cons_head]
      rw [List.filter_cons]
      simp only [bne_self_eq_false, Bool.false_eq_true, if_false]
      symm
      rw [List.filter_eq_self]
      intro x hx
      simp only [bne_iff_ne, ne_eq]
      intro e; subst e; exact h.1 hx
    · rw [List.erase_cons_tail (by simpa using hb), List.filter_cons]
      simp [hb, ih h.2]


/-! ### the spec of a class-level deque -/

def isClsRel (st : St) (k : Cls) (e : RegEntry) : Bool :=
  match e.target with
  | .cls c => descOrSelf st c k
  | .inst _ => false

/-- live class-level registrations on `k` or one of its ancestors, chronological -/
def relevant (st : St) (k : Cls) : List RegEntry := st.reg.filter (isClsRel st k)

def specDeque (st : St) (k : Cls) : List Lsn := orderOf (relevant st k)

theorem ancestors_congr {st st' : St} (h : st'.parent = st.parent) :
    ∀ (f : Nat) (k : Cls), ancestors st' f k = ancestors st f k := by
  intro f
  induction f with
  | zero => intro k; rfl
  | succ f ih =>
    intro k
    simp only [ancestors, parentOf, h]
    cases (st.parent.getD k none) with
    | none => rfl
    | some p => simp only; rw [ih]

theorem descOrSelf_congr {st st' : St} (h : st'.parent = st.parent) (c k : Cls) :
    descOrSelf st' c k = descOrSelf st c k := by
  unfold descOrSelf ancestorsOf
  rw [ancestors_congr h]

theorem isClsRel_congr {st st' : St} (h : st'.parent = st.parent) (k : Cls) :
    isClsRel st' k = isClsRel st k := by
  funext e
  unfold isClsRel
  cases e.target with
  | cls c => exact descOrSelf_congr h c k
  | inst i => rfl

theorem specDeque_congr {st st' : St} (h : st'.parent = st.parent) (hr : st'.reg = st.reg) (k : Cls) :
    specDeque st' k = specDeque st k := by
  unfold specDeque relevant
  rw [isClsRel_congr h, hr]

theorem mem_relevant {st : St} {k : Cls} {e : RegEntry} :
    e ∈ relevant st k ↔ e ∈ st.reg ∧ ∃ c, e.target = Target.cls c ∧ Rel st c k := by
  unfold relevant isClsRel
  rw [List.mem_filter]
  constructor
  · rintro ⟨h1, h2⟩
    refine ⟨h1, ?_⟩
    cases ht : e.target with
    | cls c => rw [ht] at h2; exact ⟨c, rfl, (descOrSelf_iff st c k).1 h2⟩
    | inst i => rw [ht] at h2; cases h2
  · rintro ⟨h1, c, hc, hr⟩
    refine ⟨h1, ?_⟩
    rw [hc]; exact (descOrSelf_iff st c k).2 hr

/-- (M) an ancestor's listeners all occur in the descendant's list -/
theorem specDeque_mono (st : St) (hw : WFTree st) {g a : Cls} (h : Rel st g a) :
    ∀ x ∈ specDeque st g, x ∈ specDeque st a := by
  intro x hx
  unfold specDeque at *
  rw [mem_orderOf] at hx ⊢
  obtain ⟨e, he, hl⟩ := hx
  refine ⟨e, ?_, hl⟩
  rw [mem_relevant] at he ⊢
  obtain ⟨h1, c, hc, hr⟩ := he
  exact ⟨h1, c, hc, rel_trans st hw a h hr⟩

/-- targets of live class-level registrations have their deque -/
def TargetsPresent (st : St) : Prop :=
  ∀ e ∈ st.reg, ∀ c, e.target = Target.cls c → (dequeOf st c).isSome = true

/-- (N) a class without a deque has no registration of its own: its list is its parent's -/
theorem specDeque_absent (st : St) (hw : WFTree st) (ht : TargetsPresent st) {k : Nat}
    (hk : dequeOf st k = none) :
    specDeque st k = match parentOf st k with
      | some p => specDeque st p
      | none => [] := by
  unfold specDeque relevant
  cases hp : parentOf st k with
  | none =>
    simp only
    have : st.reg.filter (isClsRel st k) = [] := by
      rw [List.filter_eq_nil_iff]
      intro e he hrel
      have hm : e ∈ relevant st k := List.mem_filter.2 ⟨he, hrel⟩
      obtain ⟨_, c, hc, hr⟩ := mem_relevant.1 hm
      have := (rel_root st hw hp).1 hr
      subst this
      have := ht e he k hc
      rw [hk] at this; cases this
    rw [this]; rfl
  | some p =>
    simp only
    congr 1
    apply List.filter_congr
    intro e he
    unfold isClsRel
    cases hc : e.target with
    | inst i => rfl
    | cls c =>
      simp only
      rw [Bool.eq_iff_iff, descOrSelf_iff, descOrSelf_iff, rel_parent st hw hp]
      constructor
      · rintro (h | h)
        · subst h
          have := ht e he k hc
          rw [hk] at this; cases this
        · exact h
      · exact Or.inr

/-! ### update_subclass -/

/-- the MRO loop of `update_subclass` -/
def pull (st : St) (acc : List Lsn) (as : List Cls) : List Lsn :=
  as.foldl (fun acc a =>
    match dequeOf st a with
    | some l => acc ++ l.filter (fun x => !acc.contains x)
    | none => acc) acc

theorem updateSubclass_eq (st : St) (k : Cls) :
    updateSubclass st k = setDeque st k (pull st ((dequeOf st k).getD []) (ancestorsOf st k)) := rfl

theorem pull_absorb (st : St) : ∀ (as : List Cls) (acc : List Lsn),
    (∀ a ∈ as, ∀ d, dequeOf st a = some d → ∀ x ∈ d, x ∈ acc) → pull st acc as = acc := by
  intro as
  induction as with
  | nil => intro acc _; rfl
  | cons a t ih =>
    intro acc h
    simp only [pull, List.foldl_cons]
    have hstep : (match dequeOf st a with
        | some l => acc ++ l.filter (fun x => !acc.contains x)
        | none => acc) = acc := by
      cases hd : dequeOf st a with
      | none => rfl
      | some l =>
        simp only
        have : l.filter (fun x => !acc.contains x) = [] := by
          rw [List.filter_eq_nil_iff]
          intro x hx
          have := h a (by simp) l hd x hx
          simp [this]
        rw [this, List.append_nil]
    rw [hstep]
    exact ih acc (fun a' ha' => h a' (by simp [ha']))

/-- `update_subclass` on a class without a deque computes the list `T k`, for any
    assignment `T` that the existing deques realise, that is monotone along the ancestor
    relation and that absent classes inherit from their parent -/
theorem pull_absent (st : St) (hw : WFTree st) (T : Cls → List Lsn)
    (hT : ∀ a d, dequeOf st a = some d → d = T a)
    (hM : ∀ g a, Rel st g a → ∀ x ∈ T g, x ∈ T a)
    (hN : ∀ k, dequeOf st k = none → T k = match parentOf st k with
      | some p => T p
      | none => []) :
    ∀ (k : Nat), dequeOf st k = none → pull st [] (ancestorsOf st k) = T k := by
  intro k
  induction k using Nat.strongRecOn with
  | _ k ih =>
    intro hk
    rw [ancestorsOf_eq st hw k, hN k hk]
    cases hp : parentOf st k with
    | none => rfl
    | some p =>
      have hpk : (p : Nat) < (k : Nat) := hw k p hp
      simp only [pull, List.foldl_cons]
      cases hd : dequeOf st p with
      | none =>
        simp only
        exact ih p hpk hd
      | some d =>
        simp only
        have hdT := hT p d hd
        have : d.filter (fun x => !([] : List Lsn).contains x) = d := by
          rw [List.filter_eq_self]; intro x _; simp
        rw [this, List.nil_append]
        have := pull_absorb st (ancestorsOf st p) d (by
          intro g hg dg hdg x hx
          rw [hdT]
          rw [hT g dg hdg] at hx
          exact hM g p (Or.inr hg) x hx)
        unfold pull at this
        rw [this, hdT]


/-! ### frame facts for deque updates -/

theorem dequeOf_setDeque (st : St) (k j : Cls) (d : List Lsn) :
    dequeOf (setDeque st k d) j =
      if k = j ∧ k < st.clslevel.length then some d else dequeOf st j := by
  unfold dequeOf setDeque
  by_cases h : k = j
  · subst h
    by_cases h2 : k < st.clslevel.length
    · simp [h2]
    · simp [h2]
  · simp [h, List.getD_eq_getElem?_getD, List.getElem?_set_ne h]

theorem WFTree_congr {st st' : St} (h : st'.parent = st.parent) (hw : WFTree st) : WFTree st' := by
  intro k p hp
  apply hw k p
  unfold parentOf at *
  rw [← h]; exact hp

theorem pull_congr {st st' : St} (as : List Cls) (h : ∀ a ∈ as, dequeOf st' a = dequeOf st a) :
    ∀ acc, pull st' acc as = pull st acc as := by
  induction as with
  | nil => intro acc; rfl
  | cons a t ih =>
    intro acc
    simp only [pull, List.foldl_cons]
    rw [h a (by simp)]
    exact ih (fun a' ha' => h a' (by simp [ha'])) _

theorem ancestorsOf_congr {st st' : St} (h : st'.parent = st.parent) (k : Cls) :
    ancestorsOf st' k = ancestorsOf st k := by
  unfold ancestorsOf; rw [ancestors_congr h]

/-- no live registration targets class `k` -/
def NoTarget (st : St) (k : Cls) : Prop := ∀ e ∈ st.reg, e.target ≠ Target.cls k

theorem noTarget_of_absent {st : St} (ht : TargetsPresent st) {k : Cls} (hk : dequeOf st k = none) :
    NoTarget st k := by
  intro e he hc
  have := ht e he k hc
  rw [hk] at this; cases this

/-- (N) restated: a class no registration targets has its parent's list -/
theorem specDeque_noTarget (st : St) (hw : WFTree st) {k : Nat} (hk : NoTarget st k) :
    specDeque st k = match parentOf st k with
      | some p => specDeque st p
      | none => [] := by
  unfold specDeque relevant
  cases hp : parentOf st k with
  | none =>
    simp only
    have : st.reg.filter (isClsRel st k) = [] := by
      rw [List.filter_eq_nil_iff]
      intro e he hrel
      have hm : e ∈ relevant st k := List.mem_filter.2 ⟨he, hrel⟩
      obtain ⟨_, c, hc, hr⟩ := mem_relevant.1 hm
      have := (rel_root st hw hp).1 hr
      subst this
      exact hk e he hc
    rw [this]; rfl
  | some p =>
    simp only
    congr 1
    apply List.filter_congr
    intro e he
    unfold isClsRel
    cases hc : e.target with
    | inst i => rfl
    | cls c =>
      simp only
      rw [Bool.eq_iff_iff, descOrSelf_iff, descOrSelf_iff, rel_parent st hw hp]
      constructor
      · rintro (h | h)
        · subst h; exact absurd hc (hk e he)
        · exact h
      · exact Or.inr

/-- adding the registration `e` (target: class `c`) to the registry -/
def addReg (st : St) (e : RegEntry) : St := { st with reg := st.reg ++ [e] }

theorem specDeque_addReg (st : St) (e : RegEntry) (c : Cls) (hc : e.target = Target.cls c) (k : Cls) :
    specDeque (addReg st e) k =
      if Rel st c k then (if e.ins then e.lsn :: specDeque st k else specDeque st k ++ [e.lsn])
      else specDeque st k := by
  have hcg : isClsRel (addReg st e) k = isClsRel st k := isClsRel_congr (st := st) (st' := addReg st e) rfl k
  unfold specDeque relevant
  rw [hcg]
  simp only [addReg, List.filter_append]
  have he : isClsRel st k e = decide (Rel st c k) := by
    unfold isClsRel
    rw [hc]
    simp only
    rw [Bool.eq_iff_iff, descOrSelf_iff]
    simp
  by_cases hr : Rel st c k
  · rw [if_pos hr]
    have : [e].filter (isClsRel st k) = [e] := by simp [he, hr]
    rw [this, orderOf_append_single]
  · rw [if_neg hr]
    have : [e].filter (isClsRel st k) = [] := by simp [he, hr]
    rw [this, List.append_nil]

theorem specDeque_sub_addReg (st : St) (e : RegEntry) (c : Cls) (hc : e.target = Target.cls c) (k : Cls) :
    ∀ x ∈ specDeque st k, x ∈ specDeque (addReg st e) k := by
  intro x hx
  rw [specDeque_addReg st e c hc k]
  split
  · split
    · exact List.mem_cons_of_mem _ hx
    · exact List.mem_append_left _ hx
  · exact hx

end SaVerif.Event
