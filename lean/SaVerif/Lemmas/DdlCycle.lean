import SaVerif.Lemmas.Ddl
import SaVerif.Lemmas.TopoCycles
/-! A non-empty parent-closed set of nodes contains a node on a cycle (pigeonhole);
    `OnCycle` / `Reach` are C19's (Lemmas/TopoCycles.lean). -/
namespace SaVerif.Ddl
open SaVerif.Topo

/-- a path of at least one edge from `a` to `b` (so `Reach1 ts x x` is C19's `OnCycle ts x`) -/
def Reach1 (ts : List Edge) (a b : Nat) : Prop := ∃ z, (a, z) ∈ ts ∧ Reach ts z b

theorem Reach1.tail {ts : List Edge} {a b c : Nat} (r : Reach1 ts a b) (e : (b, c) ∈ ts) : Reach1 ts a c := by
  obtain ⟨z, hz, hr⟩ := r
  exact ⟨z, hz, hr.tail e⟩

theorem Reach1.step {ts : List Edge} {a b : Nat} (e : (a, b) ∈ ts) : Reach1 ts a b :=
  ⟨b, e, .refl b⟩

/-- some parent of `n` inside `S` -/
def parentIn (ts : List Edge) (S : List Nat) (n : Nat) : Nat :=
  (S.find? (fun p => ts.contains (p, n))).getD n

theorem parentIn_spec {ts : List Edge} {S : List Nat} {n : Nat}
    (h : ∃ p ∈ S, (p, n) ∈ ts) : parentIn ts S n ∈ S ∧ (parentIn ts S n, n) ∈ ts := by
  unfold parentIn
  cases hf : S.find? (fun p => ts.contains (p, n)) with
  | none =>
    obtain ⟨p, hp, he⟩ := h
    rw [List.find?_eq_none] at hf
    exact absurd (by simpa using he) (hf p hp)
  | some q =>
    have h1 := List.mem_of_find?_eq_some hf
    have h2 := List.find?_some hf
    exact ⟨h1, by simpa using h2⟩

/-- walk backwards along parents: `n, parent n, parent (parent n), …` (k+1 nodes) -/
def chain (ts : List Edge) (S : List Nat) : Nat → Nat → List Nat
  | n, 0 => [n]
  | n, k + 1 => n :: chain ts S (parentIn ts S n) k

theorem chain_length (ts : List Edge) (S : List Nat) (n k : Nat) : (chain ts S n k).length = k + 1 := by
  induction k generalizing n with
  | zero => rfl
  | succ k ih => simp [chain, ih]

theorem chain_mem {ts : List Edge} {S : List Nat} (hS : ∀ n ∈ S, ∃ p ∈ S, (p, n) ∈ ts) :
    ∀ (k n : Nat), n ∈ S → ∀ y ∈ chain ts S n k, y ∈ S := by
  intro k
  induction k with
  | zero => intro n hn y hy; simp [chain] at hy; exact hy ▸ hn
  | succ k ih =>
    intro n hn y hy
    simp only [chain, List.mem_cons] at hy
    rcases hy with rfl | hy
    · exact hn
    · exact ih _ (parentIn_spec (hS n hn)).1 y hy

/-- every node further down the chain reaches the start -/
theorem chain_reach {ts : List Edge} {S : List Nat} (hS : ∀ n ∈ S, ∃ p ∈ S, (p, n) ∈ ts) :
    ∀ (k n : Nat), n ∈ S → ∀ y ∈ chain ts S (parentIn ts S n) k, Reach1 ts y n := by
  intro k
  induction k with
  | zero =>
    intro n hn y hy
    simp [chain] at hy
    exact hy ▸ Reach1.step (parentIn_spec (hS n hn)).2
  | succ k ih =>
    intro n hn y hy
    have hp := parentIn_spec (hS n hn)
    simp only [chain, List.mem_cons] at hy
    rcases hy with rfl | hy
    · exact Reach1.step hp.2
    · exact (ih _ hp.1 y hy).tail hp.2

theorem chain_dup_cycle {ts : List Edge} {S : List Nat} (hS : ∀ n ∈ S, ∃ p ∈ S, (p, n) ∈ ts) :
    ∀ (k n : Nat), n ∈ S → ¬ (chain ts S n k).Nodup → ∃ x ∈ S, OnCycle ts x := by
  intro k
  induction k with
  | zero => intro n _ h; exact absurd (by simp [chain]) h
  | succ k ih =>
    intro n hn h
    simp only [chain, List.nodup_cons] at h
    by_cases hm : n ∈ chain ts S (parentIn ts S n) k
    · exact ⟨n, hn, chain_reach hS k n hn n hm⟩
    · exact ih _ (parentIn_spec (hS n hn)).1 (fun hnd => h ⟨hm, hnd⟩)

/-- **pigeonhole**: a non-empty set in which every node has a parent in the set contains a
    node on a cycle -/
theorem closed_set_has_cycle {ts : List Edge} {S : List Nat} (hne : S ≠ [])
    (hS : ∀ n ∈ S, ∃ p ∈ S, (p, n) ∈ ts) : ∃ x ∈ S, OnCycle ts x := by
  cases S with
  | nil => exact absurd rfl hne
  | cons a rest =>
    have ha : a ∈ a :: rest := List.mem_cons_self
    apply chain_dup_cycle hS (a :: rest).length a ha
    intro hnd
    have hsub : ∀ y ∈ chain ts (a :: rest) a (a :: rest).length, y ∈ a :: rest :=
      chain_mem hS _ a ha
    have := hnd.length_le_of_subset hsub
    rw [chain_length] at this
    omega

end SaVerif.Ddl
