import SaVerif.Drv.Topo
/-!
Line-protocol driver: `driver` reads requests from stdin, one per line, and
writes one response line per request.  First token selects the model.
Only the I/O loop is `partial`; every model function is total.
-/
open SaVerif.Drv

def dispatch (line : String) : String :=
  match (line.trimAscii.toString.splitOn " ") with
  | "topo" :: rest => Topo.handle rest
  | _ => "bad-model"

partial def loop (h : IO.FS.Stream) (out : IO.FS.Stream) : IO Unit := do
  let line ← h.getLine
  if line.isEmpty then return ()
  out.putStrLn (dispatch line)
  loop h out

def main : IO Unit := do
  let out ← IO.getStdout
  loop (← IO.getStdin) out
  out.flush
