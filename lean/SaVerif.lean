import SaVerif.Model.Topo
