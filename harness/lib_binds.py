"""Shared helpers of the M-BIND properties (C04, C16, C02, C17, C03).

* a small JSON statement-spec language + random generator (`gen_stmt_spec`) and
  builder (`build_stmt`) — a case is replayable from its spec alone
* SQLite engines for all six paramstyles (format / pyformat through a DBAPI-side
  emulation of client-side `%` formatting), fixture schema + data
* compile-only engines over the real dialect classes with a recording fake DBAPI
* token helpers for the driver line protocol

Never imported at harness start-up before source mode is installed: sqlalchemy is
imported inside functions only.
"""
import re

# --------------------------------------------------------------------------- values
X_VALUES = [1000 + 83 * i for i in range(12)]  # t.x
Y_VALUES = [2000 + (i % 4) * 5 for i in range(12)]  # t.y (4 groups)
S_VALUES = ["v%d" % (3000 + 7 * i) for i in range(12)]  # t.s
U_ROWS = [(i + 1, (i % 12) + 1, 1000 + 83 * ((i * 5) % 12)) for i in range(9)]  # u(id, tid, v)

ESC_COLS = ["my col", "a.b", "pct%", "br[0]", "c:d", "(p)"]
WEIRD_NAMES = ["a.b", "p%q", "x[1]", "m n", "c:d", "(z)", "k.l.m", "q]", "%(w)s", "sp ace.dot"]
PLAIN_NAMES = ["alpha", "beta", "g1", "Delta", "eps_0", "z9"]


def lit(v):
    """canonical token of a delivered / literal value (ints and simple strings)"""
    if isinstance(v, bool):
        return str(int(v))
    if isinstance(v, int):
        return str(v)
    if isinstance(v, str):
        return "'" + v.replace("'", "''") + "'"
    if v is None:
        return "NULL"
    if isinstance(v, (list, tuple)):
        return "(" + ", ".join(lit(x) for x in v) + ")"
    return repr(v)


# --------------------------------------------------------------------------- spec generator
class Alloc:
    """hands out values that are unique within one statement"""

    def __init__(self, rng):
        self.rng = rng
        self.used = set()
        self.names = set()
        self.n_anon = 0

    def int_near_x(self):
        for _ in range(200):
            v = self.rng.choice(X_VALUES) + self.rng.choice([0, 0, 1, -1, 40, -40])
            if v not in self.used:
                self.used.add(v)
                return v
        return self.fresh_int()

    def data_x(self):
        c = [v for v in X_VALUES if v not in self.used]
        if not c:
            return self.fresh_int()
        v = self.rng.choice(c)
        self.used.add(v)
        return v

    def fresh_int(self):
        while True:
            v = self.rng.randint(4000, 8999)
            if v not in self.used:
                self.used.add(v)
                return v

    def small(self):
        c = [v for v in range(2, 10) if v not in self.used]
        if not c:
            return None
        v = self.rng.choice(c)
        self.used.add(v)
        return v

    def strval(self, data=False):
        if data:
            c = [v for v in S_VALUES if v not in self.used]
            if c:
                v = self.rng.choice(c)
                self.used.add(v)
                return v
        while True:
            v = "w%d" % self.rng.randint(9000, 9999)
            if v not in self.used:
                self.used.add(v)
                return v

    def name(self, weird_p):
        pool = WEIRD_NAMES if self.rng.random() < weird_p else PLAIN_NAMES
        c = [n for n in pool if n not in self.names]
        if not c:
            return None
        n = self.rng.choice(c)
        self.names.add(n)
        return n


def gen_bind(rng, al, cfg, kind="x", raw_ok=False):
    """a scalar bind spec: ["bind", name|None, value, flags]"""
    cfg = dict(cfg, _raw_ok=raw_ok)
    if kind == "x":
        v = al.int_near_x()
    elif kind == "s":
        v = al.strval(data=rng.random() < 0.6)
    else:
        v = al.fresh_int()
    name = None
    r = rng.random()
    if r < cfg.get("named_p", 0.35):
        name = al.name(cfg.get("weird_p", 0.5))
    flags = {}
    if rng.random() < cfg.get("le_p", 0.12):
        flags["le"] = True
    if name is None and rng.random() < 0.3:
        return ["lit", v]  # literal(): anonymous bind
    if name is None and not flags and cfg.get("_raw_ok") and rng.random() < 0.5:
        return ["val", v]  # plain Python value next to a column: anonymous bind named after the column
    return ["bind", name, v, flags]


def gen_scalar(rng, al, cfg, depth=0, tab="t"):
    """integer-valued expression"""
    r = rng.random()
    if depth >= 2 or r < 0.3:
        return ["col", tab, rng.choice(["x", "y", "id"] if tab == "t" else ["v", "tid", "id"])]
    if r < 0.55:
        return ["op", rng.choice(["+", "-", "+", "%"]), gen_scalar(rng, al, cfg, depth + 1, tab), gen_bind(rng, al, cfg, "i", raw_ok=True)]
    if r < 0.7:
        return ["case", gen_pred(rng, al, cfg, depth + 1, tab), gen_bind(rng, al, cfg, "i"), gen_bind(rng, al, cfg, "i")]
    if r < 0.8:
        return ["func", "coalesce", ["col", tab, "y" if tab == "t" else "v"], gen_bind(rng, al, cfg, "i")]
    if r < 0.88 and cfg.get("shared") and tab == "t":
        return ["op", "+", ["col", tab, "x"], ["reuse", rng.randrange(len(cfg["shared"]))]]
    return ["op", "*", ["col", tab, "id"], gen_bind(rng, al, cfg, "i")]


def gen_in(rng, al, cfg, tab="t"):
    col = ["col", tab, "x" if tab == "t" else "v"]
    n = rng.choice([0, 1, 2, 3, 5]) if rng.random() < 0.9 else rng.randint(6, 14)
    vals = [al.data_x() if rng.random() < 0.7 else al.int_near_x() for _ in range(n)]
    flags = {}
    if rng.random() < 0.25:
        flags["not"] = True
    if rng.random() < cfg.get("le_p", 0.12):
        flags["le"] = True
    if rng.random() < 0.35:
        nm = al.name(cfg.get("weird_p", 0.5))
        if nm:
            flags["name"] = nm
    return ["in", col, vals, flags]


def gen_pred(rng, al, cfg, depth=0, tab="t"):
    r = rng.random()
    xcol = ["col", tab, "x" if tab == "t" else "v"]
    if depth >= 2 or r < 0.3:
        return ["cmp", rng.choice([">", "<", ">=", "<=", "!=", "="]), xcol, gen_bind(rng, al, cfg, "x", raw_ok=True)]
    if r < 0.45:
        return gen_in(rng, al, cfg, tab)
    if r < 0.55:
        a, b = al.int_near_x(), al.int_near_x()
        lo, hi = min(a, b), max(a, b)
        return ["between", xcol, ["bind", None, lo, {}], ["bind", None, hi, {}]]
    if r < 0.65 and tab == "t":
        if rng.random() < 0.5:
            return ["cmp", rng.choice(["=", "!=", ">"]), ["col", "t", "s"], gen_bind(rng, al, cfg, "s", raw_ok=True)]
        n = rng.choice([1, 2, 3])
        flags = {"lower": True} if rng.random() < cfg.get("wrap_p", 0.3) else {}
        return ["in", ["col", "t", "s"], [al.strval(data=True) for _ in range(n)], flags]
    if r < 0.8:
        return [rng.choice(["and", "or"]), gen_pred(rng, al, cfg, depth + 1, tab), gen_pred(rng, al, cfg, depth + 1, tab)]
    if r < 0.86 and tab == "t" and depth == 0:
        return ["exists", {"where": ["and", ["cmp", "=", ["col", "u2", "tid"], ["col", "t", "id"]], gen_pred(rng, al, cfg, 2, "u2")]}]
    if r < 0.92 and tab == "t" and depth == 0:
        return ["insub", ["col", "t", "id"], {"col": "tid", "where": gen_pred(rng, al, cfg, 2, "u2")}]
    if r < 0.96 and tab == "t":
        v = al.int_near_x()
        return ["text", "t.x > :tb%d" % v, {"tb%d" % v: v}]
    return ["cmp", ">", gen_scalar(rng, al, cfg, depth + 1, tab), gen_bind(rng, al, cfg, "i")]


def gen_select(rng, al, cfg):
    sp = {"kind": "select"}
    ncols = rng.randint(1, 3)
    sp["cols"] = [["col", "t", "id"]] + [gen_scalar(rng, al, cfg) for _ in range(ncols)]
    if rng.random() < 0.25:
        sp["cols"].append(["colstr", gen_bind(rng, al, cfg, "s")])
    if rng.random() < 0.85:
        sp["where"] = gen_pred(rng, al, cfg)
    r = rng.random()
    if r < 0.2:
        sp["cte"] = {"col": gen_scalar(rng, al, cfg, 1), "where": gen_pred(rng, al, cfg, 1)}
    elif r < 0.35:
        sp["subq"] = {"col": gen_scalar(rng, al, cfg, 1), "where": gen_pred(rng, al, cfg, 1)}
    elif r < 0.45:
        sp["join_u"] = gen_pred(rng, al, cfg, 2, "u")
    if rng.random() < 0.2:
        sp["scalar_sub"] = {"where": gen_pred(rng, al, cfg, 2, "u2")}
    if rng.random() < 0.35:
        sp["order"] = [gen_scalar(rng, al, cfg, 1)]
    if rng.random() < 0.4:
        v = al.small()
        if v is not None:
            sp["limit"] = v
            if rng.random() < 0.5:
                o = al.small()
                if o is not None:
                    sp["offset"] = o
    return sp


def gen_group(rng, al, cfg):
    return {
        "kind": "group",
        "where": gen_pred(rng, al, cfg) if rng.random() < 0.7 else None,
        "agg": gen_scalar(rng, al, cfg, 1),
        "having": gen_bind(rng, al, cfg, "i"),
        "having_v": rng.choice([0, 1, 2, 3]),
        "order": gen_bind(rng, al, cfg, "i") if rng.random() < 0.5 else None,
    }


def gen_stmt_spec(rng, cfg=None, kinds=None):
    """random statement spec; every bound value is unique within the statement"""
    cfg = dict(cfg or {})
    al = Alloc(rng)
    shared = []
    if rng.random() < 0.3:
        for _ in range(rng.randint(1, 2)):
            nm = al.name(cfg.get("weird_p", 0.5))
            if nm:
                shared.append([nm, al.fresh_int()])
    cfg["shared"] = shared
    kinds = kinds or ["select"] * 10 + ["group"] * 2 + ["union"] * 2 + ["insert"] * 3 + ["update"] * 3 + ["delete"] * 2 + ["insertmany"] * 2 + ["insertmany_esc"] * 2 + ["insert_select"]
    k = rng.choice(kinds)
    if k == "select":
        sp = gen_select(rng, al, cfg)
    elif k == "group":
        sp = gen_group(rng, al, cfg)
    elif k == "union":
        a = gen_select(rng, al, cfg)
        b = gen_select(rng, al, cfg)
        for s in (a, b):
            s["cols"] = s["cols"][:2] if len(s["cols"]) >= 2 else s["cols"] + [["col", "t", "x"]]
            s["cols"] = [c if c[0] != "colstr" else ["col", "t", "x"] for c in s["cols"]]
            for key in ("limit", "offset", "order", "cte", "subq", "join_u", "scalar_sub"):
                s.pop(key, None)
        sp = {"kind": "union", "a": a, "b": b, "all": rng.random() < 0.5}
        v = al.small() if rng.random() < 0.4 else None
        if v is not None:
            sp["limit"] = v
    elif k == "insert":
        sp = {
            "kind": "insert",
            "id": 100 + rng.randint(0, 50),
            "x": gen_bind(rng, al, cfg, "i") if rng.random() < 0.6 else ["op", "+", gen_bind(rng, al, cfg, "i"), gen_bind(rng, al, cfg, "i")],
            "y": gen_bind(rng, al, cfg, "i") if rng.random() < 0.7 else None,
            "s": gen_bind(rng, al, cfg, "s") if rng.random() < 0.7 else None,
            "returning": [["col", "t", "id"], gen_scalar(rng, al, cfg, 1)] if rng.random() < 0.5 else None,
        }
    elif k == "insertmany":
        n = rng.randint(2, 5)
        rows = []
        base = 200 + rng.randint(0, 50)
        for i in range(n):
            rows.append({"id": base + i, "bx": al.fresh_int(), "by": al.fresh_int()})
        sp = {
            "kind": "insertmany",
            "rows": rows,
            "extra": al.fresh_int() if rng.random() < 0.6 else None,  # non-VALUES-row bind in an expression
            "sval": al.strval() if rng.random() < 0.5 else None,
            "returning": rng.random() < 0.6,
            "ret_bind": al.fresh_int() if rng.random() < 0.5 else None,
        }
    elif k == "insertmany_esc":
        cols = [c for c in ESC_COLS if rng.random() < 0.6] or [rng.choice(ESC_COLS)]
        if rng.random() < 0.5:
            cols.append("plain")
        n = rng.randint(2, 7)
        base = 300 + rng.randint(0, 50)
        sp = {
            "kind": "insertmany_esc",
            "cols": cols,
            "rows": [dict({"id": base + i}, **{c: al.fresh_int() for c in cols}) for i in range(n)],
            "returning": rng.random() < 0.7,
            "page": rng.choice([None, None, 1, 2, 3]),
            "single": rng.random() < 0.15,
        }
    elif k == "insert_select":
        sp = {"kind": "insert_select", "off": al.fresh_int(), "where": gen_pred(rng, al, cfg), "add": gen_bind(rng, al, cfg, "i")}
    elif k == "update":
        sp = {
            "kind": "update",
            "where": gen_pred(rng, al, cfg),
            "y": gen_scalar(rng, al, cfg, 1),
            "s": gen_bind(rng, al, cfg, "s") if rng.random() < 0.5 else None,
            "returning": [["col", "t", "id"], gen_scalar(rng, al, cfg, 1)] if rng.random() < 0.5 else None,
        }
    else:
        sp = {"kind": "delete", "where": gen_pred(rng, al, cfg), "returning": [["col", "t", "id"], gen_scalar(rng, al, cfg, 1)] if rng.random() < 0.5 else None}
    sp["shared"] = shared
    return sp


def gen_orm_spec(rng, cfg=None):
    cfg = dict(cfg or {})
    al = Alloc(rng)
    cfg["shared"] = []
    sp = {
        "kind": "orm",
        "where": gen_pred(rng, al, cfg) if rng.random() < 0.8 else None,
        "load": rng.choice(["none", "selectin", "joined", "subquery", "lazy", "selectin_crit", "joined_crit", "load_only", "wlc"]),
        "crit": al.int_near_x(),
        "limit": al.small() if rng.random() < 0.3 else None,
        "shared": [],
    }
    return sp


def gen_poly_spec(rng):
    return {
        "kind": "orm_poly",
        "opt": rng.choice(["machines_crit", "machines_power", "with_expr", "both", "explicit_poly", "explicit_poly_expr", "none"]),
        "mname": "m%d" % rng.randint(0, 2),
        "n": rng.randint(1, 50),
        "minid": rng.randint(0, 4),
        "shared": [],
    }


def reroll_spec(sp, rng):
    """same structure, new bound values (IN lists may change length)"""
    import copy

    sp = copy.deepcopy(sp)

    def newv(v):
        if isinstance(v, bool):
            return v
        if isinstance(v, int):
            if v < 20:
                return rng.randint(2, 9)
            if v < 3000:
                return rng.choice(X_VALUES) + rng.choice([0, 1, -1, 40, -40, 83])
            return rng.randint(4000, 8999)
        if isinstance(v, str):
            return rng.choice(S_VALUES) if rng.random() < 0.6 else "w%d" % rng.randint(9000, 9999)
        return v

    def walk(o):
        if isinstance(o, list):
            if o and o[0] == "bind":
                o[2] = newv(o[2])
                return
            if o and o[0] in ("lit", "val"):
                o[1] = newv(o[1])
                return
            if o and o[0] == "in" and isinstance(o[-1], dict):
                walk(o[1])
                proto = o[2][0] if o[2] else 1000
                n = rng.choice([0, 1, 2, 3, 5])
                o[2] = [newv(proto) for _ in range(n)]
                return
            if o and o[0] == "text":
                nm = list(o[2])[0]
                o[2][nm] = newv(o[2][nm])
                return
            for x in o:
                walk(x)
        elif isinstance(o, dict):
            for k, v in list(o.items()):
                if k in ("n", "minid") and isinstance(v, int):
                    o[k] = rng.randint(1, 50) if k == "n" else rng.randint(0, 4)
                elif k == "mname":
                    o[k] = "m%d" % rng.randint(0, 2)
                elif k in ("limit", "offset", "crit", "extra", "ret_bind", "off") and isinstance(v, int):
                    o[k] = newv(v)
                elif k == "sval" and isinstance(v, str):
                    o[k] = newv(v)
                elif k == "rows":
                    for r in v:
                        for kk in r:
                            if kk != "id":
                                r[kk] = rng.randint(4000, 8999)
                elif k == "shared":
                    for it in v:
                        it[1] = rng.randint(4000, 8999)
                else:
                    walk(v)

    walk(sp)
    return sp


# --------------------------------------------------------------------------- builder
class Fixture:
    """tables + a TypeDecorator with a bind_expression (lower())"""

    def __init__(self):
        import sqlalchemy as sa
        from sqlalchemy.types import TypeDecorator

        class LowerStr(TypeDecorator):
            impl = sa.String
            cache_ok = True

            def bind_expression(self, bindvalue):
                return sa.func.lower(bindvalue)

        self.LowerStr = LowerStr
        self.md = sa.MetaData()
        self.t = sa.Table(
            "t",
            self.md,
            sa.Column("id", sa.Integer, primary_key=True),
            sa.Column("x", sa.Integer),
            sa.Column("y", sa.Integer),
            sa.Column("s", sa.String(20)),
        )
        self.u = sa.Table(
            "u",
            self.md,
            sa.Column("id", sa.Integer, primary_key=True),
            sa.Column("tid", sa.Integer),
            sa.Column("v", sa.Integer),
        )
        # joined-table inheritance (selectin polymorphic loading + loader options with literals)
        self.emp = sa.Table("emp", self.md, sa.Column("id", sa.Integer, primary_key=True), sa.Column("type", sa.String(20)), sa.Column("name", sa.String(20)), sa.Column("level", sa.Integer))
        self.eng = sa.Table("eng", self.md, sa.Column("id", sa.Integer, sa.ForeignKey("emp.id"), primary_key=True), sa.Column("lang", sa.String(20)))
        self.mgr = sa.Table("mgr", self.md, sa.Column("id", sa.Integer, sa.ForeignKey("emp.id"), primary_key=True), sa.Column("budget", sa.Integer))
        self.machine = sa.Table("machine", self.md, sa.Column("id", sa.Integer, primary_key=True), sa.Column("eng_id", sa.Integer), sa.Column("name", sa.String(20)), sa.Column("power", sa.Integer))
        # columns whose bind names need escaping (executemany / insertmanyvalues paths)
        self.wt = sa.Table(
            "wt",
            self.md,
            sa.Column("id", sa.Integer, primary_key=True),
            *[sa.Column(n, sa.Integer) for n in ESC_COLS],
            sa.Column("plain", sa.Integer),
        )

    def mapped(self):
        """imperatively mapped classes T (t) and U (u) with T.us / U.t"""
        if getattr(self, "_mapped", None):
            return self._mapped
        import sqlalchemy as sa
        from sqlalchemy import orm

        reg = orm.registry()

        class T:
            pass

        class U:
            pass

        reg.map_imperatively(U, self.u)
        reg.map_imperatively(
            T,
            self.t,
            properties={
                "us": orm.relationship(
                    U,
                    primaryjoin=self.t.c.id == orm.foreign(self.u.c.tid),
                    order_by=self.u.c.id,
                    backref="t",
                    viewonly=True,
                )
            },
        )
        self._mapped = (T, U)
        return self._mapped

    def mapped_poly(self):
        """Employee / Engineer(polymorphic_load=selectin) / Manager, Engineer.machines, Engineer.bonus"""
        if getattr(self, "_poly", None):
            return self._poly
        from sqlalchemy import orm

        reg = orm.registry()

        class Employee:
            pass

        class Engineer(Employee):
            pass

        class Manager(Employee):
            pass

        class Machine:
            pass

        reg.map_imperatively(Machine, self.machine)
        reg.map_imperatively(Employee, self.emp, polymorphic_on=self.emp.c.type, polymorphic_identity="employee")
        reg.map_imperatively(
            Engineer,
            self.eng,
            inherits=Employee,
            polymorphic_identity="engineer",
            polymorphic_load="selectin",
            properties={
                "machines": orm.relationship(Machine, primaryjoin=self.eng.c.id == orm.foreign(self.machine.c.eng_id), order_by=self.machine.c.id, viewonly=True),
                "bonus": orm.query_expression(),
            },
        )
        reg.map_imperatively(Manager, self.mgr, inherits=Employee, polymorphic_identity="manager", polymorphic_load="selectin")
        self._poly = (Employee, Engineer, Manager, Machine)
        return self._poly

    def populate(self, conn):
        self.md.create_all(conn)
        conn.execute(self.emp.insert(), [{"id": i, "type": ["engineer", "manager", "engineer", "employee"][i % 4], "name": "e%d" % i, "level": 10 * i} for i in range(1, 9)])
        conn.execute(self.eng.insert(), [{"id": i, "lang": "l%d" % i} for i in range(1, 9) if i % 4 in (0, 2)])
        conn.execute(self.mgr.insert(), [{"id": i, "budget": 100 * i} for i in range(1, 9) if i % 4 == 1])
        conn.execute(self.machine.insert(), [{"id": k, "eng_id": [2, 4, 6, 8][k % 4], "name": "m%d" % (k % 3), "power": 5 * k} for k in range(1, 13)])
        conn.execute(self.t.insert(), [{"id": i + 1, "x": X_VALUES[i], "y": Y_VALUES[i], "s": S_VALUES[i]} for i in range(12)])
        conn.execute(self.u.insert(), [{"id": a, "tid": b, "v": c} for a, b, c in U_ROWS])


def build_stmt(fx, sp):
    """spec -> (statement, params) ; params is None, a dict or a list of dicts"""
    import sqlalchemy as sa

    t, u = fx.t, fx.u
    shared = [sa.bindparam(n, v) for n, v in sp.get("shared", [])]

    u2 = u.alias("u2")

    def tab(n):
        return t if n == "t" else (u2 if n == "u2" else u)

    def ex(e):
        k = e[0]
        if k == "col":
            return tab(e[1]).c[e[2]]
        if k == "lit":
            return sa.literal(e[1])
        if k == "val":
            return e[1]
        if k == "bind":
            _, name, v, flags = e
            kw = {}
            if flags.get("le"):
                kw["literal_execute"] = True
            if name is None:
                return sa.bindparam(None, v, **kw)
            return sa.bindparam(name, v, **kw)
        if k == "reuse":
            return shared[e[1]]
        if k == "op":
            a, b = ex(e[2]), ex(e[3])
            return {"+": a + b, "-": a - b, "*": a * b, "%": a % b}[e[1]]
        if k == "cmp":
            a, b = ex(e[2]), ex(e[3])
            return {">": a > b, "<": a < b, ">=": a >= b, "<=": a <= b, "!=": a != b, "=": a == b}[e[1]]
        if k == "between":
            return ex(e[1]).between(ex(e[2]), ex(e[3]))
        if k == "in":
            col, vals, flags = ex(e[1]), e[2], e[3]
            if flags.get("name") or flags.get("le") or flags.get("lower"):
                kw = {"expanding": True}
                if flags.get("le"):
                    kw["literal_execute"] = True
                if flags.get("lower"):
                    kw["type_"] = fx.LowerStr()
                rhs = sa.bindparam(flags.get("name"), list(vals), **kw)
                r = col.in_(rhs)
                return ~r if flags.get("not") else r
            return col.not_in(vals) if flags.get("not") else col.in_(vals)
        if k == "case":
            return sa.case((ex(e[1]), ex(e[2])), else_=ex(e[3]))
        if k == "func":
            return getattr(sa.func, e[1])(*[ex(a) for a in e[2:]])
        if k in ("and", "or"):
            return (sa.and_ if k == "and" else sa.or_)(*[ex(a) for a in e[1:]])
        if k == "exists":
            return sa.exists().where(ex(e[1]["where"]))
        if k == "insub":
            return ex(e[1]).in_(sa.select(u2.c[e[2]["col"]]).where(ex(e[2]["where"])))
        if k == "text":
            return sa.text(e[1]).bindparams(**e[2])
        if k == "colstr":
            return ex(e[1])
        raise ValueError(k)

    def select_of(s):
        cols = [ex(c).label("c%d" % i) for i, c in enumerate(s["cols"])]
        froms = None
        if "cte" in s:
            c = sa.select(t.c.id.label("cid"), ex(s["cte"]["col"]).label("z")).where(ex(s["cte"]["where"])).cte("c1")
            cols.append(c.c.z.label("cz"))
            froms = t.join(c, c.c.cid == t.c.id)
        elif "subq" in s:
            q = sa.select(t.c.id.label("qid"), ex(s["subq"]["col"]).label("z")).where(ex(s["subq"]["where"])).subquery("q1")
            cols.append(q.c.z.label("qz"))
            froms = t.join(q, q.c.qid == t.c.id)
        elif "join_u" in s:
            froms = t.join(u, sa.and_(u.c.tid == t.c.id, ex(s["join_u"])))
            cols.append(u.c.id.label("uid"))
        if "scalar_sub" in s:
            cols.append(sa.select(sa.func.count(u2.c.id)).where(u2.c.tid == t.c.id).where(ex(s["scalar_sub"]["where"])).scalar_subquery().label("ss"))
        st = sa.select(*cols)
        if froms is not None:
            st = st.select_from(froms)
        if s.get("where") is not None:
            st = st.where(ex(s["where"]))
        order = [ex(o) for o in s.get("order", [])] + [t.c.id]
        if "join_u" in s:
            order.append(u.c.id)
        return st, order

    k = sp["kind"]
    if k == "orm_poly":
        from sqlalchemy import orm

        Employee, Engineer, Manager, Machine = fx.mapped_poly()
        st = sa.select(Employee).where(Employee.id > sp["minid"]).order_by(Employee.id)
        o = sp["opt"]
        if o in ("machines_crit", "both"):
            st = st.options(orm.selectinload(Engineer.machines.and_(Machine.name == sp["mname"])))
        if o == "machines_power":
            st = st.options(orm.selectinload(Engineer.machines.and_(Machine.power > sp["n"])))
        if o in ("with_expr", "both"):
            st = st.options(orm.with_expression(Engineer.bonus, Engineer.level + sp["n"]))
        if o == "explicit_poly":
            st = st.options(orm.selectin_polymorphic(Employee, [Engineer, Manager]), orm.selectinload(Engineer.machines.and_(Machine.name == sp["mname"])))
        if o == "explicit_poly_expr":
            st = st.options(orm.selectin_polymorphic(Employee, [Engineer]), orm.with_expression(Engineer.bonus, Engineer.level * sp["n"]))
        return st, None
    if k == "orm":
        from sqlalchemy import orm

        T, U = fx.mapped()
        st = sa.select(T)
        if sp.get("where") is not None:
            st = st.where(ex(sp["where"]))
        ld = sp["load"]
        if ld == "selectin":
            st = st.options(orm.selectinload(T.us))
        elif ld == "joined":
            st = st.options(orm.joinedload(T.us))
        elif ld == "subquery":
            st = st.options(orm.subqueryload(T.us))
        elif ld == "lazy":
            st = st.options(orm.lazyload(T.us))
        elif ld == "selectin_crit":
            st = st.options(orm.selectinload(T.us.and_(U.v > sp["crit"])))
        elif ld == "joined_crit":
            st = st.options(orm.joinedload(T.us.and_(U.v > sp["crit"])))
        elif ld == "load_only":
            st = st.options(orm.load_only(T.x), orm.selectinload(T.us))
        elif ld == "wlc":
            st = st.options(orm.selectinload(T.us), orm.with_loader_criteria(U, U.v > sp["crit"]))
        st = st.order_by(t.c.id)
        if sp.get("limit") is not None:
            st = st.limit(sp["limit"])
        return st, None
    if k == "select":
        st, order = select_of(sp)
        st = st.order_by(*order)
        if "limit" in sp:
            st = st.limit(sp["limit"])
        if "offset" in sp:
            st = st.offset(sp["offset"])
        return st, None
    if k == "group":
        st = sa.select(t.c.y, sa.func.count(t.c.id).label("n"), sa.func.sum(ex(sp["agg"])).label("sm"))
        if sp.get("where") is not None:
            st = st.where(ex(sp["where"]))
        st = st.group_by(t.c.y).having(sa.func.count(t.c.id) + ex(sp["having"]) > ex(sp["having"]) + sp["having_v"])
        if sp.get("order") is not None:
            st = st.order_by(sa.func.count(t.c.id) * ex(sp["order"]), t.c.y)
        else:
            st = st.order_by(t.c.y)
        return st, None
    if k == "union":
        a, _ = select_of(sp["a"])
        b, _ = select_of(sp["b"])
        st = (sa.union_all if sp["all"] else sa.union)(a, b)
        st = st.order_by(sa.text("1"), sa.text("2"))
        if "limit" in sp:
            st = st.limit(sp["limit"])
        return st, None
    if k == "insert":
        vals = {"id": sp["id"], "x": ex(sp["x"])}
        if sp.get("y") is not None:
            vals["y"] = ex(sp["y"])
        if sp.get("s") is not None:
            vals["s"] = ex(sp["s"])
        st = t.insert().values(**vals)
        if sp.get("returning"):
            st = st.returning(*[ex(c).label("r%d" % i) for i, c in enumerate(sp["returning"])])
        return st, None
    if k == "insertmany":
        vals = {"id": sa.bindparam("id"), "x": sa.bindparam("bx")}
        if sp.get("extra") is not None:
            vals["y"] = sa.bindparam("by") + sa.bindparam("extra_k", sp["extra"])
        else:
            vals["y"] = sa.bindparam("by")
        if sp.get("sval") is not None:
            vals["s"] = sa.bindparam("sv", sp["sval"])
        st = t.insert().values(**vals)
        if sp.get("returning"):
            rc = [t.c.id, t.c.x, t.c.y]
            if sp.get("ret_bind") is not None:
                rc.append((t.c.y + sa.bindparam("rb", sp["ret_bind"])).label("yr"))
            st = st.returning(*rc)
        return st, [dict(r) for r in sp["rows"]]
    if k == "insertmany_esc":
        wt = fx.wt
        st = wt.insert()
        if sp.get("returning"):
            st = st.returning(wt.c.id, *[wt.c[c] for c in sp["cols"]])
        rows = [dict(r) for r in sp["rows"]]
        return st, (rows[0] if sp.get("single") else rows)
    if k == "insert_select":
        sel = sa.select((t.c.id + sp["off"]).label("id"), (t.c.x + ex(sp["add"])).label("x"), t.c.y, t.c.s).where(ex(sp["where"]))
        return t.insert().from_select(["id", "x", "y", "s"], sel), None
    if k == "update":
        vals = {"y": ex(sp["y"])}
        if sp.get("s") is not None:
            vals["s"] = ex(sp["s"])
        st = t.update().where(ex(sp["where"])).values(**vals)
        if sp.get("returning"):
            st = st.returning(*[ex(c).label("r%d" % i) for i, c in enumerate(sp["returning"])])
        return st, None
    if k == "delete":
        st = t.delete().where(ex(sp["where"]))
        if sp.get("returning"):
            st = st.returning(*[ex(c).label("r%d" % i) for i, c in enumerate(sp["returning"])])
        return st, None
    raise ValueError(k)


def spec_features(sp):
    """names / flags occurring in a spec (for classification of known findings)"""
    names, le_names, feats = [], [], set()

    def walk(o):
        if isinstance(o, list):
            if o and o[0] == "bind":
                if o[1] is not None:
                    names.append(o[1])
                    if o[3].get("le"):
                        le_names.append(o[1])
                if o[3].get("le"):
                    feats.add("le")
                return
            if o and o[0] == "in" and isinstance(o[-1], dict):
                f = o[3]
                if f.get("name"):
                    names.append(f["name"])
                    if f.get("le"):
                        le_names.append(f["name"])
                if f.get("le"):
                    feats.add("le-expanding")
                if f.get("lower"):
                    feats.add("wrap")
                if not o[2]:
                    feats.add("empty-in")
                feats.add("in")
                walk(o[1])
                return
            if o and o[0] in ("exists", "insub"):
                feats.add(o[0])
            if o and o[0] == "text":
                feats.add("text")
            if o and o[0] == "reuse":
                feats.add("reuse")
            for x in o:
                walk(x)
        elif isinstance(o, dict):
            for kk, v in o.items():
                if kk in ("cte", "subq", "join_u", "scalar_sub", "limit", "offset", "returning", "order") and v:
                    feats.add(kk)
                walk(v)

    walk(sp)
    for n, _ in sp.get("shared", []):
        names.append(n)
    return names, le_names, feats


ESC_CHARS = {"%": "P", "(": "A", ")": "Z", ":": "C", ".": "_", "[": "_", "]": "_", " ": "_"}


def expected_escape(name):
    return "".join(ESC_CHARS.get(c, c) for c in name)


# --------------------------------------------------------------------------- engines
STYLES = ["qmark", "format", "numeric", "numeric_dollar", "named", "pyformat"]


def _emu_factory(style, log):
    """sqlite3.Connection subclass whose cursors accept `format` / `pyformat`
    statements the way client-side-formatting drivers do (`stmt % params`)."""
    import sqlite3

    class _Rec(dict):
        def __init__(self, src):
            self.src = src
            self.order = []

        def __getitem__(self, k):
            self.order.append(self.src[k])  # KeyError like the real driver
            return "?"

    def conv(sql, params):
        if style == "format":
            params = tuple(params) if params is not None else ()
            return sql % tuple("?" for _ in params), params
        rec = _Rec(dict(params or {}))
        out = sql % rec
        return out, tuple(rec.order)

    class Cur(sqlite3.Cursor):
        def execute(self, sql, parameters=()):
            log.append((sql, parameters))
            q, p = conv(sql, parameters)
            return super().execute(q, p)

        def executemany(self, sql, seq):
            seq = list(seq)
            log.append((sql, seq))
            qs = [conv(sql, p) for p in seq]
            return super().executemany(qs[0][0] if qs else sql, [p for _, p in qs])

    class Conn(sqlite3.Connection):
        def cursor(self, factory=None):
            return super().cursor(factory=Cur if factory is None else factory)

    return Conn


def recording_compiler(base):
    """subclass of a dialect's statement compiler that remembers `self.string`
    as it was before _process_positional / _process_numeric ran"""

    class Rec(base):
        _verif_pre = None

        def _process_positional(self):
            self._verif_pre = self.string
            return super()._process_positional()

        def _process_numeric(self):
            self._verif_pre = self.string
            return super()._process_numeric()

    Rec.__name__ = base.__name__ + "Rec"
    return Rec


def sqlite_engine(style, fx=None, record_pre=True, **kw):
    """an executing SQLite engine of the given paramstyle, with fixture data"""
    import sqlalchemy as sa
    from sqlalchemy.dialects import registry
    from sqlalchemy.pool import StaticPool

    registry.register("sqlite.pysqlite_numeric", "sqlalchemy.dialects.sqlite.pysqlite", "_SQLiteDialect_pysqlite_numeric")
    registry.register("sqlite.pysqlite_dollar", "sqlalchemy.dialects.sqlite.pysqlite", "_SQLiteDialect_pysqlite_dollar")
    log = []
    kw.setdefault("query_cache_size", 0)
    if style == "qmark":
        e = sa.create_engine("sqlite://", poolclass=StaticPool, **kw)
    elif style == "named":
        e = sa.create_engine("sqlite://", paramstyle="named", poolclass=StaticPool, **kw)
    elif style == "numeric":
        e = sa.create_engine("sqlite+pysqlite_numeric://", poolclass=StaticPool, **kw)
    elif style == "numeric_dollar":
        e = sa.create_engine("sqlite+pysqlite_dollar://", poolclass=StaticPool, **kw)
    else:
        e = sa.create_engine("sqlite://", paramstyle=style, poolclass=StaticPool, connect_args={"factory": _emu_factory(style, log)}, **kw)
    assert e.dialect.paramstyle == style, (e.dialect.paramstyle, style)
    if record_pre:
        e.dialect.statement_compiler = recording_compiler(e.dialect.statement_compiler)
    e._verif_log = log
    if fx is not None:
        with e.begin() as c:
            fx.populate(c)
    return e


class FakeCursor:
    description = None
    rowcount = -1
    arraysize = 1
    lastrowid = None

    def __init__(self, conn):
        self.connection = conn

    def execute(self, stmt, params=None, *a, **k):
        self.connection.log.append(("execute", stmt, params))

    def executemany(self, stmt, params=None, *a, **k):
        self.connection.log.append(("executemany", stmt, params))

    def fetchall(self):
        return []

    def fetchone(self):
        return None

    def fetchmany(self, n=None):
        return []

    def close(self):
        pass

    def setinputsizes(self, *a, **k):
        pass

    def nextset(self):
        return None


class FakeConn:
    autocommit = False
    closed = False
    notices = ()

    def __init__(self, log):
        self.log = log

    def cursor(self, *a, **k):
        return FakeCursor(self)

    def commit(self):
        pass

    def rollback(self):
        pass

    def close(self):
        pass

    def __getattr__(self, k):
        raise AttributeError(k)


COMPILE_ONLY_URLS = [
    "postgresql+psycopg2://",
    "postgresql+psycopg://",
    "postgresql+pg8000://",
    "postgresql+asyncpg://",
    "mysql+pymysql://",
    "mysql+mysqldb://",
    "mariadb+mariadbconnector://",
    "mysql+aiomysql://",
    "mysql+asyncmy://",
    "mssql+pyodbc://",
]


def fake_engine(url):
    """real dialect class, recording DBAPI connection; never connects anywhere"""
    import sqlalchemy as sa

    log = []
    e = sa.create_engine(url, creator=lambda: FakeConn(log), _initialize=False, query_cache_size=0)
    e._verif_log = log
    return e


# --------------------------------------------------------------------------- placeholder substitution (independent DBAPI model)
_PH = {
    "qmark": re.compile(r"\?"),
    "format": re.compile(r"%(%|s)"),
    "pyformat": re.compile(r"%(%|\((.*?)\)s)"),
    "named": re.compile(r"(?<![:\w]):(\w+)"),
    "numeric": re.compile(r"(?<![:\w]):(\d+)"),
    "numeric_dollar": re.compile(r"\$(\d+)"),
}


class Misdelivery(Exception):
    pass


def substitute(style, sql, params):
    """what the database would see: every placeholder replaced by the token of
    the value the DBAPI takes for it (the paramstyle definitions of PEP 249)"""
    used = [0]

    def seq():
        i = used[0]
        used[0] += 1
        if i >= len(params):
            raise Misdelivery("more placeholders than parameters (%d)" % len(params))
        return lit(params[i])

    def rep(m):
        if style == "qmark":
            return seq()
        if style == "format":
            return "%" if m.group(1) == "%" else seq()
        if style == "pyformat":
            if m.group(1) == "%":
                return "%"
            if m.group(2) not in params:
                raise Misdelivery("no parameter named %r" % m.group(2))
            return lit(params[m.group(2)])
        if style == "named":
            if m.group(1) not in params:
                raise Misdelivery("no parameter named %r" % m.group(1))
            return lit(params[m.group(1)])
        n = int(m.group(1))
        if not 1 <= n <= len(params):
            raise Misdelivery("placeholder %s out of range (%d parameters)" % (m.group(0), len(params)))
        used[0] = max(used[0], n)
        return lit(params[n - 1])

    out = _PH[style].sub(rep, sql)
    if style in ("qmark", "format") and used[0] != len(params or ()):
        raise Misdelivery("%d placeholders for %d parameters" % (used[0], len(params)))
    return out


_TOK = re.compile(r"N?'(?:[^']|'')*'|(?<![\w.:$@\[])\d+(?![\w.\]])")


def value_tokens(sql, vocab):
    """integer / quoted-string tokens of an SQL text that belong to `vocab`"""
    out = []
    for m in _TOK.finditer(sql):
        tk = m.group(0)
        if tk.startswith("N'"):
            tk = tk[1:]
        if tk in vocab:
            out.append(tk)
    return out
