"""Shared helpers for the DML properties (C12, C13, C56, C18).

* ``make_engine`` builds a SQLite engine whose DBAPI connection/cursor are thin
  subclasses of the stdlib ones that (a) log every executed statement with its
  parameters and (b) pass the rows of every ``INSERT .. RETURNING`` through a hook
  before SQLAlchemy sees them (the "adversarial backend": SQL leaves the order of
  RETURNING rows unspecified, so the harness shuffles them).
* the engine's dialect *instance* gets a recording wrapper around
  ``_deliver_insertmanyvalues_batches`` (nothing in /repo is modified).

Never import sqlalchemy at module import time (run.py installs source mode first).
"""
import sqlite3


class Hub:
    """per-engine recorder / adversary"""

    def __init__(self):
        self.log = []  # (statement, parameters) of every cursor.execute / executemany
        self.imv = []  # one record per insertmanyvalues execution
        self.answers = []  # rows handed to SQLAlchemy per INSERT..RETURNING fetchall
        self.adversary = None  # fn(stmt, rows) -> rows

    def reset(self):
        del self.log[:]
        del self.imv[:]
        del self.answers[:]


def _is_ins_returning(stmt):
    s = stmt.lstrip().upper()
    return (s.startswith("INSERT") or s.startswith("WITH")) and " RETURNING " in s


def _factories(hub, numeric_first_bind):
    def conv(stmt, params):
        if numeric_first_bind and numeric_first_bind in stmt and isinstance(params, tuple) and params:
            return {str(i): v for i, v in enumerate(params, 1)}
        return params

    class Cur(sqlite3.Cursor):
        _verif_stmt = None

        def execute(self, stmt, params=()):
            hub.log.append((stmt, params))
            self._verif_stmt = stmt
            return super().execute(stmt, conv(stmt, params))

        def executemany(self, stmt, params):
            params = list(params)
            hub.log.append((stmt, params))
            self._verif_stmt = None
            return super().executemany(stmt, [conv(stmt, p) for p in params])

        def fetchall(self):
            rows = super().fetchall()
            if self._verif_stmt is not None and _is_ins_returning(self._verif_stmt):
                if hub.adversary is not None:
                    rows = hub.adversary(self._verif_stmt, rows)
                hub.answers.append(list(rows))
            return rows

    class Conn(sqlite3.Connection):
        def cursor(self, factory=None):
            return super().cursor(Cur)

    return Conn


PARAMSTYLES = ("qmark", "numeric", "numeric_dollar", "named")


def make_engine(paramstyle="qmark", **kw):
    """fresh in-memory SQLite engine (one connection, StaticPool) + its Hub"""
    import sqlalchemy as sa
    from sqlalchemy.pool import StaticPool

    hub = Hub()
    first = {"numeric": ":1", "numeric_dollar": "$1"}.get(paramstyle)
    conn_cls = _factories(hub, first)

    def creator():
        return sqlite3.connect(":memory:", factory=conn_cls, check_same_thread=False)

    eng = sa.create_engine("sqlite://", creator=creator, poolclass=StaticPool, paramstyle=paramstyle, **kw)
    d = eng.dialect
    orig = d._deliver_insertmanyvalues_batches

    def recording(connection, cursor, statement, parameters, generic_setinputsizes, context):
        rec = {
            "compiled": context.compiled,
            "parameters": parameters,
            "compiled_parameters": context.compiled_parameters,
            "statement": statement,
            "options": context.execution_options,
            "batches": [],
        }
        hub.imv.append(rec)
        for b in orig(connection, cursor, statement, parameters, generic_setinputsizes, context):
            rec["batches"].append(b)
            yield b

    d._deliver_insertmanyvalues_batches = recording
    eng._verif_hub = hub
    return eng, hub


def exc_enum(e):
    """map an exception to a small stable enum"""
    import sqlalchemy.exc as sa_exc

    msg = str(e)
    if isinstance(e, sa_exc.InvalidRequestError):
        if "did not produce correct number of rows" in msg:
            return "err rowcount"
        if "Can't match sentinel values" in msg:
            return "err nomatch"
        return "InvalidRequestError"
    if isinstance(e, sa_exc.IntegrityError):
        return "IntegrityError"
    if isinstance(e, sa_exc.CompileError):
        return "CompileError"
    if isinstance(e, sa_exc.DBAPIError):
        return "DBAPIError:" + type(e.orig).__name__
    if isinstance(e, sa_exc.StatementError):
        return "StatementError:" + type(e.orig).__name__
    return type(e).__name__


class Canon:
    """first-appearance numbering of arbitrary hashable/reprable values"""

    def __init__(self):
        self.d = {}

    def __call__(self, v):
        k = (type(v).__name__, repr(v))
        if k not in self.d:
            self.d[k] = len(self.d)
        return self.d[k]


def decorated_type(kind):
    """Integer TypeDecorator with value-preserving SQL-level wrappers: bind_expression()
    renders `? + 0`, column_expression() renders `col + 0`"""
    from sqlalchemy import Integer
    from sqlalchemy.types import TypeDecorator

    if kind in (None, "int"):
        return Integer

    class Wrapped(TypeDecorator):
        impl = Integer
        cache_ok = True

        if kind in ("bindexpr", "both"):

            def bind_expression(self, bindvalue):
                return bindvalue + 0

        if kind in ("colexpr", "both"):

            def column_expression(self, col):
                return col + 0

    Wrapped.__name__ = "Wrapped_" + kind
    return Wrapped
