"""Shared helpers for the M-STR properties (C06 identifiers, C05 literals, C21 names).

Nothing here imports sqlalchemy at module level.
"""
import ast
import inspect
import re
import sqlite3
import textwrap


# ------------------------------------------------------------------ dialect instances
def dialects():
    """name -> Dialect instance (no DBAPI needed); every identifier-quoting
    configuration shipped in lib/sqlalchemy/dialects plus the default."""
    from sqlalchemy.engine import default
    from sqlalchemy.dialects import sqlite, postgresql, mysql, mssql, oracle
    from sqlalchemy.dialects.mysql.mariadb import MariaDBDialect
    from sqlalchemy.dialects.postgresql.asyncpg import PGDialect_asyncpg

    out = {
        "default": default.DefaultDialect(),
        "sqlite": sqlite.dialect(),
        "postgresql": postgresql.dialect(),  # psycopg2: pyformat -> %% doubling
        "pgasyncpg": PGDialect_asyncpg(),  # numeric_dollar: no doubling
        "mysql": mysql.dialect(),  # mysqldb: format -> %% doubling
        "mariadb": MariaDBDialect(),
        "mssql": mssql.dialect(),
        "oracle": oracle.dialect(),
    }
    return out


def preparers():
    """name -> IdentifierPreparer, including MySQL's ANSI_QUOTES variant"""
    out = {k: d.identifier_preparer for k, d in dialects().items()}
    from sqlalchemy.dialects import mysql
    from sqlalchemy.dialects.mysql.base import MySQLIdentifierPreparer

    out["mysqlansi"] = MySQLIdentifierPreparer(mysql.dialect(), server_ansiquotes=True)
    return out


# ------------------------------------------------------------------ AST interpreter for the
# `.replace` chains of _escape_identifier / _unescape_identifier
class Untranslatable(Exception):
    pass


def replace_chain(prep, method_name):
    """Return [(old, new), ...] for the method as it exists in the working tree.

    Accepted statement shapes (anything else raises Untranslatable):
        value = value.replace(A, B)
        if self.<attr>: <same>
        return value | return value.replace(A, B)[.replace(C, D)...]
    where A, B are string constants or self.<attr>.
    """
    fn = getattr(type(prep), method_name)
    src = textwrap.dedent(inspect.getsource(fn))
    tree = ast.parse(src).body[0]
    assert isinstance(tree, ast.FunctionDef)
    args = [a.arg for a in tree.args.args]
    if len(args) != 2:
        raise Untranslatable("signature %s" % args)
    selfn, valn = args

    def const(node):
        if isinstance(node, ast.Constant) and isinstance(node.value, str):
            return node.value
        if isinstance(node, ast.Attribute) and isinstance(node.value, ast.Name) and node.value.id == selfn:
            v = getattr(prep, node.attr)
            if isinstance(v, str):
                return v
        raise Untranslatable("argument " + ast.dump(node))

    def chain(node):
        """value[.replace(a,b)]* -> list of ops"""
        if isinstance(node, ast.Name) and node.id == valn:
            return []
        if (
            isinstance(node, ast.Call)
            and isinstance(node.func, ast.Attribute)
            and node.func.attr == "replace"
            and len(node.args) == 2
            and not node.keywords
        ):
            return chain(node.func.value) + [(const(node.args[0]), const(node.args[1]))]
        raise Untranslatable("expression " + ast.dump(node))

    ops = []

    def stmts(body):
        for st in body:
            if isinstance(st, ast.Expr) and isinstance(st.value, ast.Constant):
                continue  # docstring
            if isinstance(st, ast.Assign) and len(st.targets) == 1 and isinstance(st.targets[0], ast.Name) and st.targets[0].id == valn:
                ops.extend(chain(st.value))
            elif isinstance(st, ast.If) and not st.orelse:
                t = st.test
                if isinstance(t, ast.Attribute) and isinstance(t.value, ast.Name) and t.value.id == selfn:
                    if getattr(prep, t.attr):
                        if stmts(st.body):
                            return True
                else:
                    raise Untranslatable("condition " + ast.dump(t))
            elif isinstance(st, ast.Return):
                ops.extend(chain(st.value))
                return True
            else:
                raise Untranslatable("statement " + ast.dump(st))
        return False

    if not stmts(tree.body):
        raise Untranslatable("no return")
    for a, b in ops:
        if not a:
            raise Untranslatable("empty pattern")
    return ops


LEGAL_SHAPE = re.compile(r"^\^\[[^\]\\]+\]\+\$$")
_legal_cache = {}


def legal_chars(rx):
    """code points c with rx.match(chr(c)), probed (cached per pattern/flags)"""
    key = (rx.pattern, rx.flags)
    if key not in _legal_cache:
        m = rx.match
        _legal_cache[key] = [c for c in range(0x110000) if not 0xD800 <= c <= 0xDFFF and m(chr(c))]
    return _legal_cache[key]


_lower_tab = None


def lower_table():
    """(ranges, specials): run-length encoding of chr(c).lower() for every code
    point where it differs from chr(c).  ranges = [(start, count, stride, delta)],
    specials = [(c, [code points])] for multi-character results.  The encoding is
    decoded again and compared with str.lower() for every code point."""
    global _lower_tab
    if _lower_tab is None:
        singles, specials = [], []
        for c in range(128):  # the model hard-codes ASCII lower-casing
            assert chr(c).lower() == (chr(c + 32) if 65 <= c <= 90 else chr(c))
        for c in range(128, 0x110000):
            if 0xD800 <= c <= 0xDFFF:
                continue
            s = chr(c)
            lo = s.lower()
            if lo != s:
                if len(lo) == 1:
                    singles.append((c, ord(lo) - c))
                else:
                    specials.append((c, [ord(x) for x in lo]))
        ranges, i = [], 0
        while i < len(singles):
            c, d = singles[i]
            best = (1, 1)
            for stride in (1, 2):
                j, n = i, 1
                while j + 1 < len(singles) and singles[j + 1] == (singles[j][0] + stride, d):
                    j += 1
                    n += 1
                if n > best[0]:
                    best = (n, stride)
            ranges.append((c, best[0], best[1], d))
            i += best[0]
        # self-check of the encoding
        dec = {}
        for st, n, stride, d in ranges:
            for k in range(n):
                assert st + k * stride not in dec
                dec[st + k * stride] = [st + k * stride + d]
        for c, w in specials:
            dec[c] = w
        for c in range(128, 0x110000):
            if 0xD800 <= c <= 0xDFFF:
                continue
            assert [ord(x) for x in chr(c).lower()] == dec.get(c, [c]), c
        _lower_tab = (ranges, specials)
    return _lower_tab


_upper_tab = None


def upper_table():
    """same encoding as lower_table() for str.upper() (no context-sensitive rules)"""
    global _upper_tab
    if _upper_tab is None:
        for c in range(128):
            assert chr(c).upper() == (chr(c - 32) if 97 <= c <= 122 else chr(c))
        singles, specials = [], []
        for c in range(128, 0x110000):
            if 0xD800 <= c <= 0xDFFF:
                continue
            s = chr(c)
            up = s.upper()
            if up != s:
                if len(up) == 1:
                    singles.append((c, ord(up) - c))
                else:
                    specials.append((c, [ord(x) for x in up]))
        ranges, i = [], 0
        while i < len(singles):
            c, d = singles[i]
            best = (1, 1)
            for stride in (1, 2):
                j, n = i, 1
                while j + 1 < len(singles) and singles[j + 1] == (singles[j][0] + stride, d):
                    j += 1
                    n += 1
                if n > best[0]:
                    best = (n, stride)
            ranges.append((c, best[0], best[1], d))
            i += best[0]
        dec = {}
        for st, n, stride, d in ranges:
            for k in range(n):
                assert st + k * stride not in dec
                dec[st + k * stride] = [st + k * stride + d]
        for c, w in specials:
            dec[c] = w
        for c in range(128, 0x110000):
            if 0xD800 <= c <= 0xDFFF:
                continue
            assert [ord(x) for x in chr(c).upper()] == dec.get(c, [c]), c
        _upper_tab = (ranges, specials)
    return _upper_tab


# ------------------------------------------------------------------ SQLite keyword probe
SQLITE_DOC_KEYWORDS = """ABORT ACTION ADD AFTER ALL ALTER ALWAYS ANALYZE AND AS ASC ATTACH AUTOINCREMENT
BEFORE BEGIN BETWEEN BY CASCADE CASE CAST CHECK COLLATE COLUMN COMMIT CONFLICT CONSTRAINT CREATE CROSS
CURRENT CURRENT_DATE CURRENT_TIME CURRENT_TIMESTAMP DATABASE DEFAULT DEFERRABLE DEFERRED DELETE DESC
DETACH DISTINCT DO DROP EACH ELSE END ESCAPE EXCEPT EXCLUDE EXCLUSIVE EXISTS EXPLAIN FAIL FILTER FIRST
FOLLOWING FOR FOREIGN FROM FULL GENERATED GLOB GROUP GROUPS HAVING IF IGNORE IMMEDIATE IN INDEX INDEXED
INITIALLY INNER INSERT INSTEAD INTERSECT INTO IS ISNULL JOIN KEY LAST LEFT LIKE LIMIT MATCH MATERIALIZED
NATURAL NO NOT NOTHING NOTNULL NULL NULLS OF OFFSET ON OR ORDER OTHERS OUTER OVER PARTITION PLAN PRAGMA
PRECEDING PRIMARY QUERY RAISE RANGE RECURSIVE REFERENCES REGEXP REINDEX RELEASE RENAME REPLACE RESTRICT
RETURNING RIGHT ROLLBACK ROW ROWS SAVEPOINT SELECT SET TABLE TEMP TEMPORARY THEN TIES TO TRANSACTION
TRIGGER UNBOUNDED UNION UNIQUE UPDATE USING VACUUM VALUES VIEW VIRTUAL WHEN WHERE WINDOW WITH WITHOUT
STORED WITHIN TRUE FALSE""".lower().split()


def sqlite_probe_word(w):
    """Use the bare word `w` in every identifier position SQLAlchemy renders on
    the real sqlite3 library; return the list of (position, reason) where the
    grammar rejects it (syntax error) or gives it another meaning (wrong value)."""
    bad = []

    def run(tag, stmts, check=None):
        con = sqlite3.connect(":memory:")
        try:
            r = None
            for s in stmts:
                r = con.execute(s).fetchall()
            if check is not None and r != check:
                bad.append((tag, "other meaning: %r" % (r,)))
        except sqlite3.Error as e:
            if "syntax error" in str(e) or "incomplete input" in str(e):
                bad.append((tag, str(e)))
        finally:
            con.close()

    run("table", [f"CREATE TABLE {w} (x INTEGER)", f"INSERT INTO {w} (x) VALUES (42)", f"SELECT x FROM {w}", f"SELECT {w}.x FROM {w}"], [(42,)])
    run("column", [f"CREATE TABLE t ({w} INTEGER, y INTEGER)", f"INSERT INTO t ({w}, y) VALUES (42, 7)", f"UPDATE t SET {w} = 43 WHERE {w} = 42", f"SELECT {w} FROM t WHERE {w} = 43 ORDER BY {w}"], [(43,)])
    run("column-qualified", [f"CREATE TABLE t ({w} INTEGER, y INTEGER)", f"INSERT INTO t ({w}, y) VALUES (42, 7)", f"SELECT t.{w} FROM t"], [(42,)])
    run("index", ["CREATE TABLE t (x INTEGER)", f"CREATE INDEX {w} ON t (x)", f"DROP INDEX {w}"])
    run("constraint", [f"CREATE TABLE t (x INTEGER, CONSTRAINT {w} UNIQUE (x))"])
    run("label", ["CREATE TABLE t (x INTEGER)", "INSERT INTO t VALUES (42)", f"SELECT x AS {w} FROM t"], [(42,)])
    run("alias", ["CREATE TABLE t (x INTEGER)", "INSERT INTO t VALUES (42)", f"SELECT {w}.x FROM t AS {w}"], [(42,)])
    run("schema", [f"ATTACH DATABASE ':memory:' AS {w}", f"CREATE TABLE {w}.t (x INTEGER)", f"INSERT INTO {w}.t (x) VALUES (42)", f"SELECT x FROM {w}.t"], [(42,)])
    run("returning", [f"CREATE TABLE t ({w} INTEGER)", f"INSERT INTO t ({w}) VALUES (42) RETURNING {w}"], [(42,)])
    run("upsert", [f"CREATE TABLE t ({w} INTEGER PRIMARY KEY, y INTEGER)", f"INSERT INTO t ({w}, y) VALUES (1, 1)", f"INSERT INTO t ({w}, y) VALUES (1, 2) ON CONFLICT ({w}) DO UPDATE SET y = excluded.y + {w}", "SELECT y FROM t"], [(3,)])
    run("fk", [f"CREATE TABLE p ({w} INTEGER PRIMARY KEY)", f"CREATE TABLE c (x INTEGER REFERENCES p ({w}))"])
    return bad


_sqlite_rej = None


def sqlite_rejected_words(extra=()):
    """lower-case words the linked sqlite3 library does not accept as a bare
    identifier in at least one position; candidates = documented keyword list
    + every dialect's reserved_words (+ extra)."""
    global _sqlite_rej
    if _sqlite_rej is None:
        cands = set(SQLITE_DOC_KEYWORDS) | set(extra)
        for p in preparers().values():
            cands |= {w for w in p.reserved_words if re.match(r"^[a-z_][a-z0-9_]*$", w)}
        _sqlite_rej = {}
        for w in sorted(cands):
            b = sqlite_probe_word(w)
            if b:
                _sqlite_rej[w] = b
    return _sqlite_rej


# ------------------------------------------------------------------ Lean emitters
_SAFE = re.compile(r"^[A-Za-z0-9_$#@]+$")


def lean_word_list(name, words, out, kernel=True, doc=None):
    """Emit `def <name> : List Str`.  kernel=True: explicit `"w".toList` literals in
    chunks (evaluable by `decide`); kernel=False: one string split at run time."""
    words = list(words)
    if doc:
        out.append("/-- %s -/" % doc)
    if not kernel and words and all(_SAFE.match(w) for w in words):
        out.append('def %s : List Str := splitWords "%s"' % (name, " ".join(words)))
        return
    parts = []
    for i in range(0, len(words), 40):
        pn = "%s_%d" % (name, i // 40)
        parts.append(pn)
        items = [lean_str(w) for w in words[i : i + 40]]
        out.append("def %s : List Str := [%s]" % (pn, ", ".join(items)))
    out.append("def %s : List Str := %s" % (name, " ++ ".join(parts) if parts else "[]"))


def lean_str(s):
    """Python str -> Lean `Str` (List Nat of code points)"""
    return "[" + ",".join(str(ord(c)) for c in s) + "]"


def lean_char(c):
    return "%d" % ord(c)


# PostgreSQL 16 manual, Appendix C (trusted; not validated against a server here)
PG_DOC_RESERVED = """ALL ANALYSE ANALYZE AND ANY ARRAY AS ASC ASYMMETRIC BOTH CASE CAST CHECK COLLATE COLUMN
CONSTRAINT CREATE CURRENT_CATALOG CURRENT_DATE CURRENT_ROLE CURRENT_TIME CURRENT_TIMESTAMP CURRENT_USER
DEFAULT DEFERRABLE DESC DISTINCT DO ELSE END EXCEPT FALSE FETCH FOR FOREIGN FROM GRANT GROUP HAVING IN
INITIALLY INTERSECT INTO LATERAL LEADING LIMIT LOCALTIME LOCALTIMESTAMP NOT NULL OFFSET ON ONLY OR ORDER
PLACING PRIMARY REFERENCES RETURNING SELECT SESSION_USER SOME SYMMETRIC SYSTEM_USER TABLE THEN TO TRAILING
TRUE UNION UNIQUE USER USING VARIADIC WHEN WHERE WINDOW WITH""".lower().split()
PG_DOC_TYPE_FUNC = """AUTHORIZATION BINARY COLLATION CONCURRENTLY CROSS CURRENT_SCHEMA FREEZE FULL ILIKE INNER IS
ISNULL JOIN LEFT LIKE NATURAL NOTNULL OUTER OVERLAPS RIGHT SIMILAR TABLESAMPLE VERBOSE""".lower().split()
PG_DOC_KEYWORDS = PG_DOC_RESERVED + PG_DOC_TYPE_FUNC
# the words of PG_DOC_KEYWORDS known to be missing from postgresql RESERVED_WORDS (finding)
PG_GAP = ["collation", "concurrently", "lateral", "system_user", "tablesample"]


# ------------------------------------------------------------------ literal rendering (C05)
def interp_value_fn(fn_node, env, valn):
    """Interpret a tiny function body operating on one string variable `valn`:
        valn = valn.replace(A, B)[.replace…]
        valn = super().<anything>(valn, …)          (identity: the inherited rendering)
        if <attr chain | issubclass(type(valn), …)>: … [else: …]
        return valn | valn.replace(…) | "pre%spost" % valn | super().<anything>(valn, …)
    `env` maps root names (self, dialect) to live objects.  Returns (ops, pre, post)."""
    ops = []
    tmpl = ["", ""]

    def const(node):
        if isinstance(node, ast.Constant) and isinstance(node.value, str):
            return node.value
        return str_attr(node)

    def attr_chain(node):
        if isinstance(node, ast.Name) and node.id in env:
            return env[node.id]
        if isinstance(node, ast.Attribute):
            return getattr(attr_chain(node.value), node.attr)
        raise Untranslatable("expression " + ast.dump(node))

    def str_attr(node):
        v = attr_chain(node)
        if isinstance(v, str):
            return v
        raise Untranslatable("not a string: " + ast.dump(node))

    def is_super_call(node):
        return (
            isinstance(node, ast.Call)
            and isinstance(node.func, ast.Attribute)
            and isinstance(node.func.value, ast.Call)
            and isinstance(node.func.value.func, ast.Name)
            and node.func.value.func.id == "super"
            and node.args
            and isinstance(node.args[0], ast.Name)
            and node.args[0].id == valn
        )

    def chain(node):
        if isinstance(node, ast.Name) and node.id == valn:
            return []
        if is_super_call(node):
            return []
        if (
            isinstance(node, ast.Call)
            and isinstance(node.func, ast.Attribute)
            and node.func.attr == "replace"
            and len(node.args) == 2
            and not node.keywords
        ):
            return chain(node.func.value) + [(const(node.args[0]), const(node.args[1]))]
        raise Untranslatable("expression " + ast.dump(node))

    def test(node):
        if isinstance(node, ast.Call) and isinstance(node.func, ast.Name) and node.func.id == "issubclass":
            return False  # the value is a str, never a date
        return bool(attr_chain(node))

    def stmts(body):
        for st in body:
            if isinstance(st, ast.Expr) and isinstance(st.value, ast.Constant):
                continue
            if isinstance(st, ast.Assign) and len(st.targets) == 1 and isinstance(st.targets[0], ast.Name) and st.targets[0].id == valn:
                ops.extend(chain(st.value))
            elif isinstance(st, ast.If):
                if test(st.test):
                    if stmts(st.body):
                        return True
                elif st.orelse and stmts(st.orelse):
                    return True
            elif isinstance(st, ast.Return):
                v = st.value
                if isinstance(v, ast.BinOp) and isinstance(v.op, ast.Mod) and isinstance(v.left, ast.Constant) and isinstance(v.left.value, str) and v.left.value.count("%s") == 1 and v.left.value.count("%") == 1:
                    ops.extend(chain(v.right))
                    tmpl[0], tmpl[1] = v.left.value.split("%s")
                else:
                    ops.extend(chain(v))
                return True
            else:
                raise Untranslatable("statement " + ast.dump(st))
        return False

    if not stmts(fn_node.body):
        raise Untranslatable("no return")
    for a, b in ops:
        if not a:
            raise Untranslatable("empty pattern")
    return ops, tmpl[0], tmpl[1]


def _method_node(cls, name):
    fn = getattr(cls, name)
    src = textwrap.dedent(inspect.getsource(fn))
    node = ast.parse(src).body[0]
    assert isinstance(node, ast.FunctionDef)
    return node


def literal_configs():
    """name -> (dialect, string type instance): every string-literal configuration"""
    from sqlalchemy import String, Unicode
    from sqlalchemy.dialects import mysql, postgresql

    ds = dialects()
    pg_bs = postgresql.dialect()
    pg_bs._backslash_escapes = True  # standard_conforming_strings = off
    my_nobs = mysql.dialect()
    my_nobs._backslash_escapes = False  # sql_mode NO_BACKSLASH_ESCAPES
    return {
        "default": (ds["default"], String()),
        "sqlite": (ds["sqlite"], String()),
        "postgresql": (ds["postgresql"], String()),
        "postgresqlbs": (pg_bs, String()),
        "pgasyncpg": (ds["pgasyncpg"], String()),
        "mysql": (ds["mysql"], String()),
        "mysqlnobs": (my_nobs, String()),
        "mariadb": (ds["mariadb"], String()),
        "mssql": (ds["mssql"], String()),
        "mssqln": (ds["mssql"], Unicode()),
        "oracle": (ds["oracle"], String()),
    }


def literal_tables(dialect, type_):
    """Transcribe the string literal path for (dialect, type) from the working tree."""
    impl = type_.dialect_impl(dialect)
    node = _method_node(type(impl), "literal_processor")
    inner = [n for n in node.body if isinstance(n, ast.FunctionDef)]
    if len(inner) != 1 or len(inner[0].args.args) != 1:
        raise Untranslatable("literal_processor of %s has no single inner process(value)" % type(impl).__name__)
    dn = [a.arg for a in node.args.args][1]
    str_ops, pre, post = interp_value_fn(inner[0], {"self": impl, dn: dialect}, inner[0].args.args[0].arg)
    comp = dialect.statement_compiler(dialect, None)
    cnode = _method_node(type(comp), "render_literal_value")
    from sqlalchemy.sql.compiler import SQLCompiler

    if getattr(type(comp), "render_literal_value") is SQLCompiler.render_literal_value:
        outer = []
    else:
        args = [a.arg for a in cnode.args.args]
        outer, p2, q2 = interp_value_fn(cnode, {args[0]: comp}, args[1])
        if p2 or q2:
            raise Untranslatable("render_literal_value override wraps the value")
    return {
        "strOps": str_ops, "pre": pre, "post": post, "outerOps": outer,
        "true": comp.visit_true(None), "false": comp.visit_false(None), "null": comp.visit_null(None),
    }
