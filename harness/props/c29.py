"""C29 — the asyncio API matches the sync API and is safe under cancellation.

Theorems  lean/SaVerif/Props/C29.lean: the C25 pool LTS extended with the `cancel` step
          (CancelledError out of `await queue.get()`) keeps every C25 invariant; an
          AsyncAdaptedQueuePool schedule is a (coarser) schedule of the same LTS.
Tie /     (A) generated Core + ORM programs (transactions, savepoints, inserts / updates
Oracle        / deletes / selects, Session add / flush / commit / rollback / get) are run
              through Engine/Connection/Session and through AsyncEngine/AsyncConnection/
              AsyncSession on aiosqlite with a file database each: all results and the
              final database contents must be equal.
          (B) every program is then re-run on the async API once per driver await point
              (every aiosqlite `Connection._execute`, i.e. connect, execute, fetch, commit,
              rollback, close ...) with the task cancelled at exactly that await: afterwards
              pool.checkedout() == 0, no idle pooled connection is inside a transaction or
              queued twice, the database holds exactly the effects of a prefix of the
              committed transactions, and a fresh connection works.
          (C) AsyncAdaptedQueuePool with a fake DBAPI under concurrent asyncio tasks incl.
              cancellation while waiting for a connection: the event trace must be a run of
              the C25 LTS (`cancel` label) and the C25 oracle must hold.
"""
import asyncio
import gc
import logging
import os
import random
import shutil
import sys
import tempfile
import warnings

PID = "C29"
LEVEL = "translation_validation"
LEAN = ["SaVerif.Props.C29"]
META = {
    "text": "Differential: generated Core/ORM programs run through the sync API and the asyncio API on aiosqlite must give equal results and equal final database contents; cancellation injected at every driver await point reached (deterministically: the n-th aiosqlite Connection._execute cancels the current task) must leave checkedout()=0, no open transaction on a pooled connection, an atomic prefix of the committed transactions in the database and a usable engine. AsyncAdaptedQueuePool runs under concurrent tasks (with cancellation of waiting checkouts) are checked for trace inclusion in the C25 LTS extended with a cancel step, whose invariants are machine-checked.",
    "note": "Known finding: CancelledError during reset-on-return is re-raised by _finalize_fairy before checkin(), the pool slot comes back only through the garbage collector (known_findings.d/C29.json; a 4-line patch makes the check clean). Only aiosqlite is available (asyncpg / psycopg async / aiomysql are not installed). Lean content is the C25 invariant re-proved with the cancel step (thin for this property: the differential and the cancellation oracle carry the claim, hence translation_validation). greenlet internals trusted. Cancellation points are the driver awaits (aiosqlite funnels every operation through Connection._execute) plus the pool's queue wait.",
    "technique": "differential sync/async execution + exhaustive cancellation injection at driver await points + trace inclusion of AsyncAdaptedQueuePool runs in the C25 LTS",
    "design_ref": "DESIGN.md §3 C29",
}


# --------------------------------------------------------------------------- programs
def gen_program(rng):
    """list of transactions; each: {"kind": core|orm, "stmts": [...], "end": commit|rollback}"""
    prog = []
    next_id = [1]
    for _ in range(rng.randint(1, 4)):
        kind = rng.choice(["core", "core", "orm"])
        stmts = []
        for _ in range(rng.randint(1, 4)):
            x = rng.random()
            if x < 0.4:
                stmts.append(["ins", next_id[0], rng.randrange(100)])
                next_id[0] += 1
            elif x < 0.55:
                stmts.append(["upd", rng.randrange(1, max(2, next_id[0])), rng.randrange(100)])
            elif x < 0.65:
                stmts.append(["del", rng.randrange(1, max(2, next_id[0]))])
            elif x < 0.85:
                stmts.append(["sel"])
            elif kind == "core":
                # savepoint block
                inner = [["ins", next_id[0], rng.randrange(100)]]
                next_id[0] += 1
                stmts.append(["sp", inner, rng.choice(["commit", "rollback"])])
            else:
                stmts.append(["get", rng.randrange(1, max(2, next_id[0]))])
        prog.append({"kind": kind, "stmts": stmts, "end": rng.choice(["commit", "commit", "rollback", "leave"])})
    return prog


def _schema():
    import sqlalchemy as sa
    from sqlalchemy.orm import declarative_base

    Base = declarative_base()

    class T(Base):
        __tablename__ = "t"
        id = sa.Column(sa.Integer, primary_key=True, autoincrement=False)
        x = sa.Column(sa.Integer)

    return Base, T


_SCHEMA = None


def schema():
    global _SCHEMA
    if _SCHEMA is None:
        _SCHEMA = _schema()
    return _SCHEMA


def run_sync(prog, path):
    import sqlalchemy as sa
    from sqlalchemy.orm import Session

    Base, T = schema()
    t = T.__table__
    eng = sa.create_engine("sqlite:///" + path)
    out = []
    states = []
    try:
        Base.metadata.create_all(eng)

        def dump(conn):
            return [tuple(r) for r in conn.execute(sa.select(t).order_by(t.c.id))]

        with eng.connect() as c:
            states.append(dump(c))
        for txn in prog:
            if txn["kind"] == "core":
                with eng.connect() as conn:
                    tr = conn.begin()
                    for st in txn["stmts"]:
                        out.append(_core_stmt(conn, t, st))
                    if txn["end"] == "commit":
                        tr.commit()
                    elif txn["end"] == "rollback":
                        tr.rollback()
                    # "leave": the context manager exit cleans up
            else:
                with Session(eng) as s:
                    for st in txn["stmts"]:
                        out.append(_orm_stmt(s, T, st))
                    if txn["end"] == "commit":
                        s.commit()
                    elif txn["end"] == "rollback":
                        s.rollback()
            with eng.connect() as c:
                states.append(dump(c))
    finally:
        eng.dispose()
    return out, states


def _core_stmt(conn, t, st):
    import sqlalchemy as sa

    k = st[0]
    if k == "ins":
        return ("ins", conn.execute(sa.insert(t).values(id=st[1], x=st[2])).rowcount)
    if k == "upd":
        return ("upd", conn.execute(sa.update(t).where(t.c.id == st[1]).values(x=st[2])).rowcount)
    if k == "del":
        return ("del", conn.execute(sa.delete(t).where(t.c.id == st[1])).rowcount)
    if k == "sel":
        return ("sel", [tuple(r) for r in conn.execute(sa.select(t).order_by(t.c.id))])
    if k == "sp":
        sp = conn.begin_nested()
        res = [_core_stmt(conn, t, s) for s in st[1]]
        sp.commit() if st[2] == "commit" else sp.rollback()
        return ("sp", res)
    raise AssertionError(st)


def _orm_stmt(s, T, st):
    import sqlalchemy as sa

    k = st[0]
    if k == "ins":
        s.add(T(id=st[1], x=st[2]))
        s.flush()
        return ("ins", 1)
    if k == "upd":
        o = s.get(T, st[1])
        if o is not None:
            o.x = st[2]
            s.flush()
        return ("upd", 0 if o is None else 1)
    if k == "del":
        o = s.get(T, st[1])
        if o is not None:
            s.delete(o)
            s.flush()
        return ("del", 0 if o is None else 1)
    if k == "sel":
        return ("sel", [(o.id, o.x) for o in s.scalars(sa.select(T).order_by(T.id))])
    if k == "get":
        o = s.get(T, st[1])
        return ("get", None if o is None else (o.id, o.x))
    raise AssertionError(st)


async def _acore_stmt(conn, t, st):
    import sqlalchemy as sa

    k = st[0]
    if k == "ins":
        return ("ins", (await conn.execute(sa.insert(t).values(id=st[1], x=st[2]))).rowcount)
    if k == "upd":
        return ("upd", (await conn.execute(sa.update(t).where(t.c.id == st[1]).values(x=st[2]))).rowcount)
    if k == "del":
        return ("del", (await conn.execute(sa.delete(t).where(t.c.id == st[1]))).rowcount)
    if k == "sel":
        return ("sel", [tuple(r) for r in await conn.execute(sa.select(t).order_by(t.c.id))])
    if k == "sp":
        sp = await conn.begin_nested()
        res = [await _acore_stmt(conn, t, s) for s in st[1]]
        await (sp.commit() if st[2] == "commit" else sp.rollback())
        return ("sp", res)
    raise AssertionError(st)


async def _aorm_stmt(s, T, st):
    import sqlalchemy as sa

    k = st[0]
    if k == "ins":
        s.add(T(id=st[1], x=st[2]))
        await s.flush()
        return ("ins", 1)
    if k == "upd":
        o = await s.get(T, st[1])
        if o is not None:
            o.x = st[2]
            await s.flush()
        return ("upd", 0 if o is None else 1)
    if k == "del":
        o = await s.get(T, st[1])
        if o is not None:
            await s.delete(o)
            await s.flush()
        return ("del", 0 if o is None else 1)
    if k == "sel":
        return ("sel", [(o.id, o.x) for o in await s.scalars(sa.select(T).order_by(T.id))])
    if k == "get":
        o = await s.get(T, st[1])
        return ("get", None if o is None else (o.id, o.x))
    raise AssertionError(st)


class Injector:
    """counts aiosqlite driver awaits; cancels the current task at the target-th one"""

    def __init__(self, target=None):
        self.count = 0
        self.target = target
        self.fired = False
        self.user_task = None
        self.in_reset = False
        self.reset_active = False
        self.in_aexit = False
        self.aexit_points = []

    def install(self):
        from aiosqlite import core

        self.orig = core.Connection._execute
        inj = self

        async def _execute(conn, fn, *a, **kw):
            if inj.armed:
                inj.count += 1
                if inj.target is None:
                    # dry run: remember which awaits happen during a context-manager exit
                    f, k = sys._getframe(1), 0
                    while f is not None and k < 120:
                        if f.f_code.co_name == "__aexit__":
                            inj.aexit_points.append(inj.count)
                            break
                        f, k = f.f_back, k + 1
                    else:
                        if inj.user_task is not None and asyncio.current_task() is not inj.user_task:
                            inj.aexit_points.append(inj.count)  # the shielded close() task
                if inj.target is not None and inj.count == inj.target and not inj.fired:
                    inj.fired = True
                    # where are we?  (used only to classify a violation): between the
                    # pool's `reset` and `checkin` events = reset-on-return in progress
                    inj.in_reset = inj.reset_active
                    names, co = [], (inj.user_task.get_coro() if inj.user_task is not None else None)
                    while co is not None and hasattr(co, "cr_code") and len(names) < 40:
                        names.append(co.cr_code.co_name)
                        co = co.cr_await
                    # reset-on-return reached through a context manager exit (which SQLAlchemy
                    # shields) is NOT the known pattern
                    f = sys._getframe(1)
                    while f is not None and len(names) < 120:
                        names.append(f.f_code.co_name)
                        f = f.f_back
                    inj.in_aexit = "__aexit__" in names
                    # cancel the USER's task (what task.cancel() / wait_for do), also when this
                    # await happens inside the shielded close() task SQLAlchemy spawned
                    (inj.user_task or asyncio.current_task()).cancel()
            return await inj.orig(conn, fn, *a, **kw)

        self.armed = False
        core.Connection._execute = _execute

    def remove(self):
        from aiosqlite import core

        core.Connection._execute = self.orig


async def _async_body(eng, prog, out):
    from sqlalchemy.ext.asyncio import AsyncSession

    Base, T = schema()
    t = T.__table__
    for txn in prog:
        if txn["kind"] == "core":
            async with eng.connect() as conn:
                tr = await conn.begin()
                for st in txn["stmts"]:
                    out.append(await _acore_stmt(conn, t, st))
                if txn["end"] == "commit":
                    await tr.commit()
                elif txn["end"] == "rollback":
                    await tr.rollback()
        else:
            async with AsyncSession(eng) as s:
                for st in txn["stmts"]:
                    out.append(await _aorm_stmt(s, T, st))
                if txn["end"] == "commit":
                    await s.commit()
                elif txn["end"] == "rollback":
                    await s.rollback()


res_points = []  # awaits of the last dry run that lie inside a context-manager exit


def run_async(prog, path, cancel_at=None):
    """returns (out, final table, failures, n_awaits, cancelled?)"""
    import sqlalchemy as sa
    from sqlalchemy.ext.asyncio import create_async_engine

    Base, T = schema()
    t = T.__table__
    inj = Injector(cancel_at)
    failures = []
    out = []
    res = {}

    async def main():
        eng = create_async_engine("sqlite+aiosqlite:///" + path, pool_size=2, max_overflow=1)
        sa.event.listen(eng.sync_engine.pool, "reset", lambda *a: setattr(inj, "reset_active", True))
        sa.event.listen(eng.sync_engine.pool, "checkin", lambda *a: setattr(inj, "reset_active", False))
        try:
            async with eng.begin() as conn:
                await conn.run_sync(Base.metadata.create_all)
            inj.armed = True
            task = asyncio.ensure_future(_async_body(eng, prog, out))
            inj.user_task = task
            try:
                await task
                res["cancelled"] = False
            except asyncio.CancelledError:
                res["cancelled"] = True
            inj.armed = False
            pool = eng.pool
            # let shielded clean-up tasks finish, then look at the pool BEFORE any garbage
            # collection: the connection must have been returned by the code, not by the GC
            me = asyncio.current_task()
            others = [x for x in asyncio.all_tasks() if x is not me]
            if others:
                await asyncio.gather(*others, return_exceptions=True)
            del others
            inj.user_task = None
            await asyncio.sleep(0)
            if inj.fired and not res["cancelled"]:
                failures.append(("c29-cancellation-swallowed", "the task was cancelled at driver await #%s but finished normally" % cancel_at))
            left = pool.checkedout() != 0
            if left:
                key = "c29-cancelled-in-reset-on-return-left-to-gc" if (inj.in_reset and not inj.in_aexit) else "c29-connection-left-to-gc"
                failures.append((key, "checkedout()=%d right after the task ended (cancel at await #%s%s): the connection was not returned by the code path, only the garbage collector can give the pool slot back" % (pool.checkedout(), cancel_at, ", inside _finalize_fairy -> _reset" if inj.in_reset else "")))
            del task
            gc.collect()
            await asyncio.sleep(0)
            # ---------------- oracle after the (possibly cancelled) run
            if pool.checkedout() != 0 and not (left and inj.in_reset and not inj.in_aexit):
                failures.append(("c29-connection-not-returned", "checkedout()=%d after the task ended and a gc.collect() (cancel at await #%s)" % (pool.checkedout(), cancel_at)))
            idle = list(pool._pool._queue._queue) if hasattr(pool._pool, "_queue") else []
            if len({id(r) for r in idle}) != len(idle):
                failures.append(("c29-returned-twice", "a connection record is idle in the pool twice (cancel at await #%s)" % cancel_at))
            for r in idle:
                dc = r.dbapi_connection
                if dc is not None:
                    raw = dc._connection._conn
                    if raw is not None and raw.in_transaction:
                        failures.append(("c29-open-transaction-in-pool", "an idle pooled connection is inside a transaction (cancel at await #%s)" % cancel_at))
            try:
                async with eng.connect() as conn:
                    res["final"] = [tuple(r) for r in await conn.execute(sa.select(t).order_by(t.c.id))]
            except Exception as e:  # noqa
                failures.append(("c29-engine-unusable", "fresh connection after cancellation failed: %s: %s" % (type(e).__name__, e)))
                res["final"] = None
            if pool.checkedout() != 0 and not (left and inj.in_reset and not inj.in_aexit):
                failures.append(("c29-connection-not-returned", "checkedout()=%d after a follow-up connection" % pool.checkedout()))
        finally:
            await eng.dispose()

    lg = logging.getLogger("sqlalchemy")
    if not getattr(lg, "_verif_silenced", False):
        lg.addHandler(logging.NullHandler())
        lg.propagate = False
        lg._verif_silenced = True
    inj.install()
    try:
        with warnings.catch_warnings():
            warnings.simplefilter("ignore")
            asyncio.run(main())
    finally:
        inj.remove()
    res_points[:] = inj.aexit_points
    return out, res.get("final"), failures, inj.count, res.get("cancelled")


# --------------------------------------------------------------------------- (C) async pool
def run_async_pool(case, rng_seed):
    """AsyncAdaptedQueuePool + fake DBAPI under concurrent asyncio tasks; returns
    (model line, impl final string, failures)"""
    import sqlalchemy.pool.impl as pimpl
    from sqlalchemy.util import greenlet_spawn

    from harness import lib_pool

    cfg, progs = case["cfg"], case["programs"]
    labels = []
    failures = []
    dbapi = lib_pool.FakeDBAPI()
    rec_ids, recs = {}, []
    cur_task = {}

    def tid():
        return cur_task.get(id(asyncio.current_task()))

    def log(lab):
        if active[0]:
            labels.append("%d:%s" % (tid(), lab))

    pending = [None]
    active = [False]

    def flush():
        if pending[0] is not None:
            t, v = pending[0]
            pending[0] = None
            labels.append("%d:rv:%d" % (t, v))

    def log_ov(kind, v):
        if kind == "rv":
            flush()
            pending[0] = (tid(), v)
        else:
            pr = pending[0]
            if pr is not None and pr[0] == tid():
                pending[0] = None
                labels.append("%d:rmw:%d:%d" % (tid(), pr[1], v))
            else:
                flush()
                log("wv:%d" % v)

    cls = lib_pool.traced_pool_class(pimpl.AsyncAdaptedQueuePool, log_ov, lambda: active[0])
    pool = cls(dbapi.connect, pool_size=cfg["size"], max_overflow=cfg["max_overflow"], use_lifo=cfg["lifo"], timeout=cfg["timeout"])

    def rid(rec):
        k = id(rec)
        if k not in rec_ids:
            rec_ids[k] = len(recs)
            recs.append(rec)
        return rec_ids[k]

    orig = {}

    def wrap(name, fn):
        orig[name] = getattr(cls, name)
        setattr(cls, name, fn)

    # labels from thin wrappers defined on the harness subclass (the real methods run inside)
    def _do_get(self):
        flush()
        log("cg")
        try:
            return pimpl.QueuePool._do_get(self)
        except BaseException as e:
            flush()
            if type(e).__name__ == "TimeoutError" and not getattr(e, "_v", False):
                e._v = True
                log("to")
            raise

    def _inc_overflow(self):
        flush()
        log("ci")
        locked = self._max_overflow != -1
        if locked:
            log("la")
        r = pimpl.QueuePool._inc_overflow(self)
        flush()
        if locked:
            log("lr")
        return r

    def _dec_overflow(self):
        flush()
        log("cd")
        locked = self._max_overflow != -1
        if locked:
            log("la")
        r = pimpl.QueuePool._dec_overflow(self)
        flush()
        if locked:
            log("lr")
        return r

    def _create_connection(self):
        flush()
        try:
            rec = pimpl.QueuePool._create_connection(self)
        except BaseException:
            log("cf")
            raise
        log("cr:%d" % rid(rec))
        return rec

    def _do_return_conn(self, record):
        flush()
        log("cp:%d" % rid(record))
        return pimpl.QueuePool._do_return_conn(self, record)

    cls._do_get = _do_get
    cls._inc_overflow = _inc_overflow
    cls._dec_overflow = _dec_overflow
    cls._create_connection = _create_connection
    cls._do_return_conn = _do_return_conn

    q = pool._pool
    import sqlalchemy.util.queue as squeue

    class TQ(squeue.AsyncAdaptedQueue):
        def get(self, block=True, timeout=None):
            flush()
            log("qg:%d" % (1 if block else 0))
            me = tid()
            try:
                item = squeue.AsyncAdaptedQueue.get(self, block, timeout)
            except squeue.Empty:
                cur_task[id(asyncio.current_task())] = me
                log("qe")
                raise
            except asyncio.CancelledError:
                log("cancel")
                raise
            log("pop:%d" % rid(item))
            return item

        def put(self, item, block=True, timeout=None):
            flush()
            try:
                squeue.AsyncAdaptedQueue.put(self, item, block, timeout)
            except squeue.Full:
                log("qf")
                raise
            log("put:%d" % rid(item))

    q.__class__ = TQ
    # record.close() from _do_return_conn (Full path)
    import sqlalchemy.pool.base as pbase

    held = [[] for _ in progs]
    outcomes = [[] for _ in progs]

    def check():
        mo, size = pool._max_overflow, cfg["size"]
        ov = pool.__dict__["_ov"]
        if mo > -1 and ov > mo:
            failures.append(("overflow-exceeds-max", "_overflow=%d > %d" % (ov, mo)))
        if mo > -1 and dbapi.open_count() > size + mo:
            failures.append(("open-exceeds-limit", "%d open > %d" % (dbapi.open_count(), size + mo)))
        live = [f for hl in held for f in hl]
        conns = [id(f.dbapi_connection) for f in live if f.dbapi_connection is not None]
        if len(conns) != len(set(conns)):
            failures.append(("two-holders", "one DBAPI connection held by two checkouts"))

    async def worker(i, rng):
        cur_task[id(asyncio.current_task())] = i
        for op in progs[i]:
            await asyncio.sleep(0)
            try:
                if op[0] == "co":
                    try:
                        f = await greenlet_spawn(pool.connect)
                        held[i].append(f)
                        outcomes[i].append("ok")
                    except asyncio.CancelledError:
                        outcomes[i].append("cancelled")
                        raise
                    except Exception as e:  # noqa
                        outcomes[i].append(type(e).__name__)
                        if type(e).__name__ not in ("TimeoutError", "FakeError"):
                            failures.append(("unexpected-exception", "connect() raised %s: %s" % (type(e).__name__, e)))
                elif op[0] == "sleep":
                    await asyncio.sleep(op[1])
                elif held[i]:
                    f = held[i].pop(op[1] % len(held[i]))
                    if op[0] == "ci":
                        orig_close = pbase._ConnectionRecord.close

                        def close(rec_self):
                            caller = __import__("sys")._getframe(1).f_code.co_name
                            if caller == "_do_return_conn":
                                log("cl")
                            return orig_close(rec_self)

                        pbase._ConnectionRecord.close = close
                        try:
                            await greenlet_spawn(f.close)
                        finally:
                            pbase._ConnectionRecord.close = orig_close
                    else:
                        pbase_close = pbase._ConnectionRecord.close

                        def close2(rec_self):
                            caller = __import__("sys")._getframe(1).f_code.co_name
                            if caller == "_do_return_conn":
                                log("cl")
                            return pbase_close(rec_self)

                        pbase._ConnectionRecord.close = close2
                        try:
                            await greenlet_spawn(f.invalidate)
                        finally:
                            pbase._ConnectionRecord.close = pbase_close
                    outcomes[i].append("ok")
                check()
            except asyncio.CancelledError:
                check()
                return

    async def main():
        active[0] = True
        rng = random.Random(rng_seed)
        tasks = [asyncio.ensure_future(worker(i, rng)) for i in range(len(progs))]
        # cancel some tasks at a pseudo-random later loop iteration
        for i, when in case["cancels"]:
            for _ in range(when):
                await asyncio.sleep(0)
            tasks[i].cancel()
        # tasks only ever block on the pool's queue (pool timeout is huge): when nothing has
        # moved for a while the remaining ones wait for a connection nobody will return --
        # cancel them (what a caller's own timeout does)
        idle_polls, last = 0, -1
        while not all(t.done() for t in tasks):
            await asyncio.wait(tasks, timeout=0.01)
            if len(labels) == last:
                idle_polls += 1
                if idle_polls >= 3:
                    for t in tasks:
                        if not t.done():
                            t.cancel()
                            break
                    idle_polls = 0
            else:
                idle_polls, last = 0, len(labels)
        await asyncio.gather(*tasks, return_exceptions=True)
        flush()
        active[0] = False
        res["live"] = sum(len(h) for h in held)
        res["co"] = pool._pool.maxsize - pool._pool.qsize() + pool.__dict__["_ov"]
        res["q"] = [rid(r) for r in list(pool._pool._queue._queue)] if "_queue" in pool._pool.__dict__ else []
        res["live_ids"] = sorted(rid(f._connection_record) for hl in held for f in hl if f._connection_record is not None)
        res["ov"] = pool.__dict__["_ov"]
        # release what is still held while the loop is alive (not part of the trace)
        for hl in held:
            while hl:
                await greenlet_spawn(hl.pop().close)

    res = {}
    lg = logging.getLogger("sqlalchemy")
    if not getattr(lg, "_verif_silenced", False):
        lg.addHandler(logging.NullHandler())
        lg.propagate = False
        lg._verif_silenced = True
    with warnings.catch_warnings():
        warnings.simplefilter("ignore")
        asyncio.run(main())
    live, co = res["live"], res["co"]
    if co != live:
        failures.append(("checkedout-mismatch", "checkedout()=%d but %d live checkouts" % (co, live)))
    qlist = res["q"]
    n = len(progs)
    fmt = lambda l: ",".join(map(str, l)) if l else "-"
    live_ids = res["live_ids"]
    impl = "ok ov=%d q=%s out=%s co=%d pcs=%s" % (res["ov"], fmt(qlist), fmt(live_ids), co, "/".join(["idle"] * n))
    line = "pool run %d %d %d %d %s" % (cfg["size"], cfg["max_overflow"], int(cfg["lifo"]), n, ",".join(labels) or "-")
    return line, impl, failures


def gen_pool_case(rng):
    cfg = {"size": rng.choice([1, 1, 2]), "max_overflow": rng.choice([0, 0, 1]), "lifo": rng.random() < 0.3, "timeout": 3600.0}
    nt = rng.choice([2, 3, 3])
    progs = []
    for _ in range(nt):
        ops, h = [], 0
        for _ in range(rng.randint(2, 5)):
            if h == 0 or rng.random() < 0.5:
                ops.append(["co"])
                h += 1
            else:
                ops.append([rng.choice(["ci", "ci", "inv"]), rng.randrange(3)])
                h -= 1
        progs.append(ops)
    cancels = [[rng.randrange(nt), rng.randint(1, 12)]] if rng.random() < 0.6 else []
    return {"cfg": cfg, "programs": progs, "cancels": cancels}


# --------------------------------------------------------------------------- driver
def check_program(ctx, prog, tmp, idx, max_points, rng):
    case = {"program": prog}
    p1 = os.path.join(tmp, "s%d.db" % idx)
    p2 = os.path.join(tmp, "a%d.db" % idx)
    out_s, states = run_sync(prog, p1)
    out_a, final_a, failures, n_awaits, _ = run_async(prog, p2, None)
    ctx.case(("prog", prog), nontrivial=len(prog) >= 2)
    ctx.count("txns=%d" % len(prog))
    ctx.count("awaits<=%d" % (10 * (n_awaits // 10 + 1)))
    if out_s != out_a:
        i = next((k for k, (a, b) in enumerate(zip(out_s, out_a)) if a != b), min(len(out_s), len(out_a)))
        ctx.violation("c29-sync-async-results-differ", case, "statement #%d: sync %s async %s" % (i, out_s[i : i + 1], out_a[i : i + 1]))
    if final_a != states[-1]:
        ctx.violation("c29-sync-async-final-state-differs", case, "sync %s async %s" % (states[-1], final_a))
    for key, detail in failures:
        ctx.violation(key, case, detail)
    # (B) cancellation at every (quick: sampled) driver await point
    points = list(range(1, n_awaits + 1))
    special = list(res_points)
    if len(points) > max_points:
        # always the awaits inside context-manager exits (shielded clean-up), plus a sample
        keep = special if len(special) <= max_points else rng.sample(special, max_points)
        rest = [p for p in points if p not in keep]
        points = sorted(set(keep) | set(rng.sample(rest, min(len(rest), max_points))))
    for n in points:
        p3 = os.path.join(tmp, "c%d_%d.db" % (idx, n))
        out_c, final_c, failures, _, cancelled = run_async(prog, p3, n)
        ctx.case(("cancel", prog, n), nontrivial=True)
        ctx.count("cancel-runs")
        ctx.count("cancelled=%s" % cancelled)
        c = {"program": prog, "cancel_at": n}
        for key, detail in failures:
            ctx.violation(key, c, detail)
        # (pysqlite's legacy transaction control does not BEGIN before SAVEPOINT, so RELEASE of
        # the first savepoint commits -- sync and async alike; atomicity of the enclosing
        # transaction is therefore only demanded of programs without savepoints)
        has_sp = any(st[0] == "sp" for txn in prog for st in txn["stmts"])
        if final_c is not None and final_c not in states and not has_sp:
            ctx.violation("c29-cancel-broke-atomicity", c, "database after cancellation %s is not the state after any prefix of committed transactions %s" % (final_c, states))
        if out_c != out_s[: len(out_c)]:
            ctx.violation("c29-sync-async-results-differ", c, "results before the cancellation differ from the sync run")
        try:
            os.unlink(p3)
        except OSError:
            pass
    return n_awaits


def run(ctx, deep=False):
    ctx.rule = (
        "programs = 1-4 transactions (Core with savepoints, or ORM Session) of 1-4 statements over one table, commit/rollback; "
        "each run sync and async (results + final table compared) and re-run async once per driver await point with the task "
        "cancelled there (quick: <= 8 sampled points per program, thorough: all); AsyncAdaptedQueuePool cases = 2-3 tasks x 2-5 ops "
        "with optional task cancellation; non-trivial = >= 2 transactions / any cancellation run"
    )
    ctx.trusted.append("aiosqlite + sqlite3 (the only asyncio driver available); greenlet")
    ctx.assumptions.append("asyncpg / psycopg / aiomysql paths are not executable here")
    thorough = ctx.tier == "thorough" or deep
    tmp = tempfile.mkdtemp(prefix="c29_", dir="/tmp")
    try:
        nprog = 40 if thorough else 8
        for i in range(nprog):
            rng = random.Random("%s:%d:%d" % (PID, ctx.seed, i))
            prog = gen_program(rng)
            check_program(ctx, prog, tmp, i, 1000 if thorough else 5, rng)
            if i < 3:
                ctx.sample({"program": prog})
    finally:
        shutil.rmtree(tmp, ignore_errors=True)
    cases, impl_out, reqs = [], [], []
    for i in range(600 if thorough else 100):
        rng = random.Random("%s:p:%d:%d" % (PID, ctx.seed, i))
        case = gen_pool_case(rng)
        line, impl, failures = run_async_pool(case, rng.randrange(1 << 30))
        ctx.case(("pool", line), nontrivial=True)
        ctx.count("asyncpool-cases")
        for l in line.split()[-1].split(","):
            if ":" in l and l.split(":")[1] in ("cancel", "to", "qf", "qe"):
                ctx.count("asyncpool-label=" + l.split(":")[1])
        for key, detail in failures[:2]:
            ctx.violation("c29-asyncpool-" + key, case, detail)
        cases.append(case)
        impl_out.append(impl)
        reqs.append(line)
    if ctx.driver_ok():
        ctx.correspond("corr/c29:AsyncAdaptedQueuePool-trace-inclusion-in-Model.Pool", cases, impl_out, ctx.driver(reqs))
    ctx.exhaustive = thorough


def search(ctx, broken):
    """deeper search: more programs with every cancellation point (bounded: each database
    run costs ~0.1 s) and more async-pool cases"""
    sub = type(ctx)(ctx.pid, "quick", ctx.seed + 1, ctx.level)
    tmp = tempfile.mkdtemp(prefix="c29s_", dir="/tmp")
    try:
        for i in range(12):
            rng = random.Random("%s:search:%d:%d" % (PID, ctx.seed, i))
            check_program(sub, gen_program(rng), tmp, i, 1000, rng)
    finally:
        shutil.rmtree(tmp, ignore_errors=True)
    for i in range(400):
        rng = random.Random("%s:ps:%d:%d" % (PID, ctx.seed, i))
        case = gen_pool_case(rng)
        line, impl, failures = run_async_pool(case, rng.randrange(1 << 30))
        for key, detail in failures[:2]:
            sub.violation("c29-asyncpool-" + key, case, detail)
    ctx.violations.extend(sub.violations)


def replay(ctx, obj):
    c = obj["case"]
    if "program" in c:
        tmp = tempfile.mkdtemp(prefix="c29r_", dir="/tmp")
        try:
            out_s, states = run_sync(c["program"], os.path.join(tmp, "s.db"))
            out_a, final_a, failures, n, cancelled = run_async(c["program"], os.path.join(tmp, "a.db"), c.get("cancel_at"))
        finally:
            shutil.rmtree(tmp, ignore_errors=True)
        bad = bool(failures) or (final_a not in states) or (c.get("cancel_at") is None and (out_s != out_a or final_a != states[-1]))
        print("replay C29 program=%s cancel_at=%s" % (c["program"], c.get("cancel_at")))
        print("  sync :", out_s, states[-1])
        print("  async:", out_a, final_a, "cancelled=%s" % cancelled)
        print("  oracle:", failures or ("atomic prefix violated" if final_a not in states else "no violation"))
        return bad
    line, impl, failures = run_async_pool(c, 0)
    print("replay C29 async pool case %s -> %s" % (c, failures or "no violation"))
    return bool(failures)
