"""C29 — the asyncio API matches the sync API and is safe under cancellation.

Theorems  lean/SaVerif/Props/C29.lean: the C25 pool LTS extended with the `cancel` step
          (CancelledError out of `await queue.get()`) keeps every C25 invariant; an
          AsyncAdaptedQueuePool schedule is a (coarser) schedule of the same LTS.
Tie /     (A) generated Core + ORM programs (transactions, savepoints, inserts / updates
Oracle        / deletes / selects, Session add / flush / commit / rollback / get) are run
              through Engine/Connection/Session and through AsyncEngine/AsyncConnection/
              AsyncSession on aiosqlite with a file database each: all results and the
              final database contents must be equal.
          (B) every program is then re-run on the async API once per driver await point
              (every aiosqlite `Connection._execute`, i.e. connect, execute, fetch, commit,
              rollback, close ...) with the task cancelled at exactly that await: afterwards
              pool.checkedout() == 0, no idle pooled connection is inside a transaction or
              queued twice, the database holds exactly the effects of a prefix of the
              committed transactions, and a fresh connection works.
          (C) AsyncAdaptedQueuePool with a fake DBAPI under concurrent asyncio tasks incl.
              cancellation while waiting for a connection: the event trace must be a run of
              the C25 LTS (`cancel` label) and the C25 oracle must hold.
"""
import asyncio
import gc
import logging
import os
import random
import shutil
import sys
import tempfile
import warnings

PID = "C29"
LEVEL = "translation_validation"
LEAN = ["SaVerif.Props.C29"]
META = {
    "text": "Differential: generated Core/ORM programs run through the sync API and the asyncio API on aiosqlite must give equal results and equal final database contents; cancellation injected at every driver await point reached (deterministically: the n-th aiosqlite Connection._execute cancels the current task) must leave checkedout()=0, no open transaction on a pooled connection, an atomic prefix of the committed transactions in the database and a usable engine. AsyncAdaptedQueuePool runs under concurrent tasks (with cancellation of waiting checkouts) are checked for trace inclusion in the C25 LTS extended with a cancel step, whose invariants are machine-checked.",
    "note": "Known finding: CancelledError during reset-on-return is re-raised by _finalize_fairy before checkin(), the pool slot comes back only through the garbage collector (known_findings.d/C29.json; a 4-line patch makes the check clean). Only aiosqlite is available (asyncpg / psycopg async / aiomysql are not installed). Lean content is the C25 invariant re-proved with the cancel step (thin for this property: the differential and the cancellation oracle carry the claim, hence translation_validation). greenlet internals trusted. Cancellation points are the driver awaits (aiosqlite funnels every operation through Connection._execute) plus the pool's queue wait.",
    "technique": "differential sync/async execution + exhaustive cancellation injection at driver await points + trace inclusion of AsyncAdaptedQueuePool runs in the C25 LTS",
    "design_ref": "DESIGN.md §3 C29",
}


# --------------------------------------------------------------------------- programs
def gen_program(rng):
    """list of transactions; each: {"kind": core|orm, "stmts": [...], "end": commit|rollback}"""
    prog = []
    next_id = [1]
    for _ in range(rng.randint(1, 4)):
        kind = rng.choice(["core", "core", "orm", "ormx"])
        stmts = []
        for _ in range(rng.randint(1, 4)):
            x = rng.random()
            if x < 0.4:
                stmts.append(["ins", next_id[0], rng.randrange(100)])
                next_id[0] += 1
            elif x < 0.55:
                stmts.append(["upd", rng.randrange(1, max(2, next_id[0])), rng.randrange(100)])
            elif x < 0.65:
                stmts.append(["del", rng.randrange(1, max(2, next_id[0]))])
            elif x < 0.85:
                stmts.append(["sel"])
            elif kind == "core":
                # savepoint block
                inner = [["ins", next_id[0], rng.randrange(100)]]
                next_id[0] += 1
                stmts.append(["sp", inner, rng.choice(["commit", "rollback"])])
            else:
                stmts.append(["get", rng.randrange(1, max(2, next_id[0]))])
        txn = {"kind": kind, "stmts": stmts, "end": rng.choice(["commit", "commit", "rollback", "leave"])}
        if kind == "ormx":
            # Session bound in one of the documented forms, possibly joined into an external
            # transaction that is then committed or rolled back by its owner
            txn["bindform"] = rng.choice(BINDFORMS)
            txn["outer"] = rng.choice(["commit", "rollback", "rollback"])
        prog.append(txn)
    return prog


# scratch databases: a memory-backed directory when there is one (sqlite fsyncs dominate otherwise)
TMPROOT = "/dev/shm" if os.path.isdir("/dev/shm") and os.access("/dev/shm", os.W_OK) else "/tmp"

BINDFORMS = ("bind_engine", "binds_engine", "binds_table_engine", "bind_conn", "binds_conn", "binds_table_conn")


def _session_kw(form, T, eng, conn):
    target = conn if form.endswith("conn") else eng
    if form.startswith("bind_"):
        return {"bind": target}
    if form.startswith("binds_table"):
        return {"binds": {T.__table__: target}}
    return {"binds": {T: target}}


def _schema():
    import sqlalchemy as sa
    from sqlalchemy.orm import declarative_base

    Base = declarative_base()

    class T(Base):
        __tablename__ = "t"
        id = sa.Column(sa.Integer, primary_key=True, autoincrement=False)
        x = sa.Column(sa.Integer)

    return Base, T


_SCHEMA = None


def schema():
    global _SCHEMA
    if _SCHEMA is None:
        _SCHEMA = _schema()
    return _SCHEMA


def run_sync(prog, path):
    import sqlalchemy as sa
    from sqlalchemy.orm import Session

    Base, T = schema()
    t = T.__table__
    eng = sa.create_engine("sqlite:///" + path)
    out = []
    states = []
    try:
        Base.metadata.create_all(eng)

        def dump(conn):
            return [tuple(r) for r in conn.execute(sa.select(t).order_by(t.c.id))]

        with eng.connect() as c:
            states.append(dump(c))
        for txn in prog:
            if txn["kind"] == "core":
                with eng.connect() as conn:
                    tr = conn.begin()
                    for st in txn["stmts"]:
                        out.append(_core_stmt(conn, t, st))
                    if txn["end"] == "commit":
                        tr.commit()
                    elif txn["end"] == "rollback":
                        tr.rollback()
                    # "leave": the context manager exit cleans up
            elif txn["kind"] == "ormx":
                with eng.connect() as conn:
                    ext = conn.begin() if txn["bindform"].endswith("conn") else None
                    with Session(**_session_kw(txn["bindform"], T, eng, conn)) as s:
                        for st in txn["stmts"]:
                            out.append(_orm_stmt(s, T, st))
                        if txn["end"] == "commit":
                            s.commit()
                        elif txn["end"] == "rollback":
                            s.rollback()
                    if ext is not None:
                        out.append(("outer-active", ext.is_active))
                        if ext.is_active:
                            ext.commit() if txn["outer"] == "commit" else ext.rollback()
            else:
                with Session(eng) as s:
                    for st in txn["stmts"]:
                        out.append(_orm_stmt(s, T, st))
                    if txn["end"] == "commit":
                        s.commit()
                    elif txn["end"] == "rollback":
                        s.rollback()
            with eng.connect() as c:
                states.append(dump(c))
    finally:
        eng.dispose()
    return out, states


def _core_stmt(conn, t, st):
    import sqlalchemy as sa

    k = st[0]
    if k == "ins":
        return ("ins", conn.execute(sa.insert(t).values(id=st[1], x=st[2])).rowcount)
    if k == "upd":
        return ("upd", conn.execute(sa.update(t).where(t.c.id == st[1]).values(x=st[2])).rowcount)
    if k == "del":
        return ("del", conn.execute(sa.delete(t).where(t.c.id == st[1])).rowcount)
    if k == "sel":
        return ("sel", [tuple(r) for r in conn.execute(sa.select(t).order_by(t.c.id))])
    if k == "sp":
        sp = conn.begin_nested()
        res = [_core_stmt(conn, t, s) for s in st[1]]
        sp.commit() if st[2] == "commit" else sp.rollback()
        return ("sp", res)
    raise AssertionError(st)


def _orm_stmt(s, T, st):
    import sqlalchemy as sa

    k = st[0]
    if k == "ins":
        s.add(T(id=st[1], x=st[2]))
        s.flush()
        return ("ins", 1)
    if k == "upd":
        o = s.get(T, st[1])
        if o is not None:
            o.x = st[2]
            s.flush()
        return ("upd", 0 if o is None else 1)
    if k == "del":
        o = s.get(T, st[1])
        if o is not None:
            s.delete(o)
            s.flush()
        return ("del", 0 if o is None else 1)
    if k == "sel":
        return ("sel", [(o.id, o.x) for o in s.scalars(sa.select(T).order_by(T.id))])
    if k == "get":
        o = s.get(T, st[1])
        return ("get", None if o is None else (o.id, o.x))
    raise AssertionError(st)


async def _acore_stmt(conn, t, st):
    import sqlalchemy as sa

    k = st[0]
    if k == "ins":
        return ("ins", (await conn.execute(sa.insert(t).values(id=st[1], x=st[2]))).rowcount)
    if k == "upd":
        return ("upd", (await conn.execute(sa.update(t).where(t.c.id == st[1]).values(x=st[2]))).rowcount)
    if k == "del":
        return ("del", (await conn.execute(sa.delete(t).where(t.c.id == st[1]))).rowcount)
    if k == "sel":
        return ("sel", [tuple(r) for r in await conn.execute(sa.select(t).order_by(t.c.id))])
    if k == "sp":
        sp = await conn.begin_nested()
        res = [await _acore_stmt(conn, t, s) for s in st[1]]
        await (sp.commit() if st[2] == "commit" else sp.rollback())
        return ("sp", res)
    raise AssertionError(st)


async def _aorm_stmt(s, T, st):
    import sqlalchemy as sa

    k = st[0]
    if k == "ins":
        s.add(T(id=st[1], x=st[2]))
        await s.flush()
        return ("ins", 1)
    if k == "upd":
        o = await s.get(T, st[1])
        if o is not None:
            o.x = st[2]
            await s.flush()
        return ("upd", 0 if o is None else 1)
    if k == "del":
        o = await s.get(T, st[1])
        if o is not None:
            await s.delete(o)
            await s.flush()
        return ("del", 0 if o is None else 1)
    if k == "sel":
        return ("sel", [(o.id, o.x) for o in await s.scalars(sa.select(T).order_by(T.id))])
    if k == "get":
        o = await s.get(T, st[1])
        return ("get", None if o is None else (o.id, o.x))
    raise AssertionError(st)


class Injector:
    """counts aiosqlite driver awaits; cancels the current task at the target-th one"""

    def __init__(self, target=None):
        self.count = 0
        self.target = target
        self.fired = False
        self.user_task = None
        self.in_reset = False
        self.reset_active = False
        self.in_aexit = False
        self.aexit_points = []
        self.in_connect = False
        self.connect_points = []
        self.dispose_points = []
        self.phase = "body"
        self.fired_phase = None
        self.timeout_cm = None

    def install(self):
        from aiosqlite import core

        self.orig = core.Connection._execute
        inj = self

        async def _execute(conn, fn, *a, **kw):
            if inj.armed:
                inj.count += 1
                if inj.phase in ("dispose", "close"):
                    inj.dispose_points.append(inj.count)
                if inj.target is None:
                    # dry run: remember which awaits happen during a context-manager exit
                    f, k = sys._getframe(1), 0
                    while f is not None and k < 120:
                        if f.f_code.co_name == "__aexit__":
                            inj.aexit_points.append(inj.count)
                            break
                        f, k = f.f_back, k + 1
                    else:
                        if inj.user_task is not None and asyncio.current_task() is not inj.user_task:
                            inj.aexit_points.append(inj.count)  # the shielded close() task
                if inj.target is not None and inj.count == inj.target and not inj.fired:
                    inj.fired = True
                    # where are we?  (used only to classify a violation): between the
                    # pool's `reset` and `checkin` events = reset-on-return in progress
                    inj.in_reset = inj.reset_active
                    names, co = [], (inj.user_task.get_coro() if inj.user_task is not None else None)
                    while co is not None and hasattr(co, "cr_code") and len(names) < 40:
                        names.append(co.cr_code.co_name)
                        co = co.cr_await
                    # reset-on-return reached through a context manager exit (which SQLAlchemy
                    # shields) is NOT the known pattern
                    f = sys._getframe(1)
                    while f is not None and len(names) < 120:
                        names.append(f.f_code.co_name)
                        f = f.f_back
                    inj.in_aexit = "__aexit__" in names
                    # cancel the USER's task (what task.cancel() / wait_for do), also when this
                    # await happens inside the shielded close() task SQLAlchemy spawned
                    inj.fire()
            return await inj.orig(conn, fn, *a, **kw)

        self.orig_connect = core.Connection._connect

        async def _connect(conn):
            # the await inside aiosqlite.connect(): creation of a physical connection
            if inj.armed:
                inj.count += 1
                inj.connect_points.append(inj.count)
                if inj.target is not None and inj.count == inj.target and not inj.fired:
                    inj.fired = True
                    inj.in_reset, inj.in_aexit, inj.in_connect = False, False, True
                    inj.fire()
            return await inj.orig_connect(conn)

        self.armed = False
        core.Connection._execute = _execute
        core.Connection._connect = _connect

    def fire(self):
        """deliver the interruption to the USER's task: task.cancel(), or (mode "timeout")
        expiry of the asyncio.timeout() block the body runs in -- what wait_for does"""
        self.fired_phase = self.phase
        if self.timeout_cm is not None:
            self.timeout_cm.reschedule(asyncio.get_event_loop().time() - 1)
        else:
            (self.user_task or asyncio.current_task()).cancel()

    def remove(self):
        from aiosqlite import core

        core.Connection._execute = self.orig
        core.Connection._connect = self.orig_connect


async def _async_body(eng, prog, out):
    from sqlalchemy.ext.asyncio import AsyncSession

    Base, T = schema()
    t = T.__table__
    for txn in prog:
        if txn["kind"] == "core":
            async with eng.connect() as conn:
                tr = await conn.begin()
                for st in txn["stmts"]:
                    out.append(await _acore_stmt(conn, t, st))
                if txn["end"] == "commit":
                    await tr.commit()
                elif txn["end"] == "rollback":
                    await tr.rollback()
        elif txn["kind"] == "ormx":
            async with eng.connect() as conn:
                ext = (await conn.begin()) if txn["bindform"].endswith("conn") else None
                async with AsyncSession(**_session_kw(txn["bindform"], T, eng, conn)) as s:
                    for st in txn["stmts"]:
                        out.append(await _aorm_stmt(s, T, st))
                    if txn["end"] == "commit":
                        await s.commit()
                    elif txn["end"] == "rollback":
                        await s.rollback()
                if ext is not None:
                    out.append(("outer-active", ext.is_active))
                    if ext.is_active:
                        await (ext.commit() if txn["outer"] == "commit" else ext.rollback())
        else:
            async with AsyncSession(eng) as s:
                for st in txn["stmts"]:
                    out.append(await _aorm_stmt(s, T, st))
                if txn["end"] == "commit":
                    await s.commit()
                elif txn["end"] == "rollback":
                    await s.rollback()


res_points = []  # awaits of the last dry run that lie inside a context-manager exit


def run_async(prog, path, cancel_at=None):
    """returns (out, final table, failures, n_awaits, cancelled?)"""
    import sqlalchemy as sa
    from sqlalchemy.ext.asyncio import create_async_engine

    Base, T = schema()
    t = T.__table__
    inj = Injector(cancel_at)
    failures = []
    out = []
    res = {}

    async def main():
        eng = create_async_engine("sqlite+aiosqlite:///" + path, pool_size=2, max_overflow=1)
        sa.event.listen(eng.sync_engine.pool, "reset", lambda *a: setattr(inj, "reset_active", True))
        sa.event.listen(eng.sync_engine.pool, "checkin", lambda *a: setattr(inj, "reset_active", False))
        try:
            async with eng.begin() as conn:
                await conn.run_sync(Base.metadata.create_all)
            inj.armed = True
            task = asyncio.ensure_future(_async_body(eng, prog, out))
            inj.user_task = task
            try:
                await task
                res["cancelled"] = False
            except asyncio.CancelledError:
                res["cancelled"] = True
            inj.armed = False
            pool = eng.pool
            # let shielded clean-up tasks finish, then look at the pool BEFORE any garbage
            # collection: the connection must have been returned by the code, not by the GC
            me = asyncio.current_task()
            others = [x for x in asyncio.all_tasks() if x is not me]
            if others:
                await asyncio.gather(*others, return_exceptions=True)
            del others
            inj.user_task = None
            await asyncio.sleep(0)
            if inj.fired and not res["cancelled"]:
                failures.append(("c29-cancellation-swallowed", "the task was cancelled at driver await #%s but finished normally" % cancel_at))
            left = pool.checkedout() != 0
            if left:
                key = "c29-cancelled-in-reset-on-return-left-to-gc" if (inj.in_reset and not inj.in_aexit) else "c29-connection-left-to-gc"
                failures.append((key, "checkedout()=%d right after the task ended (cancel at await #%s%s): the connection was not returned by the code path, only the garbage collector can give the pool slot back" % (pool.checkedout(), cancel_at, ", inside _finalize_fairy -> _reset" if inj.in_reset else "")))
            del task
            gc.collect()
            await asyncio.sleep(0)
            # ---------------- oracle after the (possibly cancelled) run
            if pool.checkedout() != 0 and not (left and inj.in_reset and not inj.in_aexit):
                failures.append(("c29-connection-not-returned", "checkedout()=%d after the task ended and a gc.collect() (cancel at await #%s)" % (pool.checkedout(), cancel_at)))
            idle = list(pool._pool._queue._queue) if hasattr(pool._pool, "_queue") else []
            if len({id(r) for r in idle}) != len(idle):
                failures.append(("c29-returned-twice", "a connection record is idle in the pool twice (cancel at await #%s)" % cancel_at))
            for r in idle:
                dc = r.dbapi_connection
                if dc is not None:
                    raw = dc._connection._conn
                    if raw is not None and raw.in_transaction:
                        failures.append(("c29-open-transaction-in-pool", "an idle pooled connection is inside a transaction (cancel at await #%s)" % cancel_at))
            try:
                async with eng.connect() as conn:
                    res["final"] = [tuple(r) for r in await conn.execute(sa.select(t).order_by(t.c.id))]
            except Exception as e:  # noqa
                failures.append(("c29-engine-unusable", "fresh connection after cancellation failed: %s: %s" % (type(e).__name__, e)))
                res["final"] = None
            if pool.checkedout() != 0 and not (left and inj.in_reset and not inj.in_aexit):
                failures.append(("c29-connection-not-returned", "checkedout()=%d after a follow-up connection" % pool.checkedout()))
        finally:
            await eng.dispose()

    lg = logging.getLogger("sqlalchemy")
    if not getattr(lg, "_verif_silenced", False):
        lg.addHandler(logging.NullHandler())
        lg.propagate = False
        lg._verif_silenced = True
    inj.install()
    try:
        with warnings.catch_warnings():
            warnings.simplefilter("ignore")
            asyncio.run(main())
    finally:
        inj.remove()
    res_points[:] = inj.aexit_points
    return out, res.get("final"), failures, inj.count, res.get("cancelled")


# --------------------------------------------------------------------------- (C) async pool
def run_async_pool(case, rng_seed):
    """AsyncAdaptedQueuePool + fake DBAPI under concurrent asyncio tasks; returns
    (model line, impl final string, failures)"""
    import sqlalchemy.pool.impl as pimpl
    from sqlalchemy.util import greenlet_spawn

    from harness import lib_pool

    cfg, progs = case["cfg"], case["programs"]
    labels = []
    failures = []
    dbapi = lib_pool.FakeDBAPI()
    rec_ids, recs = {}, []
    cur_task = {}

    def tid():
        return cur_task.get(id(asyncio.current_task()))

    def log(lab):
        if active[0]:
            labels.append("%d:%s" % (tid(), lab))

    pending = [None]
    active = [False]

    def flush():
        if pending[0] is not None:
            t, v = pending[0]
            pending[0] = None
            labels.append("%d:rv:%d" % (t, v))

    def log_ov(kind, v):
        if kind == "rv":
            flush()
            pending[0] = (tid(), v)
        else:
            pr = pending[0]
            if pr is not None and pr[0] == tid():
                pending[0] = None
                labels.append("%d:rmw:%d:%d" % (tid(), pr[1], v))
            else:
                flush()
                log("wv:%d" % v)

    cls = lib_pool.traced_pool_class(pimpl.AsyncAdaptedQueuePool, log_ov, lambda: active[0])
    from sqlalchemy.util import await_

    def creator():
        # a physical connection is created with an await inside (as every asyncio driver does)
        await_(asyncio.sleep(0))
        return dbapi.connect()

    # driver-level close() / rollback() suspend too (every asyncio driver awaits there); an op
    # ["cix", k, where] gives a connection back with the task cancelled exactly at that await
    my_cancel = {}

    def on_call(kind, conn):
        import greenlet

        if kind in ("close", "rollback") and getattr(greenlet.getcurrent(), "__sqlalchemy_greenlet_provider__", False):
            if kind == "close":
                conn.closed = True  # the driver has issued the close; the await is for its completion
            if my_cancel.get(tid()) == kind:
                my_cancel[tid()] = None
                asyncio.current_task().cancel()
            await_(asyncio.sleep(0))
        return False

    dbapi.fail = on_call
    pool = cls(creator, pool_size=cfg["size"], max_overflow=cfg["max_overflow"], use_lifo=cfg["lifo"], timeout=cfg["timeout"])

    def rid(rec):
        k = id(rec)
        if k not in rec_ids:
            rec_ids[k] = len(recs)
            recs.append(rec)
        return rec_ids[k]

    orig = {}

    def wrap(name, fn):
        orig[name] = getattr(cls, name)
        setattr(cls, name, fn)

    # labels from thin wrappers defined on the harness subclass (the real methods run inside)
    def _do_get(self):
        flush()
        log("cg")
        try:
            return pimpl.QueuePool._do_get(self)
        except BaseException as e:
            flush()
            if type(e).__name__ == "TimeoutError" and not getattr(e, "_v", False):
                e._v = True
                log("to")
            raise

    def _inc_overflow(self):
        flush()
        log("ci")
        locked = self._max_overflow != -1
        if locked:
            log("la")
        r = pimpl.QueuePool._inc_overflow(self)
        flush()
        if locked:
            log("lr")
        return r

    def _dec_overflow(self):
        flush()
        log("cd")
        locked = self._max_overflow != -1
        if locked:
            log("la")
        r = pimpl.QueuePool._dec_overflow(self)
        flush()
        if locked:
            log("lr")
        return r

    def _create_connection(self):
        flush()
        try:
            rec = pimpl.QueuePool._create_connection(self)
        except asyncio.CancelledError:
            log("ccancel")  # cancelled at the await inside the creation
            raise
        except BaseException:
            log("cf")
            raise
        log("cr:%d" % rid(rec))
        return rec

    def _do_return_conn(self, record):
        flush()
        log("cp:%d" % rid(record))
        return pimpl.QueuePool._do_return_conn(self, record)

    cls._do_get = _do_get
    cls._inc_overflow = _inc_overflow
    cls._dec_overflow = _dec_overflow
    cls._create_connection = _create_connection
    cls._do_return_conn = _do_return_conn

    q = pool._pool
    import sqlalchemy.util.queue as squeue

    class TQ(squeue.AsyncAdaptedQueue):
        def get(self, block=True, timeout=None):
            flush()
            log("qg:%d" % (1 if block else 0))
            me = tid()
            try:
                item = squeue.AsyncAdaptedQueue.get(self, block, timeout)
            except squeue.Empty:
                cur_task[id(asyncio.current_task())] = me
                log("qe")
                raise
            except asyncio.CancelledError:
                log("cancel")
                raise
            log("pop:%d" % rid(item))
            return item

        def put(self, item, block=True, timeout=None):
            flush()
            try:
                squeue.AsyncAdaptedQueue.put(self, item, block, timeout)
            except squeue.Full:
                log("qf")
                raise
            log("put:%d" % rid(item))

    q.__class__ = TQ
    # record.close() from _do_return_conn (Full path)
    import sqlalchemy.pool.base as pbase

    held = [[] for _ in progs]
    outcomes = [[] for _ in progs]

    def check():
        mo, size = pool._max_overflow, cfg["size"]
        ov = pool.__dict__["_ov"]
        if mo > -1 and ov > mo:
            failures.append(("overflow-exceeds-max", "_overflow=%d > %d" % (ov, mo)))
        if mo > -1 and dbapi.open_count() > size + mo:
            failures.append(("open-exceeds-limit", "%d open > %d" % (dbapi.open_count(), size + mo)))
        live = [f for hl in held for f in hl]
        conns = [id(f.dbapi_connection) for f in live if f.dbapi_connection is not None]
        if len(conns) != len(set(conns)):
            failures.append(("two-holders", "one DBAPI connection held by two checkouts"))

    async def worker(i, rng):
        cur_task[id(asyncio.current_task())] = i
        for op in progs[i]:
            await asyncio.sleep(0)
            try:
                if op[0] == "co":
                    try:
                        f = await greenlet_spawn(pool.connect)
                        held[i].append(f)
                        outcomes[i].append("ok")
                    except asyncio.CancelledError:
                        outcomes[i].append("cancelled")
                        raise
                    except Exception as e:  # noqa
                        outcomes[i].append(type(e).__name__)
                        if type(e).__name__ not in ("TimeoutError", "FakeError"):
                            failures.append(("unexpected-exception", "connect() raised %s: %s" % (type(e).__name__, e)))
                elif op[0] == "sleep":
                    await asyncio.sleep(op[1])
                elif held[i]:
                    f = held[i].pop(op[1] % len(held[i]))
                    if op[0] in ("ci", "cix"):
                        my_cancel[i] = op[2] if op[0] == "cix" else None
                        try:
                            await greenlet_spawn(f.close)
                        finally:
                            my_cancel[i] = None
                    else:
                        await greenlet_spawn(f.invalidate)
                    outcomes[i].append("ok")
                check()
            except asyncio.CancelledError:
                check()
                return

    async def main():
        active[0] = True
        rng = random.Random(rng_seed)
        tasks = [asyncio.ensure_future(worker(i, rng)) for i in range(len(progs))]
        # cancel some tasks at a pseudo-random later loop iteration
        for i, when in case["cancels"]:
            for _ in range(when):
                await asyncio.sleep(0)
            tasks[i].cancel()
        # tasks only ever block on the pool's queue (pool timeout is huge): when nothing has
        # moved for a while the remaining ones wait for a connection nobody will return --
        # cancel them (what a caller's own timeout does)
        idle_polls, last = 0, -1
        while not all(t.done() for t in tasks):
            await asyncio.wait(tasks, timeout=0.01)
            if len(labels) == last:
                idle_polls += 1
                if idle_polls >= 3:
                    for t in tasks:
                        if not t.done():
                            t.cancel()
                            break
                    idle_polls = 0
            else:
                idle_polls, last = 0, len(labels)
        await asyncio.gather(*tasks, return_exceptions=True)
        flush()
        active[0] = False
        res["live"] = sum(len(h) for h in held)
        res["co"] = pool._pool.maxsize - pool._pool.qsize() + pool.__dict__["_ov"]
        res["q"] = [rid(r) for r in list(pool._pool._queue._queue)] if "_queue" in pool._pool.__dict__ else []
        res["live_ids"] = sorted(rid(f._connection_record) for hl in held for f in hl if f._connection_record is not None)
        res["ov"] = pool.__dict__["_ov"]
        # release what is still held while the loop is alive (not part of the trace)
        for hl in held:
            while hl:
                await greenlet_spawn(hl.pop().close)

    res = {}
    lg = logging.getLogger("sqlalchemy")
    if not getattr(lg, "_verif_silenced", False):
        lg.addHandler(logging.NullHandler())
        lg.propagate = False
        lg._verif_silenced = True
    hl = logging.getLogger(cls.__module__)  # the traced subclass logs under its own module name
    if not getattr(hl, "_verif_silenced", False):
        hl.addHandler(logging.NullHandler())
        hl.propagate = False
        hl._verif_silenced = True
    orig_close = pbase._ConnectionRecord.close

    def close(rec_self):
        # record.close() from _do_return_conn (queue full)
        if sys._getframe(1).f_code.co_name == "_do_return_conn":
            log("cl")
        return orig_close(rec_self)

    pbase._ConnectionRecord.close = close
    try:
        with warnings.catch_warnings():
            warnings.simplefilter("ignore")
            asyncio.run(main())
    finally:
        pbase._ConnectionRecord.close = orig_close
    live, co = res["live"], res["co"]
    if co != live:
        failures.append(("checkedout-mismatch", "checkedout()=%d but %d live checkouts" % (co, live)))
    qlist = res["q"]
    n = len(progs)
    fmt = lambda l: ",".join(map(str, l)) if l else "-"
    live_ids = res["live_ids"]
    impl = "ok ov=%d q=%s out=%s co=%d pcs=%s" % (res["ov"], fmt(qlist), fmt(live_ids), co, "/".join(["idle"] * n))
    line = "pool run %d %d %d %d %s" % (cfg["size"], cfg["max_overflow"], int(cfg["lifo"]), n, ",".join(labels) or "-")
    return line, impl, failures


def gen_pool_case(rng):
    cfg = {"size": rng.choice([1, 1, 2]), "max_overflow": rng.choice([0, 0, 1]), "lifo": rng.random() < 0.3, "timeout": 3600.0}
    nt = rng.choice([2, 3, 3])
    progs = []
    for _ in range(nt):
        ops, h = [], 0
        for _ in range(rng.randint(2, 5)):
            if h == 0 or rng.random() < 0.5:
                ops.append(["co"])
                h += 1
            else:
                kind = rng.choice(["ci", "ci", "ci", "inv", "cix"])
                ops.append([kind, rng.randrange(3)] + ([rng.choice(["close", "close", "rollback"])] if kind == "cix" else []))
                h -= 1
                if kind == "cix":
                    break  # (the task ends there when the cancellation is delivered)
        progs.append(ops)
    cancels = [[rng.randrange(nt), rng.randint(1, 12)]] if rng.random() < 0.6 else []
    return {"cfg": cfg, "programs": progs, "cancels": cancels}


def _pool_directed():
    """every way an interruption can land in the give-back path: queue has room / queue full
    (the connection is closed and the overflow counter decremented), cancelled at the driver's
    rollback (reset-on-return) or close(), alone or with a second task waiting / holding"""
    out = []
    for size, mo in ((1, 1), (1, 0), (2, 1)):
        n = size + mo
        for where in ("close", "rollback"):
            for last in range(n):
                # one task opens everything, returns all but one, then the cancelled give-back
                ops = [["co"]] * n + [["ci", 0]] * last + [["cix", 0, where]]
                for other in ([["co"], ["ci", 0]], [["sleep", 0.0], ["co"], ["ci", 0], ["co"], ["ci", 0]]):
                    out.append({"cfg": {"size": size, "max_overflow": mo, "lifo": False, "timeout": 3600.0}, "programs": [ops, other], "cancels": []})
    return out


POOL_DIRECTED = _pool_directed()


# --------------------------------------------------------------------------- driver
def bind_matrix():
    """one program per bind form; its transactions run through session end x outer end, each
    inserting its own row and reading the table back, followed by a plain read"""
    progs = []
    for form in BINDFORMS:
        prog, k = [], 0
        for end in ("commit", "rollback", "leave"):
            for outer in ("commit", "rollback"):
                k += 1
                prog.append({"kind": "ormx", "stmts": [["ins", k, 10 * k], ["sel"]], "end": end, "bindform": form, "outer": outer})
                prog.append({"kind": "core", "stmts": [["sel"]], "end": "leave"})
        progs.append(prog)
    return progs


def check_program(ctx, prog, tmp, idx, max_points, rng, key=None):
    case = {"program": prog}
    p1 = os.path.join(tmp, "s%d.db" % idx)
    p2 = os.path.join(tmp, "a%d.db" % idx)
    out_s, states = run_sync(prog, p1)
    out_a, final_a, failures, n_awaits, _ = run_async(prog, p2, None)
    ctx.case(("prog", prog), nontrivial=len(prog) >= 2)
    ctx.count("txns=%d" % len(prog))
    ctx.count("awaits<=%d" % (10 * (n_awaits // 10 + 1)))
    if out_s != out_a:
        i = next((k for k, (a, b) in enumerate(zip(out_s, out_a)) if a != b), min(len(out_s), len(out_a)))
        ctx.violation(key or "c29-sync-async-results-differ", case, "statement #%d: sync %s async %s" % (i, out_s[i : i + 1], out_a[i : i + 1]))
    if final_a != states[-1]:
        ctx.violation(key or "c29-sync-async-final-state-differs", case, "sync %s async %s" % (states[-1], final_a))
    for key, detail in failures:
        ctx.violation(key, case, detail)
    # (B) cancellation at every (quick: sampled) driver await point
    points = list(range(1, n_awaits + 1))
    special = list(res_points)
    if len(points) > max_points:
        # always the awaits inside context-manager exits (shielded clean-up), plus a sample
        keep = special if len(special) <= max_points else rng.sample(special, max_points)
        rest = [p for p in points if p not in keep]
        points = sorted(set(keep) | set(rng.sample(rest, min(len(rest), max_points))))
    for n in points:
        p3 = os.path.join(tmp, "c%d_%d.db" % (idx, n))
        out_c, final_c, failures, _, cancelled = run_async(prog, p3, n)
        ctx.case(("cancel", prog, n), nontrivial=True)
        ctx.count("cancel-runs")
        ctx.count("cancelled=%s" % cancelled)
        c = {"program": prog, "cancel_at": n}
        for key, detail in failures:
            ctx.violation(key, c, detail)
        # (pysqlite's legacy transaction control does not BEGIN before SAVEPOINT, so RELEASE of
        # the first savepoint commits -- sync and async alike; atomicity of the enclosing
        # transaction is therefore only demanded of programs without savepoints)
        has_sp = any(st[0] == "sp" for txn in prog for st in txn["stmts"])
        if final_c is not None and final_c not in states and not has_sp:
            ctx.violation("c29-cancel-broke-atomicity", c, "database after cancellation %s is not the state after any prefix of committed transactions %s" % (final_c, states))
        if out_c != out_s[: len(out_c)]:
            ctx.violation("c29-sync-async-results-differ", c, "results before the cancellation differ from the sync run")
        try:
            os.unlink(p3)
        except OSError:
            pass
    return n_awaits


def run(ctx, deep=False):
    ctx.rule = (
        "programs = 1-4 transactions (Core with savepoints, ORM Session, or ORM Session bound by bind=/binds={entity|table: ...} to an "
        "engine or to a connection inside an external transaction that is then committed/rolled back) of 1-4 statements over one "
        "table, commit/rollback/leave, plus the full bind-form x session-end x outer-end matrix; "
        "each run sync and async (results + final table compared) and re-run async once per driver await point with the task "
        "cancelled there (quick: <= 8 points per program: context-manager exits + a sample, thorough: all); AsyncAdaptedQueuePool cases = 2-3 tasks x 2-5 ops "
        "with optional task cancellation, incl. cancellation at the driver's rollback()/close() await while a connection is given back "
        "(queue with room / full); connection scenarios = creation / dispose / explicit unshielded close() of AsyncConnection and "
        "AsyncSession interrupted (cancel and timeout) at driver awaits, then checkedout()==0 and pool_size+max_overflow still obtainable; non-trivial = >= 2 transactions / any cancellation run"
    )
    ctx.trusted.append("aiosqlite + sqlite3 (the only asyncio driver available); greenlet")
    ctx.assumptions.append("asyncpg / psycopg / aiomysql paths are not executable here")
    thorough = ctx.tier == "thorough" or deep
    tmp = tempfile.mkdtemp(prefix="c29_", dir=TMPROOT)
    try:
        nprog = 40 if thorough else 6
        for i in range(nprog):
            rng = random.Random("%s:%d:%d" % (PID, ctx.seed, i))
            prog = gen_program(rng)
            check_program(ctx, prog, tmp, i, 1000 if thorough else 4, rng)
            if i < 3:
                ctx.sample({"program": prog})
        # (A') every Session bind form x how the session ends x how the external transaction ends
        for j, prog in enumerate(bind_matrix()):
            check_program(ctx, prog, tmp, 1000 + j, 1000 if thorough else 0, random.Random(j), key="c29-session-bind-differs")
            ctx.count("bind-matrix-programs")
    finally:
        shutil.rmtree(tmp, ignore_errors=True)
    # (D) streamed results reconfigured mid-stream: sync vs async
    tmp = tempfile.mkdtemp(prefix="c29_", dir=TMPROOT)
    try:
        scs = [gen_stream_scenario(random.Random("%s:st:%d:%d" % (PID, ctx.seed, i))) for i in range(500 if thorough else 45)]
        scs = STREAM_DIRECTED + scs
        for sc, (so, ao) in zip(scs, stream_differential(scs, tmp)):
            ctx.case(("stream", sc), nontrivial=True)
            ctx.count("stream-scenarios")
            for st in sc["steps"]:
                ctx.count("stream-step=" + st[0])
            if so != ao:
                i = next((k for k, (a, b) in enumerate(zip(so, ao)) if a != b), 0)
                ctx.violation(classify_stream(sc), {"stream": sc}, "step result #%d: sync %s, async %s" % (i, str(so[i : i + 1])[:200], str(ao[i : i + 1])[:200]))
        # (E) interruption while a physical connection is being created
        connect_scenarios(ctx, tmp, random.Random("%s:conn:%d" % (PID, ctx.seed)), thorough)
    finally:
        shutil.rmtree(tmp, ignore_errors=True)
    cases, impl_out, reqs = [], [], []
    npool = 600 if thorough else 80
    for i in range(-len(POOL_DIRECTED), npool):
        rng = random.Random("%s:p:%d:%d" % (PID, ctx.seed, i))
        case = gen_pool_case(rng) if i >= 0 else POOL_DIRECTED[i]
        line, impl, failures = run_async_pool(case, rng.randrange(1 << 30))
        ctx.case(("pool", line), nontrivial=True)
        ctx.count("asyncpool-cases")
        for l in line.split()[-1].split(","):
            if ":" in l and l.split(":")[1] in ("cancel", "ccancel", "to", "qf", "qe"):
                ctx.count("asyncpool-label=" + l.split(":")[1])
        for key, detail in failures[:2]:
            ctx.violation("c29-asyncpool-" + key, case, detail)
        cases.append(case)
        impl_out.append(impl)
        reqs.append(line)
    if ctx.driver_ok():
        ctx.correspond("corr/c29:AsyncAdaptedQueuePool-trace-inclusion-in-Model.Pool", cases, impl_out, ctx.driver(reqs))
    ctx.exhaustive = thorough


def search(ctx, broken):
    """deeper search: more programs with every cancellation point (bounded: each database
    run costs ~0.1 s) and more async-pool cases"""
    sub = type(ctx)(ctx.pid, "quick", ctx.seed + 1, ctx.level)
    tmp = tempfile.mkdtemp(prefix="c29s_", dir=TMPROOT)
    try:
        for i in range(12):
            rng = random.Random("%s:search:%d:%d" % (PID, ctx.seed, i))
            check_program(sub, gen_program(rng), tmp, i, 1000, rng)
    finally:
        shutil.rmtree(tmp, ignore_errors=True)
    for i in range(400):
        rng = random.Random("%s:ps:%d:%d" % (PID, ctx.seed, i))
        case = gen_pool_case(rng)
        line, impl, failures = run_async_pool(case, rng.randrange(1 << 30))
        for key, detail in failures[:2]:
            sub.violation("c29-asyncpool-" + key, case, detail)
    ctx.violations.extend(sub.violations)


def replay(ctx, obj):
    c = obj["case"]
    if "program" in c:
        tmp = tempfile.mkdtemp(prefix="c29r_", dir=TMPROOT)
        try:
            out_s, states = run_sync(c["program"], os.path.join(tmp, "s.db"))
            out_a, final_a, failures, n, cancelled = run_async(c["program"], os.path.join(tmp, "a.db"), c.get("cancel_at"))
        finally:
            shutil.rmtree(tmp, ignore_errors=True)
        bad = bool(failures) or (final_a not in states) or (c.get("cancel_at") is None and (out_s != out_a or final_a != states[-1]))
        print("replay C29 program=%s cancel_at=%s" % (c["program"], c.get("cancel_at")))
        print("  sync :", out_s, states[-1])
        print("  async:", out_a, final_a, "cancelled=%s" % cancelled)
        print("  oracle:", failures or ("atomic prefix violated" if final_a not in states else "no violation"))
        return bad
    if "stream" in c:
        tmp = tempfile.mkdtemp(prefix="c29r_", dir=TMPROOT)
        try:
            (so, ao), = stream_differential([c["stream"]], tmp)
        finally:
            shutil.rmtree(tmp, ignore_errors=True)
        print("replay C29 streamed result %s" % c["stream"])
        print("  sync :", so)
        print("  async:", ao)
        return so != ao
    if "connect_kind" in c:
        tmp = tempfile.mkdtemp(prefix="c29r_", dir=TMPROOT)
        try:
            failures, _, _, _ = run_connect_scenario(c["connect_kind"], os.path.join(tmp, "c.db"), c["cancel_at"], c["mode"])
        finally:
            shutil.rmtree(tmp, ignore_errors=True)
        print("replay C29 connection creation %s -> %s" % (c, failures or "no violation"))
        return bool(failures)
    line, impl, failures = run_async_pool(c, 0)
    print("replay C29 async pool case %s -> %s" % (c, failures or "no violation"))
    return bool(failures)


# --------------------------------------------------------------------------- (D) streamed results reconfigured mid-stream
def gen_stream_scenario(rng):
    """a streamed result: fetch a little, reconfigure (unique / yield_per / columns / scalars /
    mappings), then consume the rest with one consumer method -- data with duplicates"""
    pool = [(rng.randrange(3), rng.randrange(3)) for _ in range(4)]
    rows = [list(rng.choice(pool)) for _ in range(rng.randint(8, 14))]
    steps = []
    first = rng.choice([["one"], ["many", rng.choice([1, 2, 3])], ["iter", rng.choice([1, 2])], ["part", rng.choice([1, 2]), 1], None])
    if first:
        steps.append(first)
    view = None
    view_fetched = False
    for _ in range(rng.choice([1, 1, 2])):
        c = rng.random()
        if c < 0.4 and not view_fetched:
            # (unique() on a scalars()/mappings() view after that view was fetched from is not
            # generative in the sync API either: stale memoized getters, outside the comparison)
            steps.append(["unique"])
        elif c < 0.6:
            steps.append(["yp", rng.choice([1, 2, 3])])
        elif c < 0.72 and view is None:
            steps.append(["cols", rng.choice([[0], [1], [1, 0]])])
        elif c < 0.86 and view is None:
            steps.append(["scalars", rng.randrange(2)])
            view = "s"
        elif view is None:
            steps.append(["mappings"])
            view = "m"
        elif not view_fetched:
            steps.append(["unique"])
        else:
            steps.append(["yp", rng.choice([1, 2])])
        if rng.random() < 0.4:
            steps.append(rng.choice([["one"], ["many", rng.choice([1, 2])], ["iter", 1]]))
            if view is not None:
                view_fetched = True
    steps.append(rng.choice([["drain-one"], ["drain-many", rng.choice([1, 2, 3])], ["drain-part", rng.choice([1, 2, 3])], ["drain-iter"], ["all"]]))
    return {"rows": rows, "steps": steps}


def _norm(x):
    if x is None:
        return None
    if hasattr(x, "_mapping") and not isinstance(x, tuple):
        return tuple(x)
    if isinstance(x, tuple):
        return tuple(x)
    if hasattr(x, "items") and not isinstance(x, (int, str)):
        return tuple(sorted(x.items()))
    try:
        return tuple(x)
    except TypeError:
        return x


def run_stream_sync(conn, stmt, steps):
    out = []
    res = conn.execution_options(stream_results=True).execute(stmt)
    it = None
    try:
        for st in steps:
            k = st[0]
            try:
                if k == "one":
                    out.append(("one", _norm(res.fetchone())))
                elif k == "many":
                    out.append(("many", [_norm(r) for r in res.fetchmany(st[1])]))
                elif k == "iter":
                    it = iter(res)
                    got = []
                    for _ in range(st[1]):
                        try:
                            got.append(_norm(next(it)))
                        except StopIteration:
                            break
                    out.append(("iter", got))
                elif k == "part":
                    pit = iter(res.partitions(st[1]))
                    got = []
                    for _ in range(st[2]):
                        try:
                            got.append([_norm(r) for r in next(pit)])
                        except StopIteration:
                            break
                    out.append(("part", got))
                elif k == "unique":
                    res = res.unique()
                elif k == "yp":
                    res = res.yield_per(st[1])
                elif k == "cols":
                    res = res.columns(*st[1])
                elif k == "scalars":
                    res = res.scalars(st[1])
                elif k == "mappings":
                    res = res.mappings()
                elif k == "drain-one":
                    got = []
                    while True:
                        r = res.fetchone()
                        if r is None:
                            break
                        got.append(_norm(r))
                    out.append(("drain", got))
                elif k == "drain-many":
                    got = []
                    while True:
                        rs = res.fetchmany(st[1])
                        if not rs:
                            break
                        got.append([_norm(r) for r in rs])
                    out.append(("drain", got))
                elif k == "drain-part":
                    out.append(("drain", [[_norm(r) for r in p] for p in res.partitions(st[1])]))
                elif k == "drain-iter":
                    out.append(("drain", [_norm(r) for r in res]))
                elif k == "all":
                    out.append(("drain", [_norm(r) for r in res.all()]))
            except Exception as e:  # noqa
                out.append(("err", k, type(e).__name__))
    finally:
        try:
            res.close()
        except Exception:
            pass
    return out


async def run_stream_async(conn, stmt, steps):
    out = []
    res = await conn.stream(stmt)
    try:
        for st in steps:
            k = st[0]
            try:
                if k == "one":
                    out.append(("one", _norm(await res.fetchone())))
                elif k == "many":
                    out.append(("many", [_norm(r) for r in await res.fetchmany(st[1])]))
                elif k == "iter":
                    it = res.__aiter__()
                    got = []
                    for _ in range(st[1]):
                        try:
                            got.append(_norm(await it.__anext__()))
                        except StopAsyncIteration:
                            break
                    out.append(("iter", got))
                elif k == "part":
                    pit = res.partitions(st[1]).__aiter__()
                    got = []
                    for _ in range(st[2]):
                        try:
                            got.append([_norm(r) for r in await pit.__anext__()])
                        except StopAsyncIteration:
                            break
                    out.append(("part", got))
                elif k == "unique":
                    res = res.unique()
                elif k == "yp":
                    res = res.yield_per(st[1])
                elif k == "cols":
                    res = res.columns(*st[1])
                elif k == "scalars":
                    res = res.scalars(st[1])
                elif k == "mappings":
                    res = res.mappings()
                elif k == "drain-one":
                    got = []
                    while True:
                        r = await res.fetchone()
                        if r is None:
                            break
                        got.append(_norm(r))
                    out.append(("drain", got))
                elif k == "drain-many":
                    got = []
                    while True:
                        rs = await res.fetchmany(st[1])
                        if not rs:
                            break
                        got.append([_norm(r) for r in rs])
                    out.append(("drain", got))
                elif k == "drain-part":
                    got = []
                    async for p in res.partitions(st[1]):
                        got.append([_norm(r) for r in p])
                    out.append(("drain", got))
                elif k == "drain-iter":
                    got = []
                    async for r in res:
                        got.append(_norm(r))
                    out.append(("drain", got))
                elif k == "all":
                    out.append(("drain", [_norm(r) for r in await res.all()]))
            except Exception as e:  # noqa
                out.append(("err", k, type(e).__name__))
    finally:
        try:
            await res.close()
        except Exception:
            pass
    return out


def classify_stream(sc):
    """known deviation: unique() on the row-level AsyncResult is lost by a scalars() /
    mappings() view derived afterwards (the view is built from the inner sync result)"""
    seen_unique = seen_cols = False
    for st in sc["steps"]:
        if st[0] == "unique":
            seen_unique = True
        elif st[0] == "cols":
            seen_cols = True
        elif st[0] in ("scalars", "mappings"):
            if seen_unique:
                return "c29-async-unique-lost-by-derived-view"
            if seen_cols:
                return "c29-async-columns-lost-by-derived-view"
            break
    return "c29-stream-sync-async-differ"


STREAM_DIRECTED = [
    {"rows": [[1, 1], [1, 1], [2, 0], [1, 1], [2, 0], [0, 2], [1, 1], [0, 2]], "steps": [["one"], ["unique"], ["drain-one"]]},
    {"rows": [[1, 1], [1, 1], [2, 0], [1, 1], [2, 0], [0, 2], [1, 1], [0, 2]], "steps": [["many", 2], ["unique"], ["drain-many", 2]]},
    {"rows": [[1, 1], [1, 1], [2, 0], [1, 1], [2, 0], [0, 2], [1, 1], [0, 2]], "steps": [["iter", 1], ["unique"], ["drain-iter"]]},
    {"rows": [[1, 1], [1, 1], [2, 0], [1, 1], [2, 0], [0, 2], [1, 1], [0, 2]], "steps": [["one"], ["unique"], ["drain-part", 2]]},
    {"rows": [[1, 1], [1, 1], [2, 0], [1, 1], [2, 0], [0, 2], [1, 1], [0, 2]], "steps": [["one"], ["yp", 2], ["drain-part", 3]]},
    {"rows": [[1, 1], [1, 1], [2, 0], [1, 1], [2, 0], [0, 2], [1, 1], [0, 2]], "steps": [["one"], ["cols", [1]], ["drain-one"]]},
    {"rows": [[1, 1], [1, 1], [2, 0], [1, 1], [2, 0], [0, 2], [1, 1], [0, 2]], "steps": [["one"], ["scalars", 1], ["unique"], ["drain-many", 2]]},
    {"rows": [[1, 1], [1, 1], [2, 0], [1, 1], [2, 0], [0, 2], [1, 1], [0, 2]], "steps": [["many", 1], ["mappings"], ["unique"], ["drain-iter"]]},
    {"rows": [[1, 1], [1, 1], [2, 0], [1, 1], [2, 0], [0, 2], [1, 1], [0, 2]], "steps": [["unique"], ["scalars", 0], ["drain-iter"]]},
    {"rows": [[1, 1], [1, 1], [2, 0], [1, 1], [2, 0], [0, 2], [1, 1], [0, 2]], "steps": [["cols", [0]], ["mappings"], ["drain-one"]]},
]


def stream_differential(scenarios, tmp):
    """returns list of (sync_out, async_out) per scenario"""
    import sqlalchemy as sa
    from sqlalchemy.ext.asyncio import create_async_engine

    md = sa.MetaData()
    u = sa.Table("u", md, sa.Column("id", sa.Integer, primary_key=True), sa.Column("a", sa.Integer), sa.Column("b", sa.Integer))
    stmt = sa.select(u.c.a, u.c.b).order_by(u.c.id)
    sync_out, async_out = [], []
    eng = sa.create_engine("sqlite:///" + os.path.join(tmp, "stream_s.db"))
    try:
        md.create_all(eng)
        with eng.connect() as conn:
            for sc in scenarios:
                conn.execute(sa.delete(u))
                conn.execute(sa.insert(u), [{"id": i + 1, "a": r[0], "b": r[1]} for i, r in enumerate(sc["rows"])])
                conn.commit()
                sync_out.append(run_stream_sync(conn, stmt, sc["steps"]))
                conn.rollback()
    finally:
        eng.dispose()

    async def main():
        aeng = create_async_engine("sqlite+aiosqlite:///" + os.path.join(tmp, "stream_a.db"))
        try:
            async with aeng.begin() as conn:
                await conn.run_sync(md.create_all)
            async with aeng.connect() as conn:
                for sc in scenarios:
                    await conn.execute(sa.delete(u))
                    await conn.execute(sa.insert(u), [{"id": i + 1, "a": r[0], "b": r[1]} for i, r in enumerate(sc["rows"])])
                    await conn.commit()
                    async_out.append(await run_stream_async(conn, stmt, sc["steps"]))
                    await conn.rollback()
        finally:
            await aeng.dispose()

    with warnings.catch_warnings():
        warnings.simplefilter("ignore")
        asyncio.run(main())
    return list(zip(sync_out, async_out))


# --------------------------------------------------------------------------- (E) interruption while a connection is created
CONNECT_KINDS = ("first", "overflow", "dispose", "close", "close-rev", "close-txn", "session-close")


def run_connect_scenario(kind, path, cancel_at, mode):
    """pool_size 1 / max_overflow 1 engine; the body makes the pool create a physical
    connection (first checkout / overflow checkout / checkout after dispose()) or gives
    connections back with explicit -- unshielded -- close() calls (kinds close*: two
    connections, the second return finds the queue full so the pool closes that connection and
    decrements the overflow counter; AsyncConnection.close / AsyncSession.close, with or
    without an open transaction to reset); the user
    task is cancelled (mode "cancel") or its asyncio.timeout() expires (mode "timeout") at the
    cancel_at-th driver await (aiosqlite _connect and _execute, which includes the driver's
    rollback and close).
    returns (failures, n_awaits, interrupted?)"""
    import sqlalchemy as sa
    from sqlalchemy.ext.asyncio import create_async_engine

    from sqlalchemy.ext.asyncio import AsyncSession

    inj = Injector(cancel_at)
    failures = []
    res = {}
    handles = []
    if not os.path.exists(path):
        e0 = sa.create_engine("sqlite:///" + path)
        with e0.begin() as c:
            c.execute(sa.text("create table if not exists k (x integer)"))
        e0.dispose()

    async def body(eng):
        if kind == "first":
            async with eng.connect() as c:
                await c.execute(sa.text("select 1"))
        elif kind == "overflow":
            async with eng.connect() as c1:
                await c1.execute(sa.text("select 1"))
                async with eng.connect() as c2:  # pool_size exhausted: an overflow connection is created
                    await c2.execute(sa.text("select 2"))
        elif kind in ("close", "close-rev", "close-txn"):
            a = await eng.connect()
            handles.append(a)
            b = await eng.connect()  # overflow connection
            handles.append(b)
            await a.execute(sa.text("select 1"))
            if kind == "close-txn":
                await b.execute(sa.text("insert into k values (1)"))  # left open: reset-on-return rolls back
                await a.commit()
            else:
                await b.execute(sa.text("select 2"))
            inj.phase = "close"
            for c in (b, a) if kind == "close-rev" else (a, b):
                await c.close()  # the second one finds the queue full
            inj.phase = "body"
        elif kind == "session-close":
            s1, s2 = AsyncSession(eng), AsyncSession(eng)
            handles.extend([s1, s2])
            await s1.execute(sa.text("select 1"))
            await s2.execute(sa.text("insert into k values (2)"))
            inj.phase = "close"
            await s1.close()
            await s2.close()
            inj.phase = "body"
        else:
            async with eng.connect() as c:
                await c.execute(sa.text("select 1"))
            inj.phase = "dispose"
            await eng.dispose()
            inj.phase = "body"
            async with eng.connect() as c:  # the new pool creates its first connection
                await c.execute(sa.text("select 3"))

    async def guarded(eng):
        if mode == "timeout":
            async with asyncio.timeout(None) as cm:
                inj.timeout_cm = cm
                await body(eng)
        else:
            await body(eng)

    async def main():
        eng = create_async_engine("sqlite+aiosqlite:///" + path, pool_size=1, max_overflow=1, pool_timeout=0.5)
        try:
            inj.armed = True
            task = asyncio.ensure_future(guarded(eng))
            inj.user_task = task
            try:
                await task
                res["interrupted"] = False
            except (asyncio.CancelledError, TimeoutError):
                res["interrupted"] = True
            inj.armed = False
            me = asyncio.current_task()
            others = [x for x in asyncio.all_tasks() if x is not me]
            if others:
                await asyncio.gather(*others, return_exceptions=True)
            del others, task
            inj.user_task = inj.timeout_cm = None
            await asyncio.sleep(0)
            # what the interrupted body did not get to close is closed now (a no-op for what it
            # did close, including the close() that was interrupted)
            for h in handles:
                try:
                    await h.close()
                except Exception as e:  # noqa
                    failures.append(("c29-close-after-interrupted-close-failed", "%s: %s" % (type(e).__name__, str(e)[:80])))
            del handles[:]
            where = "%s %s, %s at await #%s%s%s" % (
                kind,
                "scenario" if "close" in kind else "checkout",
                mode,
                cancel_at,
                " (inside aiosqlite connect)" if inj.in_connect else "",
                " (inside an explicit close())" if inj.fired_phase == "close" else "",
            )
            if inj.fired and not res["interrupted"]:
                failures.append(("c29-cancellation-swallowed", "the interruption was swallowed (%s)" % where))
            pool = eng.pool
            in_dispose = inj.fired_phase == "dispose"
            sfx = "-after-interrupted-dispose" if in_dispose else ""
            if in_dispose:
                where += ", inside AsyncEngine.dispose()"
            if pool.checkedout() != 0:
                failures.append(("c29-overflow-counter-not-restored" + sfx, "checkedout()=%d, overflow()=%d with nothing checked out (%s)" % (pool.checkedout(), pool.overflow(), where)))
            # the engine must still be able to open pool_size + max_overflow connections at once
            try:
                async with eng.connect() as a:
                    async with eng.connect() as b:
                        await a.execute(sa.text("select 1"))
                        await b.execute(sa.text("select 1"))
            except Exception as e:  # noqa
                failures.append(("c29-capacity-lost" + sfx, "cannot open pool_size+max_overflow=2 connections afterwards: %s: %s (%s)" % (type(e).__name__, str(e)[:80], where)))
            if eng.pool.checkedout() != 0:
                failures.append(("c29-overflow-counter-not-restored" + sfx, "checkedout()=%d after the capacity probe (%s)" % (eng.pool.checkedout(), where)))
        finally:
            await eng.dispose()

    lg = logging.getLogger("sqlalchemy")
    if not getattr(lg, "_verif_silenced", False):
        lg.addHandler(logging.NullHandler())
        lg.propagate = False
        lg._verif_silenced = True
    inj.install()
    try:
        with warnings.catch_warnings():
            warnings.simplefilter("ignore")
            asyncio.run(main())
    finally:
        inj.remove()
    if "close" in kind:
        # (creation of the connections is what the other kinds are about)
        return failures, inj.count, res.get("interrupted"), sorted(set(inj.dispose_points))
    return failures, inj.count, res.get("interrupted"), sorted(set(inj.connect_points) | set(inj.dispose_points))


def connect_scenarios(ctx, tmp, rng, thorough):
    path = os.path.join(tmp, "conn.db")
    for kind in CONNECT_KINDS:
        if kind == "close-rev" and not thorough:
            continue
        _, n, _, cpts = run_connect_scenario(kind, path, None, "cancel")
        for mode in ("cancel", "timeout"):
            if thorough:
                points = list(range(1, n + 1))
            else:
                # quick: every await of a physical-connection creation, inside dispose() or inside
                # an explicit close() (and the one after it), plus 2 random others
                near = sorted({p for c in cpts for p in ((c,) if "close" in kind else (c, c + 1)) if p <= n})
                rest = [p for p in range(1, n + 1) if p not in near]
                points = sorted(set(near) | set(rng.sample(rest, min(1 if "close" in kind else 2, len(rest)))))
            for k in points:
                failures, _, interrupted, _ = run_connect_scenario(kind, path, k, mode)
                case = {"connect_kind": kind, "mode": mode, "cancel_at": k}
                ctx.case(("connect", kind, mode, k), nontrivial=True)
                ctx.count("connect-scenario=%s/%s" % (kind, mode))
                for key, detail in failures[:3]:
                    ctx.violation(key, case, detail)
