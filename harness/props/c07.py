"""C07 — IN / NOT IN with expanding parameters follows SQL semantics.

Model:      the `inOp` / `tupleIn` part of lean/SaVerif/Model/Expr.lean (`_in_impl`,
            `BindParameter._negate_in_binary`, `visit_not_in_op_binary`, `visit_empty_set_op_expr`,
            the dialects' `visit_empty_set_expr`, `_literal_execute_expanding_parameter_literal_binds`)
            and the three-valued `evalIn` of lean/SaVerif/Model/ExprEval.lean.
Theorems:   lean/SaVerif/Props/C07.lean
Oracle:     on real SQLite, for every left operand / value list / negation form: the value of the
            condition per row (TRUE/FALSE/NULL), the rows matched in WHERE and HAVING and the CASE
            branch taken equal those of the explicit OR-of-equalities text; with the list bound once,
            rendered literally (literal_binds and literal_execute) and re-bound with lists of other
            lengths on one cached statement.
"""
import itertools
import json

PID = "C07"
LEVEL = "proof"
LEAN = ["SaVerif.Props.C07"]
META = {
    "text": "Lean: three-valued IN is characterised for every left value and every list (TRUE iff some member equals, FALSE iff every member is non-NULL and different and the left side is non-NULL or the list empty, invariant under duplicates and order; NOT IN is its negation); the empty-list renderings of every dialect (`x IN (NULL) AND (1 != 1)`, `(x NOT IN (NULL) OR (1 = 1))`, SQLite's empty sub-select) evaluate to FALSE / TRUE for every left value including NULL, are well bracketed in every parent context the compiler leaves them bare in, and negation of an IN swaps the expanding parameter's expand_op so that the negated empty case renders the TRUE form. Ties: model text == compiler text (5 dialects) for every enumerated and random case, the Lean evalIn == real SQLite on the enumerated truth table. Oracle: exhaustive truth tables on real SQLite (lists of length 0..3 quick / 0..4 + sampled 5..6 thorough over {NULL,1,2} and {NULL,'a','b'}, scalar / expression / 2-tuples, 4 negation forms, value / WHERE / HAVING / CASE, bound / literal_binds / literal_execute / cached re-bind).",
    "note": "Known finding: sqlite-empty-tuple-in-literal-values-prefix (tuple IN with an empty list rendered literally on SQLite is a syntax error). PostgreSQL / MySQL renderings are compared as text only (no server). Tuple IN is covered by the oracle and the rendering correspondence; the Lean value theorems are for scalar IN.",
    "technique": "Lean 4 induction over the value list + kernel-decided context table; exhaustive small-scope execution on SQLite incl. cached re-execution",
    "design_ref": "DESIGN.md §3 C07",
}

KEY_TUPLE = "sqlite-empty-tuple-in-literal-values-prefix"
FORMS = ("in", "notin", "not-in", "not-notin")


def gen(ctx):
    from harness.props import c01

    c01.gen(ctx)


# ------------------------------------------------------------------------- case space
def operands():
    c = lambda n: ["col", n]  # noqa
    return [
        ("int", c("ia")),
        ("int", ["add", c("ia"), ["li", 1]]),
        ("int", ["neg", c("ib")]),
        ("int", ["case", None, [[c("ba"), c("ia")]], c("ib")]),
        ("str", c("sa")),
        ("str", ["concat", c("sa"), c("sb")]),
        ("tuple-ii", [c("ia"), c("ib")]),
        ("tuple-is", [c("ia"), c("sa")]),
    ]


def value_lists(kind, maxlen, rng, sampled_to):
    if kind == "int":
        pool = [None, 1, 2]
    elif kind == "str":
        pool = [None, "a", "b"]
    elif kind == "tuple-ii":
        pool = [(1, 2), (1, None), (None, None), (3, 3), (0, 0), (None, 2)]
    else:
        pool = [(1, "a"), (1, None), (None, None), (3, "a"), (None, "b")]
    out = []
    full = maxlen if not kind.startswith("tuple") else min(maxlen, 2)
    for n in range(0, full + 1):
        out += [list(x) for x in itertools.product(pool, repeat=n)]
    for n in range(full + 1, sampled_to + 1):
        for _ in range(12):
            out.append([rng.choice(pool) for _ in range(n)])
    return out


def tree(kind, opnd, vals, form):
    if kind.startswith("tuple"):
        core = ["tin" if form in ("in", "not-in") else "tnotin", opnd, [list(v) for v in vals]]
    else:
        core = ["in" if form in ("in", "not-in") else "notin", opnd, list(vals)]
    return ["not", core] if form.startswith("not-") else core


def meaning(kind, opnd, vals, form):
    """the U tree whose reference rendering is the OR-of-equalities (or its negation)"""
    positive = form in ("in", "not-notin")
    core = ["tin", opnd, [list(v) for v in vals]] if kind.startswith("tuple") else ["in", opnd, list(vals)]
    return core if positive else ["not", core]


class Runner:
    def __init__(self):
        from harness import lib_expr as L

        self.L = L
        self.db = L.Db()
        self.sa = L._sa()["sa"]

    def close(self):
        self.db.close()

    def build_param(self, kind, opnd, form, **bp_kw):
        """the condition with an explicit expanding bindparam named `v`"""
        L, sa = self.L, self.sa
        if kind.startswith("tuple"):
            x = sa.tuple_(*[L.to_sa(c) for c in opnd])
        else:
            x = L.to_sa(opnd)
        bp = sa.bindparam("v", expanding=True, **bp_kw)
        e = x.in_(bp) if form in ("in", "not-in") else x.not_in(bp)
        return ~e if form.startswith("not-") else e

    def stmts(self, e):
        sa, t = self.sa, self.db.t
        return {
            "value": sa.select(e.label("r")).select_from(t).order_by(t.c.id),
            "where": sa.select(t.c.id).where(e).order_by(t.c.id),
            "having": sa.select(t.c.id).group_by(t.c.id).having(e).order_by(t.c.id),
            "case": sa.select(sa.case((e, 1), else_=0).label("r")).select_from(t).order_by(t.c.id),
        }

    def ref(self, m):
        r = self.L.ref_sql(m)
        raw = self.db.conn.exec_driver_sql
        out = {}
        for ctxname, q in (
            ("value", "SELECT %s FROM t ORDER BY id" % r),
            ("where", "SELECT id FROM t WHERE %s ORDER BY id" % r),
            ("having", "SELECT id FROM t GROUP BY id HAVING %s ORDER BY id" % r),
            ("case", "SELECT CASE WHEN %s THEN 1 ELSE 0 END FROM t ORDER BY id" % r),
        ):
            cur = raw(q)
            out[ctxname] = [self.L.canon(x[0]) for x in cur.cursor.fetchall()]
            cur.close()
        return out

    def literal_text(self, stmt):
        return str(stmt.compile(dialect=self.L.dialect("sqlite"), compile_kwargs={"literal_binds": True}))

    def run_text(self, text):
        try:
            cur = self.db.conn.exec_driver_sql(text)
            out = [self.L.canon(x[0]) for x in cur.cursor.fetchall()]
            cur.close()
            return out
        except Exception as ex:  # noqa
            self.db.conn.rollback()
            return "error:%s:%s" % (type(ex).__name__, str(getattr(ex, "orig", ex))[:80])


def check_case(R, kind, opnd, vals, form, modes=("bound", "literal_binds", "literal_execute")):
    """-> list of (key, case, detail) failures for one (operand, list, form)"""
    L = R.L
    u = tree(kind, opnd, vals, form)
    m = meaning(kind, opnd, vals, form)
    ref = R.ref(m)
    fails = []
    pyvals = [tuple(v) for v in vals] if kind.startswith("tuple") else list(vals)

    def compare(mode, ctxname, got):
        if not L.same_rows(got, ref[ctxname]):
            key = "c07-in-vs-or-chain-mismatch"
            if kind.startswith("tuple") and not vals and mode in ("literal_binds", "literal_execute"):
                key = KEY_TUPLE
            fails.append(
                (key, {"kind": kind, "operand": opnd, "values": vals, "form": form, "mode": mode, "context": ctxname},
                 {"got": got if isinstance(got, str) else L.first_diff(got, ref[ctxname]), "reference_sql": L.ref_sql(m)})
            )

    if "bound" in modes:
        e = L.to_sa(u)
        for ctxname, st in R.stmts(e).items():
            compare("bound", ctxname, R.db.run_stmt(st))
    if "literal_binds" in modes:
        e = L.to_sa(u)
        for ctxname, st in R.stmts(e).items():
            try:
                txt = R.literal_text(st)
            except Exception as ex:  # noqa
                compare("literal_binds", ctxname, "error:compile:" + type(ex).__name__)
                continue
            compare("literal_binds", ctxname, R.run_text(txt))
    if "literal_execute" in modes:
        e = R.build_param(kind, opnd, form, literal_execute=True)
        for ctxname, st in R.stmts(e).items():
            compare("literal_execute", ctxname, R.db.run_stmt(st, {"v": pyvals}))
    return u, fails


def check_rebind(R, kind, opnd, form, lists, ctxname="where"):
    """one cached statement executed with every list in turn; -> failures"""
    L = R.L
    e = R.build_param(kind, opnd, form)
    st = R.stmts(e)[ctxname]
    fails = []
    for vals in lists:
        pyvals = [tuple(v) for v in vals] if kind.startswith("tuple") else list(vals)
        got = R.db.run_stmt(st, {"v": pyvals})
        ref = R.ref(meaning(kind, opnd, vals, form))[ctxname]
        if not L.same_rows(got, ref):
            fails.append(
                ("c07-cached-rebind-mismatch",
                 {"kind": kind, "operand": opnd, "form": form, "context": ctxname, "sequence": lists, "values": vals, "mode": "rebind"},
                 {"got": got if isinstance(got, str) else L.first_diff(got, ref)})
            )
    return fails


# ------------------------------------------------------------------------- typed tuples
# tuple IN over element types with and without bind processors (Integer / String have none on
# SQLite, DateTime and a value-transforming TypeDecorator have one), in every position order:
# the expanded parameters `name_i_j` must each get the processor of *their* position.
class TypedTuples:
    SHIFT = 1000

    def __init__(self, R):
        import datetime as dt

        sa = R.sa
        self.R = R
        self.sa = sa
        shift = self.SHIFT

        class Shifted(sa.types.TypeDecorator):
            impl = sa.Integer
            cache_ok = True

            def process_bind_param(self, value, dialect):
                return None if value is None else value + shift

            def process_result_value(self, value, dialect):
                return None if value is None else value - shift

        self.dts = [dt.datetime(2024, 1, 2, 3, 4, 5), dt.datetime(2023, 12, 31, 23, 59, 59, 250000)]
        self.types = {"i": sa.Integer(), "s": sa.String(), "d": sa.DateTime(), "x": Shifted()}
        self.cols = {k: sa.column("t" + k, t) for k, t in self.types.items()}
        self.pools = {"i": [1, 2, None], "s": ["a", "b", None], "d": self.dts + [None], "x": [1, 2, None]}
        conn = R.db.conn
        conn.exec_driver_sql("CREATE TABLE t2 (id INTEGER PRIMARY KEY, ti INTEGER, ts VARCHAR, td DATETIME, tx INTEGER)")
        rows = []
        n = 0
        for i in self.pools["i"]:
            for s in self.pools["s"]:
                for d in self.pools["d"]:
                    for x in self.pools["x"]:
                        n += 1
                        rows.append((n, i, s, self.raw("d", d), self.raw("x", x)))
        conn.exec_driver_sql("INSERT INTO t2 VALUES (?,?,?,?,?)", rows)
        conn.commit()
        self.t2 = sa.table("t2", sa.column("id", sa.Integer))

    def raw(self, k, v):
        """storage value of a Python value of element type k"""
        if v is None:
            return None
        if k == "d":
            return v.strftime("%Y-%m-%d %H:%M:%S.%f")
        if k == "x":
            return v + self.SHIFT
        return v

    def lit(self, k, v):
        r = self.raw(k, v)
        if r is None:
            return "NULL"
        if isinstance(r, str):
            return "'" + r.replace("'", "''") + "'"
        return str(r)

    def reference(self, shape, rows, positive, where):
        if not rows:
            core = "(0)"
        else:
            core = "(" + " OR ".join(
                "(" + " AND ".join("(t%s = %s)" % (k, self.lit(k, v)) for k, v in zip(shape, row)) + ")" for row in rows
            ) + ")"
        cond = core if positive else "(NOT %s)" % core
        q = ("SELECT id FROM t2 WHERE %s ORDER BY id" if where else "SELECT %s FROM t2 ORDER BY id") % cond
        cur = self.R.db.conn.exec_driver_sql(q)
        out = [self.R.L.canon(x[0]) for x in cur.cursor.fetchall()]
        cur.close()
        return out

    def condition(self, shape, form, bp):
        sa = self.sa
        x = sa.tuple_(*[self.cols[k] for k in shape])
        e = x.in_(bp) if form in ("in", "not-in") else x.not_in(bp)
        return ~e if form.startswith("not-") else e

    def stmt(self, e, where):
        sa, t2 = self.sa, self.t2
        if where:
            return sa.select(t2.c.id).where(e).order_by(t2.c.id)
        return sa.select(e.label("r")).select_from(t2).order_by(t2.c.id)

    def shapes(self):
        ks = "isdx"
        out = [a + b for a in ks for b in ks if a != b]
        out += ["isd", "dxi", "xsi", "sdx", "idx", "xdi"]
        return out

    def rows_for(self, shape, rng, n):
        return [tuple(rng.choice(self.pools[k]) for k in shape) for _ in range(n)]

    def check(self, shape, rows, form, mode, where):
        """-> failure tuple or None"""
        L, sa = self.R.L, self.sa
        positive = form in ("in", "not-notin")
        ref = self.reference(shape, rows, positive, where)
        case = {"kind": "typed-tuple", "shape": shape, "values": [[self.raw_json(k, v) for k, v in zip(shape, r)] for r in rows],
                "form": form, "mode": mode, "context": "where" if where else "value"}
        try:
            if mode == "bound":
                e = self.condition(shape, form, sa.bindparam("v", expanding=True))
                got = self.R.db.run_stmt(self.stmt(e, where), {"v": list(rows)})
            elif mode == "inline":
                x = sa.tuple_(*[self.cols[k] for k in shape])
                e = x.in_(list(rows)) if form in ("in", "not-in") else x.not_in(list(rows))
                e = ~e if form.startswith("not-") else e
                got = self.R.db.run_stmt(self.stmt(e, where))
            elif mode == "literal_execute":
                e = self.condition(shape, form, sa.bindparam("v", expanding=True, literal_execute=True))
                got = self.R.db.run_stmt(self.stmt(e, where), {"v": list(rows)})
            else:
                raise ValueError(mode)
        except Exception as ex:  # noqa
            got = "error:%s:%s" % (type(ex).__name__, str(ex)[:80])
        if L.same_rows(got, ref):
            return None
        if isinstance(got, str) and "literal" in mode and ("CompileError" in got or "NotImplementedError" in got):
            return "skip"
        key = "c07-typed-tuple-in-mismatch"
        if not rows and mode == "literal_execute":
            key = KEY_TUPLE
        return (key, case, {"got": got if isinstance(got, str) else L.first_diff(got, ref)})

    def raw_json(self, k, v):
        if v is None:
            return None
        if k == "d":
            return v.isoformat()
        return v

    def from_json(self, k, v):
        import datetime as dt

        if v is None:
            return None
        if k == "d":
            return dt.datetime.fromisoformat(v)
        return v

    def check_rebind(self, shape, form, seq, where):
        L, sa = self.R.L, self.sa
        e = self.condition(shape, form, sa.bindparam("v", expanding=True))
        st = self.stmt(e, where)
        fails = []
        for rows in seq:
            ref = self.reference(shape, rows, form in ("in", "not-notin"), where)
            try:
                got = self.R.db.run_stmt(st, {"v": list(rows)})
            except Exception as ex:  # noqa
                got = "error:%s" % type(ex).__name__
            if not L.same_rows(got, ref):
                fails.append(("c07-typed-tuple-in-mismatch",
                              {"kind": "typed-tuple", "shape": shape, "form": form, "mode": "rebind", "context": "where" if where else "value",
                               "sequence": [[[self.raw_json(k, v) for k, v in zip(shape, r)] for r in rows2] for rows2 in seq],
                               "values": [[self.raw_json(k, v) for k, v in zip(shape, r)] for r in rows]},
                              {"got": got if isinstance(got, str) else L.first_diff(got, ref)}))
        return fails


def lean_val(v):
    if v is None:
        return "N"
    if isinstance(v, int):
        return "i%d" % v
    from harness import vlib

    return vlib.enc_str(v)


def run(ctx, deep=False):
    from harness import lib_expr as L
    from harness import vlib
    from harness.props import c01

    big = ctx.tier == "thorough" or deep
    maxlen = 4 if big else 3
    sampled_to = 6 if big else 4
    ctx.rule = (
        "8 left operands (columns, expressions, 2-tuples) x every value list over {NULL,1,2} / {NULL,'a','b'} / a pool of "
        "row values of length 0..%d (plus seeded samples up to %d) x 4 negation forms x {value, WHERE, HAVING, CASE} x "
        "{bound, literal_binds, literal_execute}; cached statements re-bound with sequences of lists of differing lengths; "
        "random typed trees containing IN nodes; a case is non-trivial when the list is non-empty or the form is negated"
        % (maxlen, sampled_to)
    )
    ctx.trusted += [
        "SQLite evaluates the explicit OR-of-equalities reference text as written",
        "PostgreSQL / MySQL renderings are compared as text with the model only (no server)",
    ]
    R = Runner()
    cases, impl_out, reqs = [], [], []

    def add_render(u):
        e = L.to_sa(u)
        w = " ".join(L.wire(u))
        for d in L.DIALECTS:
            cases.append({"u": u, "dialect": d})
            reqs.append("expr render %s %s" % (d, w))
            try:
                impl_out.append("ok %s %s" % (L.sa_affinity(e), vlib.enc_str(L.compile_literal(e, d))))
            except Exception as ex:  # noqa
                impl_out.append("compile-error:" + type(ex).__name__)

    # ---- 1. truth tables
    for kind, opnd in operands():
        lists = value_lists(kind, maxlen, ctx.rng, sampled_to)
        for vals in lists:
            for form in FORMS:
                u, fails = check_case(R, kind, opnd, vals, form)
                ctx.case(json.dumps([kind, opnd, vals, form]), nontrivial=bool(vals) or form != "in")
                ctx.count("len=%d" % len(vals))
                ctx.count("operand=" + kind)
                ctx.count("nulls=%s" % ("yes" if any(v is None or (isinstance(v, tuple) and None in v) for v in vals) else "no"))
                for key, case, detail in fails:
                    ctx.count("oracle=" + key)
                    ctx.violation(key, case, detail)
                if not fails:
                    ctx.count("oracle=agree")
                if len(vals) <= 2 or ctx.rng.random() < 0.15:
                    add_render(u)
        if len(ctx.samples) < 3:
            ctx.sample({"operand": opnd, "list": lists[min(7, len(lists) - 1)], "sqlite": L.compile_literal(L.to_sa(tree(kind, opnd, lists[min(7, len(lists) - 1)], "notin")), "sqlite")})
    # ---- 2. cached statements re-bound with other lengths
    nseq = 12 if big else 4
    for kind, opnd in operands():
        pool = value_lists(kind, 2, ctx.rng, 5 if big else 4)
        for form in FORMS:
            for ctxname in ("value", "where"):
                for _ in range(nseq):
                    seq = [ctx.rng.choice(pool) for _ in range(5)] + [[]] + [ctx.rng.choice(pool)]
                    ctx.rng.shuffle(seq)
                    fails = check_rebind(R, kind, opnd, form, seq, ctxname)
                    ctx.case(json.dumps(["rebind", kind, opnd, form, ctxname, seq]))
                    ctx.count("rebind=" + ("agree" if not fails else "mismatch"))
                    for key, case, detail in fails:
                        ctx.violation(key, case, detail)
    # ---- 2b. tuples over element types with / without bind processors, every position order
    TT = TypedTuples(R)
    for shape in TT.shapes():
        for nrows in ((0, 1, 2, 3) if big else (0, 1, 2)):
            for rep in range(3 if big else 1):
                rows = TT.rows_for(shape, ctx.rng, nrows)
                for form in FORMS:
                    for mode in ("bound", "inline", "literal_execute"):
                        for where in (False, True):
                            r = TT.check(shape, rows, form, mode, where)
                            ctx.case(json.dumps(["typed", shape, nrows, rep, form, mode, where]), nontrivial=nrows > 0)
                            if r is None:
                                ctx.count("typed-tuple=agree")
                            elif r == "skip":
                                ctx.count("typed-tuple=literal-rendering-unsupported")
                            else:
                                ctx.count("typed-tuple=" + r[0])
                                ctx.violation(*r)
        for form in FORMS:
            seq = [TT.rows_for(shape, ctx.rng, n_) for n_ in (2, 0, 3, 1, 2)]
            for where in (False, True):
                fails = TT.check_rebind(shape, form, seq, where)
                ctx.count("typed-tuple-rebind=" + ("agree" if not fails else "mismatch"))
                for f in fails:
                    ctx.violation(*f)
    cache = getattr(R.db.engine, "_compiled_cache", None)
    ctx.count("compiled-cache-entries", len(cache) if cache is not None else 0)
    # ---- 3. IN nodes inside random boolean trees
    orc = c01.Oracle()
    g = L.TreeGen(ctx.rng, exotic=0.0, with_in=True)
    n = 4000 if big else 500
    done = 0
    for _ in range(n * 3):
        if done >= n:
            break
        u = g.expr("bool", ctx.rng.randint(2, 4))
        ops = set(L.ops_of(u))
        if not ({"in", "notin"} & ops) or ({"isdistinct", "isnotdistinct"} & ops):
            # (SQLite's is_distinct_from visitors drop literal_binds: the text then shows the
            #  POSTCOMPILE marker with a generated bind name, which is not modelled)
            continue
        done += 1
        ctx.case(json.dumps(u))
        ctx.count("random-tree")
        r = orc.check(u)
        if r is not None:
            if r[0] in c01.KEYS.values():
                ctx.count("random-tree:c01-known-finding-skipped")
            else:
                ctx.violation("c07-in-inside-tree-mismatch", {"u": u, "mode": "tree"}, r[1])
        add_render(u)
    orc.close()
    # ---- 4. correspondences
    if ctx.driver_ok():
        model_out = ctx.driver(reqs)
        impl_out, ml_fail = L.reconcile_render(ctx, cases, impl_out, model_out, "C07")
        ctx.correspond("corr/c07:render(model text == compiler text, 5 dialects)", cases, impl_out, model_out)
        for f in ml_fail[:20]:
            pres = L.Neutral("ACD")
            try:
                L.to_sa(f["case"]["u"], pres)
            except Exception:  # noqa
                pass
            if not pres.hits:
                ctx.violation("c07-model-level-misgrouping-" + f["case"]["dialect"], f["case"], f["detail"])
        # the Lean three-valued IN against real SQLite
        ecases, ereqs, eimpl = [], [], []
        for pool, xs in (([None, 1, 2], [None, 0, 1, 2]), ([None, "a", "b"], [None, "a", "b", ""])):
            for n_ in range(0, 4):
                for vals in itertools.product(pool, repeat=n_):
                    for x in xs:
                        ecases.append({"x": x, "values": list(vals)})
                        ereqs.append("expr evalin %s %d %s" % (lean_val(x), n_, " ".join(lean_val(v) for v in vals)))
                        if vals:
                            q = "SELECT %s IN (%s), %s NOT IN (%s)" % (
                                L.sql_val(x), ", ".join(L.sql_val(v) for v in vals), L.sql_val(x), ", ".join(L.sql_val(v) for v in vals))
                        else:
                            q = "SELECT %s IN (SELECT 1 WHERE 0), %s NOT IN (SELECT 1 WHERE 0)" % (L.sql_val(x), L.sql_val(x))
                        row = R.db.conn.exec_driver_sql(q).fetchall()[0]
                        eimpl.append("ok %s %s" % tuple({None: "N", 1: "T", 0: "F"}[v] for v in row))
        ctx.correspond("corr/c07:evalIn(Lean three-valued IN == real SQLite)", ecases, eimpl, ctx.driver(ereqs))
    R.close()
    ctx.exhaustive = big


def search(ctx, broken):
    sub = type(ctx)(ctx.pid, "thorough", ctx.seed + 1, ctx.level)
    run(sub, deep=True)
    ctx.violations.extend(sub.violations)


def replay(ctx, obj):
    from harness.props import c01

    c = obj["case"]
    if c.get("mode") == "model-level":
        return c01.replay_model_level(ctx, obj)
    if c.get("mode") == "tree":
        orc = c01.Oracle()
        try:
            r = orc.check(c["u"])
            print("replay C07 tree=%s -> %s" % (json.dumps(c["u"]), json.dumps(r, default=str)))
            return r is not None and r[0] not in c01.KEYS.values()
        finally:
            orc.close()
    if c.get("kind") == "typed-tuple":
        R = Runner()
        try:
            TT = TypedTuples(R)
            conv = lambda rows: [tuple(TT.from_json(k, v) for k, v in zip(c["shape"], r)) for r in rows]  # noqa
            if c["mode"] == "rebind":
                fails = TT.check_rebind(c["shape"], c["form"], [conv(x) for x in c["sequence"]], c["context"] == "where")
                print("replay C07 typed tuple rebind -> %s" % json.dumps([f[2] for f in fails], default=str)[:400])
                return bool(fails)
            r = TT.check(c["shape"], conv(c["values"]), c["form"], c["mode"], c["context"] == "where")
            print("replay C07 typed tuple %s -> %s" % (json.dumps(c)[:300], json.dumps(r, default=str)[:400]))
            return r is not None and r != "skip"
        finally:
            R.close()
    R = Runner()
    try:
        vals = [tuple(v) for v in c["values"]] if c["kind"].startswith("tuple") else c["values"]
        if c.get("mode") == "rebind":
            seq = [[tuple(v) for v in l] if c["kind"].startswith("tuple") else l for l in c["sequence"]]
            fails = check_rebind(R, c["kind"], c["operand"], c["form"], seq, c["context"])
        else:
            _, fails = check_case(R, c["kind"], c["operand"], vals, c["form"], modes=(c["mode"],))
            fails = [f for f in fails if f[1]["context"] == c["context"]]
        print("replay C07 %s -> %s" % (json.dumps(c), json.dumps([f[2] for f in fails], default=str)[:600]))
        return bool(fails)
    finally:
        R.close()
