"""C37 — Both sides of a bidirectional relationship always agree.

Model       lean/SaVerif/Model/Backref.lean (attributes._backref_listeners + the list decorators of
            orm/collections.py + collections.bulk_replace for a loaded one-to-many / many-to-one pair)
Theorems    lean/SaVerif/Props/C37.lean
Check       real mapped classes (back_populates): one-to-many/many-to-one, many-to-many, one-to-one;
            mutation sequences from either side (append / remove / pop / __setitem__ / __delitem__ /
            slices / extend / clear / collection replacement / scalar set / del); direct oracle after
            every operation: b in a.coll  <=>  b.ref is a (resp. a in b.coll), and again after
            flush + commit + reload; correspondence of both sides with the model (one-to-many).
"""
import json

PID = "C37"
LEVEL = "proof"
LEAN = ["SaVerif.Props.C37"]
META = {
    "text": "Lean theorem for ALL mutation sequences on a one-to-many / many-to-one pair (any number of parents and children): the invariant `c in p.children <=> c.parent == p` with duplicate-free lists is preserved by every operation of the transcribed backref machinery — scalar set from the child side, append / remove / pop / __setitem__ / __delitem__ / clear and whole-collection replacement (bulk_replace) from the parent side — under the guard that no operation inserts a child twice into one list; the excluded case has a counterexample theorem replayed on the real code. Many-to-many and one-to-one pairs, slices, extend and the state after flush + reload are checked by the direct symmetry oracle on the real code.",
    "note": "Hand transcription of _backref_listeners / list decorators / bulk_replace for loaded collections, tied by per-operation correspondence on both sides of the pair. Event tokens are modelled by their effect (which listener stops the recursion); dynamic relationships, many-to-many, one-to-one and unloaded collections (a change from the other side is queued as a pending mutation; rollback / expire / expire_all / refresh must drop it: both sides and the rows agree after the discard) are oracle-only. Known limitation reported as finding: a list collection holding the same child twice loses symmetry when the child is moved or popped.",
    "technique": "Lean 4 invariant proof over a transcribed state machine + per-operation differential correspondence with the real ORM + symmetry oracle incl. flush/reload on SQLite",
    "design_ref": "DESIGN.md §3 C37",
}

_ENV = {}


def env():
    if "e" in _ENV:
        return _ENV["e"]
    import sqlalchemy as sa
    from sqlalchemy import orm
    from sqlalchemy.pool import StaticPool

    Base = orm.declarative_base()

    class BP(Base):
        __tablename__ = "c37_p"
        id = sa.Column(sa.Integer, primary_key=True)
        children = orm.relationship("BC", back_populates="parent", order_by="BC.id")

    class BC(Base):
        __tablename__ = "c37_c"
        id = sa.Column(sa.Integer, primary_key=True)
        parent_id = sa.Column(sa.ForeignKey("c37_p.id"))
        parent = orm.relationship(BP, back_populates="children")

    assoc = sa.Table(
        "c37_ab", Base.metadata, sa.Column("a_id", sa.ForeignKey("c37_a.id"), primary_key=True), sa.Column("b_id", sa.ForeignKey("c37_b.id"), primary_key=True)
    )

    class MA(Base):
        __tablename__ = "c37_a"
        id = sa.Column(sa.Integer, primary_key=True)
        bs = orm.relationship("MB", secondary=assoc, back_populates="as_", order_by="MB.id")

    class MB(Base):
        __tablename__ = "c37_b"
        id = sa.Column(sa.Integer, primary_key=True)
        as_ = orm.relationship(MA, secondary=assoc, back_populates="bs", order_by="MA.id")

    class OA(Base):
        __tablename__ = "c37_oa"
        id = sa.Column(sa.Integer, primary_key=True)
        b = orm.relationship("OB", back_populates="a", uselist=False)

    class OB(Base):
        __tablename__ = "c37_ob"
        id = sa.Column(sa.Integer, primary_key=True)
        a_id = sa.Column(sa.ForeignKey("c37_oa.id"))
        a = orm.relationship(OA, back_populates="b")

    from sqlalchemy.orm.collections import attribute_keyed_dict

    class SP(Base):  # set collection
        __tablename__ = "c37_sp"
        id = sa.Column(sa.Integer, primary_key=True)
        children = orm.relationship("SC", back_populates="parent", collection_class=set)

    class SC(Base):
        __tablename__ = "c37_sc"
        id = sa.Column(sa.Integer, primary_key=True)
        parent_id = sa.Column(sa.ForeignKey("c37_sp.id"))
        parent = orm.relationship(SP, back_populates="children")

    class DP(Base):  # dict collection keyed by the child's id
        __tablename__ = "c37_dp"
        id = sa.Column(sa.Integer, primary_key=True)
        children = orm.relationship("DC", back_populates="parent", collection_class=attribute_keyed_dict("id"))

    class DC(Base):
        __tablename__ = "c37_dc"
        id = sa.Column(sa.Integer, primary_key=True)
        parent_id = sa.Column(sa.ForeignKey("c37_dp.id"))
        parent = orm.relationship(DP, back_populates="children")

    # children with VALUE based __eq__ / __hash__ (distinct objects may be equal): identity,
    # not equality, must decide what the backref machinery does
    class _Odd:
        def __eq__(self, other):
            return type(other) is type(self) and self.__dict__.get("tag") == other.__dict__.get("tag")

        def __ne__(self, other):
            return not self.__eq__(other)

        def __hash__(self):
            return 7

        def __bool__(self):
            return False

        def __len__(self):
            return 0

    class XP(Base):
        __tablename__ = "c37_xp"
        id = sa.Column(sa.Integer, primary_key=True)
        children = orm.relationship("XC", back_populates="parent", order_by="XC.id")

    class XC(_Odd, Base):
        __tablename__ = "c37_xc"
        id = sa.Column(sa.Integer, primary_key=True)
        tag = sa.Column(sa.Integer)
        parent_id = sa.Column(sa.ForeignKey("c37_xp.id"))
        parent = orm.relationship(XP, back_populates="children")

    eng = sa.create_engine("sqlite://", poolclass=StaticPool)
    Base.metadata.create_all(eng)
    _ENV["e"] = dict(BP=BP, BC=BC, MA=MA, MB=MB, OA=OA, OB=OB, SP=SP, SC=SC, DP=DP, DC=DC, XP=XP, XC=XC, eng=eng, Base=Base)
    return _ENV["e"]


def dots(l):
    return ".".join(str(x) for x in l) if l else "e"


class Runner:
    def __init__(self, case):
        from sqlalchemy import orm

        E = env()
        self.E = E
        self.case = case
        self.kind = case["kind"]
        with E["eng"].begin() as c:
            for t in reversed(E["Base"].metadata.sorted_tables):
                c.execute(t.delete())
        self.sess = orm.Session(E["eng"], autoflush=False)
        na, nb = case["na"], case["nb"]
        A, B = {"o2m": ("BP", "BC"), "m2m": ("MA", "MB"), "o2o": ("OA", "OB"), "o2m-set": ("SP", "SC"), "o2m-dict": ("DP", "DC"), "o2m-odd": ("XP", "XC")}[self.kind]
        self.As = [E[A](id=i + 1) for i in range(na)]
        self.Bs = [E[B](id=i + 1) for i in range(nb)]
        if self.kind == "o2m-odd":
            for i, b in enumerate(self.Bs):
                b.tag = i // 2  # children 0/1 and 2/3 are equal but distinct
        self.sess.add_all(self.As + self.Bs)
        if case.get("persistent"):
            self.sess.commit()
            for o in self.As + self.Bs:
                self.load_both(o)
        self.ia = {id(o): i for i, o in enumerate(self.As)}
        self.ib = {id(o): i for i, o in enumerate(self.Bs)}
        self.model_ops = []
        self.obs = []
        self.violations = []
        self.model_frozen = False
        self.dupe = False
        self.displaced = False
        self.eqmove = False

    def load_both(self, o):
        for k in ("children", "parent", "bs", "as_", "a", "b"):
            if hasattr(type(o), k):
                getattr(o, k)

    # accessors ---------------------------------------------------------------
    def coll(self, a):
        return a.bs if self.kind == "m2m" else a.children

    def members(self, a):
        c = self.coll(a)
        return list(c.values()) if self.kind == "o2m-dict" else list(c)

    def show(self):
        if self.kind not in ("o2m", "o2m-odd"):
            return ""
        kids = ",".join(dots([self.ib[id(c)] for c in a.children]) for a in self.As)
        par = ".".join("N" if b.parent is None else str(self.ia[id(b.parent)]) for b in self.Bs)
        return kids + "~" + par

    def check(self, where):
        bad = None
        for i, a in enumerate(self.As):
            for j, b in enumerate(self.Bs):
                if self.kind.startswith("o2m"):
                    left, right = any(x is b for x in self.members(a)), b.parent is a
                    desc = "(child %d in parent %d .children) = %s but (child.parent is parent) = %s" % (j, i, left, right)
                elif self.kind == "m2m":
                    left, right = any(x is b for x in a.bs), any(x is a for x in b.as_)
                    desc = "(b%d in a%d.bs) = %s but (a in b.as_) = %s" % (j, i, left, right)
                else:
                    left, right = a.b is b, b.a is a
                    desc = "(a%d.b is b%d) = %s but (b.a is a) = %s" % (i, j, left, right)
                if left != right:
                    bad = desc
                    break
            if bad:
                break
        if bad:
            self.violations.append(("asymmetric", "%s: %s" % (where, bad)))

    # operations --------------------------------------------------------------
    def note_moves(self, op):
        """value-equal children: a child that is taken out of a list BY VALUE (`list.remove`, used by
        the backref pop) must be the first element equal to it, else another object is removed"""
        if self.kind != "o2m-odd":
            return
        moved = []
        if op["op"] in ("sp", "app", "set", "rem"):
            moved = [op["c"]]
        elif op["op"] in ("rep", "ext", "sls"):
            moved = list(op["l"])
        if op["op"] in ("delp", "sp"):
            self.eqmove = True  # scalar-side changes pop the child from a list by value
        if op["op"] in ("rep", "sls") and op.get("p") is not None and len(self.As[op["p"]].children):
            self.eqmove = True  # removals fire while the new list (with possibly equal members) is in place
        for c in moved:
            b = self.Bs[c]
            q = b.parent
            if q is None:
                continue
            eq = [x for x in q.children if x == b]
            if eq and eq[0] is not b:
                self.eqmove = True

    def step(self, op):
        k = op["op"]
        A, B = self.As, self.Bs
        self.note_moves(op)
        if self.eqmove:
            self.model_frozen = True  # by-value removal of an equal object: outside the model
        outcome = "ok"
        mop = None
        try:
            if self.kind == "o2o":
                if k == "seta":
                    if op["b"] is not None and B[op["b"]].a is not None and B[op["b"]].a is not A[op["a"]]:
                        self.displaced = True  # b's current partner is displaced
                    A[op["a"]].b = None if op["b"] is None else B[op["b"]]
                elif k == "setb":
                    if op["a"] is not None and A[op["a"]].b is not None and A[op["a"]].b is not B[op["b"]]:
                        self.displaced = True  # a's current partner is displaced from the many-to-one side
                    B[op["b"]].a = None if op["a"] is None else A[op["a"]]
                elif k == "dela":
                    try:
                        del A[op["a"]].b
                    except AttributeError:
                        outcome = "attr"
                elif k == "delb":
                    try:
                        del B[op["b"]].a
                    except AttributeError:
                        outcome = "attr"
                else:
                    raise ValueError(op)
            elif self.kind in ("o2m-set", "o2m-dict"):
                outcome = self.step_setdict(op)
            else:
                rev = op.get("rev", False)  # m2m only: operate on b.as_
                if self.kind == "m2m" and rev:
                    owner = B[op["p"]]
                    coll = owner.as_
                    pool = A
                else:
                    owner = A[op["p"]] if op.get("p") is not None else None
                    coll = None if owner is None else self.coll(owner)
                    pool = B
                if k == "sp":  # o2m: child.parent = p
                    mop = "sp:%d:%s" % (op["c"], "N" if op["p"] is None else op["p"])
                    B[op["c"]].parent = None if op["p"] is None else A[op["p"]]
                elif k == "delp":
                    try:
                        del B[op["c"]].parent
                    except AttributeError:
                        outcome = "attr"
                    self.model_frozen = True
                elif k == "app":
                    mop = "app:%d:%d" % (op["p"], op["c"])
                    if any(x is pool[op["c"]] for x in coll):
                        self.dupe = True
                    coll.append(pool[op["c"]])
                elif k == "rem":
                    mop = "rem:%d:%d" % (op["p"], op["c"])
                    coll.remove(pool[op["c"]])
                elif k == "pop":
                    mop = "pop:%d:%d" % (op["p"], op["i"])
                    coll.pop(op["i"])
                elif k == "del":
                    mop = "del:%d:%d" % (op["p"], op["i"])
                    del coll[op["i"]]
                elif k == "set":
                    mop = "set:%d:%d:%d" % (op["p"], op["i"], op["c"])
                    n = len(coll)
                    i = op["i"]
                    if -n <= i < n and any(x is pool[op["c"]] for t, x in enumerate(coll) if t != i % n):
                        self.dupe = True
                    coll[op["i"]] = pool[op["c"]]
                elif k == "rep":
                    mop = "rep:%d:%s" % (op["p"], dots(op["l"]))
                    if len(set(op["l"])) != len(op["l"]):
                        self.dupe = True
                    new = [pool[i] for i in op["l"]]
                    if self.kind == "m2m" and rev:
                        owner.as_ = new
                    elif self.kind == "m2m":
                        owner.bs = new
                    else:
                        owner.children = new
                elif k == "clr":
                    mop = "clr:%d" % op["p"]
                    coll.clear()
                elif k == "delcoll":
                    # `del parent.children`: every member is removed with events, the attribute is
                    # dropped; the flush makes the row state agree before the collection is read again
                    mop = "clr:%d" % op["p"]
                    if self.dupe:
                        self.model_frozen = True  # flush + reload collapses duplicate members: outside the model
                    if rev:
                        del owner.as_
                    elif self.kind == "m2m":
                        del owner.bs
                    else:
                        del owner.children
                    self.sess.flush()
                elif k == "ext":
                    new = [pool[i] for i in op["l"]]
                    if len(set(op["l"])) != len(op["l"]) or any(any(x is y for x in coll) for y in new):
                        self.dupe = True
                    coll.extend(new) if not op.get("iadd") else coll.__iadd__(new)
                    self.model_frozen = True
                elif k == "sls":
                    new = [pool[i] for i in op["l"]]
                    sl = slice(*op["sl"])
                    keep = [x for t, x in enumerate(coll) if t not in range(*sl.indices(len(coll)))]
                    if len(set(op["l"])) != len(op["l"]) or any(any(x is y for x in keep) for y in new):
                        self.dupe = True
                    coll[sl] = new
                    self.model_frozen = True
                elif k == "dls":
                    del coll[slice(*op["sl"])]
                    self.model_frozen = True
                else:
                    raise ValueError(op)
        except (ValueError, IndexError) as e:
            outcome = "value" if isinstance(e, ValueError) else "index"
        except Exception as e:  # noqa: BLE001
            self.violations.append(("op-raised", "%s raised %s: %s" % (json.dumps(op), type(e).__name__, e)))
            return None
        if self.kind in ("o2m", "o2m-odd") and mop is not None and not self.model_frozen:
            self.model_ops.append(mop)
            self.obs.append(outcome + "/" + self.show())
        self.check("after %s" % json.dumps(op))
        return outcome

    def step_setdict(self, op):
        """set / dict collections of the one-to-many side (oracle only)"""
        k = op["op"]
        A, B = self.As, self.Bs
        isdict = self.kind == "o2m-dict"
        try:
            if k == "sp":
                B[op["c"]].parent = None if op["p"] is None else A[op["p"]]
                return "ok"
            if k == "delp":
                try:
                    del B[op["c"]].parent
                except AttributeError:
                    return "attr"
                return "ok"
            owner = A[op["p"]]
            coll = owner.children
            c = B[op["c"]] if "c" in op else None
            if k == "app":
                coll.__setitem__(c.id, c) if isdict else coll.add(c)
            elif k == "rem":
                coll.__delitem__(c.id) if isdict else coll.remove(c)
            elif k == "disc":
                coll.pop(c.id, None) if isdict else coll.discard(c)
            elif k == "pop":
                if isdict:
                    coll.pop(c.id)
                else:
                    coll.pop()
            elif k == "popitem":
                coll.popitem() if isdict else coll.pop()
            elif k == "sdf":
                coll.setdefault(c.id, c) if isdict else coll.add(c)
            elif k == "upd":
                new = [B[i] for i in op["l"]]
                coll.update({x.id: x for x in new}) if isdict else coll.update(new)
            elif k == "dif":
                new = [B[i] for i in op["l"]]
                if isdict:
                    for x in new:
                        coll.pop(x.id, None)
                else:
                    coll.difference_update(new)
            elif k == "clr":
                coll.clear()
            elif k == "rep":
                new = [B[i] for i in op["l"]]
                owner.children = {x.id: x for x in new} if isdict else set(new)
            elif k == "delcoll":
                del owner.children
                self.sess.flush()
            else:
                raise ValueError(op)
        except (KeyError, ValueError):
            return "key"
        return "ok"

    def finish(self):
        if self.violations:
            return
        try:
            # membership before the round trip (as sets: a row holds one link)
            if self.kind.startswith("o2m"):
                mem = {i: sorted({self.ib[id(c)] for c in self.members(a)}) for i, a in enumerate(self.As)}
            elif self.kind == "m2m":
                mem = {i: sorted({self.ib[id(c)] for c in a.bs}) for i, a in enumerate(self.As)}
            else:
                mem = {i: (None if a.b is None else self.ib[id(a.b)]) for i, a in enumerate(self.As)}
            self.sess.commit()
            self.sess.expire_all()
            self.check("after flush + commit + reload")
            if self.violations:
                return
            if self.kind.startswith("o2m"):
                now = {i: sorted(self.ib[id(c)] for c in self.members(a)) for i, a in enumerate(self.As)}
            elif self.kind == "m2m":
                now = {i: sorted(self.ib[id(c)] for c in a.bs) for i, a in enumerate(self.As)}
            else:
                now = {i: (None if a.b is None else self.ib[id(a.b)]) for i, a in enumerate(self.As)}
            if now != mem and not self.dupe:
                self.violations.append(("reload-ne-memory", "before commit %r, reloaded %r" % (mem, now)))
        except Exception as e:  # noqa: BLE001
            self.violations.append(("op-raised", "flush/commit/reload raised %s: %s" % (type(e).__name__, str(e)[:200])))

    def close(self):
        self.sess.rollback()
        self.sess.close()


# ---------------------------------------------------------------------------------------
# unloaded collections: a change made from the OTHER side is queued as a pending mutation;
# discarding the unit of work (rollback / expire / expire_all / refresh) must discard it too
# ---------------------------------------------------------------------------------------
def run_lazy_case(case):
    """returns None or (key, detail)"""
    import sqlalchemy as sa
    from sqlalchemy import orm

    E = env()
    kind = case["kind"]
    with E["eng"].begin() as c:
        for t in reversed(E["Base"].metadata.sorted_tables):
            c.execute(t.delete())
    sess = orm.Session(E["eng"], autoflush=False)
    try:
        na, nb = case["na"], case["nb"]
        A, B = {"o2m": ("BP", "BC"), "m2m": ("MA", "MB"), "o2m-set": ("SP", "SC")}[kind]
        As = [E[A](id=i + 1) for i in range(na)]
        Bs = [E[B](id=i + 1) for i in range(nb)]
        sess.add_all(As + Bs)
        for a, b in case["links"]:
            if kind == "m2m":
                As[a].bs.append(Bs[b])
            elif kind == "o2m-set":
                As[a].children.add(Bs[b])
            else:
                As[a].children.append(Bs[b])
        sess.commit()  # everything expired: every collection is unloaded
        coll = (lambda a: a.bs) if kind == "m2m" else (lambda a: a.children)
        touched = set()
        for op in case["ops"]:
            k = op["op"]
            if k == "sp":  # child.parent = p / None : queued on the unloaded parent collections
                Bs[op["c"]].parent = None if op["p"] is None else As[op["p"]]
            elif k == "rapp":  # b.as_.append(a): queued on the unloaded a.bs
                if not any(x is As[op["a"]] for x in Bs[op["b"]].as_):
                    Bs[op["b"]].as_.append(As[op["a"]])
            elif k == "rrem":
                if any(x is As[op["a"]] for x in Bs[op["b"]].as_):
                    Bs[op["b"]].as_.remove(As[op["a"]])
            elif k == "loadone":  # one owner's collection is loaded before the discard
                coll(As[op["a"]])
        d = case["discard"]
        if d == "rollback":
            sess.rollback()
        elif d == "expire_all":
            sess.expire_all()
        elif d == "expire_each":
            for o in As + Bs:
                sess.expire(o)
        elif d == "refresh_each":
            for o in As + Bs:
                sess.refresh(o)
        elif d == "commit":
            sess.commit()  # control: the change is kept and everything is reloaded
        # the rows
        c = sess.connection()
        if kind == "m2m":
            rows = {(r[0] - 1, r[1] - 1) for r in c.execute(sa.text("select a_id, b_id from c37_ab"))}
        else:
            t = E[B].__table__
            rows = {(r[1] - 1, r[0] - 1) for r in c.execute(sa.select(t.c.id, t.c.parent_id)) if r[1] is not None}
        for i, a in enumerate(As):
            for j, b in enumerate(Bs):
                left = any(x is b for x in coll(a))
                right = any(x is a for x in b.as_) if kind == "m2m" else (b.parent is a)
                inrow = (i, j) in rows
                if left != right:
                    return ("asymmetric-after-discard", "after %s: (b%d in a%d's collection) = %s but the other side says %s (row exists: %s)" % (d, j, i, left, right, inrow))
                if left != inrow:
                    return ("memory-ne-row-after-discard", "after %s: b%d in a%d's collection = %s, association row exists = %s" % (d, j, i, left, inrow))
        return None
    finally:
        sess.rollback()
        sess.close()


def gen_lazy_case(rng):
    kind = rng.choice(["o2m", "o2m", "m2m", "m2m", "o2m-set"])
    na, nb = rng.choice([2, 3]), rng.choice([3, 4])
    links = set()
    for b in range(nb):
        if kind == "m2m":
            for a in rng.sample(range(na), rng.choice([0, 1, 1, 2])):
                links.add((a, b))
        elif rng.random() < 0.6:
            links.add((rng.randrange(na), b))
    ops = []
    for _ in range(rng.randint(1, 4)):
        if kind == "m2m":
            ops.append({"op": rng.choice(["rapp", "rapp", "rrem"]), "a": rng.randrange(na), "b": rng.randrange(nb)})
        else:
            ops.append({"op": "sp", "c": rng.randrange(nb), "p": rng.choice([None] + list(range(na)))})
        if rng.random() < 0.15:
            ops.append({"op": "loadone", "a": rng.randrange(na)})
    return {"lazy": True, "kind": kind, "na": na, "nb": nb, "links": sorted(links), "ops": ops,
            "discard": rng.choice(["rollback", "rollback", "expire_all", "expire_each", "refresh_each", "commit"])}


def rand_slice(rng, n):
    b = lambda: rng.choice([None, None, 0, 1, 2, n, n + 1, -1, -2])  # noqa: E731
    return [b(), b(), rng.choice([None, None, 1, 2, -1])]


def gen_op(rng, R, dupes):
    kind = R.kind
    na, nb = len(R.As), len(R.Bs)
    if kind == "o2o":
        c = rng.random()
        if c < 0.45:
            a = rng.randrange(na)
            free = [i for i, b in enumerate(R.Bs) if b.a is None or b.a is R.As[a]]
            return {"op": "seta", "a": a, "b": rng.choice([None] + (list(range(nb)) if dupes else free))}
        if c < 0.9:
            b = rng.randrange(nb)
            free = [i for i, a in enumerate(R.As) if a.b is None or a.b is R.Bs[b]]
            cand = list(range(na)) if dupes else free
            return {"op": "setb", "b": b, "a": rng.choice([None] + cand)}
        if c < 0.95:
            return {"op": "dela", "a": rng.randrange(na)}
        return {"op": "delb", "b": rng.randrange(nb)}
    if kind in ("o2m-set", "o2m-dict"):
        p = rng.randrange(na)
        cur = [R.ib[id(x)] for x in R.members(R.As[p])]
        c = rng.choice(["sp", "sp", "app", "app", "rem", "disc", "pop", "popitem", "sdf", "upd", "dif", "clr", "rep", "delcoll", "delp"])
        if c == "sp":
            return {"op": "sp", "c": rng.randrange(nb), "p": rng.choice([None] + list(range(na)))}
        if c == "delp":
            return {"op": "delp", "c": rng.randrange(nb)}
        if c in ("app", "sdf"):
            return {"op": c, "p": p, "c": rng.randrange(nb)}
        if c in ("rem", "disc", "pop"):
            return {"op": c, "p": p, "c": rng.choice(cur) if cur and rng.random() < 0.85 else rng.randrange(nb)}
        if c in ("upd", "dif", "rep"):
            return {"op": c, "p": p, "l": rng.sample(range(nb), rng.randint(0, min(3, nb)))}
        return {"op": c, "p": p}
    if kind == "o2m-odd" and not dupes:
        # value-equal but distinct children: only operations whose removals are positional or name
        # the first equal element, and whose additions take children that have no parent yet —
        # every by-value removal inside the ORM (backref pop = list.remove) would otherwise take
        # whichever equal object comes first
        p = rng.randrange(na)
        cur = [R.ib[id(x)] for x in R.As[p].children]
        n = len(cur)
        free = [i for i, b in enumerate(R.Bs) if b.parent is None and not any(x is b for a in R.As for x in a.children)]
        ii = lambda: rng.randint(-n - 1, n + 1) if rng.random() < 0.2 or n == 0 else rng.randint(-n, n - 1)  # noqa: E731
        for _ in range(10):
            c = rng.choice(["app", "app", "app", "pop", "del", "dls", "set", "rem", "clr", "delcoll", "fill"])
            if c == "app" and free:
                return {"op": "app", "p": p, "c": rng.choice(free)}
            if c == "fill" and free and n == 0:
                return {"op": "rep", "p": p, "l": rng.sample(free, rng.randint(1, len(free)))}
            if c in ("pop", "del"):
                return {"op": c, "p": p, "i": ii()}
            if c == "dls":
                return {"op": "dls", "p": p, "sl": rand_slice(rng, n)}
            if c == "set" and free and n:
                return {"op": "set", "p": p, "i": rng.randint(-n, n - 1), "c": rng.choice(free)}
            if c == "rem" and cur:
                x = rng.choice(cur)
                eq = [y for y in cur if y // 2 == x // 2]
                return {"op": "rem", "p": p, "c": eq[0]}
            if c == "clr" and rng.random() < 0.3:
                return {"op": "clr", "p": p}
            if c == "delcoll" and rng.random() < 0.3:
                return {"op": "delcoll", "p": p}
        return {"op": "pop", "p": p, "i": -1}
    rev = kind == "m2m" and rng.random() < 0.5
    if rev:
        p = rng.randrange(nb)
        coll = R.Bs[p].as_
        pool_n, idx = na, R.ia
    else:
        p = rng.randrange(na)
        coll = R.coll(R.As[p])
        pool_n, idx = nb, R.ib
    cur = [idx[id(x)] for x in coll]
    n = len(cur)
    fresh = [i for i in range(pool_n) if i not in cur]
    pick_new = lambda: rng.randrange(pool_n) if dupes else (rng.choice(fresh) if fresh else None)  # noqa: E731
    ii = lambda: rng.randint(-n - 1, n + 1) if rng.random() < 0.25 or n == 0 else rng.randint(-n, n - 1)  # noqa: E731
    base = {"p": p}
    if rev:
        base["rev"] = True
    for _ in range(10):
        c = rng.choice(["sp", "sp", "app", "app", "rem", "pop", "del", "set", "rep", "clr", "ext", "sls", "dls", "delp", "delcoll"])
        if c == "delcoll" and rng.random() < 0.5:
            return dict(base, op="delcoll")
        if c == "sp" and kind in ("o2m", "o2m-odd"):
            return {"op": "sp", "c": rng.randrange(nb), "p": rng.choice([None] + list(range(na)))}
        if c == "delp" and kind in ("o2m", "o2m-odd") and rng.random() < 0.3:
            return {"op": "delp", "c": rng.randrange(nb)}
        if c == "app":
            x = pick_new()
            if x is not None:
                return dict(base, op="app", c=x)
        if c == "rem":
            x = rng.choice(cur) if cur and rng.random() < 0.85 else rng.randrange(pool_n)
            if kind == "o2m-odd":
                # list.remove() takes the first EQUAL element: only ask for an object that is itself
                # the first one equal to it (or for one with no equal element in the list)
                eq = [y for y in cur if y // 2 == x // 2]
                if eq and eq[0] != x:
                    x = eq[0]
            return dict(base, op="rem", c=x)
        if c in ("pop", "del"):
            return dict(base, op=c, i=ii())
        if c == "set":
            x = pick_new()
            if x is None and cur:
                x = None
            if x is not None:
                return dict(base, op="set", i=ii(), c=x)
        if c == "rep":
            k = rng.randint(0, min(3, pool_n))
            l = [rng.randrange(pool_n) for _ in range(k)] if dupes else rng.sample(range(pool_n), k)
            return dict(base, op="rep", l=l)
        if c == "clr" and rng.random() < 0.4:
            return dict(base, op="clr")
        if c == "ext" and fresh:
            return dict(base, op="ext", l=rng.sample(fresh, rng.randint(0, min(2, len(fresh)))), iadd=rng.random() < 0.5)
        if c == "sls":
            sl = rand_slice(rng, n)
            keep = [x for t, x in enumerate(cur) if t not in range(*slice(*sl).indices(n))]
            cand = [i for i in range(pool_n) if i not in keep]
            rs = len(range(*slice(*sl).indices(n)))
            k = rs if ((sl[2] or 1) != 1 and rng.random() < 0.8) else rng.randint(0, 2)
            if len(cand) >= k:
                return dict(base, op="sls", sl=sl, l=rng.sample(cand, k))
        if c == "dls":
            return dict(base, op="dls", sl=rand_slice(rng, n))
    return dict(base, op="clr")


def gen_case(rng, stream, maxops):
    kind = rng.choice(["o2m", "o2m", "o2m", "m2m", "o2o", "o2m-set", "o2m-dict", "o2m-odd", "o2m-odd"])
    return {"kind": kind, "na": rng.choice([2, 3]), "nb": 4 if kind == "o2m-odd" else rng.choice([3, 4]), "persistent": rng.random() < 0.4, "ops": [], "stream": stream, "maxops": rng.randint(3, maxops)}


def moves_ok(R, op):
    if R.kind != "o2m-odd":
        return True
    saved = R.eqmove
    R.eqmove = False
    R.note_moves(op)
    bad = R.eqmove
    R.eqmove = saved
    return not bad


def drive(rng, case):
    R = Runner(case)
    while len(case["ops"]) < case["maxops"] and not R.violations:
        op = gen_op(rng, R, case["stream"] == "dupes")
        if case["stream"] != "dupes":
            for _ in range(20):
                if moves_ok(R, op):
                    break
                op = gen_op(rng, R, False)
            else:
                op = {"op": "clr", "p": 0}
        case["ops"].append(op)
        R.step(op)
    R.finish()
    return R


def replay_case(case):
    R = Runner(case)
    for op in case["ops"]:
        if R.violations:
            break
        R.step(op)
    R.finish()
    return R


def model_line(case, R):
    return "backref run %d %d %s" % (case["na"], case["nb"], ";".join(R.model_ops) if R.model_ops else "-")


def key_of(R):
    kind = R.violations[0][0]
    if R.dupe:
        return "c37:duplicate-member-in-list-collection"
    if R.eqmove:
        return "c37:value-equal-child-removed-by-equality"
    if R.displaced and R.kind == "o2o":
        return "c37:one-to-one-displaced-partner-keeps-reference"
    return "c37:" + kind


WITNESS = {"kind": "o2m", "na": 2, "nb": 1, "persistent": False, "ops": [{"op": "app", "p": 0, "c": 0}, {"op": "app", "p": 0, "c": 0}, {"op": "app", "p": 1, "c": 0}]}


def run_one(ctx, case, do_drive, cases, impl_out, reqs):
    R = drive(ctx.rng, case) if do_drive else replay_case(case)
    try:
        ctx.case(case, nontrivial=len(case["ops"]) >= 2)
        ctx.count("stream=%s" % case.get("stream"))
        ctx.count("kind=%s/%s" % (case["kind"], "persistent" if case.get("persistent") else "pending"))
        for o in case["ops"]:
            ctx.count("op=%s:%s" % (case["kind"], o["op"]))
        if R.violations:
            ctx.violation(key_of(R), {k: v for k, v in case.items() if k not in ("stream", "maxops")}, R.violations[0][1])
        if case.get("stream") == "main" and len(case["ops"]) >= 8 and case["kind"] == "o2m":
            ctx.sample({"case": case, "final": R.obs[-1] if R.obs else ""}, cap=4)
        if case["kind"] in ("o2m", "o2m-odd"):
            cases.append(case)
            impl_out.append("|".join(R.obs) if R.obs else "-")
            reqs.append(model_line(case, R))
        return R
    finally:
        R.close()


def run(ctx, deep=False):
    thorough = ctx.tier == "thorough" or deep
    ctx.rule = (
        "mutation sequences (3..%d ops) on 2-3 x 3-4 objects of a back_populates pair: one-to-many/many-to-one (scalar set / del from the child side; "
        "append, remove, pop, __setitem__, __delitem__, slices, extend, +=, clear, whole-collection replacement from the parent side), many-to-many "
        "(same operations from either side), one-to-one (set / del from either side); pending and persistent (loaded) objects; main stream never puts "
        "an object twice into one list, dupes stream does; symmetry checked after every operation and after flush + commit + reload; "
        "non-trivial = at least 2 operations" % (20 if thorough else 12)
    )
    ctx.trusted.append("event tokens are modelled by their effect; unloaded collections, many-to-many and one-to-one are checked by the oracle only")
    ctx.trusted.append("SQLite in-memory is the only backend executed (flush + reload part)")
    cases, impl_out, reqs = [], [], []
    n = 4000 if thorough else 600
    maxops = 20 if thorough else 12
    for _ in range(n):
        run_one(ctx, gen_case(ctx.rng, "main", maxops), True, cases, impl_out, reqs)
    for _ in range(n // 5):
        run_one(ctx, gen_case(ctx.rng, "dupes", maxops), True, cases, impl_out, reqs)
    for _ in range(n // 2):
        case = gen_lazy_case(ctx.rng)
        try:
            bad = run_lazy_case(case)
        except Exception as e:  # noqa: BLE001
            bad = ("op-raised", "unloaded-collection case raised %s: %s" % (type(e).__name__, str(e)[:200]))
        ctx.case(case, nontrivial=True)
        ctx.count("stream=unloaded/%s/%s" % (case["kind"], case["discard"]))
        if bad:
            ctx.violation("c37:" + bad[0], case, bad[1])
    R = run_one(ctx, dict(WITNESS, stream="witness"), False, cases, impl_out, reqs)
    ctx.obligation("witness duplicate_move_counterexample reproduces on the real code", bool(R.violations), "Props.C37.duplicate_move_counterexample predicts an asymmetry; the real code did not show it")
    if ctx.driver_ok():
        bad = ["backref run 2 2 frob:1", "backref run x 2 -", "backref run 2 2 sp:0"]
        ctx.correspond("corr/c37:malformed-rejected", [{"line": l} for l in bad], ["bad-op"] * len(bad), ctx.driver(bad))
        ctx.correspond("corr/c37:both-sides-vs-Model.Backref", cases, impl_out, ctx.driver(reqs))


def search(ctx, broken):
    sub = type(ctx)(ctx.pid, "thorough", ctx.seed + 1, ctx.level)
    run(sub, deep=True)
    ctx.violations.extend(sub.violations)


def replay(ctx, obj):
    case = obj["case"]
    if case.get("lazy"):
        bad = run_lazy_case(case)
        print("replay C37 unloaded %s -> %s" % (json.dumps(case), bad))
        return bad is not None
    R = replay_case(case)
    try:
        print("replay C37 %s" % json.dumps(case))
        for mop, o in zip(R.model_ops, R.obs):
            print("   %-16s %s" % (mop, o))
        print("oracle:", R.violations[:1] or "holds")
        return bool(R.violations)
    finally:
        R.close()
