"""C21 — generated and truncated names are bounded, deterministic and unique.

Model      lean/SaVerif/Model/Naming.lean (_truncate_and_render_maxlen_name with md5 uninterpreted,
           validate_identifier, SQLCompiler._truncated_identifier with its memo and per-class
           counters, ConventionDict key dispatch and %-expansion for the documented tokens)
Tables     lean/SaVerif/Gen/NamingTables.lean — max_identifier_length / max_index_name_length /
           max_constraint_name_length per dialect, read from the working tree
Theorems   lean/SaVerif/Props/C21.lean
Run        correspondence (real _truncated_identifier call sequences on a fresh compiler, real
           _truncate_and_render_maxlen_name, real Table construction under naming conventions vs
           model), direct oracles on DDL names for every dialect and on compiled statements under a
           label_length sweep (result-column / alias / bind names distinct, bounded, stable across
           compilations) with execution on SQLite.
"""
import hashlib
import re

PID = "C21"
LEVEL = "proof"
LEAN = ["SaVerif.Props.C21"]
META = {
    "text": "Lean theorems: a convention-generated name of any length renders with at most max characters when max >= 8, with max the dialect's index/constraint/identifier limit read from the working tree (truncated_len_le_max*, md5 uninterpreted with 32 output characters); for EVERY sequence of _truncated_identifier requests in one compilation, any label_length and any mix of names: results are at most label_length long while fewer than 16^5-1 names are truncated (label_len_le), two requests of the same class that received the same rendered name were requests for the same name (truncated_distinct), and a repeated request renders identically (memo_stable) — proved by an invariant over the memo/counter state machine; the labels of one columns clause are pairwise distinct for every list of named columns, any repetition count, clashes and interleaving (select_labels_distinct, transcription of _generate_columns_plus_names); names handed out by prefix_anon_map are injective in the key for every lookup sequence (anon_names_distinct); statements derived from one text() template carry distinct keys for a unique parameter (text_derived_binds_distinct, maintain_key flag read by ast); over the engine's life (limits may shrink at initialize()) every label, index and constraint name emitted after a successful connect is bounded by the limits reported at that connect, whatever was formatted before (names_after_connect_respect_new_limit). Model tied to the code by differential runs of real call sequences, and the property checked on compiled DDL (7 dialects + small limits) and on statements under a label_length sweep, executed on SQLite.",
    "note": "Partial / known findings: explicitly given names are validated against max_identifier_length only, so on MySQL/MariaDB an explicit index or constraint name of 65..255 characters is rendered although the limit is 64 (explicit_exceeds_specific_max_counterexample); max < 8 breaks the bound (truncated_small_max_counterexample; no shipped dialect); a plain column literally named like a generated label (anon_1) shares the result-column name with the anonymous label (outside _truncated_identifier, hypothesis of truncated_distinct). Trusted / assumed: documented server limits for index/constraint names (PostgreSQL 63, MySQL/MariaDB 64, MSSQL 128, Oracle 128; dialect_limits_within_backend) and the documented meaning of the convention tokens (harness ref_expand); md5 gives 32 hex characters; collisions of the 4-hex-digit md5 suffix between different long DDL names are outside the theorems (probabilistic); apply_map / anon_map (anonymous counters) is outside the Lean model; ConventionDict is modelled for the documented tokens (no custom callables, no column_N_label).",
    "technique": "Lean 4 invariant proof over the truncation state machine (all request sequences), arithmetic lemmas for hex rendering; decide over regenerated dialect limits; differential correspondence; compile/execute oracle",
    "design_ref": "DESIGN.md §3 C21",
}

DIALECTS = ["default", "sqlite", "postgresql", "mysql", "mariadb", "mssql", "oracle"]


def tables():
    from harness import lib_ident as L

    ds = L.dialects()
    return {k: (ds[k].max_identifier_length, ds[k].max_index_name_length, ds[k].max_constraint_name_length) for k in DIALECTS}


def text_bindparams_maintain_key():
    """read (by ast) the maintain_key argument of the `existing._with_value(...)` call in
    TextClause.bindparams (default False when the keyword is absent)"""
    import ast
    import inspect
    import textwrap
    from sqlalchemy.sql.elements import TextClause

    tree = ast.parse(textwrap.dedent(inspect.getsource(TextClause.bindparams)))
    found = []
    for node in ast.walk(tree):
        if isinstance(node, ast.Call) and isinstance(node.func, ast.Attribute) and node.func.attr == "_with_value":
            mk = False
            for kw in node.keywords:
                if kw.arg == "maintain_key":
                    mk = kw.value.value if isinstance(kw.value, ast.Constant) else None
            if len(node.args) > 1:
                mk = None
            found.append(mk)
    return found


def gen(ctx):
    t = tables()
    mk = text_bindparams_maintain_key()
    ctx.obligation("translator: TextClause.bindparams copies parameters with one literal maintain_key", len(mk) == 1 and mk[0] in (True, False), repr(mk))
    o = ["/-! Identifier length limits read from the dialect classes of the working tree:",
         "    (max_identifier_length, max_index_name_length, max_constraint_name_length) -/",
         "namespace SaVerif.Gen.NamingTables"]
    opt = lambda v: "none" if v is None else "(some %d)" % v
    for k in DIALECTS:
        a, b, c = t[k]
        o.append("def %s : Nat × Option Nat × Option Nat := (%d, %s, %s)" % (k, a, opt(b), opt(c)))
    o.append("def all : List (Nat × Option Nat × Option Nat) := [%s]" % ", ".join(DIALECTS))
    o.append("/-- `maintain_key` passed by TextClause.bindparams(name=value) to `_with_value` -/")
    o.append("def textBindparamsMaintainKey : Bool := %s" % ("true" if (mk and mk[0]) else "false"))
    o.append("end SaVerif.Gen.NamingTables")
    ctx.write_gen("NamingTables", "\n".join(o) + "\n")


# =====================================================================================
def E(s):
    return "s:" + ".".join(str(ord(c)) for c in s)


def EL(l):
    return ",".join(E(x) for x in l) if l else "-"


CLASSES = ["colident", "bindparam", "alias"]
WORD = "abcdefghijklmnopqrstuvwxyz_0123456789"


def gen_name(rng, pool_prefixes, maxlen=40):
    k = rng.random()
    if k < 0.5:
        p = rng.choice(pool_prefixes)
        return p + "".join(rng.choice(WORD) for _ in range(rng.randint(0, max(0, maxlen - len(p)))))
    if k < 0.6:
        return "".join(rng.choice("aB_ é\"%.") for _ in range(rng.randint(1, 12)))
    return "".join(rng.choice(WORD) for _ in range(rng.randint(1, maxlen)))


def md5_hex(s):
    return hashlib.md5(s.encode("utf-8")).hexdigest()


# ------------------------------------------------------------------ real runners
def real_idents(label_length, reqs):
    from sqlalchemy.engine import default
    from sqlalchemy.sql.elements import _truncated_label

    d = default.DefaultDialect(label_length=label_length)
    comp = d.statement_compiler(d, None)
    return [comp._truncated_identifier(CLASSES[c], _truncated_label(n)) for c, n in reqs]


def real_trunc(is_trunc, name, spec, max_ident, kind):
    """through truncate_and_render_index_name / _constraint_name of a dialect with the given limits"""
    from sqlalchemy.engine import default
    from sqlalchemy.sql.elements import conv
    from sqlalchemy import exc

    d = default.DefaultDialect(max_identifier_length=max_ident)
    if kind == "index":
        d.max_index_name_length = spec
    else:
        d.max_constraint_name_length = spec
    p = d.identifier_preparer
    fn = p.truncate_and_render_index_name if kind == "index" else p.truncate_and_render_constraint_name
    try:
        return fn(conv(name) if is_trunc else name, _alembic_quote=False)
    except exc.IdentifierError:
        return None


def build_constraint(kind, tmpl, table, cname, cols, reft, refcols):
    """construct the real Table under naming_convention {kind: tmpl}; returns the constraint name
    or an error tag"""
    from sqlalchemy import MetaData, Table, Column, Integer, ForeignKeyConstraint, UniqueConstraint, CheckConstraint, Index, PrimaryKeyConstraint
    from sqlalchemy import exc

    m = MetaData(naming_convention={kind: tmpl})
    try:
        if kind == "fk":
            Table(reft, m, *[Column(rc, Integer) for rc in refcols])
        colobjs = [Column(n, Integer, key=k) for n, k in cols]
        keys = [k for _, k in cols]
        if kind == "fk":
            c = ForeignKeyConstraint(keys, ["%s.%s" % (reft, rc) for rc in refcols], name=cname)
        elif kind == "uq":
            c = UniqueConstraint(*keys, name=cname)
        elif kind == "ck":
            c = CheckConstraint("1 = 1", name=cname)
        elif kind == "pk":
            c = PrimaryKeyConstraint(*keys, name=cname)
        else:
            c = None
        if kind == "ix":
            t = Table(table, m, *colobjs)
            c = Index(cname, *[t.c[k] for k in keys])
        elif kind == "ck":
            t = Table(table, m, *colobjs, c)
        else:
            t = Table(table, m, *colobjs, c)
        return ("ok", str(c.name) if c.name is not None else None, c, t)
    except KeyError:
        return ("keyerror",)
    except exc.InvalidRequestError:
        return ("needsname",)
    except IndexError:
        return ("indexerror",)
    except (ValueError, TypeError):
        return ("badformat",)


TOKENS = ["table_name", "constraint_name", "referred_table_name", "column_0_name", "column_1_name", "column_0_key", "column_2_key",
          "column_0N_name", "column_0_N_name", "column_0N_key", "column_0_N_key", "referred_column_0_name", "referred_column_1_name",
          "referred_column_0N_name", "referred_column_0_N_name", "column_00_name", "column_7_name"]
BAD_TOKENS = ["column_1N_name", "column_0N_nam", "colum_0_name", "table", "column__name", "column_0_", "column_x_name", "referred_column_0_key",
              "column_10N_name", "foo_column_0_name", "column_0_name1", "Table_name", ""]


def gen_template(rng, kind):
    parts = [kind]
    for _ in range(rng.randint(1, 4)):
        r = rng.random()
        toks = [t for t in TOKENS if kind == "fk" or not t.startswith("referred")]
        if r < 0.8:
            parts.append("%(" + rng.choice(toks) + ")s")
        elif r < 0.88 and kind not in ("ck", "pk"):  # with zero columns (ck; pk while it is being built) a malformed column_0N_* key is never looked up
            parts.append("%(" + rng.choice(BAD_TOKENS) + ")s")
        elif r < 0.92:
            parts.append("%%")
        elif r < 0.95 and kind != "pk":
            parts.append("%(" + rng.choice(toks) + ")" + rng.choice(["d", ""]))
        else:
            parts.append(rng.choice(["x", "long" * 5]))
    return "_".join(parts)


# ------------------------------------------------------------------ engine lifecycle
def shrinking_dialect(class_limit, server_limit, label_length=None, max_index=None, max_constraint=None, user_max=None):
    """a real SQLite dialect whose identifier limit changes at first connect, the way Oracle's
    does below 12.2 (`_check_max_identifier_length` returns the server's limit)"""
    from sqlalchemy.dialects.sqlite.pysqlite import SQLiteDialect_pysqlite

    class Shrink(SQLiteDialect_pysqlite):
        max_identifier_length = class_limit
        max_index_name_length = max_index
        max_constraint_name_length = max_constraint
        supports_statement_cache = True
        server_limit = None

        def _check_max_identifier_length(self, connection):
            return self.server_limit

    Shrink.server_limit = server_limit
    kw = {}
    if label_length is not None:
        kw["label_length"] = label_length
    if user_max is not None:
        kw["max_identifier_length"] = user_max
    return Shrink, kw


def real_life(class_limit, user_max, label_length, max_index, max_constraint, ops):
    """drive ONE real dialect object (and its long-lived identifier_preparer) through the ops;
    connect = DefaultDialect.initialize() on a real SQLite connection"""
    from sqlalchemy import create_engine, exc
    from sqlalchemy.pool import StaticPool
    from sqlalchemy.sql.elements import conv, _truncated_label

    cls, kw = shrinking_dialect(class_limit, None, label_length, max_index, max_constraint, user_max)
    d = cls(dbapi=cls.import_dbapi(), **kw)
    p = d.identifier_preparer
    out = []
    plain = create_engine("sqlite://", poolclass=StaticPool)
    try:
        with plain.connect() as c:
            for op in ops:
                if op[0] == "c":
                    d.server_limit = op[1]
                    try:
                        d.initialize(c)
                        out.append("connected")
                    except exc.ArgumentError:
                        out.append("argumenterror")
                elif op[0] in ("i", "k"):
                    fn = p.truncate_and_render_index_name if op[0] == "i" else p.truncate_and_render_constraint_name
                    try:
                        out.append(E(fn(conv(op[2]) if op[1] else op[2], _alembic_quote=False)))
                    except exc.IdentifierError:
                        out.append("identifiererror")
                else:
                    comp = d.statement_compiler(d, None)
                    out.append(E(comp._truncated_identifier("colident", _truncated_label(op[1]))))
    finally:
        plain.dispose()
    return out, d


def life_oracle(ops, outs, max_index=None, max_constraint=None):
    """every name emitted after a successful connect is within the limit the server reported
    (index and constraint paths alike); returns [(key, detail)]"""
    probs, limit, armed = [], None, False
    for op, o in zip(ops, outs):
        if op[0] == "c":
            armed = o == "connected"
            if op[1]:
                limit = op[1]
            continue
        if not armed or limit is None or not o.startswith("s:"):
            continue
        n = 0 if o == "s:" else len(o[2:].split("."))
        explicit = op[0] in ("i", "k") and not op[1]
        # a dialect's own index / constraint limit, where it declares one, takes precedence
        lim = (max_index or limit) if op[0] == "i" else (max_constraint or limit) if op[0] == "k" else limit
        if n > lim and not explicit and lim >= 8:
            limit_, limit = limit, lim
            what = {"i": "index name", "k": "constraint name", "l": "label"}[op[0]]
            probs.append(("name-exceeds-limit-reported-at-connect:" + op[0], "%s of %d characters emitted while the limit is %d" % (what, n, lim)))
            limit = limit_
    return probs


def engine_lifecycle_case(class_limit, server_limit, label_length, name_len):
    """the same through a real Engine: format before the first connect, connect, format again"""
    from sqlalchemy import create_engine, MetaData, Table, Column, Integer, Index, UniqueConstraint, select, exc
    from sqlalchemy.dialects import registry
    from sqlalchemy.pool import StaticPool
    from sqlalchemy.schema import CreateIndex, CreateTable

    cls, kw = shrinking_dialect(class_limit, server_limit, label_length)
    cls.driver = "shrinkverif"
    cls.name = "sqlite"
    registry.impls["sqlite.shrinkverif"] = lambda: cls
    probs = []
    e = create_engine("sqlite+shrinkverif://", poolclass=StaticPool, **kw)
    try:
        m = MetaData(naming_convention={"ix": "ix_%(table_name)s_%(column_0_N_name)s", "uq": "uq_%(table_name)s_%(column_0_N_name)s"})
        t = Table("t" + "a" * (name_len // 2), m, Column("c" + "b" * (name_len // 2), Integer), Column("d", Integer))
        ix = Index(None, t.c[0])
        uq = UniqueConstraint(t.c[0])
        t.append_constraint(uq)
        p = e.dialect.identifier_preparer

        def names():
            out = {}
            for k, c in (("index", ix), ("constraint", uq)):
                try:
                    out[k] = unquote(e.dialect, p.format_constraint(c))
                except exc.IdentifierError:
                    out[k] = None
            try:
                st = select(t.alias()).set_label_style(__import__("sqlalchemy").LABEL_STYLE_TABLENAME_PLUS_COL)
                comp = st.compile(e)
                out["labels"] = [x[0] for x in comp._result_columns] + re.findall(r" AS (\S+?)[, \n]", str(comp).split("FROM", 1)[1] + " ")
            except Exception as ex:  # noqa: BLE001
                out["labels"] = []
                out["compile_error"] = type(ex).__name__
            return out

        before = names()
        try:
            with e.connect() as c:
                c.exec_driver_sql("select 1")
            connected = True
        except exc.ArgumentError:
            connected = False
        if connected:
            after = names()
            lim = server_limit or class_limit
            if lim >= 8:
                for k in ("index", "constraint"):
                    if after[k] is not None and len(after[k]) > lim:
                        probs.append(("name-exceeds-limit-reported-at-connect:" + k[0], "%s name %r (%d) after connect, server limit %d (formatted before connect: %r)" % (k, after[k], len(after[k]), lim, before[k])))
                for n in after["labels"]:
                    if len(n) > lim:
                        probs.append(("name-exceeds-limit-reported-at-connect:l", "label/alias %r (%d) after connect, server limit %d, label_length %r" % (n, len(n), lim, label_length)))
                        break
                if (after["index"] is None) != (after["constraint"] is None) or (after["index"] and after["constraint"] and (len(after["index"]) > lim) != (len(after["constraint"]) > lim)):
                    probs.append(("index-and-constraint-name-paths-disagree", "index %r constraint %r" % (after["index"], after["constraint"])))
        elif not (label_length and label_length > (server_limit or class_limit)):
            probs.append(("connect-refused-without-cause", "ArgumentError with label_length %r, limits %r/%r" % (label_length, class_limit, server_limit)))
    finally:
        e.dispose()
    return probs


# ------------------------------------------------------------------ oracles
def ref_expand(tmpl, table, cname, cols, reft, refcols):
    """the documented meaning of the naming-convention tokens (docs: MetaData.naming_convention),
    for templates made of literal text, %% and %(token)s with well-formed tokens; None otherwise"""
    out, i = [], 0
    while i < len(tmpl):
        if tmpl[i] != "%":
            out.append(tmpl[i])
            i += 1
            continue
        if tmpl.startswith("%%", i):
            out.append("%")
            i += 2
            continue
        m = re.match(r"%\(([a-z_0-9N]+)\)s", tmpl[i:])
        if not m:
            return None
        k = m.group(1)
        i += m.end()
        if k == "table_name":
            out.append(table)
        elif k == "referred_table_name":
            out.append(reft)
        elif k == "constraint_name":
            if cname is None:
                return None
            out.append(cname)
        else:
            m2 = re.fullmatch(r"(referred_)?column_(\d+)(N|_N)?_(name|key)", k)
            if not m2 or (m2.group(1) and m2.group(4) != "name"):
                return None
            seq = list(refcols) if m2.group(1) else [c[0] if m2.group(4) == "name" else c[1] for c in cols]
            if m2.group(3):
                if m2.group(2) != "0":
                    return None
                out.append(("_" if m2.group(3) == "_N" else "").join(seq))
            else:
                idx = int(m2.group(2))
                if idx >= len(seq):
                    if m2.group(1):
                        return None
                    out.append("")
                else:
                    out.append(seq[idx])
    return "".join(out)


BACKEND_LIMITS = {  # documented server limits for index / constraint names (trusted)
    "postgresql": 63, "mysql": 64, "mariadb": 64, "mssql": 128, "oracle": 128,
}


def unquote(d, q):
    p = d.identifier_preparer
    if q.startswith(p.initial_quote) and q.endswith(p.final_quote) and len(q) >= 2:
        return p._unescape_identifier(q[1:-1])
    return q


def ddl_oracle(ctx, rng, thorough):
    """rendered constraint / index names never exceed the dialect's limit; same input, same name"""
    from harness import lib_ident as L
    from sqlalchemy.engine import default
    from sqlalchemy import exc
    from sqlalchemy.schema import CreateTable, CreateIndex, AddConstraint

    dialects = dict(L.dialects())
    for n in (8, 9, 12, 20, 30):
        dialects["max%d" % n] = default.DefaultDialect(max_identifier_length=n)
    conv = {"ix": "ix_%(table_name)s_%(column_0_N_name)s", "uq": "uq_%(table_name)s_%(column_0_N_name)s",
            "fk": "fk_%(table_name)s_%(column_0_N_name)s_%(referred_table_name)s", "ck": "ck_%(table_name)s_%(constraint_name)s",
            "pk": "pk_%(table_name)s"}
    for _ in range(60 if not thorough else 600):
        tl, cl = rng.choice([3, 10, 25, 40, 70]), rng.choice([3, 10, 30, 60])
        table = "t" + "".join(rng.choice(WORD) for _ in range(tl))
        cols = [("c%d" % i + "".join(rng.choice(WORD) for _ in range(cl)),) * 2 for i in range(rng.randint(1, 3))]
        kind = rng.choice(["ix", "uq", "fk", "ck", "pk"])
        explicit = rng.random() < 0.3
        cname = ("n" + "".join(rng.choice(WORD) for _ in range(rng.choice([5, 40, 70, 130, 300])))) if (explicit or kind == "ck") else None
        mk = lambda: build_constraint(kind, conv[kind] if not explicit or kind == "ck" else "%(constraint_name)s" if False else conv[kind], table, cname, cols, "parent" + "x" * rng.choice([0, 30]) if False else "parenttable", [c[0] for c in cols])
        use_conv = not explicit or kind == "ck"
        def mk():  # noqa: E306
            from sqlalchemy import MetaData

            return build_constraint(kind, conv[kind], table, cname, cols, "parenttable", [c[0] for c in cols]) if use_conv else \
                build_constraint_noconv(kind, table, cname, cols)
        r1, r2 = mk(), mk()
        if r1[0] != "ok":
            continue
        ctx.case(("ddl", kind, table, cname, len(cols)))
        if r1[1] != r2[1]:
            ctx.violation("convention-name-not-deterministic", {"kind": "ddl", "ckind": kind, "table": table, "cname": cname, "cols": cols, "conv": use_conv}, "%r vs %r" % (r1[1], r2[1]))
        for dn, d in sorted(dialects.items()):
            p = d.identifier_preparer
            lim = (d.max_index_name_length if kind == "ix" else d.max_constraint_name_length) or d.max_identifier_length
            outs = []
            for r, prep in ((r1, p), (r2, type(p)(d) if dn != "mssql" else type(p)(d))):
                try:
                    outs.append(unquote(d, prep.format_constraint(r[2])))
                except exc.IdentifierError:
                    outs.append(None)
            blim = BACKEND_LIMITS.get(dn)
            if blim is not None and outs[0] is not None and len(outs[0]) > blim and (use_conv or len(outs[0]) > d.max_identifier_length):
                ctx.violation("rendered-name-exceeds-backend-limit:" + dn, {"kind": "ddl", "ckind": kind, "table": table, "cname": cname, "cols": cols, "conv": use_conv, "dialect": dn, "backend": True},
                              "%s name %r has %d characters, the server accepts %d" % (kind, outs[0], len(outs[0]), blim))
            ctx.count("ddl:%s" % ("rejected" if outs[0] is None else "truncated" if outs[0] != r1[1] else "as-is"))
            case = {"kind": "ddl", "ckind": kind, "table": table, "cname": cname, "cols": cols, "conv": use_conv, "dialect": dn}
            if outs[0] != outs[1]:
                ctx.violation("rendered-name-not-deterministic", case, "%r vs %r" % tuple(outs))
            if outs[0] is not None and len(outs[0]) > lim:
                key = "explicit-name-exceeds-index-or-constraint-limit" if (not use_conv and len(outs[0]) <= d.max_identifier_length) else "rendered-name-exceeds-limit:" + ("conv" if use_conv else "explicit")
                ctx.violation(key, case, "%s name %r has %d characters, limit %d" % (kind, outs[0], len(outs[0]), lim))
            if outs[0] is not None:
                # the DDL statement carries the same name and compiles identically twice
                t = r1[3]
                ddl = CreateIndex(r1[2]) if kind == "ix" else CreateTable(t)
                try:
                    s1, s2 = str(ddl.compile(dialect=d)), str(ddl.compile(dialect=d))
                except Exception as e:  # noqa: BLE001
                    s1 = s2 = "ERR %s" % type(e).__name__
                if s1 != s2:
                    ctx.violation("ddl-not-deterministic", case, "two compilations differ")


def build_constraint_noconv(kind, table, cname, cols):
    from sqlalchemy import MetaData, Table, Column, Integer, ForeignKeyConstraint, UniqueConstraint, CheckConstraint, Index, PrimaryKeyConstraint

    m = MetaData()
    colobjs = [Column(n, Integer, key=k) for n, k in cols]
    keys = [k for _, k in cols]
    if kind == "fk":
        Table("parenttable", m, *[Column(n, Integer) for n, _ in cols])
        c = ForeignKeyConstraint(keys, ["parenttable.%s" % n for n, _ in cols], name=cname)
    elif kind == "uq":
        c = UniqueConstraint(*keys, name=cname)
    elif kind == "ck":
        c = CheckConstraint("1 = 1", name=cname)
    elif kind == "pk":
        c = PrimaryKeyConstraint(*keys, name=cname)
    if kind == "ix":
        t = Table(table, m, *colobjs)
        c = Index(cname, *[t.c[k] for k in keys])
    else:
        t = Table(table, m, *colobjs, c)
    return ("ok", str(c.name), c, t)


def stmt_case(rng):
    """parameters of one statement: tables/columns with long, prefix-sharing names"""
    npfx = rng.choice(["averylongtablename", "tbl", "shared_prefix_for_everything_in_this_schema_"])
    tables = []
    for ti in range(rng.randint(1, 3)):
        tn = npfx + "".join(rng.choice(WORD) for _ in range(rng.randint(0, 12))) + str(ti)
        cols = []
        for ci in range(rng.randint(1, 5)):
            cols.append(rng.choice(["col", "averylongcolumnname", npfx]) + "".join(rng.choice(WORD) for _ in range(rng.randint(0, 10))) + str(ci))
        tables.append((tn, cols))
    return {"tables": tables, "label_length": rng.choice([None, 6, 7, 8, 10, 12, 15, 20, 25, 30]), "aliases": rng.randint(0, 2),
            "anon": rng.randint(0, 3), "binds": rng.randint(0, 4), "style": rng.choice(["plus", "plus", "dedupe"])}


def stmt_oracle(case):
    """Compile (twice) and execute on SQLite; returns list of (key, detail) problems."""
    from sqlalchemy import MetaData, Table, Column, Integer, select, create_engine, LABEL_STYLE_TABLENAME_PLUS_COL, LABEL_STYLE_DISAMBIGUATE_ONLY
    from sqlalchemy.pool import StaticPool

    probs = []
    ll = case["label_length"]
    e = create_engine("sqlite://", poolclass=StaticPool, **({"label_length": ll} if ll else {}))
    try:
        m = MetaData()
        tabs = [Table(tn, m, *[Column(c, Integer) for c in cols]) for tn, cols in case["tables"]]
        froms = list(tabs)
        for i in range(case["aliases"]):
            froms.append(tabs[i % len(tabs)].alias())
        exprs, expect, v = [], [], 0
        with e.connect() as c:
            m.create_all(c)
            vals = {}
            for t in tabs:
                row = {}
                for col in t.c:
                    v += 1
                    row[col.name] = v
                    vals[(t.name, col.name)] = v
                c.execute(t.insert().values(row))
            for f in froms:
                base = f.element if hasattr(f, "element") else f
                for col in f.c:
                    exprs.append(col)
                    expect.append(vals[(base.name, col.name)])
            for i in range(case["anon"]):
                col = froms[0].c[list(froms[0].c.keys())[0]]
                exprs.append(col + (1000 * (i + 1)))
                expect.append(expect[0] + 1000 * (i + 1))
            st = select(*exprs).set_label_style(LABEL_STYLE_TABLENAME_PLUS_COL if case["style"] == "plus" else LABEL_STYLE_DISAMBIGUATE_ONLY)
            nb = 0
            for i in range(case["binds"]):
                f = froms[i % len(froms)]
                col = f.c[list(f.c.keys())[-1]]
                st = st.where(col >= 0)
                nb += 1
            nb += case["anon"]
            try:
                c1, c2 = st.compile(e), st.compile(e)
            except Exception as ex:  # noqa: BLE001
                probs.append(("statement-does-not-compile", "%s: %s" % (type(ex).__name__, str(ex).split("\n")[0][:150])))
                return probs
            if str(c1) != str(c2) or c1.params != c2.params:
                probs.append(("statement-compilation-not-deterministic", "two compilations differ"))
            names = [x[0] for x in c1._result_columns]
            if len(set(names)) != len(names):
                plain = {cc for _, cols in case["tables"] for cc in cols}
                dups = {n for n in names if names.count(n) > 1}
                key = "plain-column-named-like-generated-label-shares-result-column" if dups <= plain else "result-column-names-collide"
                probs.append((key, "names %r" % (names,)))
            lim = ll or e.dialect.max_identifier_length
            gen_names = [n for n in names if n not in {cc for _, cols in case["tables"] for cc in cols}]
            too = [n for n in gen_names + list(c1.params) if len(n) > lim]
            if too:
                probs.append(("generated-name-exceeds-label-length", "%r > %d" % (too, lim)))
            if len(c1.params) != nb:
                probs.append(("bind-names-collide", "%d parameters, %d names %r" % (nb, len(c1.params), list(c1.params))))
            # aliases distinct
            al = re.findall(r" AS (\S+?)[, \n]", str(c1).split("FROM", 1)[1]) if "FROM" in str(c1) else []
            if len(set(al)) != len(al):
                probs.append(("alias-names-collide", "%r" % (al,)))
            try:
                import warnings

                with warnings.catch_warnings():
                    warnings.simplefilter("ignore")
                    row = c.execute(st).one()
                if list(row) != expect:
                    probs.append(("result-row-misassigned", "row %r expected %r" % (tuple(row), expect)))
                for ex, want in zip(exprs, expect):
                    if row._mapping[ex] != want:
                        probs.append(("result-row-misassigned", "lookup by expression returned %r expected %r" % (row._mapping[ex], want)))
                        break
            except Exception as ex:  # noqa: BLE001
                probs.append(("statement-does-not-execute", "%s: %s" % (type(ex).__name__, str(ex).split("\n")[0][:150])))
    finally:
        e.dispose()
    return probs


def labels_case(rng):
    """a columns clause over 2-3 tables whose column names clash, with repetitions (up to 5 of
    one column) and interleaving"""
    names = rng.sample(["a", "b", "id", "x", "val"], rng.randint(1, 3))
    tables = [("t%d" % i, list(names) + (["only%d" % i] if rng.random() < 0.5 else [])) for i in range(1, rng.randint(2, 3) + 1)]
    picks = []
    for _ in range(rng.randint(2, 9)):
        ti = rng.randrange(len(tables))
        picks.append((ti, rng.choice(tables[ti][1])))
    if rng.random() < 0.7:  # make one column appear at least three times, preferably a clashing one
        ti = rng.randrange(len(tables))
        cn = rng.choice(names)
        for _ in range(rng.randint(3, 5)):
            picks.insert(rng.randrange(len(picks) + 1), (ti, cn))
    return {"tables": tables, "picks": picks, "tq": rng.random() < 0.4}


def labels_real(case, execute=True):
    """compile (and execute on SQLite) the SELECT; returns (result-column names, problems)"""
    import warnings
    from sqlalchemy import MetaData, Table, Column, Integer, select, create_engine, LABEL_STYLE_TABLENAME_PLUS_COL, LABEL_STYLE_DISAMBIGUATE_ONLY
    from sqlalchemy.pool import StaticPool

    probs = []
    m = MetaData()
    tabs = [Table(tn, m, *[Column(c, Integer) for c in cols]) for tn, cols in case["tables"]]
    exprs = [tabs[ti].c[cn] for ti, cn in case["picks"]]
    st = select(*exprs).set_label_style(LABEL_STYLE_TABLENAME_PLUS_COL if case["tq"] else LABEL_STYLE_DISAMBIGUATE_ONLY)
    e = create_engine("sqlite://", poolclass=StaticPool)
    try:
        comp = st.compile(e)
        names = [x[0] for x in comp._result_columns]
        if len(set(names)) != len(names):
            probs.append(("result-column-names-collide", "names %r for %r" % (names, case["picks"])))
        sub = select(*exprs).set_label_style(st._label_style).subquery()
        subnames = [x[0] for x in select(sub).compile(e)._result_columns]
        if len(set(subnames)) != len(subnames) or len(subnames) != len(set(case["picks"])) and False:
            probs.append(("result-column-names-collide", "subquery columns %r" % (subnames,)))
        if execute:
            with warnings.catch_warnings():
                warnings.simplefilter("ignore")
                with e.connect() as c:
                    m.create_all(c)
                    vals, v = {}, 0
                    for t in tabs:
                        row = {}
                        for col in t.c:
                            v += 1
                            row[col.name] = v
                            vals[(t.name, col.name)] = v
                        c.execute(t.insert().values(row))
                    res = c.execute(st)
                    keys = list(res.keys())
                    row = res.one()
                    want = [vals[(tabs[ti].name, cn)] for ti, cn in case["picks"]]
                    if list(row) != want or len(set(keys)) != len(keys):
                        probs.append(("result-row-misassigned", "row %r keys %r expected %r" % (tuple(row), keys, want)))
    except Exception as ex:  # noqa: BLE001
        names = []
        probs.append(("statement-does-not-compile", "%s: %s" % (type(ex).__name__, str(ex).split("\n")[0][:150])))
    finally:
        e.dispose()
    return names, probs


def text_template_case(rng):
    return {"unique": rng.random() < 0.8, "k": rng.randint(2, 5), "values": [rng.randint(1, 99) for _ in range(5)],
            "shape": rng.choice(["union", "subqueries", "scalar"]), "extra_binds": rng.randint(0, 2)}


def text_template_real(case):
    """derive k statements from ONE text() template with .bindparams(name=value) and embed them all
    in one statement; returns (key pattern of the derived binds, problems)"""
    from sqlalchemy import text, bindparam, Integer, column, union_all, select, literal, create_engine
    from sqlalchemy.pool import StaticPool

    probs = []
    base = text("select :val as v").bindparams(bindparam("val", type_=Integer, unique=case["unique"]))
    vals = case["values"][: case["k"]]
    derived = [base.bindparams(val=v) for v in vals]
    keys = [d._bindparams["val"].key for d in derived]
    pattern = [keys.index(k) for k in keys]
    if not case["unique"]:
        return pattern, probs  # one shared name is the documented meaning of a non-unique parameter
    if case["shape"] == "union":
        st = union_all(*[d.columns(column("v")) for d in derived])
        want = sorted(vals)
        get = lambda c: sorted(r[0] for r in c.execute(st))  # noqa: E731
    elif case["shape"] == "subqueries":
        subs = [d.columns(column("v")).subquery() for d in derived]
        st = select(*[s_.c.v for s_ in subs], *[literal(1000 + i) for i in range(case["extra_binds"])])
        want = list(vals) + [1000 + i for i in range(case["extra_binds"])]
        get = lambda c: list(c.execute(st).one())  # noqa: E731
    else:
        st = select(*[d.columns(column("v")).scalar_subquery() for d in derived])
        want = list(vals)
        get = lambda c: list(c.execute(st).one())  # noqa: E731
    e = create_engine("sqlite://", poolclass=StaticPool)
    try:
        comp = st.compile(e)
        nparams = len(derived) + (case["extra_binds"] if case["shape"] == "subqueries" else 0)
        if len(comp.params) != nparams:
            probs.append(("bind-names-collide", "%d parameters but %d names: %r" % (nparams, len(comp.params), dict(comp.params))))
        import warnings

        with warnings.catch_warnings():
            warnings.simplefilter("ignore")
            with e.connect() as c:
                got = get(c)
        if got != want:
            probs.append(("bind-values-lost", "statement returned %r, expected %r" % (got, want)))
    except Exception as ex:  # noqa: BLE001
        probs.append(("statement-does-not-compile", "%s: %s" % (type(ex).__name__, str(ex).split("\n")[0][:150])))
    finally:
        e.dispose()
    return pattern, probs


def anon_collision_probe():
    """a plain column literally named like a generated label"""
    from sqlalchemy import Table, MetaData, Column, Integer, select

    t = Table("t", MetaData(), Column("anon_1", Integer), Column("x", Integer))
    c = select(t.c.anon_1, t.c.x + 1).compile()
    names = [x[0] for x in c._result_columns]
    return names if len(set(names)) != len(names) else None


# =====================================================================================
def run(ctx, deep=False):
    thorough = ctx.tier == "thorough" or deep
    rng = ctx.rng
    ctx.rule = (
        "call sequences of _truncated_identifier (3 identifier classes, label_length 0..40, names sharing long prefixes, repeats), "
        "_truncate_and_render_maxlen_name with limits 0..300 incl. separate index/constraint limits, naming-convention templates "
        "over the documented tokens plus malformed keys/directives for ix/uq/fk/ck/pk constraints with 0-3 columns; DDL names on 7 "
        "dialects + limits 8..30; SELECTs over 1-3 long-named tables with aliases, anonymous expressions and binds under "
        "label_length in {None,6,...,30}, compiled twice and executed on SQLite"
    )
    ctx.trusted += ["util.md5_hex returns 32 hex characters (uninterpreted in Lean; the harness passes the real digest to the model)",
                    "anon_map / _anonymous_label.apply_map numbering is outside the Lean model"]
    ctx.assumptions.append("collisions of the 4-hex-digit md5 suffix between different over-long DDL names are not covered (probabilistic)")
    cases, impl, req = [], [], []

    def add(c, i, r):
        cases.append(c), impl.append(i), req.append(r)

    # ---- _truncated_identifier sequences
    for _ in range(400 if not thorough else 4000):
        ll = rng.choice([1, 2, 5, 6, 7, 8, 10, 12, 16, 20, 30, 40])  # 0 is falsy: the dialect falls back to max_identifier_length
        pfx = ["".join(rng.choice(WORD) for _ in range(rng.randint(1, 30))) for _ in range(2)]
        pool = [gen_name(rng, pfx) for _ in range(rng.randint(1, 6))]
        reqs = [(rng.randrange(3), rng.choice(pool)) for _ in range(rng.randint(1, 14))]
        add({"op": "idents", "ll": ll, "reqs": reqs}, "|".join(E(x) for x in real_idents(ll, reqs)),
            "naming idents %d %s" % (ll, ",".join("%d>%s" % (c, E(n)) for c, n in reqs)))
        ctx.case(("idents", ll, reqs))
        ctx.count("idents:ll=%d" % ll)
    # many truncations in one class: counter goes past one hex digit
    ll = 8
    reqs = [(0, "name%05d_with_long_tail" % i) for i in range(300)]
    add({"op": "idents", "ll": ll, "reqs": "300 distinct long names"}, "|".join(E(x) for x in real_idents(ll, reqs)),
        "naming idents %d %s" % (ll, ",".join("%d>%s" % (c, E(n)) for c, n in reqs)))
    for n in [0, 1, 9, 10, 15, 16, 255, 256, 4095, 65535, 1048575, 1048576] + [rng.randrange(1 << 24) for _ in range(50)]:
        add({"op": "hex", "n": n}, E(hex(n)[2:]), "naming hex %d" % n)
    # ---- _truncate_and_render_maxlen_name
    tr = []
    for _ in range(500 if not thorough else 5000):
        name = gen_name(rng, ["ix_some_table_", "fk_"], maxlen=rng.choice([5, 20, 70, 140]))
        mi = rng.choice([1, 3, 7, 8, 9, 12, 30, 63, 64, 128, 255, 300])
        spec = rng.choice([None, None, 0, 5, 8, 20, 64])
        tr.append((rng.random() < 0.7, name, spec, mi, rng.choice(["index", "constraint"])))
    if ctx.driver_ok():
        eff = ctx.driver(["naming effmax %s %d" % ("N" if s is None else s, mi) for _, _, s, mi, _ in tr])
        for (ist, name, spec, mi, kind), em in zip(tr, eff):
            r = real_trunc(ist, name, spec, mi, kind)
            add({"op": "trunc", "conv": ist, "name": name, "spec": spec, "max_ident": mi, "kind": kind}, E(r) if r is not None else "identifiererror",
                "naming trunc %s %s %s %d %s" % ("T" if ist else "F", E(name), em, mi, E(md5_hex(name))))
            ctx.case(("trunc", ist, name, spec, mi))
    # ---- naming conventions
    for _ in range(400 if not thorough else 4000):
        kind = rng.choice(["ix", "uq", "fk", "ck", "pk"])
        tmpl = gen_template(rng, kind)
        table = "t" + "".join(rng.choice(WORD) for _ in range(rng.randint(0, 8)))
        ncols = rng.randint(1, 3) if kind != "ck" else 0
        cols = [("c%d%s" % (i, rng.choice(["", "_nm"])), "k%d" % i if rng.random() < 0.5 else None) for i in range(ncols)]
        cols = [(n, k or n) for n, k in cols]
        # (an explicitly named PrimaryKeyConstraint re-applies the convention after its name was reset: not modelled)
        cname = None if kind == "pk" else rng.choice([None, "myname"]) if kind != "ck" else rng.choice([None, "myname", "pos"])
        reft, refcols = "parenttable", ["r%d" % i for i in range(ncols)]
        r = build_constraint(kind, tmpl, table, cname, cols, reft, refcols)
        if r[0] == "ok":
            if r[1] is None or (cname is not None and r[1] == cname and "constraint_name" not in tmpl):
                continue  # convention not applied (explicit name without the constraint_name token)
            out = E(r[1])
            want = ref_expand(tmpl, table, cname, cols, reft, refcols if kind == "fk" else [])
            if want is not None and want != r[1]:
                ctx.violation("convention-token-expansion-differs-from-documentation", {"kind": "conv", "ckind": kind, "tmpl": tmpl, "table": table, "cname": cname, "cols": cols},
                              "convention %r gave %r, documented meaning %r" % (tmpl, r[1], want))
        else:
            out = r[0]
        add({"op": "conv", "kind": kind, "tmpl": tmpl, "table": table, "cname": cname, "cols": cols}, out,
            "naming conv %s %s %s %s %s %s %s" % (E(tmpl), E(table), "N" if cname is None else E(cname), "T" if kind == "fk" else "F",
                                                 ",".join("%s~%s" % (E(n), E(k)) for n, k in cols) if cols else "-", E(reft), EL(refcols) if kind == "fk" else "-"))
        ctx.case(("conv", kind, tmpl, cols, cname))
        ctx.count("conv:" + (r[0] if r[0] != "ok" else "expanded"))
    # ---- labels of a columns clause with repetitions and clashes; text() templates re-derived
    label_cases, text_cases = [], []
    for _ in range(150 if not thorough else 1500):
        lc = labels_case(rng)
        names, probs = labels_real(lc, execute=True)
        label_cases.append((lc, probs))
        ids, cols = {}, []
        for ti, cn in lc["picks"]:
            cid = ids.setdefault((ti, cn), len(ids) + 1)
            cols.append("%d~%s~%s" % (cid, E(lc["tables"][ti][0]), E(cn)))
        if names:
            add({"op": "labels", "case": lc}, EL(names), "naming labels %s %s" % ("T" if lc["tq"] else "F", ",".join(cols)))
        ctx.case(("labels", lc))
        ctx.count("labels:max-repeat=%d" % max(lc["picks"].count(p) for p in lc["picks"]))
    for _ in range(60 if not thorough else 600):
        tc = text_template_case(rng)
        pattern, probs = text_template_real(tc)
        text_cases.append((tc, probs))
        add({"op": "derive", "case": tc}, ",".join(str(x) for x in pattern) if pattern else "-", "naming derive %s %d" % ("T" if tc["unique"] else "F", tc["k"]))
        ctx.case(("text-template", tc))
    # ---- engine lifecycle: limits change at connect
    life_cases = []
    _long = "ix_" + "abcdefghij" * 9
    # always-run: one name rendered under a large limit, then again after the limit shrank (connect
    # lowers it / the index and constraint limits differ) - the second rendering must obey the new limit
    life_directed = [
        (128, None, None, None, None, [("i", True, _long), ("c", 30), ("i", True, _long), ("k", True, _long)]),
        (255, None, None, None, None, [("k", True, _long), ("c", 63), ("k", True, _long), ("c", 30), ("k", True, _long), ("i", True, _long)]),
        (128, None, None, 64, 16, [("c", 128), ("i", True, _long), ("k", True, _long), ("i", True, _long)]),
        (128, None, None, 16, 64, [("c", 128), ("k", True, _long), ("i", True, _long), ("k", True, _long)]),
        (63, None, 20, None, None, [("i", True, _long), ("l", "lbl" + "q" * 40), ("c", 30), ("i", True, _long), ("l", "lbl" + "q" * 40)]),
    ]
    for _it in range(len(life_directed) + (250 if not thorough else 2500)):
        class_limit = rng.choice([30, 63, 128, 255])
        user_max = rng.choice([None, None, None, 20, 64])
        label_length = rng.choice([None, None, 6, 10, 20, 29, 30, 31, 40, 64, 100])
        max_index = rng.choice([None, None, 0, 16, 64])
        max_constraint = rng.choice([None, None, 0, 16, 64])
        ops = []
        # the SAME name is rendered again and again by one long-lived preparer (CREATE / ALTER /
        # DROP, index and constraint paths, before and after the limit changes at connect): two of
        # three cases draw their names from a pool of one or two names
        mknm = lambda: rng.choice(["ix_", "uq_", "x"]) + "".join(rng.choice(WORD) for _ in range(rng.choice([3, 20, 40, 61, 90, 140])))  # noqa: E731
        pool = [mknm() for _ in range(rng.choice([0, 1, 1, 2]))]
        for _ in range(rng.randint(2, 9)):
            k = rng.random()
            if k < 0.3:
                ops.append(("c", rng.choice([None, 0, 8, 20, 30, 30, 63, 128])))
            elif k < 0.75:
                nm = rng.choice(pool) if pool else mknm()
                ops.append((rng.choice("ik"), rng.random() < 0.75, nm))
                if pool:
                    ctx.count("life:name-from-pool")
            else:
                ops.append(("l", "lbl" + "".join(rng.choice(WORD) for _ in range(rng.choice([2, 10, 25, 38, 60])))))
        if _it < len(life_directed):
            class_limit, user_max, label_length, max_index, max_constraint, ops = life_directed[_it]
            ctx.count("life:directed")
        try:
            outs, dd = real_life(class_limit, user_max, label_length, max_index, max_constraint, ops)
        except Exception as ex:  # noqa: BLE001
            ctx.violation("dialect-lifecycle-crashes", {"kind": "life", "class_limit": class_limit, "user_max": user_max, "label_length": label_length, "max_index": max_index, "max_constraint": max_constraint, "ops": ops}, "%s: %s" % (type(ex).__name__, ex))
            continue
        case = {"op": "life", "class_limit": class_limit, "user_max": user_max, "label_length": label_length, "max_index": max_index, "max_constraint": max_constraint, "ops": ops}
        life_cases.append((case, outs))
        enc = []
        for op in ops:
            if op[0] == "c":
                enc.append("c:%s" % ("N" if op[1] is None else op[1]))
            elif op[0] in "ik":
                enc.append("%s:%s:%s" % (op[0], "T" if op[1] else "F", E(op[2])))
            else:
                enc.append("l:%s" % E(op[1]))
        # md5 is uninterpreted in the model: one digest per line, so lines use a single conv name
        names = {op[2] for op in ops if op[0] in "ik" and op[1]}
        if len(names) <= 1:
            nm = next(iter(names), "")
            opt = lambda v: "N" if v is None else str(v)  # noqa: E731
            add(case, "|".join(outs), "naming life %d %s %s %s %s %s %s" % (user_max or class_limit, "T" if user_max else "F", opt(label_length), opt(max_index), opt(max_constraint), E(md5_hex(nm)), ",".join(enc)))
        ctx.case(("life", class_limit, user_max, label_length, ops))
        ctx.count("life:ops")
    if ctx.driver_ok():
        mo = ctx.driver(req)
        by = {}
        for c_, i_, m_ in zip(cases, impl, mo):
            a = by.setdefault(c_["op"], ([], [], []))
            a[0].append(c_), a[1].append(i_), a[2].append(m_)
        for op, (cs, im, mm) in sorted(by.items()):
            ctx.correspond("corr/c21:%s" % op, cs, im, mm)

    # ---- direct oracle on _truncated_identifier results (the property itself)
    for c_, i_ in zip(cases, impl):
        if c_["op"] != "idents" or isinstance(c_["reqs"], str):
            continue
        res = i_.split("|")
        seen, first = {}, {}
        for (cls, n), r in zip(c_["reqs"], res):
            if first.setdefault((cls, n), r) != r:
                ctx.violation("same-name-rendered-differently-in-one-compilation", {"kind": "idents", "ll": c_["ll"], "reqs": c_["reqs"]}, "class %s name %r -> %s then %s" % (CLASSES[cls], n, first[(cls, n)], r))
            if (cls, r) in seen and seen[(cls, r)] != n:
                ctx.violation("truncated-names-collide", {"kind": "idents", "ll": c_["ll"], "reqs": c_["reqs"]}, "class %s: %r and %r both -> %s" % (CLASSES[cls], seen[(cls, r)], n, r))
            seen[(cls, r)] = n
            if c_["ll"] >= 6 and len(r[2:].split(".")) > c_["ll"] and r != "s:":
                ctx.violation("truncated-name-exceeds-label-length", {"kind": "idents", "ll": c_["ll"], "reqs": c_["reqs"]}, "%s longer than %d" % (r, c_["ll"]))
    for lc, probs in label_cases:
        for key, detail in probs:
            ctx.violation(key, {"kind": "labels", "case": lc}, detail)
    for tc, probs in text_cases:
        for key, detail in probs:
            ctx.violation(key, {"kind": "text-template", "case": tc}, detail)
    # ---- lifecycle oracle on the real dialect objects, then through a real Engine
    for case, outs in life_cases:
        if case["user_max"]:
            continue  # a user-defined limit overrides what the server reports
        for key, detail in life_oracle(case["ops"], outs, case["max_index"], case["max_constraint"]):
            ctx.violation(key, dict(case, kind="life"), detail)
    for class_limit, server_limit, label_length, name_len in [(128, 30, 40, 50), (128, 30, None, 50), (128, 30, 20, 50), (128, 30, 30, 50), (128, 30, 31, 50),
                                                             (128, None, 100, 50), (63, 30, 64, 40), (128, 30, None, 120)] + \
            [(rng.choice([63, 128]), rng.choice([None, 20, 30]), rng.choice([None, 10, 25, 31, 40, 70]), rng.choice([10, 50, 90])) for _ in range(10 if not thorough else 100)]:
        ctx.case(("engine-life", class_limit, server_limit, label_length, name_len))
        for key, detail in engine_lifecycle_case(class_limit, server_limit, label_length, name_len):
            ctx.violation(key, {"kind": "engine-life", "class_limit": class_limit, "server_limit": server_limit, "label_length": label_length, "name_len": name_len}, detail)
    # ---- DDL and statements
    ddl_oracle(ctx, rng, thorough)
    for _ in range(120 if not thorough else 1500):
        case = stmt_case(rng)
        ctx.case(("stmt", case))
        ctx.count("stmt:label_length=%s" % case["label_length"])
        for key, detail in stmt_oracle(case):
            ctx.violation(key, {"kind": "stmt", "case": case}, detail)
    names = anon_collision_probe()
    if names:
        ctx.violation("plain-column-named-like-generated-label-shares-result-column", {"kind": "anon"}, "result columns %r" % (names,))
    ctx.sample({"statement case": stmt_case(__import__("random").Random(1))})


def search(ctx, broken):
    sub = type(ctx)(ctx.pid, "thorough", ctx.seed + 1, ctx.level)
    run(sub, deep=True)
    ctx.violations.extend(sub.violations)


def replay(ctx, obj):
    c = obj["case"]
    if c["kind"] == "labels":
        cs = dict(c["case"])
        cs["tables"] = [(tn, list(cols)) for tn, cols in cs["tables"]]
        cs["picks"] = [tuple(p) for p in cs["picks"]]
        names, probs = labels_real(cs)
        print("replay C21 columns clause %r -> names %r problems %r" % (cs["picks"], names, probs))
        return bool(probs)
    if c["kind"] == "text-template":
        pattern, probs = text_template_real(c["case"])
        print("replay C21 text() template %r -> key pattern %r problems %r" % (c["case"], pattern, probs))
        return bool(probs)
    if c["kind"] == "engine-life":
        probs = engine_lifecycle_case(c["class_limit"], c["server_limit"], c["label_length"], c["name_len"])
        print("replay C21 engine lifecycle %r -> %r" % (c, probs))
        return bool(probs)
    if c["kind"] == "life":
        ops = [tuple(o) for o in c["ops"]]
        outs, _ = real_life(c["class_limit"], c["user_max"], c["label_length"], c["max_index"], c["max_constraint"], ops)
        probs = life_oracle(ops, outs, c["max_index"], c["max_constraint"])
        print("replay C21 dialect lifecycle %r -> %r -> %r" % (ops, outs, probs))
        return bool(probs)
    if c["kind"] == "anon":
        names = anon_collision_probe()
        print("replay C21 select(t.c.anon_1, t.c.x + 1) -> result columns %r" % (names,))
        return bool(names)
    if c["kind"] == "stmt":
        cs = dict(c["case"])
        cs["tables"] = [(tn, list(cols)) for tn, cols in cs["tables"]]
        probs = stmt_oracle(cs)
        print("replay C21 statement %r -> %r" % (cs, probs))
        return bool(probs)
    if c["kind"] == "idents":
        reqs = [tuple(r) for r in c["reqs"]]
        res = real_idents(c["ll"], reqs)
        seen, first, bad = {}, {}, False
        for (cls, n), r in zip(reqs, res):
            if first.setdefault((cls, n), r) != r:
                bad = True
            if (cls, r) in seen and seen[(cls, r)] != n:
                bad = True
            seen[(cls, r)] = n
            if c["ll"] >= 6 and len(r) > c["ll"]:
                bad = True
        print("replay C21 _truncated_identifier label_length=%d %r -> %r" % (c["ll"], reqs, res))
        return bad
    if c["kind"] == "ddl":
        from harness import lib_ident as L
        from sqlalchemy.engine import default
        from sqlalchemy import exc

        cols = [tuple(x) for x in c["cols"]]
        conv = {"ix": "ix_%(table_name)s_%(column_0_N_name)s", "uq": "uq_%(table_name)s_%(column_0_N_name)s",
                "fk": "fk_%(table_name)s_%(column_0_N_name)s_%(referred_table_name)s", "ck": "ck_%(table_name)s_%(constraint_name)s", "pk": "pk_%(table_name)s"}
        mk = (lambda: build_constraint(c["ckind"], conv[c["ckind"]], c["table"], c["cname"], cols, "parenttable", [x[0] for x in cols])) if c["conv"] else (lambda: build_constraint_noconv(c["ckind"], c["table"], c["cname"], cols))
        r1, r2 = mk(), mk()
        dn = c.get("dialect", "mysql")
        d = L.dialects().get(dn) or default.DefaultDialect(max_identifier_length=int(dn[3:]))
        lim = (d.max_index_name_length if c["ckind"] == "ix" else d.max_constraint_name_length) or d.max_identifier_length
        try:
            o1 = unquote(d, d.identifier_preparer.format_constraint(r1[2]))
            o2 = unquote(d, type(d.identifier_preparer)(d).format_constraint(r2[2]))
        except exc.IdentifierError:
            o1 = o2 = None
        print("replay C21 ddl %s on %s: rendered %r (limit %d)" % (c["ckind"], dn, o1, lim))
        if c.get("backend"):
            lim = BACKEND_LIMITS[dn]
        return r1[1] != r2[1] or o1 != o2 or (o1 is not None and len(o1) > lim)
    if c["kind"] == "conv":
        cols = [tuple(x) for x in c["cols"]]
        refcols = ["r%d" % i for i in range(len(cols))]
        r = build_constraint(c["ckind"], c["tmpl"], c["table"], c["cname"], cols, "parenttable", refcols)
        want = ref_expand(c["tmpl"], c["table"], c["cname"], cols, "parenttable", refcols if c["ckind"] == "fk" else [])
        print("replay C21 convention %r -> %r, documented %r" % (c["tmpl"], r[1] if r[0] == "ok" else r[0], want))
        return r[0] != "ok" or r[1] != want
    return False
